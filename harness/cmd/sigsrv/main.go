// Command sigsrv is the trace-validation engine for the signaling relay server (C20, C22, C24,
// C25). It drives the REAL signaling_rpc_server.Server through fake SRPC streams from a seeded
// random schedule of client actions (attach / usurp / send / forged send / stale and future
// epochs / ack / clear / cancel / listen), records every server critical section through the
// verif hooks plus every response the server sends, and asks the Lean model to replay the trace:
// each event must be an enabled step of Bifrost.Sig whose post-state equals the logged server
// state. Model-independent monitors state the properties directly on the observed traffic: they
// are evaluated on the real server's responses, returned errors and logged state whether or not
// the model replay has diverged, so a diverged trace still gets a confirmed verdict whenever a
// property is in fact violated.
package main

import (
	"bytes"
	"context"
	"errors"
	"fmt"
	"io"
	"reflect"
	"runtime"
	"sort"
	"strconv"
	"strings"
	"sync"
	"time"

	"github.com/aperturerobotics/bifrost/hash"
	"github.com/aperturerobotics/bifrost/link"
	"github.com/aperturerobotics/bifrost/peer"
	"github.com/aperturerobotics/bifrost/protocol"
	signaling "github.com/aperturerobotics/bifrost/signaling/rpc"
	signaling_rpc_server "github.com/aperturerobotics/bifrost/signaling/rpc/server"
	"github.com/aperturerobotics/bifrost/stream"
	"github.com/aperturerobotics/starpc/srpc"
	"github.com/sirupsen/logrus"

	"verif/harness/lib"
	"verif/harness/quiet"
	"verif/harness/sigoracle"
	"verif/harness/sigtrace"
)

// nPeers is the number of peers (five, so that a listener can have up to four wanting peers).
const nPeers = 5

type ctxKey struct{}

type engine struct {
	a   *lib.Args
	rng *lib.Rng
	m   *lib.Model
	rep *lib.Report
	le  *logrus.Entry

	keys  []*sigoracle.Key // index 0 nil; 1..nPeers sorted by peer id string (the server's session key order)
	pids  []peer.ID
	pidIx map[string]int
	// stream objects of finished scenarios are kept alive so that their addresses (the call
	// identities in hook lines) are never reused by a later scenario
	keep []any
}

// world is one scenario run.
type world struct {
	e        *engine
	srv      *signaling_rpc_server.Server
	ident    string // "callback": NewServerWithIdentify; "mounted": NewServer + link.WithMountedStreamContext
	mtx      sync.Mutex
	log      []string // raw lines: hook lines and "tx …" lines, in real-time order
	calls    map[string]int
	scalls   []*sessStream
	lcalls   []*listenStream
	raws     []*sessStream // calls with a scripted (invalid) first request or without identity
	rawl     []*listenStream
	subs     []*submission
	mon      []string
	lastSnap string
	nextID   int
	reqs     []reqRec                  // every ack / clear request the harness submitted, with the log position at submission
	expects  []func() (string, string) // sentinel expectations (finding key, description) on the responses of the real relay (model independent)
	goBase   int                       // relay goroutines alive when the scenario started
}

// reqRec is one AckMsg / ClearMsg request a client stream submitted. `at` is the length of the
// event log when it was handed to the stream: everything the relay does because of it is logged later.
type reqRec struct {
	call  int
	kind  string // "ack" | "clear"
	k     uint64
	epoch uint64
	at    int
}

// errFakeSend is the error a fake stream's Send returns when the scenario makes the write fail.
var errFakeSend = errors.New("verif: stream write failed")

type submission struct {
	mid       int
	src, dst  int
	seqno     uint64
	epoch     uint64
	kind      string
	authentic bool // harness verdict (stdlib): verifies under the SUBMITTING stream's key and names it
	v         int  // harness verdict (stdlib): verifies under the key of the peer it names
	claimed   int  // index of the peer it names as sender (0 = none)
	wire      []byte
	call      int
}

type sessStream struct {
	w             *world
	id            int
	src, dst      int
	ctx           context.Context
	cancel        context.CancelFunc
	reqCh         chan *signaling.SessionRequest
	mtx           sync.Mutex
	resps         []*signaling.SessionResponse
	done          chan struct{}
	err           error
	valid         []*submission // every SendMsg submission on this stream, in order
	nextQ         uint64
	closedRx      bool
	hold          chan struct{} // when non-nil, Send blocks (after logging) until released: a slow client
	inSend        chan struct{}
	killed        bool                  // the harness cancelled the stream
	poison        string                // the harness sent a request the relay must answer by failing the stream
	first         string                // scripted first request ("" = a valid Init)
	failSend      bool                  // the next Send on this stream returns errFakeSend (the transport under the stream broke)
	sendErrs      int                   // number of Send calls that returned errFakeSend
	sendsAfterErr int                   // Send calls made by the handler AFTER one of its Sends had returned an error
	lastSubAuth   *signaling.SessionMsg // the last authentic message submitted on this stream (for re-signed copies)
}

func (s *sessStream) holdSends() {
	s.mtx.Lock()
	if s.hold == nil { // a Send may be parked on the current gate: never replace it
		s.hold = make(chan struct{})
		s.inSend = make(chan struct{})
	}
	s.mtx.Unlock()
}

func (s *sessStream) release() {
	s.mtx.Lock()
	if s.hold != nil {
		close(s.hold)
		s.hold = nil
	}
	s.mtx.Unlock()
}

// kill is the harness cancelling the stream (as opposed to the handler returning by itself).
func (s *sessStream) kill() {
	s.mtx.Lock()
	s.killed = true
	s.mtx.Unlock()
	s.cancel()
}

func (s *sessStream) Context() context.Context { return s.ctx }
func (s *sessStream) Send(m *signaling.SessionResponse) error {
	// as SRPC does: the response is serialised when Send is called; what the client gets (and what
	// the monitors judge) is the decoded wire form, never the relay's own object
	data, merr := m.MarshalVT()
	cp := new(signaling.SessionResponse)
	if merr == nil {
		merr = cp.UnmarshalVT(data)
	}
	if merr != nil {
		return merr
	}
	s.mtx.Lock()
	if s.sendErrs > 0 {
		s.sendsAfterErr++
	}
	if s.failSend {
		s.failSend = false
		s.sendErrs++
		s.mtx.Unlock()
		return errFakeSend
	}
	if s.sendErrs > 0 {
		s.mtx.Unlock()
		return errFakeSend
	}
	s.resps = append(s.resps, cp)
	hold, inSend := s.hold, s.inSend
	s.mtx.Unlock()
	s.w.logTx(s.id, cp)
	if hold != nil {
		select {
		case <-inSend:
		default:
			close(inSend)
		}
		select {
		case <-hold:
		case <-s.ctx.Done():
		}
	}
	return nil
}
func (s *sessStream) SendAndClose(m *signaling.SessionResponse) error { return s.Send(m) }

// recvWire returns the wire form of the next request (as SRPC: the server only ever sees bytes).
func (s *sessStream) recvWire() ([]byte, error) {
	select {
	case r, ok := <-s.reqCh:
		if !ok {
			return nil, io.EOF
		}
		return r.MarshalVT()
	case <-s.ctx.Done():
		return nil, context.Canceled
	}
}

// Recv decodes the next request into a fresh object (generated code: new + MsgRecv).
func (s *sessStream) Recv() (*signaling.SessionRequest, error) {
	data, err := s.recvWire()
	if err != nil {
		return nil, err
	}
	m := new(signaling.SessionRequest)
	if err := m.UnmarshalVT(data); err != nil {
		return nil, err
	}
	return m, nil
}

// RecvTo decodes the next request INTO the caller's object exactly as srpc.MsgRecv does
// (UnmarshalVT without a reset: a oneof body of the same kind and its nested messages and byte
// slices are overwritten in place), so a relay that re-uses one request object is seen as it would
// behave on a real stream.
func (s *sessStream) RecvTo(m *signaling.SessionRequest) error {
	data, err := s.recvWire()
	if err != nil {
		return err
	}
	return m.UnmarshalVT(data)
}
func (s *sessStream) MsgSend(srpc.Message) error { return nil }
func (s *sessStream) MsgRecv(srpc.Message) error { return io.EOF }
func (s *sessStream) CloseSend() error           { return nil }
func (s *sessStream) Close() error               { return nil }

type listenStream struct {
	w             *world
	id            int
	pid           int
	ctx           context.Context
	cancel        context.CancelFunc
	mtx           sync.Mutex
	resps         []*signaling.ListenResponse
	done          chan struct{}
	err           error
	hold          chan struct{} // when non-nil, Send blocks (after logging) until it is closed: a slow client
	inSend        chan struct{} // closed when the first held Send has been entered
	killed        bool
	failSend      bool // the next Send returns errFakeSend
	sendErrs      int
	sendsAfterErr int
}

// holdSends makes the next Send calls block until release is called.
func (s *listenStream) holdSends() {
	s.mtx.Lock()
	if s.hold == nil { // a Send may be parked on the current gate: never replace it
		s.hold = make(chan struct{})
		s.inSend = make(chan struct{})
	}
	s.mtx.Unlock()
}

func (s *listenStream) release() {
	s.mtx.Lock()
	if s.hold != nil {
		close(s.hold)
		s.hold = nil
	}
	s.mtx.Unlock()
}

func (s *listenStream) kill() {
	s.mtx.Lock()
	s.killed = true
	s.mtx.Unlock()
	s.cancel()
}

func (s *listenStream) alive() bool {
	select {
	case <-s.done:
		return false
	default:
		return true
	}
}

func (s *listenStream) Context() context.Context { return s.ctx }
func (s *listenStream) Send(m *signaling.ListenResponse) error {
	data, merr := m.MarshalVT()
	cp := new(signaling.ListenResponse)
	if merr == nil {
		merr = cp.UnmarshalVT(data)
	}
	if merr != nil {
		return merr
	}
	s.mtx.Lock()
	if s.sendErrs > 0 {
		s.sendsAfterErr++
	}
	if s.failSend {
		s.failSend = false
		s.sendErrs++
		s.mtx.Unlock()
		return errFakeSend
	}
	if s.sendErrs > 0 {
		s.mtx.Unlock()
		return errFakeSend
	}
	s.resps = append(s.resps, cp)
	hold, inSend := s.hold, s.inSend
	s.mtx.Unlock()
	s.w.logLtx(s.id, cp)
	if hold != nil {
		select {
		case <-inSend:
		default:
			close(inSend)
		}
		select {
		case <-hold:
		case <-s.ctx.Done():
		}
	}
	return nil
}
func (s *listenStream) SendAndClose(m *signaling.ListenResponse) error { return s.Send(m) }
func (s *listenStream) MsgSend(srpc.Message) error                     { return nil }
func (s *listenStream) MsgRecv(srpc.Message) error                     { return io.EOF }
func (s *listenStream) CloseSend() error                               { return nil }
func (s *listenStream) Close() error                                   { return nil }

// fakeMounted is the MountedStreamContext of a stream whose link authenticated peer `pid`.
type fakeMounted struct{ pid peer.ID }

func (f *fakeMounted) GetStream() stream.Stream     { return nil }
func (f *fakeMounted) GetProtocolID() protocol.ID   { return signaling.ProtocolID }
func (f *fakeMounted) GetOpenOpts() stream.OpenOpts { return stream.OpenOpts{} }
func (f *fakeMounted) GetPeerID() peer.ID           { return f.pid }
func (f *fakeMounted) GetLink() link.MountedLink    { return nil }

// identCtx is the context of a stream authenticated as peer `pid` (0 = not authenticated at all).
func (w *world) identCtx(pid int) context.Context {
	ctx := context.Background()
	if pid == 0 {
		return ctx
	}
	if w.ident == "mounted" {
		return link.WithMountedStreamContext(ctx, &fakeMounted{pid: w.e.pids[pid]})
	}
	return context.WithValue(ctx, ctxKey{}, w.e.pids[pid])
}

// sink receives the hook lines. Lines of calls this world did not start (a handler of an
// earlier scenario finishing late) are not part of this world's trace.
func (w *world) sink(line string) {
	w.mtx.Lock()
	if strings.HasPrefix(line, "ev=") {
		if i := strings.Index(line, " call="); i >= 0 {
			c := line[i+6:]
			if j := strings.IndexByte(c, ' '); j >= 0 {
				c = c[:j]
			}
			if _, ok := w.calls[c]; !ok {
				w.mtx.Unlock()
				return
			}
		}
	}
	w.log = append(w.log, line)
	w.mtx.Unlock()
}

func (w *world) logTx(call int, m *signaling.SessionResponse) {
	switch b := m.GetBody().(type) {
	case *signaling.SessionResponse_Opened:
		w.sink(fmt.Sprintf("TX tx,c=%d,r=opened,v=%d", call, b.Opened))
	case *signaling.SessionResponse_Closed:
		w.sink(fmt.Sprintf("TX tx,c=%d,r=closed", call))
	case *signaling.SessionResponse_AckMsg:
		w.sink(fmt.Sprintf("TX tx,c=%d,r=ack,v=%d", call, b.AckMsg))
	case *signaling.SessionResponse_ClearMsg:
		w.sink(fmt.Sprintf("TX tx,c=%d,r=clear,v=%d", call, b.ClearMsg))
	case *signaling.SessionResponse_RecvMsg:
		wire, _ := b.RecvMsg.MarshalVT()
		mid := 0
		w.mtx.Lock()
		for _, s := range w.subs {
			if len(s.wire) != 0 && bytes.Equal(s.wire, wire) {
				mid = s.mid
			}
		}
		w.mtx.Unlock()
		w.sink(fmt.Sprintf("TX tx,c=%d,r=recv,v=%d,m=%d", call, b.RecvMsg.GetSeqno(), mid))
	}
}

func (w *world) logLtx(call int, m *signaling.ListenResponse) {
	switch b := m.GetBody().(type) {
	case *signaling.ListenResponse_SetPeer:
		w.sink(fmt.Sprintf("TX ltx,c=%d,r=set,v=%d", call, w.e.pidIx[b.SetPeer]))
	case *signaling.ListenResponse_ClearPeer:
		w.sink(fmt.Sprintf("TX ltx,c=%d,r=clearpeer,v=%d", call, w.e.pidIx[b.ClearPeer]))
	}
}

func (w *world) newSession(src, dst int) *sessStream { return w.newSessionOpt(src, dst, false) }

// newSessionOpt: held = the client is slow from the start (the handler's first Send blocks).
func (w *world) newSessionOpt(src, dst int, held bool) *sessStream {
	ctx, cancel := context.WithCancel(w.identCtx(src))
	s := &sessStream{w: w, src: src, dst: dst, ctx: ctx, cancel: cancel, reqCh: make(chan *signaling.SessionRequest, 64), done: make(chan struct{})}
	if held {
		s.holdSends()
	}
	w.mtx.Lock()
	w.nextID++
	s.id = w.nextID
	w.scalls = append(w.scalls, s)
	w.calls[fmt.Sprintf("%p", s)] = s.id
	w.mtx.Unlock()
	s.reqCh <- &signaling.SessionRequest{Body: &signaling.SessionRequest_Init{Init: &signaling.SessionInit{PeerId: w.e.pids[dst].String()}}}
	go func() {
		s.err = w.srv.Session(s)
		s.cancel() // as SRPC does: the stream context ends when the handler returns
		close(s.done)
	}()
	return s
}

// rawFirsts are the scripted first requests the relay must refuse before registering anything.
var rawFirsts = []string{"first-send", "first-ack", "first-clear", "init-self", "init-seqno", "init-empty", "init-garbage", "init-eof", "first-empty"}

// newSessionRaw starts a Session call authenticated as `src` (0 = no identity on the stream)
// whose first request is scripted by `first`; a valid Init towards dst follows it.
func (w *world) newSessionRaw(src, dst int, first string) *sessStream {
	ctx, cancel := context.WithCancel(w.identCtx(src))
	s := &sessStream{w: w, src: src, dst: dst, ctx: ctx, cancel: cancel, reqCh: make(chan *signaling.SessionRequest, 64), done: make(chan struct{}), first: first}
	w.mtx.Lock()
	w.nextID++
	s.id = w.nextID
	w.raws = append(w.raws, s)
	w.calls[fmt.Sprintf("%p", s)] = s.id
	w.mtx.Unlock()
	e := w.e
	dstStr := e.pids[dst].String()
	init := func(pid string, q uint64) *signaling.SessionRequest {
		return &signaling.SessionRequest{SessionSeqno: q, Body: &signaling.SessionRequest_Init{Init: &signaling.SessionInit{PeerId: pid}}}
	}
	signer := src
	if signer == 0 {
		signer = 1
	}
	switch first {
	case "first-send":
		msg, err := signaling.NewSessionMsg(e.keys[signer].SK, hash.HashType_HashType_BLAKE3, []byte("before init"), 1)
		if err != nil {
			panic(err)
		}
		s.reqCh <- &signaling.SessionRequest{Body: &signaling.SessionRequest_SendMsg{SendMsg: msg}}
	case "first-ack":
		s.reqCh <- &signaling.SessionRequest{Body: &signaling.SessionRequest_AckMsg{AckMsg: 1}}
	case "first-clear":
		s.reqCh <- &signaling.SessionRequest{Body: &signaling.SessionRequest_ClearMsg{ClearMsg: 1}}
	case "first-empty":
		s.reqCh <- &signaling.SessionRequest{}
	case "init-self":
		s.reqCh <- init(e.pids[signer].String(), 0)
	case "init-seqno":
		s.reqCh <- init(dstStr, uint64(1+e.rng.Intn(3)))
	case "init-empty":
		s.reqCh <- init("", 0)
	case "init-garbage":
		s.reqCh <- init("not-a-peer-id", 0)
	case "init-eof":
		close(s.reqCh)
		s.closedRx = true
	case "no-ident":
	default:
		panic("unknown first request " + first)
	}
	if !s.closedRx {
		s.reqCh <- init(dstStr, 0) // a well-formed Init afterwards must not rescue the call
	}
	go func() {
		s.err = w.srv.Session(s)
		s.cancel()
		close(s.done)
	}()
	return s
}

func (w *world) newListen(pid int) *listenStream { return w.newListenAs(pid, pid) }

// newListenAs: identPid = the identity on the stream (0 = none).
func (w *world) newListenAs(pid, identPid int) *listenStream {
	ctx, cancel := context.WithCancel(w.identCtx(identPid))
	s := &listenStream{w: w, pid: pid, ctx: ctx, cancel: cancel, done: make(chan struct{})}
	w.mtx.Lock()
	w.nextID++
	s.id = w.nextID
	if identPid == 0 {
		w.rawl = append(w.rawl, s)
	} else {
		w.lcalls = append(w.lcalls, s)
	}
	w.calls[fmt.Sprintf("%p", s)] = s.id
	w.mtx.Unlock()
	go func() {
		s.err = w.srv.Listen(&signaling.ListenRequest{}, s)
		close(s.done)
	}()
	return s
}

func (s *sessStream) lastOpened() (uint64, bool) {
	s.mtx.Lock()
	defer s.mtx.Unlock()
	for i := len(s.resps) - 1; i >= 0; i-- {
		switch b := s.resps[i].GetBody().(type) {
		case *signaling.SessionResponse_Opened:
			return b.Opened, true
		case *signaling.SessionResponse_Closed:
			return 0, false
		}
	}
	return 0, false
}

func (s *sessStream) alive() bool {
	select {
	case <-s.done:
		return false
	default:
		return true
	}
}

// quiesce waits until the server is quiescent: for three consecutive samples `d` apart the event
// log has not grown AND no goroutine of the process is runnable, running or in a system call
// (package quiet: load-proof, a handler that has not been scheduled yet counts as busy).
func (w *world) quiesce(d time.Duration) {
	quiet.Settle(func() int {
		w.mtx.Lock()
		defer w.mtx.Unlock()
		return len(w.log)
	}, d, 3, 20*time.Second)
}

func (w *world) lines() []string {
	w.mtx.Lock()
	defer w.mtx.Unlock()
	return append([]string(nil), w.log...)
}

// canonical converts the raw log to the driver's trace. The verdict (v, g) handed to the model for
// every submission is the HARNESS's own (stdlib) judgement of the message, never the server's.
func (w *world) canonical() (string, string) {
	lines := w.lines()
	tr, last, cerr := sigtrace.Canonical(sigtrace.Input{Lines: lines, PidIx: w.e.pidIx, Calls: w.calls, SubOf: func(call, k int) (sigtrace.Sub, bool) {
		for _, x := range w.scalls {
			if x.id == call {
				x.mtx.Lock()
				defer x.mtx.Unlock()
				if k >= len(x.valid) {
					return sigtrace.Sub{}, false
				}
				sub := x.valid[k]
				return sigtrace.Sub{Mid: sub.mid, Epoch: sub.epoch, Seqno: sub.seqno, V: sub.v, Signer: sub.claimed}, true
			}
		}
		return sigtrace.Sub{}, false
	}})
	w.lastSnap = last
	return tr, cerr
}

func (w *world) jitter() {
	switch w.e.rng.Intn(4) {
	case 0:
	case 1:
		time.Sleep(time.Duration(w.e.rng.Intn(150)) * time.Microsecond)
	case 2:
		time.Sleep(time.Duration(200+w.e.rng.Intn(800)) * time.Microsecond)
	case 3:
		w.quiesce(300 * time.Microsecond)
	}
}

// variantFields: the single field in which a "variant of the last honest message" differs from it.
var variantFields = []string{"body", "body-suffix", "from", "sig", "sig-key", "hash-type", "context"}

// forgedKinds are the submissions built by hand (sigoracle.Forged) on the server side.
func forgedKinds() []string {
	var l []string
	for _, c := range sigoracle.ForgedClasses {
		l = append(l, "send-"+c)
	}
	return l
}

// submit makes one client action on a session stream.
func (w *world) submit(s *sessStream, kind string) {
	epoch, open := s.lastOpened()
	e := w.e
	switch {
	case kind == "ack" || kind == "ack-prev" || strings.HasPrefix(kind, "ack="):
		// ack the last message received on this stream
		var k, prev uint64
		s.mtx.Lock()
		for _, r := range s.resps {
			if b, ok := r.GetBody().(*signaling.SessionResponse_RecvMsg); ok {
				if b.RecvMsg.GetSeqno() != k {
					prev = k
				}
				k = b.RecvMsg.GetSeqno()
			}
		}
		s.mtx.Unlock()
		switch {
		case strings.HasPrefix(kind, "ack="):
			k, _ = strconv.ParseUint(kind[4:], 10, 64)
		case kind == "ack-prev" && prev != 0:
			k = prev // a late acknowledgement of an earlier message (it crossed a withdrawal or a newer message)
		case k == 0 || e.rng.Intn(6) == 0:
			k = uint64(1 + e.rng.Intn(4)) // unsolicited / wrong ack
		}
		w.noteReq(s, "ack", k, epoch)
		s.reqCh <- &signaling.SessionRequest{SessionSeqno: epoch, Body: &signaling.SessionRequest_AckMsg{AckMsg: k}}
	case kind == "clear" || strings.HasPrefix(kind, "clear="):
		k := s.nextQ
		if strings.HasPrefix(kind, "clear=") {
			k, _ = strconv.ParseUint(kind[6:], 10, 64)
		} else if k == 0 || e.rng.Intn(5) == 0 {
			k = uint64(1 + e.rng.Intn(4))
		}
		w.noteReq(s, "clear", k, epoch)
		s.reqCh <- &signaling.SessionRequest{SessionSeqno: epoch, Body: &signaling.SessionRequest_ClearMsg{ClearMsg: k}}
	case kind == "fail-send":
		// the transport under the stream breaks: the relay's next write on it returns an error
		s.mtx.Lock()
		s.failSend = true
		s.mtx.Unlock()
	case kind == "init-again":
		s.setPoison(kind)
		s.reqCh <- &signaling.SessionRequest{SessionSeqno: epoch, Body: &signaling.SessionRequest_Init{Init: &signaling.SessionInit{PeerId: e.pids[s.dst].String()}}}
	case kind == "empty-request":
		s.setPoison(kind)
		s.reqCh <- &signaling.SessionRequest{SessionSeqno: epoch}
	case kind == "close-rx":
		if !s.closedRx {
			s.closedRx = true
			close(s.reqCh)
		}
	case kind == "cancel":
		s.kill()
	case strings.HasPrefix(kind, "send"):
		s.nextQ++
		q := s.nextQ
		data := e.rng.Bytes(1 + e.rng.Intn(20))
		mine := e.keys[s.src]
		// a key holder other than the submitting stream's peer
		foreign := e.keys[s.dst]
		if e.rng.Intn(2) == 0 {
			foreign = e.keys[1+(s.src+e.rng.Intn(nPeers-1))%nPeers]
		}
		var msg *signaling.SessionMsg
		wantAuth := false
		switch kind {
		case "send", "send-stale", "send-future":
			m, err := signaling.NewSessionMsg(mine.SK, hash.HashType_HashType_BLAKE3, data, q)
			if err != nil {
				panic(err)
			}
			msg, wantAuth = m, true
		case "send-forged-key": // validly signed by another peer under its own name
			m, err := signaling.NewSessionMsg(foreign.SK, hash.HashType_HashType_BLAKE3, data, q)
			if err != nil {
				panic(err)
			}
			msg = m
		case "send-tampered":
			m, err := signaling.NewSessionMsg(mine.SK, hash.HashType_HashType_BLAKE3, data, q)
			if err != nil {
				panic(err)
			}
			m.SignedMsg.Data[0] ^= 1
			msg = m
		case "send-keyed": // authentic, with the sender's own (redundant) public key attached
			msg, wantAuth = sigoracle.KeyedAuthentic(mine, data, q), true
		case "send-resigned", "send-resigned-stale":
			// the signature and sender of the last AUTHENTIC message submitted on this very stream,
			// re-used with another payload (it looks like the retransmission of a verified message:
			// same signature bytes, same from_peer_id, hence the same SignedMsg message id)
			if s.lastSubAuth == nil {
				m, err := signaling.NewSessionMsg(mine.SK, hash.HashType_HashType_BLAKE3, data, q)
				if err != nil {
					panic(err)
				}
				m.SignedMsg.Data[0] ^= 1
				msg = m
			} else {
				m := s.lastSubAuth.CloneVT()
				m.Seqno = q
				m.SignedMsg.Data = append([]byte{^s.lastSubAuth.GetSignedMsg().GetData()[0]}, data...)
				msg = m
			}
		case "send-nil-msg": // a SendMsg request without any message
			msg = nil
		default:
			if f := strings.Split(kind, ":"); f[0] == "send-variant" && len(f) >= 3 {
				// wave 5: "after an honest message, a variant of it": the last AUTHENTIC message of this
				// very stream with exactly ONE authenticated field replaced and everything else (in
				// particular the signature bytes / the sender / the body) byte-identical, under the SAME
				// message seqno ("same": what a retransmission looks like) or the next one ("fresh")
				if s.lastSubAuth == nil {
					panic("harness: " + kind + " needs an authentic message submitted on the stream before")
				}
				m := s.lastSubAuth.CloneVT()
				if f[2] == "same" {
					s.nextQ--
					q = s.lastSubAuth.GetSeqno()
				}
				m.Seqno = q
				switch f[1] {
				case "body": // other body, old sender + old signature object
					m.SignedMsg.Data = append([]byte{^m.SignedMsg.Data[0]}, data...)
				case "body-suffix": // the old body extended (a prefix / length-only comparison would accept it)
					m.SignedMsg.Data = append(m.SignedMsg.Data, data...)
				case "from": // another sender named, old body + old signature object
					m.SignedMsg.FromPeerId = foreign.IDStr
				case "sig": // old body + old sender, the signature bytes of another key holder over that body
					m.SignedMsg.Signature.SigData = sigoracle.Assemble(mine.IDStr, m.SignedMsg.Data, foreign, sigoracle.Context, nil, q).SignedMsg.Signature.SigData
				case "sig-key": // ... with that key holder's public key attached
					x := sigoracle.Assemble(mine.IDStr, m.SignedMsg.Data, foreign, sigoracle.Context, foreign, q)
					m.SignedMsg.Signature = x.SignedMsg.Signature
				case "hash-type": // the signed hash type (bound into what the signature covers) changed, old signature bytes
					m.SignedMsg.Signature.HashType = hash.HashType_HashType_SHA256
				case "context": // old body + old sender, re-signed by the stream's own key under another signing context
					m.SignedMsg.Signature.SigData = sigoracle.Assemble(mine.IDStr, m.SignedMsg.Data, mine, sigoracle.OtherContext, nil, q).SignedMsg.Signature.SigData
				default:
					panic("unknown variant field " + f[1])
				}
				msg = m
				break
			}
			m, ok := sigoracle.Forged(strings.TrimPrefix(kind, "send-"), mine, foreign, data, q)
			if !ok {
				panic("unknown submission kind " + kind)
			}
			msg = m
		}
		ep := epoch
		switch kind {
		case "send-stale", "send-resigned-stale":
			if ep > 0 {
				ep--
			}
		default:
			if strings.HasPrefix(kind, "send-variant:") && strings.HasSuffix(kind, ":stale") && ep > 0 {
				ep--
			}
		case "send-future":
			ep += uint64(1 + 2*e.rng.Intn(2)) // the very next epoch, or further ahead
		}
		if !open && kind == "send" {
			ep = epoch // 0: stale unless the session really is at 0 (never)
		}
		var wire []byte
		if msg != nil {
			wire, _ = msg.MarshalVT()
		}
		v, claimed := sigoracle.Verdict(e.keys, msg)
		sub := &submission{src: s.src, dst: s.dst, seqno: q, epoch: ep, kind: kind, v: v, claimed: claimed, wire: wire, call: s.id}
		sub.authentic = sigoracle.AuthenticFrom(mine, msg)
		if sub.authentic != wantAuth || sub.authentic != (v == 1 && claimed == s.src) {
			panic(fmt.Sprintf("harness self-check: submission kind %s: oracle says authentic=%v v=%d claimed=%d, construction says %v", kind, sub.authentic, v, claimed, wantAuth))
		}
		if !sub.authentic || kind == "send-future" {
			s.setPoison(kind)
		}
		if sub.authentic {
			s.lastSubAuth = msg
		}
		w.mtx.Lock()
		sub.mid = len(w.subs) + 1
		w.subs = append(w.subs, sub)
		w.mtx.Unlock()
		s.mtx.Lock()
		s.valid = append(s.valid, sub)
		s.mtx.Unlock()
		s.reqCh <- &signaling.SessionRequest{SessionSeqno: ep, Body: &signaling.SessionRequest_SendMsg{SendMsg: msg}}
	default:
		panic("unknown action " + kind)
	}
}

func (s *sessStream) setPoison(kind string) {
	s.mtx.Lock()
	if s.poison == "" {
		s.poison = kind
	}
	s.mtx.Unlock()
}

// pendingClearFor reports whether the relay's last logged state holds a withdrawal stored for
// call s and not transmitted (read off the hook snapshot; informational).
func (w *world) pendingClearFor(s *sessStream) bool {
	w.canonical()
	parts := strings.SplitN(w.lastSnap, "#", 2)
	if len(parts) != 2 {
		return false
	}
	for _, se := range strings.Split(parts[1], "|") {
		f := strings.Split(se, ":")
		if len(f) < 4 {
			continue
		}
		for _, at := range f[2:4] {
			af := strings.Split(at, "/")
			if len(af) == 5 && af[0] == strconv.Itoa(s.id) && af[3] != "-" {
				return true
			}
		}
	}
	return false
}

// respSeq is the sequence of responses of the given kinds a stream was sent, as "kind:seqno".
func (s *sessStream) respSeq(kinds ...string) []string {
	want := map[string]bool{}
	for _, k := range kinds {
		want[k] = true
	}
	var out []string
	s.mtx.Lock()
	defer s.mtx.Unlock()
	for _, r := range s.resps {
		switch x := r.GetBody().(type) {
		case *signaling.SessionResponse_RecvMsg:
			if want["recv"] {
				out = append(out, fmt.Sprintf("recv:%d", x.RecvMsg.GetSeqno()))
			}
		case *signaling.SessionResponse_AckMsg:
			if want["ack"] {
				out = append(out, fmt.Sprintf("ack:%d", x.AckMsg))
			}
		case *signaling.SessionResponse_ClearMsg:
			if want["clear"] {
				out = append(out, fmt.Sprintf("clear:%d", x.ClearMsg))
			}
		case *signaling.SessionResponse_Opened:
			if want["opened"] {
				out = append(out, fmt.Sprintf("opened:%d", x.Opened))
			}
		case *signaling.SessionResponse_Closed:
			if want["closed"] {
				out = append(out, "closed")
			}
		}
	}
	return out
}

// expectSeq registers a sentinel expectation on what the real relay sent to a stream. It is
// evaluated on the final response list at every verdict (order only, no timing).
func (w *world) expectSeq(s *sessStream, what string, want []string, kinds ...string) {
	w.expects = append(w.expects, func() (string, string) {
		got := s.respSeq(kinds...)
		if strings.Join(got, " ") != strings.Join(want, " ") {
			return "sigsrv.ackclear:", fmt.Sprintf("%s: the relay sent [%s], the schedule requires [%s] (an acknowledgement / withdrawal must reach the partner for exactly the message it names, and must not disturb any other message)", what, strings.Join(got, " "), strings.Join(want, " "))
		}
		return "", ""
	})
}

// expectEnded registers, at a quiescent point of the schedule, that a call whose stream write
// failed must have returned by now (quiescence: no goroutine of the process is runnable).
func (w *world) expectEnded(id int, what string, alive bool, sendErrs int) {
	w.expects = append(w.expects, func() (string, string) {
		if sendErrs > 0 && alive {
			return "sigsrv.send-error:", fmt.Sprintf("%s call %d: a write on its stream returned an error, the relay became quiescent, and the call was still running (it ended only when something else replaced or cancelled it)", what, id)
		}
		return "", ""
	})
}

// noteReq records an ack / clear request together with the log position at which it was submitted.
func (w *world) noteReq(s *sessStream, kind string, k, epoch uint64) {
	w.mtx.Lock()
	w.reqs = append(w.reqs, reqRec{call: s.id, kind: kind, k: k, epoch: epoch, at: len(w.log)})
	w.mtx.Unlock()
}

func (e *engine) newWorld(ident string) *world {
	w := &world{e: e, calls: map[string]int{}, ident: ident}
	if ident == "mounted" {
		// the relay as it is deployed: the identity of a stream is the peer of its mounted stream context
		w.srv = signaling_rpc_server.NewServer(e.le)
	} else {
		w.srv = signaling_rpc_server.NewServerWithIdentify(e.le, func(ctx context.Context) (peer.ID, error) {
			return ctx.Value(ctxKey{}).(peer.ID), nil
		})
	}
	return w
}

func (e *engine) scenario(kind string, n int) {
	ident := "callback"
	if kind == "ident-mounted" || (kind == "random" && e.rng.Intn(3) == 0) {
		ident = "mounted"
	}
	w := e.newWorld(ident)
	w.goBase, _ = relayGoroutines()
	signaling_rpc_server.VerifSetSink(w.sink)
	defer signaling_rpc_server.VerifSetSink(nil)
	defer func() {
		for _, s := range w.scalls {
			e.keep = append(e.keep, s)
		}
		for _, s := range w.raws {
			e.keep = append(e.keep, s)
		}
		for _, l := range w.lcalls {
			e.keep = append(e.keep, l)
		}
		for _, l := range w.rawl {
			e.keep = append(e.keep, l)
		}
	}()
	var actions []string
	act := func(s string) { actions = append(actions, s) }
	q := func() { w.quiesce(300 * time.Microsecond) }
	switch kind {
	case "reattach-race":
		// C22 sentinel: B detaches and re-attaches (or is usurped) while A stays attached
		a := w.newSession(1, 2)
		b := w.newSession(2, 1)
		q()
		act("attach 1->2; attach 2->1")
		for i := 0; i < n; i++ {
			if e.rng.Intn(2) == 0 {
				b2 := w.newSession(2, 1) // usurp without detaching first
				act("usurp 2->1")
				_ = b
				b = b2
			} else {
				b.kill()
				b = w.newSession(2, 1)
				act("cancel+reattach 2->1")
			}
			w.jitter()
			w.submit(a, "send")
			act("send on 1->2")
			w.jitter()
		}
	case "late-attach":
		// C22 sentinel (F9): the second peer attaches and only IT has something to send
		w.newSession(1, 2)
		q()
		b := w.newSession(2, 1)
		q()
		act("attach 1->2; quiesce; attach 2->1; quiesce")
		w.submit(b, "send")
		act("send on 2->1")
	case "usurp-while-partner-blocked":
		// C20/C22 sentinel: B's write loop is parked in Send (slow client) while A1 submits a
		// message for the current epoch and A2 then replaces A1 (new epoch); B resumes
		a1 := w.newSession(1, 2)
		q()
		b := w.newSessionOpt(2, 1, true)
		select {
		case <-b.inSend:
		case <-time.After(2 * time.Second):
		}
		q()
		w.submit(a1, "send")
		q()
		w.newSession(1, 2) // replaces a1, new epoch
		q()
		b.release()
		act("attach 1->2; attach 2->1 (slow client: parked in its first Send); send on 1->2; 1 re-attaches (new epoch); 2->1 resumes")
	case "listen-reopen":
		// C24 sentinel (F8): listener stays while a session towards it opens, closes, re-opens
		w.newListen(2)
		q()
		for i := 0; i < n; i++ {
			s := w.newSession(1, 2)
			q()
			s.kill()
			q()
			act("listen 2; open 1->2; close")
		}
		w.newSession(1, 2)
		w.newSession(3, 2)
		act("open 1->2; open 3->2")
	case "listen-swap":
		// C24 sentinel: while the listener is inside Send(SetPeer X), X's session closes and Z's opens
		l := w.newListen(2)
		q()
		l.holdSends()
		x := w.newSession(1, 2)
		select {
		case <-l.inSend:
		case <-time.After(2 * time.Second):
		}
		x.kill()
		q()
		w.newSession(3, 2)
		q()
		l.release()
		act("listen 2 (slow client); open 1->2; while Send(SetPeer 1) blocks: close 1->2, open 3->2; release")
	case "listen-stale-cleanup":
		// C25 sentinel: a replaced Listen call that finishes late must not disturb a newer tracker
		l1 := w.newListen(2)
		q()
		l1.holdSends()
		sx := w.newSession(1, 2)
		select {
		case <-l1.inSend:
		case <-time.After(2 * time.Second):
		}
		l2 := w.newListen(2) // replaces l1
		q()
		l2.kill()
		q()
		sx.kill() // last want gone: tracker released
		q()
		w.newListen(2) // l3 on a fresh tracker
		q()
		l1.release() // l1 now observes it was replaced and runs its cleanup
		w.quiesce(500 * time.Microsecond)
		w.newSession(3, 2) // must be announced to l3
		act("L1 listens (slow client) ; session 1->2; L2 replaces L1; L2 cancelled; session ends; L3 listens; L1 finishes late; session 3->2")
	case "listen-usurp-open":
		// C24/C25 sentinel: a Listen call is replaced by a newer one for the same peer (client
		// reconnect); the replaced call's exit must leave the shared tracker to its successor, which
		// must learn of every session opened afterwards. n selects the variant.
		hub := 2 + e.rng.Intn(2)
		others := []int{}
		for p := 1; p <= nPeers; p++ {
			if p != hub {
				others = append(others, p)
			}
		}
		switch n % 3 {
		case 0: // no want at usurp time: the exit of L1 must not release the tracker under L2
			w.newListen(hub)
			q()
			w.newListen(hub)
			q()
			act(fmt.Sprintf("listen %d; listen %d again (replaces the first); quiesce", hub, hub))
		case 1: // a want exists at usurp time; it closes afterwards, then others open
			s := w.newSession(others[0], hub)
			w.newListen(hub)
			q()
			w.newListen(hub)
			q()
			s.kill()
			q()
			act(fmt.Sprintf("open %d->%d; listen %d; listen %d again; close %d->%d", others[0], hub, hub, hub, others[0], hub))
		case 2: // two replacements in a row, the first while the listener is parked in Send
			l1 := w.newListen(hub)
			q()
			l1.holdSends()
			s := w.newSession(others[0], hub)
			select {
			case <-l1.inSend:
			case <-time.After(2 * time.Second):
			}
			w.newListen(hub)
			q()
			w.newListen(hub)
			q()
			l1.release()
			q()
			s.kill()
			q()
			act(fmt.Sprintf("listen %d (slow client); open %d->%d; listen %d again twice; first listener resumes; close %d->%d", hub, others[0], hub, hub, others[0], hub))
		}
		// now the peers open (and some close) sessions towards the hub: the live listener must follow
		var open []*sessStream
		for _, p := range others {
			open = append(open, w.newSession(p, hub))
			w.jitter()
		}
		q()
		open[e.rng.Intn(len(open))].kill()
		act(fmt.Sprintf("open sessions from %v towards %d; close one", others, hub))
	case "session-overlap":
		// C24/C25 sentinel: two overlapping Session calls from one source to the same destination
		// (client retry before the relay noticed the old stream is gone): the older call ends with
		// the replaced error and its exit must not withdraw the want the newer call relies on.
		hub := 2 + e.rng.Intn(2)
		src := 1
		listenFirst := n%2 == 0
		if listenFirst {
			w.newListen(hub)
			q()
		}
		for i := 0; i < 1+n%3; i++ {
			w.newSession(src, hub)
			q()
		}
		w.newSession(src, hub) // overlaps the previous call, stays open
		q()
		other := 4 + e.rng.Intn(2)
		w.newSession(other, hub)
		w.newSession(other, hub) // same for a second source, back to back
		q()
		if !listenFirst {
			w.newListen(hub) // a listener starting now must be told both peers
			q()
		}
		act(fmt.Sprintf("listenFirst=%v hub=%d: %d overlapping session calls %d->%d, the last stays open; two overlapping calls %d->%d", listenFirst, hub, 2+n%3, src, hub, other, hub))
	case "listen-many":
		// C24: a listener with up to four wanting peers, opening and closing in random order, with
		// listener replacements in between
		hub := 1 + e.rng.Intn(nPeers)
		w.newListen(hub)
		act(fmt.Sprintf("listen %d", hub))
		cur := map[int]*sessStream{}
		for i := 0; i < n; i++ {
			p := 1 + e.rng.Intn(nPeers)
			if p == hub {
				if e.rng.Intn(2) == 0 {
					w.newListen(hub)
					act(fmt.Sprintf("listen %d again", hub))
				}
				continue
			}
			if s := cur[p]; s != nil && s.alive() && e.rng.Intn(3) > 0 {
				s.kill()
				delete(cur, p)
				act(fmt.Sprintf("close %d->%d", p, hub))
			} else {
				cur[p] = w.newSession(p, hub)
				act(fmt.Sprintf("open %d->%d", p, hub))
			}
			w.jitter()
		}
	case "forgery-classes":
		// C20 sentinel: with the partner attached and the session open, the submitting stream sends
		// one message of every forgery class in the CURRENT epoch (each must fail the stream and
		// must not be forwarded), re-attaching after each; authentic messages in between still flow
		b := w.newSession(2, 1)
		kinds := append(forgedKinds(), "send-forged-key", "send-tampered", "send-nil-msg", "send-keyed", "send", "send-future", "init-again", "empty-request")
		e.rng.Shuffle(len(kinds), func(i, j int) { kinds[i], kinds[j] = kinds[j], kinds[i] })
		for _, k := range kinds {
			a := w.newSession(1, 2)
			q()
			w.submit(a, k)
			q()
			w.submit(b, "ack")
			act(k + " on a fresh 1->2 call")
		}
		a := w.newSession(1, 2)
		q()
		w.submit(a, "send")
		act("send on a fresh 1->2 call")
	case "resigned-copy":
		// C20 sentinel: a stream first submits an authentic message (forwarded, optionally
		// acknowledged) and then re-uses that message's signature and sender with ANOTHER payload
		// (same signature bytes + from_peer_id = same SignedMsg message id: what a "this one was
		// verified already" shortcut would key on). The relay must fail the stream and forward nothing.
		b := w.newSession(2, 1)
		for i, v := range []string{"ack|send-resigned", "noack|send-resigned", "ack|send-resigned-stale", "ack|send|send-resigned"} {
			a := w.newSession(1, 2)
			q()
			steps := strings.Split(v, "|")
			w.submit(a, "send")
			q()
			if steps[0] == "ack" {
				w.submit(b, "ack")
				q()
			}
			for _, k := range steps[1:] {
				w.submit(a, k)
				q()
			}
			act(fmt.Sprintf("round %d on a fresh 1->2 call: authentic send; %s", i, strings.Join(steps, "; ")))
		}
	case "variant-after-honest":
		// C20 sentinel (wave 5): on ONE stream, an honest message (verified, forwarded, acknowledged)
		// is followed by a variant of it in which exactly one authenticated field differs while all
		// the others - signature bytes, sender, body - are byte-identical, under the same message
		// seqno (a "retransmission") and under the next one; in the same session epoch (n=0), after
		// the partner re-opened the session (n=1: the stream survives, the epoch moved) and stamped
		// with the previous epoch after the re-open (n=2). Whatever the relay remembers about the
		// honest message, the variant does not verify: it must fail the stream and reach nobody.
		b := w.newSession(2, 1)
		for _, f := range variantFields {
			for _, sq := range []string{"same", "fresh"} {
				a := w.newSession(1, 2)
				q()
				w.submit(a, "send")
				q()
				w.submit(b, "ack")
				q()
				k := "send-variant:" + f + ":" + sq
				if n >= 1 {
					b = w.newSession(2, 1) // the partner re-opens: new epoch, a's stream stays
					q()
				}
				if n == 2 {
					k += ":stale"
				}
				w.submit(a, k)
				q()
				w.submit(b, "ack")
				act(fmt.Sprintf("fresh 1->2 call: authentic send; ack; %s%s", map[bool]string{true: "partner re-opens; ", false: ""}[n >= 1], k))
			}
		}
	case "stale-ack":
		// C21 sentinel (relay side of "acks and clears only affect the message they name"), and the
		// expectation for a pending withdrawal: A sends m1 (forwarded to B), withdraws it, sends m2
		// (forwarded); B's acknowledgement of m1 arrives late (it crossed the withdrawal): it must
		// change nothing; B's acknowledgement of m2 must reach A as Ack(2). Then a withdrawal naming
		// a message that is not outstanding must not disturb m3. The withdrawal of m1 must be
		// announced to B before m2 is (the relay may hold it until B's next wake-up: see DESIGN).
		a := w.newSession(1, 2)
		b := w.newSession(2, 1)
		q()
		got := func(s *sessStream, what string, k uint64) bool {
			ok := false
			for t0 := time.Now(); !ok && time.Since(t0) < 5*time.Second; {
				s.mtx.Lock()
				for _, r := range s.resps {
					switch x := r.GetBody().(type) {
					case *signaling.SessionResponse_RecvMsg:
						ok = ok || (what == "recv" && x.RecvMsg.GetSeqno() == k)
					case *signaling.SessionResponse_AckMsg:
						ok = ok || (what == "ack" && x.AckMsg == k)
					}
				}
				s.mtx.Unlock()
				if !ok {
					time.Sleep(100 * time.Microsecond)
				}
			}
			return ok
		}
		w.submit(a, "send") // m1
		got(b, "recv", 1)
		q()
		w.submit(a, "clear=1")
		q()
		if pend := w.pendingClearFor(b); pend {
			e.rep.Extra["withdrawals_held_at_quiescence"] = e.rep.Extra["withdrawals_held_at_quiescence"].(int) + 1
		}
		w.submit(a, "send") // m2
		got(b, "recv", 2)
		q()
		w.submit(b, "ack=1") // late: m1 was withdrawn, m2 is outstanding
		q()
		w.submit(b, "ack=2")
		got(a, "ack", 2)
		q()
		w.submit(a, "send") // m3
		got(b, "recv", 3)
		q()
		w.submit(a, fmt.Sprintf("clear=%d", 5+e.rng.Intn(4))) // names nothing outstanding
		q()
		w.submit(a, "clear=2") // names a message that was delivered and acknowledged long ago
		q()
		w.submit(b, "ack=3")
		got(a, "ack", 3)
		q()
		w.expectSeq(a, "acks transmitted to the sender (call 1->2)", []string{"ack:2", "ack:3"}, "ack")
		w.expectSeq(b, "messages and withdrawals transmitted to the receiver (call 2->1)", []string{"recv:1", "clear:1", "recv:2", "recv:3"}, "recv", "clear")
		act("A: send m1 (delivered); A: clear 1; A: send m2 (delivered); B: ack 1 (late, crossed the withdrawal); B: ack 2; A: send m3 (delivered); A: clear of a message that is not outstanding; A: clear 2; B: ack 3")
	case "stored-then-stale":
		// C20/C21 sentinel on the relay's handling of request objects (a real stream hands it bytes;
		// RecvTo decodes into the caller's object in place): B's write loop is parked in a Send; A's
		// m2 is stored for B; A then submits an authentic message stamped with a STALE epoch (dropped)
		// and a withdrawal of something else; B resumes: what it is sent must be m1 and m2, untouched.
		a := w.newSession(1, 2)
		b := w.newSession(2, 1)
		q()
		b.holdSends()
		w.submit(a, "send") // m1: B's loop takes it and parks in Send(RecvMsg m1)
		select {
		case <-b.inSend:
		case <-time.After(2 * time.Second):
		}
		q()
		w.submit(a, "send") // m2: stored for B
		q()
		w.submit(a, "send-stale") // authentic, stale epoch: dropped without an error
		q()
		if n%2 == 1 {
			w.submit(a, "clear=9")
			q()
		}
		b.release()
		q()
		w.expectSeq(b, "messages transmitted to the receiver (call 2->1)", []string{"recv:1", "recv:2"}, "recv")
		act("attach 1->2, 2->1; 2->1 becomes a slow client; A: send m1 (B parks in its Send); A: send m2 (stored); A: authentic send stamped with a stale epoch (dropped); B resumes")
	case "superseded-late-exit":
		// C23/C22 sentinel: B1's write loop is parked in Send (dead connection the relay has not
		// noticed) while B2 replaces it (new epoch); B1 ends LATE, at a chosen point of an exchange of
		// the new epoch; its cleanup must change nothing of the session of A and B2.
		a := w.newSession(1, 2)
		q()
		b1 := w.newSession(2, 1)
		q()
		b1.holdSends()
		w.submit(a, "send") // forwarded to B1: its handler parks in Send
		select {
		case <-b1.inSend:
		case <-time.After(2 * time.Second):
		}
		q()
		b2 := w.newSession(2, 1) // replaces B1 (new epoch); B1 stays parked
		q()
		parkIn := func(s *sessStream) {
			select {
			case <-s.inSend:
			case <-time.After(2 * time.Second):
			}
		}
		switch n % 3 {
		case 0: // B2's message was forwarded to A and is not yet acknowledged
			w.submit(b2, "send")
			q()
			b1.release()
			q()
			w.submit(a, fmt.Sprintf("ack=%d", b2.nextQ))
			q()
			w.expectSeq(b2, "acknowledgements transmitted to the sender (call 2->1, new stream)", []string{fmt.Sprintf("ack:%d", b2.nextQ)}, "ack")
			act("attach 1->2, 2->1; 2->1 stalls; send on 1->2 (B1 parks in Send); 2 re-attaches (new epoch); send on the new 2->1 (forwarded to 1); B1 ends late; 1 acknowledges")
		case 1: // B2's message is stored for A and not yet forwarded (A's handler is parked writing an ack)
			a.holdSends()
			w.submit(a, "send")
			q()
			w.submit(b2, fmt.Sprintf("ack=%d", a.nextQ))
			parkIn(a)
			q()
			w.submit(b2, "send")
			q()
			b1.release()
			q()
			a.release()
			q()
			w.submit(a, fmt.Sprintf("ack=%d", b2.nextQ))
			q()
			w.expectSeq(b2, "acknowledgements transmitted to the sender (call 2->1, new stream)", []string{fmt.Sprintf("ack:%d", b2.nextQ)}, "ack")
			act("attach 1->2, 2->1; 2->1 stalls; send on 1->2 (B1 parks in Send); 2 re-attaches (new epoch); 1->2 becomes slow: send on 1->2, acknowledged by 2 (A parks writing the ack); send on the new 2->1 (stored for 1); B1 ends late; A resumes; 1 acknowledges")
		default: // A's acknowledgement of B2's message is stored for B2 and not yet delivered (B2's handler is parked)
			b2.holdSends()
			w.submit(a, "send")
			parkIn(b2)
			q()
			w.submit(b2, "send")
			q()
			w.submit(a, fmt.Sprintf("ack=%d", b2.nextQ))
			q()
			b1.release()
			q()
			b2.release()
			q()
			w.expectSeq(b2, "acknowledgements transmitted to the sender (call 2->1, new stream)", []string{fmt.Sprintf("ack:%d", b2.nextQ)}, "ack")
			act("attach 1->2, 2->1; 2->1 stalls; send on 1->2 (B1 parks in Send); 2 re-attaches (new epoch); the new 2->1 becomes slow: send on 1->2 (B2 parks in Send); send on the new 2->1; 1 acknowledges (stored for B2); B1 ends late; B2 resumes")
		}
	case "stalled-reopen":
		// C23/C22 sentinel (wave 6): the write loop of the RECEIVER B is parked inside a Send (slow
		// downlink: of Closed / of Opened(e) / of a message / of an acknowledgement) while its partner's
		// call ends and a new one attaches (the epoch of the pair changes) and the new call submits a
		// message for the NEW epoch, which the relay accepts into B's slot - all before B's handler has
		// announced that epoch. B resumes and nothing else happens: after Opened(new epoch) the handler
		// must hand out the message that was queued before the announcement (no later wake-up exists).
		parkIn := func(s *sessStream) {
			select {
			case <-s.inSend:
			case <-time.After(2 * time.Second):
			}
		}
		a := w.newSession(1, 2)
		q()
		b := w.newSession(2, 1)
		q()
		ep, _ := b.lastOpened()
		var want []string
		var how string
		reopen := func() *sessStream {
			a.kill()
			q()
			a = w.newSession(1, 2)
			q()
			ep += 2
			return a
		}
		switch n % 4 {
		case 0: // parked writing Closed
			b.holdSends()
			a.kill()
			parkIn(b)
			q()
			a = w.newSession(1, 2)
			q()
			ep += 2
			want = []string{fmt.Sprintf("opened:%d", ep-2), "closed", fmt.Sprintf("opened:%d", ep), "recv:1"}
			how = "Closed"
		case 1: // parked writing Opened(e); the pair goes through another re-open
			a.kill()
			q()
			b.holdSends()
			a = w.newSession(1, 2)
			parkIn(b)
			q()
			ep += 2
			reopen()
			want = []string{fmt.Sprintf("opened:%d", ep-4), "closed", fmt.Sprintf("opened:%d", ep-2), fmt.Sprintf("opened:%d", ep), "recv:1"}
			how = "Opened"
		case 2: // parked writing a message of the old epoch
			b.holdSends()
			w.submit(a, "send")
			parkIn(b)
			q()
			reopen()
			want = []string{fmt.Sprintf("opened:%d", ep-2), "recv:1", fmt.Sprintf("opened:%d", ep), "recv:1"}
			how = "a message"
		default: // parked writing an acknowledgement of the old epoch
			w.submit(b, "send")
			q()
			b.holdSends()
			w.submit(a, fmt.Sprintf("ack=%d", b.nextQ))
			parkIn(b)
			q()
			reopen()
			want = []string{fmt.Sprintf("opened:%d", ep-2), fmt.Sprintf("ack:%d", b.nextQ), fmt.Sprintf("opened:%d", ep), "recv:1"}
			how = "an acknowledgement"
		}
		w.submit(a, "send") // stamped with the epoch the new call was told: stored for B
		q()
		b.release()
		q()
		w.expects = append(w.expects, func() (string, string) {
			got := b.respSeq("opened", "closed", "recv", "ack")
			if strings.Join(got, " ") != strings.Join(want, " ") {
				return "sigsrv.stalled-reopen:", fmt.Sprintf("responses transmitted to the receiver (call 2->1) whose handler was parked writing %s across a re-open of the pair: the relay sent [%s], the schedule requires [%s] (a message accepted for the current epoch before the handler announced that epoch must be handed out after the announcement; nothing else will wake the handler)", how, strings.Join(got, " "), strings.Join(want, " "))
			}
			return "", ""
		})
		act("attach 1->2, 2->1; 2->1 becomes a slow client: its handler parks writing " + how + "; call 1->2 ends and a new call 1->2 attaches (new epoch); send on the new 1->2 (accepted for the new epoch, stored for 2); 2->1 resumes")
	case "send-error-exit":
		// C24/C25 sentinel: the handler's write fails (strm.Send returns an error): the call must end,
		// and its cleanup must leave the relay as if the call had been cancelled (partner told Closed,
		// want withdrawn, listener state released; a successor starts clean).
		switch n % 3 {
		case 0: // a Session call fails while forwarding a message
			a := w.newSession(1, 2)
			b := w.newSession(2, 1)
			w.newListen(2)
			q()
			w.submit(b, "fail-send")
			w.submit(a, "send")
			q()
			b.mtx.Lock()
			be := b.sendErrs
			b.mtx.Unlock()
			w.expectEnded(b.id, "session", b.alive(), be)
			b2 := w.newSession(2, 1)
			q()
			w.submit(a, "send")
			q()
			w.submit(b2, "ack")
			act("listen 2; attach 1->2, 2->1; the next write to 2->1 fails; send on 1->2 (the relay's RecvMsg write fails); 2 re-attaches; send on 1->2; ack")
		case 1: // a Listen call fails while announcing a peer
			l := w.newListen(2)
			q()
			l.mtx.Lock()
			l.failSend = true
			l.mtx.Unlock()
			w.newSession(1, 2)
			q()
			l.mtx.Lock()
			le := l.sendErrs
			l.mtx.Unlock()
			w.expectEnded(l.id, "listen", l.alive(), le)
			w.newListen(2)
			q()
			w.newSession(3, 2)
			act("listen 2; its next write fails; open 1->2 (the SetPeer write fails); listen 2 again; open 3->2")
		case 2: // the very first write (Opened) of a Session call fails; a withdrawal write of a Listen call fails
			a := w.newSession(1, 2)
			l := w.newListen(1)
			q()
			b := w.newSessionOpt(2, 1, false)
			_ = b
			q()
			l.mtx.Lock()
			l.failSend = true
			l.mtx.Unlock()
			w.submit(a, "fail-send")
			b.kill() // A is to be told Closed: that write fails; the listener is to be told ClearPeer 2: that write fails
			q()
			a.mtx.Lock()
			ae := a.sendErrs
			a.mtx.Unlock()
			w.expectEnded(a.id, "session", a.alive(), ae)
			l.mtx.Lock()
			le := l.sendErrs
			l.mtx.Unlock()
			w.expectEnded(l.id, "listen", l.alive(), le)
			w.newListen(1)
			w.newSession(2, 1)
			w.newSession(1, 2)
			act("attach 1->2; listen 1; attach 2->1; the next writes to 1->2 and to the listener fail; 2->1 is cancelled (Closed / ClearPeer writes fail); listen 1, attach 2->1, attach 1->2 again")
		}
	case "ident-mounted", "ident-callback":
		// C20: identity of a stream (mounted stream context / ident callback) and requests before Init
		firsts := append([]string(nil), rawFirsts...)
		e.rng.Shuffle(len(firsts), func(i, j int) { firsts[i], firsts[j] = firsts[j], firsts[i] })
		b := w.newSession(2, 1)
		w.newListen(2)
		q()
		for _, f := range firsts {
			w.newSessionRaw(1, 2, f)
			act("session call as 1 with first request " + f)
			w.jitter()
		}
		if ident == "mounted" {
			w.newSessionRaw(0, 2, "no-ident")
			w.newListenAs(2, 0)
			act("session call and listen call on streams without a mounted stream context")
		}
		q()
		a := w.newSession(1, 2)
		q()
		w.submit(a, "send")
		q()
		w.submit(b, "ack")
		act("attach 1->2; send; ack")
	default: // random
		hub := 1 + e.rng.Intn(nPeers)
		for i := 0; i < n; i++ {
			live := []*sessStream{}
			for _, s := range w.scalls {
				if s.alive() && !s.closedRx {
					live = append(live, s)
				}
			}
			r := e.rng.Intn(100)
			switch {
			case r < 18 || len(live) == 0:
				src := 1 + e.rng.Intn(nPeers)
				dst := hub // sessions towards a common peer: its listener has several wanting peers
				if e.rng.Intn(3) == 0 {
					dst = 1 + e.rng.Intn(nPeers)
				}
				if src == dst {
					dst = 1 + dst%nPeers
				}
				if e.rng.Intn(2) == 0 { // bias to the 1<->2 pair
					src = 1 + e.rng.Intn(2)
					dst = 3 - src
				}
				w.newSession(src, dst)
				act(fmt.Sprintf("attach %d->%d", src, dst))
			case r < 25:
				p := hub
				if e.rng.Intn(3) == 0 {
					p = 1 + e.rng.Intn(nPeers)
				}
				w.newListen(p)
				act(fmt.Sprintf("listen %d", p))
			case r < 27:
				var ss []*sessStream
				for _, x := range w.scalls {
					if x.alive() {
						ss = append(ss, x)
					}
				}
				if len(ss) > 0 {
					x := ss[e.rng.Intn(len(ss))]
					if e.rng.Intn(2) == 0 {
						x.holdSends()
						act(fmt.Sprintf("slow client on session call %d", x.id))
					} else {
						x.release()
						act(fmt.Sprintf("release session call %d", x.id))
					}
				}
			case r < 29:
				var ll []*listenStream
				for _, l := range w.lcalls {
					if l.alive() {
						ll = append(ll, l)
					}
				}
				if len(ll) > 0 {
					l := ll[e.rng.Intn(len(ll))]
					if e.rng.Intn(2) == 0 {
						l.holdSends()
						act(fmt.Sprintf("slow client on listen call %d", l.id))
					} else {
						l.release()
						act(fmt.Sprintf("release listen call %d", l.id))
					}
				}
			case r < 31:
				var ll []*listenStream
				for _, l := range w.lcalls {
					if l.alive() {
						ll = append(ll, l)
					}
				}
				if len(ll) > 0 {
					l := ll[e.rng.Intn(len(ll))]
					if e.rng.Intn(3) == 0 {
						l.mtx.Lock()
						l.failSend = true
						l.mtx.Unlock()
						act(fmt.Sprintf("the next write to listen call %d fails", l.id))
					} else {
						l.kill()
						act(fmt.Sprintf("cancel listen call %d", l.id))
					}
				}
			case r < 33:
				f := rawFirsts[e.rng.Intn(len(rawFirsts))]
				src := 1 + e.rng.Intn(nPeers)
				w.newSessionRaw(src, 1+src%nPeers, f)
				act("session call with first request " + f)
			default:
				s := live[e.rng.Intn(len(live))]
				kinds := []string{"send", "send", "send", "send", "send", "ack", "ack", "ack", "clear", "send-stale", "send-future", "send-forged-key", "send-tampered", "init-again", "close-rx", "cancel", "cancel", "send-keyed",
					"ack-prev", "clear", "send-resigned", "send-variant"}
				if e.rng.Intn(25) == 0 {
					k0 := []string{"fail-send", "send-resigned-stale"}
					kinds = k0
				}
				k := kinds[e.rng.Intn(len(kinds))]
				if k == "send-variant" && s.lastSubAuth == nil {
					k = "send-resigned"
				}
				if k == "send-variant" {
					// a variant of the stream's last honest message, same or next message seqno
					k = "send-variant:" + variantFields[e.rng.Intn(len(variantFields))] + ":" + []string{"same", "fresh"}[e.rng.Intn(2)]
				}
				if e.rng.Intn(12) == 0 {
					fk := append(forgedKinds(), "send-nil-msg", "empty-request")
					k = fk[e.rng.Intn(len(fk))]
				}
				w.submit(s, k)
				act(fmt.Sprintf("%s on call %d", k, s.id))
			}
			w.jitter()
		}
	}
	for _, l := range w.lcalls {
		l.release()
	}
	for _, x := range w.scalls {
		x.release()
	}
	w.quiesce(2 * time.Millisecond)
	e.validate(w, kind, actions, false)
	// drain: end every call, then the relay must hold no state
	for _, s := range w.scalls {
		s.kill()
	}
	for _, s := range w.raws {
		s.kill()
	}
	for _, l := range w.lcalls {
		l.kill()
	}
	for _, l := range w.rawl {
		l.kill()
	}
	for _, s := range append(append([]*sessStream(nil), w.scalls...), w.raws...) {
		select {
		case <-s.done:
		case <-time.After(3 * time.Second):
			w.mon = append(w.mon, fmt.Sprintf("session call %d did not return after cancel", s.id))
		}
	}
	for _, l := range append(append([]*listenStream(nil), w.lcalls...), w.rawl...) {
		select {
		case <-l.done:
		case <-time.After(3 * time.Second):
			w.mon = append(w.mon, fmt.Sprintf("listen call %d did not return after cancel", l.id))
		}
	}
	e.validate(w, kind, actions, true)
}

// observe evaluates the model-independent monitors on what the real server did: the responses
// it sent, the errors its handlers returned, its own hook lines (event order, its own usurp
// decisions, its last logged state). Nothing here depends on the Lean replay.
func (e *engine) observe(w *world, kind string, drained bool, cerr string) (mon, key string) {
	key = "sigsrv.trace:" + kind
	set := func(k, m string) {
		if mon == "" {
			mon = m
			if k != "" {
				key = k
			}
		}
	}
	lines := w.lines()
	facts := sigtrace.ReadFacts(lines, e.pidIx, w.calls)
	// ---- C20 / C22: the traffic every stream received ----
	subByWire := map[string]*submission{}
	w.mtx.Lock()
	for _, s := range w.subs {
		if len(s.wire) != 0 {
			subByWire[string(s.wire)] = s
		}
	}
	w.mtx.Unlock()
	for _, s := range w.scalls {
		s.mtx.Lock()
		var lastOpen uint64
		open := false
		prevOpen := uint64(0)
		for _, r := range s.resps {
			switch b := r.GetBody().(type) {
			case *signaling.SessionResponse_Opened:
				if b.Opened <= prevOpen {
					set("", fmt.Sprintf("call %d: session epochs announced out of order (%d after %d)", s.id, b.Opened, prevOpen))
				}
				prevOpen, lastOpen, open = b.Opened, b.Opened, true
			case *signaling.SessionResponse_Closed:
				open = false
			case *signaling.SessionResponse_RecvMsg:
				// direct statement of C20 on the forwarded message itself (stdlib only): it must verify
				// under the key of the identity of the stream that submitted it (the partner of this
				// call's session) over the body it carries, and name that identity as its sender
				if !sigoracle.AuthenticFrom(e.keys[s.dst], b.RecvMsg) {
					set("sigsrv.forward:forged", fmt.Sprintf("call %d (%d->%d): the relay forwarded a message (seqno %d, sender field names peer %d) that does not verify under the submitting stream's identity (peer %d) over that body with the stdlib",
						s.id, s.src, s.dst, b.RecvMsg.GetSeqno(), e.pidIx[sigoracle.From(b.RecvMsg)], s.dst))
				}
				wire, _ := b.RecvMsg.MarshalVT()
				sub := subByWire[string(wire)]
				switch {
				case sub == nil:
					set("", fmt.Sprintf("call %d received a message nobody submitted", s.id))
				case !sub.authentic:
					set("sigsrv.forward:forged", fmt.Sprintf("call %d (%d->%d) was forwarded a message that is not authentic (submission kind %s)", s.id, s.src, s.dst, sub.kind))
				case sub.src != s.dst || sub.dst != s.src:
					set("", fmt.Sprintf("call %d (%d->%d) was forwarded a message submitted on session %d->%d", s.id, s.src, s.dst, sub.src, sub.dst))
				case !open:
					set("", fmt.Sprintf("call %d was forwarded a message while the session was announced closed", s.id))
				case sub.epoch != lastOpen:
					set("sigsrv.forward:cross-epoch", fmt.Sprintf("call %d: message submitted in epoch %d delivered in epoch %d", s.id, sub.epoch, lastOpen))
				}
			}
		}
		s.mtx.Unlock()
	}
	// ---- C21 (relay side): acknowledgements and withdrawals name their message ----
	// Stated on the traffic alone: an AckMsg(k) / ClearMsg(k) is transmitted to a stream only if a
	// stream of its partner (the reverse ordered pair) had submitted an AckMsg / ClearMsg request
	// naming exactly k before (position in the event log at submission), and every request
	// justifies at most one transmission. A relay that turns the acknowledgement of one message
	// into the acknowledgement of another, or invents one, transmits a value nobody named.
	{
		pair := map[int][2]int{}
		for _, x := range w.scalls {
			pair[x.id] = [2]int{x.src, x.dst}
		}
		w.mtx.Lock()
		reqs := append([]reqRec(nil), w.reqs...)
		w.mtx.Unlock()
		used := make([]bool, len(reqs))
		for i, line := range lines {
			if !strings.HasPrefix(line, "TX tx,") {
				continue
			}
			var kind string
			switch {
			case strings.Contains(line, ",r=ack,"):
				kind = "ack"
			case strings.Contains(line, ",r=clear,"):
				kind = "clear"
			default:
				continue
			}
			c, _ := strconv.Atoi(txField(line, "c"))
			k, _ := strconv.ParseUint(txField(line, "v"), 10, 64)
			to := pair[c]
			found := false
			var named []string
			for j, r := range reqs {
				if r.kind != kind || r.at > i || pair[r.call] != [2]int{to[1], to[0]} {
					continue
				}
				named = append(named, strconv.FormatUint(r.k, 10))
				if !used[j] && r.k == k && !found {
					used[j], found = true, true
				}
			}
			if !found {
				what := map[string]string{"ack": "an acknowledgement", "clear": "a withdrawal"}[kind]
				set("sigsrv.ackclear:"+kind, fmt.Sprintf("call %d (%d->%d) was sent %s of message %d, but no stream of its partner had submitted a (not yet consumed) %s request naming message %d before; the partner's %s requests until then named [%s]", c, to[0], to[1], what, k, kind, k, kind, strings.Join(named, " ")))
			}
		}
	}
	for _, f := range w.expects {
		if k, m := f(); m != "" {
			set(k+kind, m)
		}
	}
	// ---- C24 / C25: a handler whose write failed stops writing and returns ----
	for _, s := range w.scalls {
		s.mtx.Lock()
		again := s.sendsAfterErr
		s.mtx.Unlock()
		if again > 0 {
			set("sigsrv.send-error:"+kind, fmt.Sprintf("session call %d (%d->%d): a write on its stream returned an error, yet the handler wrote %d more responses instead of returning", s.id, s.src, s.dst, again))
		}
	}
	for _, l := range w.lcalls {
		l.mtx.Lock()
		again := l.sendsAfterErr
		l.mtx.Unlock()
		if again > 0 {
			set("sigsrv.send-error:"+kind, fmt.Sprintf("listen call %d for peer %d: a write on its stream returned an error, yet the handler wrote %d more responses instead of returning", l.id, l.pid, again))
		}
	}
	// ---- C20: calls that must be refused before anything is registered ----
	for _, s := range w.raws {
		what := "whose first request was " + s.first
		if s.first == "no-ident" {
			what = "on a stream without any authenticated identity"
		}
		s.mtx.Lock()
		nresp := len(s.resps)
		s.mtx.Unlock()
		switch {
		case facts.Events[s.id] != 0:
			set("sigsrv.init:"+s.first, fmt.Sprintf("session call %d %s was registered by the relay (%d critical sections logged) instead of being refused", s.id, what, facts.Events[s.id]))
		case nresp != 0:
			set("sigsrv.init:"+s.first, fmt.Sprintf("session call %d %s was sent %d responses instead of being refused", s.id, what, nresp))
		case s.alive():
			set("sigsrv.init:"+s.first, fmt.Sprintf("session call %d %s is still running instead of being refused", s.id, what))
		case s.err == nil:
			set("sigsrv.init:"+s.first, fmt.Sprintf("session call %d %s returned without an error", s.id, what))
		}
	}
	for _, l := range w.rawl {
		l.mtx.Lock()
		nresp := len(l.resps)
		l.mtx.Unlock()
		if facts.Events[l.id] != 0 || nresp != 0 || l.alive() || l.err == nil {
			set("sigsrv.init:listen-no-ident", fmt.Sprintf("listen call %d on a stream without any authenticated identity was not refused (events=%d responses=%d running=%v)", l.id, facts.Events[l.id], nresp, l.alive()))
		}
	}
	// newer registration of the same ordered pair / the same listening peer, by the server's own event order
	sessReplacedBy := func(s *sessStream) int {
		at, ok := facts.InitAt[s.id]
		if !ok {
			return 0
		}
		best := 0
		for c, a := range facts.InitAt {
			if c != s.id && a > at && facts.Pair[c] == facts.Pair[s.id] {
				best = c
			}
		}
		return best
	}
	listenReplacedBy := func(l *listenStream) int {
		at, ok := facts.LRegAt[l.id]
		if !ok {
			return 0
		}
		best := 0
		for c, a := range facts.LRegAt {
			if c != l.id && a > at && facts.LPid[c] == facts.LPid[l.id] {
				best = c
			}
		}
		return best
	}
	if !drained {
		// quiescent state vs announcements and listeners (property statements, from the real server's last logged state)
		final := w.lastSnap
		parts := strings.SplitN(final, "#", 2)
		liveSess := map[[2]int]*sessStream{}
		dup := false
		for _, s := range w.scalls {
			if s.alive() {
				if _, ok := liveSess[[2]int{s.src, s.dst}]; ok {
					dup = true
				}
				liveSess[[2]int{s.src, s.dst}] = s
			}
		}
		if dup {
			set("sigsrv.unique:"+kind, "two session calls for the same ordered peer pair are still active at quiescence")
		}
		liveListen := map[int]int{}
		for _, l := range w.lcalls {
			if l.alive() {
				liveListen[l.pid]++
			}
		}
		for p, c := range liveListen {
			if c > 1 {
				set("sigsrv.unique:"+kind, fmt.Sprintf("%d listen calls for peer %d are still active at quiescence", c, p))
			}
		}
		// C22: every attached peer whose partner is attached has been told the current epoch; and
		// (lost wake-up, read off the server's own state) nothing relayed is left undelivered
		if cerr == "" && len(parts) == 2 && parts[1] != "" {
			for _, se := range strings.Split(parts[1], "|") {
				f := strings.Split(se, ":")
				seqno, _ := strconv.ParseUint(f[1], 10, 64)
				for _, at := range f[2:4] {
					if at == "nil" {
						continue
					}
					af := strings.Split(at, "/")
					c, _ := strconv.Atoi(af[0])
					var cs *sessStream
					for _, s := range w.scalls {
						if s.id == c {
							cs = s
						}
					}
					if cs == nil || !cs.alive() {
						continue
					}
					lo, open := cs.lastOpened()
					both := f[2] != "nil" && f[3] != "nil"
					if both && (!open || lo != seqno) {
						set("sigsrv.announce:"+kind, fmt.Sprintf("both peers are attached at epoch %d but call %d (%d->%d) was last told open=%v epoch=%d", seqno, c, cs.src, cs.dst, open, lo))
					}
					if !both && open {
						set("sigsrv.announce:"+kind, fmt.Sprintf("partner of call %d is detached but the call was never told the session closed", c))
					}
					if both && len(af) == 5 && af[1] != "-" {
						set("sigsrv.wakeup:"+kind, fmt.Sprintf("lost wake-up: the relay is quiescent with message %s stored for the running call %d (%d->%d) and never transmitted to it", af[1], c, cs.src, cs.dst))
					}
					if both && len(af) == 5 && af[4] != "-" {
						set("sigsrv.wakeup:"+kind, fmt.Sprintf("lost wake-up: the relay is quiescent with the acknowledgement of message %s stored for the running call %d (%d->%d) and never transmitted to it", af[4], c, cs.src, cs.dst))
					}
				}
			}
		}
		// C24: announced-minus-withdrawn equals the peers with a live session request
		for _, l := range w.lcalls {
			if !l.alive() {
				continue
			}
			told := map[int]bool{}
			l.mtx.Lock()
			for _, r := range l.resps {
				switch b := r.GetBody().(type) {
				case *signaling.ListenResponse_SetPeer:
					told[e.pidIx[b.SetPeer]] = true
				case *signaling.ListenResponse_ClearPeer:
					delete(told, e.pidIx[b.ClearPeer])
				}
			}
			l.mtx.Unlock()
			want := map[int]bool{}
			for k := range liveSess {
				if k[1] == l.pid {
					want[k[0]] = true
				}
			}
			if fmt.Sprint(keys(told)) != fmt.Sprint(keys(want)) {
				set("sigsrv.listen:"+kind, fmt.Sprintf("listener for peer %d (call %d) was told %v but the peers holding a session request towards it are %v", l.pid, l.id, keys(told), keys(want)))
			}
		}
		// C25: a call replaced by a newer one has ended with the replaced error; a call nobody
		// cancelled, closed, poisoned or replaced is still running
		// C20: a stream that submitted a request the relay must refuse (a message that is not
		// authentic, a message for a NEWER epoch than the relay's, a second Init, an empty request)
		// has been FAILED: its handler has returned with an error. Stated on the call's own outcome.
		// "newer than the server's": judged against the epoch the server itself logged in the
		// critical section that handled the message (hook field sessq), not against what the
		// harness believes the epoch to be
		future := map[int]bool{}
		for _, line := range lines {
			if !strings.HasPrefix(line, "ev=send ") {
				continue
			}
			a, _ := strconv.ParseUint(hookKV(line, "a"), 10, 64)
			sq, _ := strconv.ParseUint(hookKV(line, "sessq"), 10, 64)
			if c, ok := w.calls[hookKV(line, "call")]; ok && a > sq {
				future[c] = true
			}
		}
		for _, s := range w.scalls {
			s.mtx.Lock()
			poison, killed, sendErrs := s.poison, s.killed, s.sendErrs
			s.mtx.Unlock()
			if poison == "send-future" && !future[s.id] {
				poison = "" // the relay's epoch had moved past it: a stale message, dropped silently
			}
			if poison == "" && future[s.id] {
				poison = "send-future"
			}
			switch {
			case poison != "" && !killed && s.alive():
				set("sigsrv.poison:"+poisonClass(poison), fmt.Sprintf("session call %d (%d->%d) submitted %s, which the relay must answer by failing the stream, but the call is still running at quiescence", s.id, s.src, s.dst, poison))
			case poison != "" && !killed && s.err == nil:
				set("sigsrv.poison:"+poisonClass(poison), fmt.Sprintf("session call %d (%d->%d) submitted %s, which the relay must answer by failing the stream, but the call returned without an error", s.id, s.src, s.dst, poison))
			case sendErrs > 0 && s.alive():
				set("sigsrv.send-error:"+kind, fmt.Sprintf("session call %d (%d->%d): a write on its stream returned an error but the call is still running at quiescence", s.id, s.src, s.dst))
			}
		}
		for _, l := range w.lcalls {
			l.mtx.Lock()
			sendErrs := l.sendErrs
			l.mtx.Unlock()
			if sendErrs > 0 && l.alive() {
				set("sigsrv.send-error:"+kind, fmt.Sprintf("listen call %d for peer %d: a write on its stream returned an error but the call is still running at quiescence", l.id, l.pid))
			}
		}
		for _, s := range w.scalls {
			s.mtx.Lock()
			excused := s.killed || s.closedRx || s.poison != "" || s.sendErrs > 0
			s.mtx.Unlock()
			if excused {
				continue
			}
			by := sessReplacedBy(s)
			switch {
			case by != 0 && s.alive():
				set("sigsrv.replaced:"+kind, fmt.Sprintf("session call %d (%d->%d) was replaced by the newer call %d but is still running at quiescence", s.id, s.src, s.dst, by))
			case by != 0 && !errors.Is(s.err, signaling.ErrUserpedSession):
				set("sigsrv.replaced:"+kind, fmt.Sprintf("session call %d (%d->%d) was replaced by the newer call %d but ended with %q instead of the replaced error", s.id, s.src, s.dst, by, fmt.Sprint(s.err)))
			case by == 0 && !s.alive():
				set("sigsrv.early-return:"+kind, fmt.Sprintf("session call %d (%d->%d) returned by itself (%q) although it was neither cancelled, closed, replaced nor sent an invalid request", s.id, s.src, s.dst, fmt.Sprint(s.err)))
			}
		}
		for _, l := range w.lcalls {
			l.mtx.Lock()
			excused := l.killed || l.sendErrs > 0
			l.mtx.Unlock()
			if excused {
				continue
			}
			by := listenReplacedBy(l)
			switch {
			case by != 0 && l.alive():
				set("sigsrv.replaced:"+kind, fmt.Sprintf("listen call %d for peer %d was replaced by the newer call %d but is still running at quiescence", l.id, l.pid, by))
			case by != 0 && !errors.Is(l.err, signaling.ErrUserpedListen):
				set("sigsrv.replaced:"+kind, fmt.Sprintf("listen call %d for peer %d was replaced by the newer call %d but ended with %q instead of the replaced error", l.id, l.pid, by, fmt.Sprint(l.err)))
			case by == 0 && !l.alive():
				set("sigsrv.early-return:"+kind, fmt.Sprintf("listen call %d for peer %d returned by itself (%q) although it was neither cancelled nor replaced", l.id, l.pid, fmt.Sprint(l.err)))
			}
		}
	}
	if drained {
		np, ns := w.srv.VerifCounts()
		if np != 0 || ns != 0 {
			set("sigsrv.drain:"+kind, fmt.Sprintf("all calls have ended but the relay still holds %d peer trackers and %d session trackers", np, ns))
		}
		for _, m := range w.mon {
			set("", m)
		}
		// C25 "keeps no per-peer or per-session state": every container field of the Server value
		// itself (whatever it is called) is empty, and no goroutine of the relay package is left
		if left := containerLens(w.srv); left != "" {
			set("sigsrv.drain:"+kind, "all calls have ended but the relay's Server value still holds state: "+left)
		}
		if n, sample := relayGoroutines(); n > w.goBase {
			for t0 := time.Now(); n > w.goBase && time.Since(t0) < 1500*time.Millisecond; {
				time.Sleep(2 * time.Millisecond)
				n, sample = relayGoroutines()
			}
			if n > w.goBase {
				set("sigsrv.drain:"+kind, fmt.Sprintf("all calls have ended and returned but %d goroutine(s) started by the relay are still alive (before the scenario: %d), e.g. %s", n, w.goBase, sample))
			}
		}
		// C25 "the older one ends with a replaced error": exactly the calls the SERVER decided were
		// replaced (its write loop found another attachment on its side / its listen loop found a
		// newer nonce) end with ErrUserpedSession / ErrUserpedListen, and no other call does
		for _, s := range w.scalls {
			if s.alive() {
				continue
			}
			is := errors.Is(s.err, signaling.ErrUserpedSession)
			switch {
			case facts.SessUsurped[s.id] && !is:
				set("sigsrv.replaced-error:"+kind, fmt.Sprintf("session call %d (%d->%d) found itself replaced but ended with %q instead of ErrUserpedSession", s.id, s.src, s.dst, fmt.Sprint(s.err)))
			case !facts.SessUsurped[s.id] && is:
				set("sigsrv.replaced-error:"+kind, fmt.Sprintf("session call %d (%d->%d) ended with ErrUserpedSession although it never found itself replaced", s.id, s.src, s.dst))
			case is && sessReplacedBy(s) == 0:
				set("sigsrv.replaced-error:"+kind, fmt.Sprintf("session call %d (%d->%d) ended with ErrUserpedSession although no newer call of that pair had registered", s.id, s.src, s.dst))
			case errors.Is(s.err, signaling.ErrUserpedListen):
				set("sigsrv.replaced-error:"+kind, fmt.Sprintf("session call %d ended with the listen error", s.id))
			}
		}
		for _, l := range w.lcalls {
			if l.alive() {
				continue
			}
			is := errors.Is(l.err, signaling.ErrUserpedListen)
			switch {
			case facts.ListenUsurped[l.id] && !is:
				set("sigsrv.replaced-error:"+kind, fmt.Sprintf("listen call %d for peer %d found itself replaced but ended with %q instead of ErrUserpedListen", l.id, l.pid, fmt.Sprint(l.err)))
			case !facts.ListenUsurped[l.id] && is:
				set("sigsrv.replaced-error:"+kind, fmt.Sprintf("listen call %d for peer %d ended with ErrUserpedListen although it never found itself replaced", l.id, l.pid))
			}
		}
	}
	// C25: a Listen call may only be told it was replaced when a newer Listen call for the same
	// peer registered after it (read off the real server's own event order, not the model)
	for _, l := range w.lcalls {
		if facts.ListenUsurped[l.id] && listenReplacedBy(l) == 0 {
			set("sigsrv.listen-replaced:"+kind, fmt.Sprintf("listen call %d for peer %d was ended as replaced although no newer Listen call for that peer had registered", l.id, l.pid))
		}
	}
	return mon, key
}

func (e *engine) validate(w *world, kind string, actions []string, drained bool) {
	phase := "quiescent"
	if drained {
		phase = "drained"
	}
	var trace, cerr, op, model, mon, key string
	pending := func() bool {
		return strings.HasPrefix(model, "ok ") && (lib.KV(model, "awake") != "_" || lib.KV(model, "failing") != "_" || lib.KV(model, "pendingtx") != "_")
	}
	// A verdict is taken at quiescence. If the model still sees pending wake-ups, or a monitor on
	// the real observations fires, or the replay has diverged, settle longer and look again
	// (scheduling latency): what is reported is what persists.
	waits := []time.Duration{20, 60, 150, 400, 1000}
	if !drained {
		// calls that must be refused log nothing: give their handlers time to return
		deadline := time.After(2 * time.Second)
		for _, s := range w.raws {
			select {
			case <-s.done:
			case <-deadline:
			}
		}
		for _, l := range w.rawl {
			select {
			case <-l.done:
			case <-deadline:
			}
		}
	}
	for attempt := 0; ; attempt++ {
		trace, cerr = w.canonical()
		op = "sig.trace evs=" + trace
		if cerr != "" {
			model = "harness-error " + cerr
		} else {
			model = e.m.Query(op)
		}
		mon, key = e.observe(w, kind, drained, cerr)
		again := false
		switch {
		case attempt >= len(waits):
		case pending():
			again = true
		case mon != "" && attempt < 3:
			again = true
		case !strings.HasPrefix(model, "ok ") && attempt < 1:
			again = true
		}
		if !again {
			break
		}
		w.quiesce(waits[attempt] * time.Millisecond / 3)
	}
	impl := "ok"
	if !strings.HasPrefix(model, "ok ") {
		impl = "trace-accepted-by-real-server"
	} else {
		if aw := lib.KV(model, "awake"); aw != "_" && mon == "" {
			mon = "lost wake-up: the server is quiescent but calls " + aw + " have an unannounced state change pending (their write loop was not woken)"
			key = "sigsrv.wakeup:" + kind
		}
		if f := lib.KV(model, "failing"); f != "_" && mon == "" {
			mon = "calls " + f + " should have returned (usurped / protocol error) but are still running"
		}
		if p := lib.KV(model, "pendingtx"); p != "_" && mon == "" {
			mon = "calls " + p + " decided on responses in their last loop iteration that were never transmitted although the server is quiescent"
			key = "sigsrv.pendingtx:" + kind
		}
	}
	br := "trace." + kind + "." + phase
	mshort := model
	if strings.HasPrefix(model, "ok ") {
		mshort = "ok"
	}
	opShort := "sig.trace[" + phase + "] actions=" + strings.Join(actions, "; ")
	if mshort != impl || mon != "" {
		opShort = op
	}
	e.rep.Case(opShort, mshort, impl, br, true)
	if mshort != impl || mon != "" {
		d := lib.Disagreement{Op: lib.Trunc(strings.Join(actions, "; ")) + " || " + op, Model: model, Impl: impl, Branch: br, Key: key}
		if len(d.Op) > 6000 {
			d.Op = d.Op[:6000] + "…"
		}
		if mon != "" {
			d.Monitor, d.What = "confirmed", mon
		} else {
			d.Monitor, d.What = "unconfirmed", "the real server took a step that is not a step of the model: "+lib.Trunc(model)
		}
		e.rep.Disagree(d)
	}
	e.rep.Extra["events"] = e.rep.Extra["events"].(int) + strings.Count(trace, ";") + 1
}

// hookKV reads a key=value field of a hook line.
func hookKV(line, k string) string {
	i := strings.Index(line, " "+k+"=")
	if i < 0 {
		return ""
	}
	rest := line[i+len(k)+2:]
	if j := strings.IndexByte(rest, ' '); j >= 0 {
		rest = rest[:j]
	}
	return rest
}

// txField reads a field of a "TX tx,c=..,r=..,v=.." line.
func txField(line, k string) string {
	for _, f := range strings.Split(strings.TrimPrefix(line, "TX "), ",") {
		if strings.HasPrefix(f, k+"=") {
			return f[len(k)+1:]
		}
	}
	return ""
}

// poisonClass groups the refused submissions for the finding key.
func poisonClass(p string) string {
	switch p {
	case "send-future", "init-again", "empty-request":
		return p
	}
	return "forged"
}

// containerLens walks the Server struct by reflection and reports every map / slice / channel
// field that is not empty (fields are read by length only; no bifrost code is called).
func containerLens(srv any) string {
	v := reflect.ValueOf(srv)
	for v.Kind() == reflect.Pointer {
		v = v.Elem()
	}
	if v.Kind() != reflect.Struct {
		return ""
	}
	var out []string
	for i := 0; i < v.NumField(); i++ {
		f := v.Field(i)
		switch f.Kind() {
		case reflect.Map, reflect.Slice, reflect.Chan:
			if f.Len() != 0 {
				out = append(out, fmt.Sprintf("%s has %d entries", v.Type().Field(i).Name, f.Len()))
			}
		case reflect.Pointer, reflect.Interface:
			// a pointer to a container (e.g. *sync.Map is opaque; a *map / *[]T is followed)
			if !f.IsNil() && f.Kind() == reflect.Pointer {
				if e := f.Elem(); e.Kind() == reflect.Map || e.Kind() == reflect.Slice {
					if e.Len() != 0 {
						out = append(out, fmt.Sprintf("*%s has %d entries", v.Type().Field(i).Name, e.Len()))
					}
				}
			}
		}
	}
	return strings.Join(out, "; ")
}

var stackBuf = make([]byte, 1<<20)

// relayGoroutines counts the goroutines whose stack has a frame in the relay package (handlers,
// their read goroutines and anything they started), and returns the top frame of one of them.
func relayGoroutines() (int, string) {
	var n int
	for {
		n = runtime.Stack(stackBuf, true)
		if n < len(stackBuf) {
			break
		}
		stackBuf = make([]byte, 2*len(stackBuf))
	}
	cnt, sample := 0, ""
	for _, g := range strings.Split(string(stackBuf[:n]), "\n\n") {
		if i := strings.Index(g, "signaling/rpc/server."); i >= 0 {
			cnt++
			if sample == "" {
				rest := g[i:]
				if j := strings.IndexByte(rest, '\n'); j >= 0 {
					rest = rest[:j]
				}
				sample = rest
			}
		}
	}
	return cnt, sample
}

func keys(m map[int]bool) []int {
	var l []int
	for k := range m {
		l = append(l, k)
	}
	sort.Ints(l)
	return l
}

func (e *engine) run() {
	e.rep.Rule = "seeded random schedules of client actions (attach/usurp/send/stale/future/forged/tampered and hand-assembled submissions: foreign or victim key attached, other signing context, unsigned, empty signature, nil body, nil message; ack/clear/re-init/close/cancel/listen/invalid first requests) among five peers on the real relay server (identity by callback or by mounted stream context) through fake streams with jitter; every server critical section + every response is replayed against the Lean LTS; monitors on the real traffic, returned errors and logged state are evaluated whether or not the replay diverged; sentinels: detach+re-attach and usurp while the partner stays (F10), late attach with a single sender (F9), listen across open/close/re-open (F8), listen usurp followed by session opens, overlapping session calls of one pair, every forgery class in the current epoch with the partner attached, requests before Init / streams without identity; distinct = distinct schedule"
	e.rep.Require("trace.random.quiescent", "trace.random.drained", "trace.reattach-race.quiescent", "trace.late-attach.quiescent", "trace.listen-reopen.quiescent", "trace.listen-swap.quiescent", "trace.usurp-while-partner-blocked.quiescent", "trace.listen-stale-cleanup.quiescent",
		"trace.listen-usurp-open.quiescent", "trace.session-overlap.quiescent", "trace.listen-many.quiescent", "trace.forgery-classes.quiescent", "trace.ident-mounted.quiescent", "trace.ident-callback.quiescent", "trace.session-overlap.drained", "trace.listen-usurp-open.drained")
	e.rep.Require("trace.resigned-copy.quiescent", "trace.stale-ack.quiescent", "trace.stored-then-stale.quiescent", "trace.send-error-exit.quiescent", "trace.send-error-exit.drained")
	e.rep.Extra["events"] = 0
	e.rep.Extra["withdrawals_held_at_quiescence"] = 0
	e.rep.Require("trace.variant-after-honest.quiescent")
	e.scenario("resigned-copy", 1)
	for i := 0; i < 3; i++ {
		e.scenario("variant-after-honest", i)
	}
	e.scenario("stale-ack", 1)
	for i := 0; i < 2; i++ {
		e.scenario("stored-then-stale", i)
	}
	for i := 0; i < 3; i++ {
		e.scenario("send-error-exit", i)
	}
	// wave 5: late exit of a superseded Session handler at three points of the successor's exchange
	e.rep.Require("trace.superseded-late-exit.quiescent")
	for i := 0; i < 3; i++ {
		e.scenario("superseded-late-exit", i)
	}
	// wave 6: the receiver's handler parked in a Send across a re-open, a message accepted for the
	// new epoch before it resumes (own random stream: the other schedules of a seed stay what they were)
	e.rep.Require("trace.stalled-reopen.quiescent")
	{
		saved := e.rng
		e.rng = lib.NewRng(e.a.Seed ^ 0x7374616c)
		for i := 0; i < 4; i++ {
			e.scenario("stalled-reopen", i)
		}
		e.rng = saved
	}
	e.scenario("late-attach", 1)
	e.scenario("listen-reopen", 2)
	e.scenario("usurp-while-partner-blocked", 1)
	e.scenario("listen-swap", 1)
	e.scenario("listen-stale-cleanup", 1)
	for i := 0; i < 3*e.a.Scale; i++ {
		e.scenario("listen-usurp-open", i)
	}
	for i := 0; i < 2*e.a.Scale; i++ {
		e.scenario("session-overlap", i+2*e.rng.Intn(3))
	}
	e.scenario("forgery-classes", 1)
	e.scenario("ident-mounted", 1)
	e.scenario("ident-callback", 1)
	for i := 0; i < 2*e.a.Scale; i++ {
		e.scenario("listen-many", 10+e.rng.Intn(15))
	}
	for i := 0; i < 3*e.a.Scale; i++ {
		e.scenario("reattach-race", 2+e.rng.Intn(3))
	}
	n := 40 * e.a.Scale
	for i := 0; i < n; i++ {
		e.scenario("random", 6+e.rng.Intn(20))
	}
}

func main() {
	a := lib.ParseArgs()
	lg := logrus.New()
	lg.SetLevel(logrus.PanicLevel)
	lg.SetOutput(io.Discard)
	e := &engine{a: a, rng: lib.NewRng(a.Seed), m: lib.NewModel(a.Driver), le: logrus.NewEntry(lg), pidIx: map[string]int{}}
	e.rep = lib.NewReport("sigsrv", a)
	// the peers, indexed in the order of their peer id strings (the server's session key order)
	var kps []*sigoracle.Key
	for i := 0; i < nPeers; i++ {
		kps = append(kps, sigoracle.NewKey(e.rng.Bytes(32)))
	}
	sort.Slice(kps, func(i, j int) bool { return kps[i].IDStr < kps[j].IDStr })
	e.keys = []*sigoracle.Key{nil}
	e.pids = []peer.ID{""}
	for i, x := range kps {
		e.keys = append(e.keys, x)
		e.pids = append(e.pids, x.ID)
		e.pidIx[x.IDStr] = i + 1
	}
	switch a.Prop {
	case "C20", "C21", "C22", "C24", "C25":
		e.run()
	default:
		fmt.Println("unknown property", a.Prop)
		return
	}
	e.m.Close()
	e.rep.Write(a.Out)
}
