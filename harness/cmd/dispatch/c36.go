package main

import (
	"context"
	"errors"
	"fmt"
	"strings"
	"sync"
	"sync/atomic"
	"time"

	bifrost_rpc "github.com/aperturerobotics/bifrost/rpc"
	bifrost_rpc_access "github.com/aperturerobotics/bifrost/rpc/access"
	"github.com/aperturerobotics/controllerbus/bus"
	"github.com/aperturerobotics/controllerbus/controller"
	"github.com/aperturerobotics/controllerbus/directive"
	"github.com/aperturerobotics/starpc/srpc"
	b58 "github.com/mr-tron/base58/base58"

	"verif/harness/lib"
)

// tapBus sits between AccessRpcServiceServer and a bus. It records, in order, every callback
// the bus delivers to the server's reference handler and idle callback (that log is the event
// history the model is run on), forwards them one at a time, and can inject the final
// "instance disposed" that makes the server flush its queue and return. With inner == nil it
// is a scripted bus of its own: the harness plays the callbacks directly.
type tapBus struct {
	bus.Bus // inner (nil in scripted mode)
	mtx     sync.Mutex
	log     []string
	closed  bool
	h       directive.ReferenceHandler
	idleCb  directive.IdleCallback
	inst    *tapInst
	ready   chan struct{}
	dir     directive.Directive
	logErrs bool // log the error list of idle callbacks too (`I<b>:<errs>`)
	// resource accounting (c36d.go): how often the Reference AddDirective returned was released and
	// how often the release function of the idle callback was called
	refReleased, idleReleased int32
}

// countRef is the directive.Reference a tapBus hands out: it counts Release calls.
type countRef struct {
	t     *tapBus
	inner directive.Reference
}

func (r countRef) Release() {
	atomic.AddInt32(&r.t.refReleased, 1)
	if r.inner != nil {
		r.inner.Release()
	}
}

// reset makes the tap a fresh scripted bus again (the server object behind it is kept).
func (t *tapBus) reset() {
	t.mtx.Lock()
	defer t.mtx.Unlock()
	t.log, t.closed, t.h, t.idleCb, t.inst, t.dir = nil, false, nil, nil, nil, nil
	t.ready = make(chan struct{}, 1)
}

type tapInst struct {
	directive.Instance // inner instance (nil in scripted mode)
	t                  *tapBus
}

func (i *tapInst) GetDirective() directive.Directive { return i.t.dir }

func (i *tapInst) AddIdleCallback(cb directive.IdleCallback) func() {
	t := i.t
	t.mtx.Lock()
	t.idleCb = cb
	t.mtx.Unlock()
	wrapped := func(isIdle bool, errs []error) { t.deliverIdle(isIdle, errs) }
	var rel func()
	if i.Instance != nil {
		rel = i.Instance.AddIdleCallback(wrapped)
	}
	select {
	case t.ready <- struct{}{}:
	default:
	}
	return func() {
		atomic.AddInt32(&t.idleReleased, 1)
		if rel != nil {
			rel()
		}
	}
}

func (t *tapBus) deliverIdle(isIdle bool, errs []error) {
	t.mtx.Lock()
	defer t.mtx.Unlock()
	if t.closed || t.idleCb == nil {
		return
	}
	if t.logErrs && len(errs) != 0 {
		var es []string
		for _, err := range errs {
			switch {
			case err == nil:
				es = append(es, "n")
			case err == context.Canceled:
				es = append(es, "c")
			default:
				es = append(es, err.Error())
			}
		}
		t.log = append(t.log, "I"+bit(isIdle)+":"+strings.Join(es, "."))
	} else {
		t.log = append(t.log, "i"+bit(isIdle))
	}
	t.idleCb(isIdle, errs)
}

func (t *tapBus) deliverAdded(av directive.AttachedValue) {
	t.mtx.Lock()
	defer t.mtx.Unlock()
	if t.closed {
		return
	}
	tag := "x"
	if _, ok := av.GetValue().(srpc.Invoker); ok {
		tag = "a"
	}
	t.log = append(t.log, fmt.Sprintf("%s%d", tag, av.GetValueID()))
	t.h.HandleValueAdded(t.inst, av)
}

func (t *tapBus) deliverRemoved(av directive.AttachedValue) {
	t.mtx.Lock()
	defer t.mtx.Unlock()
	if t.closed {
		return
	}
	t.log = append(t.log, fmt.Sprintf("r%d", av.GetValueID()))
	t.h.HandleValueRemoved(t.inst, av)
}

// dispose stops the tap and tells the server the instance is gone: it sends what is queued
// and returns.
func (t *tapBus) dispose() {
	t.mtx.Lock()
	defer t.mtx.Unlock()
	if t.closed {
		return
	}
	t.closed = true
	t.h.HandleInstanceDisposed(t.inst)
}

type tapHandler struct{ t *tapBus }

func (h tapHandler) HandleValueAdded(_ directive.Instance, av directive.AttachedValue) {
	h.t.deliverAdded(av)
}
func (h tapHandler) HandleValueRemoved(_ directive.Instance, av directive.AttachedValue) {
	h.t.deliverRemoved(av)
}
func (h tapHandler) HandleInstanceDisposed(directive.Instance) {}

func (t *tapBus) AddDirective(dir directive.Directive, h directive.ReferenceHandler) (directive.Instance, directive.Reference, error) {
	t.h = h
	t.dir = dir
	t.inst = &tapInst{t: t}
	if t.Bus == nil {
		return t.inst, countRef{t: t}, nil
	}
	di, ref, err := t.Bus.AddDirective(dir, tapHandler{t})
	if err != nil {
		return nil, nil, err
	}
	t.inst.Instance = di
	return t.inst, countRef{t: t, inner: ref}, nil
}

// lookupStream is the server side of the LookupRpcService stream: it records what is sent.
type lookupStream struct {
	ctx  context.Context
	mtx  sync.Mutex
	sent []string
	gate chan struct{} // when non-nil every Send waits for one token (a slow consumer)
	// failAt: when non-nil, the Send of message number *failAt (0-based) and every later one fails
	failAt *int
	nSend  int
}

var errSendFail = errors.New("verif-send-failed")

func (s *lookupStream) Context() context.Context { return s.ctx }
func (s *lookupStream) Send(m *bifrost_rpc_access.LookupRpcServiceResponse) error {
	if s.gate != nil {
		select {
		case <-s.gate:
		case <-s.ctx.Done():
			return context.Canceled
		}
	}
	// the message is read when the consumer takes it, as a real transport would marshal it
	s.mtx.Lock()
	if s.failAt != nil && s.nSend >= *s.failAt {
		s.mtx.Unlock()
		return errSendFail
	}
	s.nSend++
	s.sent = append(s.sent, bit(m.GetIdle())+bit(m.GetExists())+bit(m.GetRemoved()))
	s.mtx.Unlock()
	return nil
}
func (s *lookupStream) SendAndClose(m *bifrost_rpc_access.LookupRpcServiceResponse) error {
	return s.Send(m)
}
func (s *lookupStream) MsgSend(msg srpc.Message) error { return nil }
func (s *lookupStream) MsgRecv(msg srpc.Message) error { return context.Canceled }
func (s *lookupStream) CloseSend() error               { return nil }
func (s *lookupStream) Close() error                   { return nil }

// monitorC36 states the property on (events delivered, messages sent) directly.
func monitorC36(evs []string, sent []string) string {
	// replay the history with plain counters
	live := map[string]bool{}
	idle := false
	var want []string // the availability / idle changes the history contains, in order
	for _, ev := range evs {
		switch ev[0] {
		case 'a':
			was := len(live)
			live[ev[1:]] = true
			if was == 0 && len(live) == 1 {
				want = append(want, "010")
			}
		case 'r':
			if live[ev[1:]] {
				delete(live, ev[1:])
				if len(live) == 0 {
					want = append(want, "001")
				}
			}
		case 'i':
			b := ev == "i1"
			if b != idle {
				idle = b
				want = append(want, bit(b)+"00")
			}
		}
	}
	lastAvail, lastIdle := "", "000"
	for _, m := range sent {
		ex, rm := m[1] == '1', m[2] == '1'
		if ex && rm {
			return "a response says both exists and removed"
		}
		if ex {
			if lastAvail == "E" {
				return "two Exists in a row"
			}
			lastAvail = "E"
		} else if rm {
			if lastAvail == "R" || lastAvail == "" {
				return "Removed reported twice in a row (or before any Exists)"
			}
			lastAvail = "R"
		} else {
			if m == lastIdle {
				return "idle state reported without a change"
			}
			lastIdle = m
		}
	}
	if strings.Join(sent, ",") != strings.Join(want, ",") {
		return fmt.Sprintf("stream reported [%s] but the history's availability / idle changes are [%s]", strings.Join(sent, ","), strings.Join(want, ","))
	}
	return ""
}

func evList(l []string) string {
	if len(l) == 0 {
		return "_"
	}
	return strings.Join(l, ",")
}

// scriptedHistory plays callbacks directly into the server (tapBus without an inner bus).
func (e *engine) scriptedHistory(evs []string) (sent []string, ret string) {
	return e.scriptedHistorySlow(evs, nil)
}

// scriptedHistorySlow: tokens[i] = how many Send calls the consumer completes after event i
// (nil = a fast consumer). The sender is therefore parked in Send, holding a batch it took from
// the queue, while later callbacks append to the queue.
func (e *engine) scriptedHistorySlow(evs []string, tokens []int) (sent []string, ret string) {
	t := &tapBus{ready: make(chan struct{}, 1)}
	srv := bifrost_rpc_access.NewAccessRpcServiceServer(t, false, nil)
	sctx, cancel := context.WithCancel(e.ctx)
	defer cancel()
	strm := &lookupStream{ctx: sctx}
	if tokens != nil {
		strm.gate = make(chan struct{}, 4096)
	}
	done := make(chan error, 1)
	go func() {
		done <- srv.LookupRpcService(&bifrost_rpc_access.LookupRpcServiceRequest{ServiceId: "svc", ServerId: "srv"}, strm)
	}()
	select {
	case <-t.ready:
	case <-time.After(10 * time.Second):
		return nil, "timeout-start"
	}
	for i, ev := range evs {
		var id uint32
		fmt.Sscanf(ev[1:], "%d", &id)
		switch ev[0] {
		case 'a':
			t.deliverAdded(directive.NewAttachedValue(id, srpc.Invoker(&recInvoker{})))
		case 'x':
			t.deliverAdded(directive.NewAttachedValue(id, "not a service"))
		case 'r':
			t.deliverRemoved(directive.NewAttachedValue(id, nil))
		case 'i':
			t.deliverIdle(ev == "i1", nil)
		}
		if tokens != nil {
			for k := 0; k < tokens[i]; k++ {
				strm.gate <- struct{}{}
			}
			time.Sleep(time.Duration(20+e.rng.Intn(60)) * time.Microsecond) // let the sender run
		}
	}
	t.dispose()
	if tokens != nil {
		for k := 0; k < 2*len(evs)+4; k++ { // the consumer catches up
			strm.gate <- struct{}{}
		}
	}
	select {
	case err := <-done:
		ret = "returned"
		if err == nil || err.Error() != "directive disposed" {
			ret = fmt.Sprintf("returned-%v", err)
		}
	case <-time.After(10 * time.Second):
		ret = "timeout-return"
	}
	strm.mtx.Lock()
	sent = append(sent, strm.sent...)
	strm.mtx.Unlock()
	return sent, ret
}

// scriptCtrl is a controller on the real bus whose resolver hands its handler to the harness.
type scriptCtrl struct {
	svc string
	hch chan directive.ResolverHandler
	srv chan string // the server ID of the directive the bus handed over
	// fail (optional): an error sent here makes the running resolver return it
	fail chan error
}

var busHistoryN int

func (c *scriptCtrl) GetControllerInfo() *controller.Info { return verifInfo }
func (c *scriptCtrl) Execute(ctx context.Context) error   { return nil }
func (c *scriptCtrl) Close() error                        { return nil }
func (c *scriptCtrl) HandleDirective(ctx context.Context, di directive.Instance) ([]directive.Resolver, error) {
	d, ok := di.GetDirective().(bifrost_rpc.LookupRpcService)
	if !ok || d.LookupRpcServiceID() != c.svc {
		return nil, nil
	}
	select {
	case c.srv <- d.LookupRpcServerID():
	default:
	}
	return directive.R(directive.NewFuncResolver(func(rctx context.Context, h directive.ResolverHandler) error {
		select {
		case c.hch <- h:
		case <-rctx.Done():
			return nil
		}
		select {
		case <-rctx.Done():
			return nil
		case err := <-c.fail:
			return err
		}
	}), nil)
}

// busHistory drives the real controller bus: a scripted resolver adds / removes values and
// toggles idle; the tap records what the bus actually delivers to the server.
func (e *engine) busHistory(actions []string) (evs, sent []string, ret string) {
	busHistoryN++
	sc := &scriptCtrl{svc: fmt.Sprintf("verif-svc-%d", busHistoryN), hch: make(chan directive.ResolverHandler, 1), srv: make(chan string, 1)}
	wantSrv := fmt.Sprintf("verif-srv-%d", busHistoryN)
	rel, err := e.bus.AddController(e.ctx, sc, nil)
	if err != nil {
		return nil, nil, "add-controller-" + err.Error()
	}
	defer rel()
	t := &tapBus{Bus: e.bus, ready: make(chan struct{}, 1)}
	srv := bifrost_rpc_access.NewAccessRpcServiceServer(t, false, nil)
	sctx, cancel := context.WithCancel(e.ctx)
	defer cancel()
	strm := &lookupStream{ctx: sctx}
	done := make(chan error, 1)
	go func() {
		done <- srv.LookupRpcService(&bifrost_rpc_access.LookupRpcServiceRequest{ServiceId: sc.svc, ServerId: wantSrv}, strm)
	}()
	var h directive.ResolverHandler
	select {
	case h = <-sc.hch:
	case <-time.After(10 * time.Second):
		return nil, nil, "timeout-resolver"
	}
	if got := <-sc.srv; got != wantSrv {
		defer func() { ret = fmt.Sprintf("resolver-was-asked-for-server-%q-not-%q", got, wantSrv) }()
	}
	select {
	case <-t.ready:
	case <-time.After(10 * time.Second):
		return nil, nil, "timeout-start"
	}
	ids := map[string]uint32{}
	for _, a := range actions {
		switch a[0] {
		case 'a':
			id, _ := h.AddValue(srpc.Invoker(&recInvoker{}))
			ids[a[1:]] = id
		case 'x':
			id, _ := h.AddValue("not a service " + a[1:])
			ids[a[1:]] = id
		case 'r':
			if id, ok := ids[a[1:]]; ok {
				h.RemoveValue(id)
				delete(ids, a[1:])
			}
		case 'i':
			h.MarkIdle(a == "i1")
		}
		time.Sleep(200 * time.Microsecond)
	}
	// let the bus deliver what it still has in flight (idle notifications are asynchronous)
	stable, last := 0, -1
	for i := 0; i < 400 && stable < 4; i++ {
		time.Sleep(2 * time.Millisecond)
		t.mtx.Lock()
		n := len(t.log)
		t.mtx.Unlock()
		if n == last {
			stable++
		} else {
			stable, last = 0, n
		}
	}
	t.dispose()
	select {
	case err := <-done:
		ret = "returned"
		if err == nil || err.Error() != "directive disposed" {
			ret = fmt.Sprintf("returned-%v", err)
		}
	case <-time.After(10 * time.Second):
		ret = "timeout-return"
	}
	t.mtx.Lock()
	evs = append(evs, t.log...)
	t.mtx.Unlock()
	strm.mtx.Lock()
	sent = append(sent, strm.sent...)
	strm.mtx.Unlock()
	return evs, sent, ret
}

func (e *engine) c36Compare(evs, sent []string, ret, branch string, wellFormed bool) {
	op := "dispatch.run evs=" + evList(evs)
	model := e.m.Query(op)
	impl := "ok msgs=" + evList(sent)
	if ret != "returned" {
		impl = ret + " msgs=" + evList(sent)
	}
	// the model also reports the final state; compare the message stream only
	mm := model
	if i := strings.Index(mm, " n="); i >= 0 {
		mm = mm[:i]
	}
	mon, key := "", "dispatch.lookup"
	if wellFormed {
		if v := monitorC36(evs, sent); v != "" {
			mon, key = "remote lookup stream: "+v, key+":report"
		}
	}
	e.cmp(op, mm, impl, branch, key, mon)
}

func (e *engine) runC36() {
	e.rep.Rule = "LookupRpcService driven (a) by scripted bus callbacks: every history of length ≤ 4 over {add 1, add 2, remove 1, remove 2, idle, busy} plus random histories up to length 14 incl. foreign values, duplicate IDs and removals of unknown IDs, and add/remove/idle alternations against a slow consumer (Send gated by tokens, so the sender holds a batch while callbacks keep queueing); (b) on the real controller bus with a scripted resolver (add / remove / MarkIdle), the tap recording the callbacks the bus delivers; the stream is compared message by message with the model run on the delivered history; ends of the call other than dispose: 7 histories × (context cancelled after every k) × (Send failing at every k) + random (cancel, fail) pairs, the directive reference and the idle-callback release counted (exactly once each); CallRpcService with waitOne=false and waitOne=true (registered pairs, refusals before the lookup, a provider registered after the call reached the bus); the production consumer rpc/access LookupRpcServiceResolver + ProxyInvoker connected to the real server over an srpc pipe on the real bus: add / remove / idle / busy histories, the remote ending the stream (its resolver fails) and the lookup starting over, calls through the proxy value with the directive's service ID and another one, with a counted and with a nil client release function; component IDs: requests over {\"\",a,svc/x, 200-byte, non-UTF-8} round-tripped and random / mutated base58 text decoded; distinct = distinct op line"
	e.rep.Require("scripted.exhaustive", "scripted.random", "scripted.illformed", "scripted.slow-consumer", "bus", "cid.roundtrip", "cid.empty", "cid.decode.ok", "cid.decode.err")
	// (a) exhaustive short histories: well-formed ones get the monitor
	alpha := []string{"a1", "a2", "r1", "r2", "i1", "i0"}
	var gen func(prefix []string, n int)
	wellFormed := func(evs []string) bool {
		live := map[string]bool{}
		for _, ev := range evs {
			switch ev[0] {
			case 'a', 'x':
				if live[ev[1:]] {
					return false // the bus never re-uses a live value ID
				}
				live[ev[1:]] = true
			case 'r':
				if !live[ev[1:]] {
					return false
				}
				delete(live, ev[1:])
			}
		}
		return true
	}
	maxLen := 4
	if e.a.Scale > 1 {
		maxLen = 5 // thorough: every history of length ≤ 5
	}
	gen = func(prefix []string, n int) {
		sent, ret := e.scriptedHistory(prefix)
		wf := wellFormed(prefix)
		br := "scripted.exhaustive"
		if !wf {
			br = "scripted.illformed"
		}
		e.c36Compare(prefix, sent, ret, br, wf)
		if n == 0 {
			return
		}
		for _, a := range alpha {
			gen(append(append([]string{}, prefix...), a), n-1)
		}
	}
	gen(nil, maxLen)
	// random longer histories
	for i := 0; i < 300*e.a.Scale; i++ {
		n := 5 + e.rng.Intn(10)
		var evs []string
		wfOnly := i%2 == 0
		live := map[int]bool{}
		for k := 0; k < n; k++ {
			id := 1 + e.rng.Intn(4)
			switch e.rng.Intn(7) {
			case 0, 1:
				if wfOnly && live[id] {
					continue
				}
				live[id] = true
				evs = append(evs, fmt.Sprintf("a%d", id))
			case 2:
				if wfOnly && live[id] {
					continue
				}
				live[id] = true
				evs = append(evs, fmt.Sprintf("x%d", id))
			case 3, 4:
				if wfOnly && !live[id] {
					continue
				}
				delete(live, id)
				evs = append(evs, fmt.Sprintf("r%d", id))
			case 5:
				evs = append(evs, "i1")
			case 6:
				evs = append(evs, "i0")
			}
		}
		sent, ret := e.scriptedHistory(evs)
		wf := wellFormed(evs)
		br := "scripted.random"
		if !wf {
			br = "scripted.illformed"
		}
		e.c36Compare(evs, sent, ret, br, wf)
	}
	// slow consumer: the sender is parked in Send with a batch in hand while the history goes on.
	// Histories alternate add/remove of one value with idle toggles so that every event queues
	// a response; the consumer takes 0..2 messages between events.
	for i := 0; i < 150*e.a.Scale; i++ {
		n := 6 + e.rng.Intn(10)
		var evs []string
		var toks []int
		up, idle := false, false
		for k := 0; k < n; k++ {
			if e.rng.Intn(4) == 0 {
				idle = !idle
				evs = append(evs, "i"+bit(idle))
			} else if up {
				evs = append(evs, "r1")
				up = false
			} else {
				evs = append(evs, "a1")
				up = true
			}
			toks = append(toks, []int{0, 0, 0, 1, 1, 2}[e.rng.Intn(6)])
		}
		sent, ret := e.scriptedHistorySlow(evs, toks)
		e.c36Compare(evs, sent, ret, "scripted.slow-consumer", true)
	}
	// (b) the real bus
	for i := 0; i < 40*e.a.Scale; i++ {
		n := 3 + e.rng.Intn(9)
		var acts []string
		next := 1
		var live []int
		for k := 0; k < n; k++ {
			switch e.rng.Intn(6) {
			case 0, 1:
				acts = append(acts, fmt.Sprintf("a%d", next))
				live = append(live, next)
				next++
			case 2:
				acts = append(acts, fmt.Sprintf("x%d", next))
				live = append(live, next)
				next++
			case 3:
				if len(live) > 0 {
					j := e.rng.Intn(len(live))
					acts = append(acts, fmt.Sprintf("r%d", live[j]))
					live = append(live[:j], live[j+1:]...)
				}
			case 4:
				acts = append(acts, "i1")
			case 5:
				acts = append(acts, "i0")
			}
		}
		evs, sent, ret := e.busHistory(acts)
		e.c36Compare(evs, sent, ret, "bus", true)
	}

	// the directive on the bus, resolver errors, request <-> directive, CallRpcService (c36b.go)
	e.runC36Placed()
	e.runC36Errors()
	e.runC36ReqDir()
	e.runC36Call()
	e.runC36Pure()     // history independence + separator-ambiguity pairs of the pure functions (c36c.go)
	e.runC36Ends()     // cancelled context / failing Send, reference accounting (c36d.go)
	e.runC36Resolver() // the production consumer and component-ID encoder (c36d.go)

	// component IDs
	vals := []string{"", "a", "svc/x", strings.Repeat("s", 200), "\xff\x00", "srv-1"}
	for _, sid := range vals {
		for _, srv := range vals {
			op := fmt.Sprintf("dispatch.cidenc sid=%s srv=%s", hx(sid), hx(srv))
			model := e.m.Query(op)
			req := bifrost_rpc_access.NewLookupRpcServiceRequest(sid, srv)
			cid, err := req.MarshalComponentID()
			impl := "err"
			if err == nil {
				impl = "ok " + hx(cid)
			}
			mon, br := "", "cid.roundtrip"
			back := &bifrost_rpc_access.LookupRpcServiceRequest{}
			derr := back.UnmarshalComponentID(cid)
			if sid == "" && srv == "" {
				br = "cid.empty" // the empty request has the empty component ID, which base58 refuses
			} else if derr != nil || back.GetServiceId() != sid || back.GetServerId() != srv {
				mon = fmt.Sprintf("component ID of (%q,%q) does not decode back to the request", sid, srv)
			}
			e.cmp(op, model, impl, br, "dispatch.cid:roundtrip", mon)
			// decode side against the model too
			e.cidDecode(cid)
		}
	}
	for i := 0; i < 300*e.a.Scale; i++ {
		var raw []byte
		switch e.rng.Intn(4) {
		case 0:
			raw = e.rng.Bytes(e.rng.Intn(12))
		case 1: // well-formed message with extra / repeated / unknown fields
			raw = append(raw, 0x0a, 0x01, 'a', 0x12, 0x01, 'b')
			if e.rng.Intn(2) == 0 {
				raw = append(raw, 0x0a, 0x02, 'c', 'd')
			}
			if e.rng.Intn(2) == 0 {
				raw = append(raw, 0x18, byte(e.rng.Intn(128)))
			}
			if e.rng.Intn(3) == 0 {
				raw = append(raw, 0x22, 0x01, 'z')
			}
		case 2: // wrong wire type / truncated
			raw = append(raw, 0x08, 0x01, 0x12, byte(e.rng.Intn(5)), 'x')
		case 3:
			raw = append(raw, 0x0a, byte(e.rng.Intn(4)))
			raw = append(raw, e.rng.Bytes(e.rng.Intn(4))...)
		}
		text := b58.Encode(raw)
		if e.rng.Intn(8) == 0 {
			text += "0" // not base58
		}
		e.cidDecode(text)
	}
}

func (e *engine) cidDecode(text string) {
	op := "dispatch.ciddec s=" + hx(text)
	model := e.m.Query(op)
	back := &bifrost_rpc_access.LookupRpcServiceRequest{}
	impl := lib.Recover(func() string {
		if err := back.UnmarshalComponentID(text); err != nil {
			return "err"
		}
		// unknown fields are private: observe them through re-marshalling
		re, _ := back.MarshalVT()
		known, _ := bifrost_rpc_access.NewLookupRpcServiceRequest(back.GetServiceId(), back.GetServerId()).MarshalVT()
		unk := re[len(known):]
		return "ok sid=" + hx(back.GetServiceId()) + " srv=" + hx(back.GetServerId()) + " unk=" + lib.Hex(unk)
	})
	br := "cid.decode.ok"
	if model == "err" {
		br = "cid.decode.err"
	}
	e.cmp(op, model, impl, br, "dispatch.cid:decode", "")
}
