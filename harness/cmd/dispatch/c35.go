package main

import (
	"context"
	"fmt"
	"net"
	"net/http"
	"net/http/httptest"
	"net/url"
	"regexp"
	"strings"
	"time"

	bifrost_http "github.com/aperturerobotics/bifrost/http"
	bifrost_rpc "github.com/aperturerobotics/bifrost/rpc"
	websocket_http "github.com/aperturerobotics/bifrost/transport/websocket/http"
	"github.com/aperturerobotics/controllerbus/directive"
	"github.com/aperturerobotics/starpc/srpc"

	"verif/harness/lib"
)

// recInvoker records the service ID it is invoked with.
type recInvoker struct{ seen *string }

func (r *recInvoker) InvokeMethod(serviceID, methodID string, strm srpc.Stream) (bool, error) {
	s := serviceID
	r.seen = &s
	return true, nil
}

// recHandler records the URL path / raw path it serves.
type recHandler struct{ seen *[2]string }

func (r *recHandler) ServeHTTP(w http.ResponseWriter, req *http.Request) {
	r.seen = &[2]string{req.URL.Path, req.URL.RawPath}
}

// oracleQuery answers the model's `need …` requests with answer() until it gives a verdict.
func (e *engine) oracleQuery(op string, answer func(req string) string) (string, string) {
	line := op
	for i := 0; i < 6; i++ {
		ans := e.m.Query(line)
		if !strings.HasPrefix(ans, "need ") {
			return ans, line
		}
		line += " " + answer(ans)
	}
	panic("oracle protocol did not terminate: " + op)
}

// resolveValue runs a resolver until it has emitted its value (or gone idle / returned).
func (e *engine) resolveValue(res directive.Resolver) directive.Value {
	rctx, cancel := context.WithCancel(e.ctx)
	h := newValHandler()
	done := make(chan error, 1)
	go func() { done <- res.Resolve(rctx, h) }()
	returned := false
	select {
	case <-h.idle:
	case <-done:
		returned = true
	case <-time.After(10 * time.Second):
	}
	var v directive.Value
	select {
	case v = <-h.vals:
	default:
	}
	cancel()
	if !returned {
		<-done
	}
	return v
}

func firstPrefix(ps []string, s string) (string, bool) {
	for _, p := range ps {
		if strings.HasPrefix(s, p) {
			return p, true
		}
	}
	return "", false
}

func optStr(s *string) string {
	if s == nil {
		return "none"
	}
	return "some:" + hx(*s)
}

func prefixLists(u []string, withTriples bool) [][]string {
	out := [][]string{nil}
	for _, a := range u {
		out = append(out, []string{a})
	}
	for _, a := range u {
		for _, b := range u {
			out = append(out, []string{a, b})
		}
	}
	if withTriples {
		out = append(out, []string{u[1], u[2], u[0]}, []string{u[3], u[0], u[1]}, []string{u[2], u[1], u[3]})
	}
	return out
}

func mustRe(s string) *regexp.Regexp {
	if s == "" {
		return nil
	}
	return regexp.MustCompile(s)
}

const emptyPrefixWhat = "a registration whose prefix list contains the empty prefix does not serve lookups that satisfy its prefixes: srpc.CheckStripPrefix reports an empty matched prefix, which InvokerController / PrefixInvoker read as 'no match'"

func (e *engine) runC35() {
	e.rep.Rule = "exhaustive over the alphabet {a,b,/}: prefix lists of length 0..2 (+3) from {\"\",a,ab,b/}, regex ∈ {nil,^a,b$}, service list ∈ {[],[ab],[b,a]}, server regex ∈ {nil,^s}, strip ∈ {0,1} × service IDs {\"\",a,ab,abb,b,b/a,c} × server IDs {\"\",s}; HTTP: prefix lists from {\"\",/a,/a/b,/b/}, regex ∈ {nil,^/a,c$} × 10 URLs incl. escaped-slash RawPath; ServeMux registrations (exact, subtree, method-qualified, HOST-qualified, {x} wildcard, {$} anchor, HEAD) × methods {\"\",GET,POST,HEAD} × 28 URLs incl. absolute URLs naming the host / another host / host:port, the mux consulted with the method AND host the model names; server IDs {\"\",s} and, under a server pattern, {t,xs} too; LookupRpcClient registrations: bifrost_rpc.ClientController for every prefix list (answered?, and the service ID the wrapped client sees through ExecCall and NewStream), the controller stream/srpc/client/controller builds for every service_id_prefixes list (none, [\"\"], leading / trailing empty prefix: answered? call forwarded or refused?), rpc/access ClientController for service pattern ∈ {nil,^a,b$,^$} × server pattern ∈ {nil,^s,t$,^$} × service IDs × server IDs {\"\",s,t,xs,st}; CheckStripPrefix and http.StripPrefix differentially on random strings; regexp / ServeMux called directly as oracles; distinct = distinct op line"
	e.rep.Require("rpcsvc.a0", "rpcsvc.a1", "rpcsvc.strip", "rpcsvc.refused", "invoker.a0", "invoker.a1", "invoker.refused",
		"http.a0", "http.a1", "http.strip", "http.404", "mux.a0", "mux.a1", "csp", "stripprefix")
	u := []string{"", "a", "ab", "b/"}
	sids := []string{"", "a", "ab", "abb", "b", "b/a", "c"}
	if e.a.Scale > 1 { // thorough: a larger universe
		u = append(u, "b", "abb")
		sids = append(sids, "b/", "abba", "ba")
	}
	// server IDs: unset, one the server pattern accepts, and — when a pattern is configured — two
	// non-empty ones it refuses ("xs" contains the accepted ID but does not start with it)
	srvsFor := func(sreS string) []string {
		if sreS == "" {
			return []string{"", "s"}
		}
		return []string{"", "s", "t", "xs"}
	}
	ectx, ecancel := context.WithCancel(e.ctx)
	defer ecancel()

	// ---------------- RpcServiceController ----------------
	for _, ps := range prefixLists(u, true) {
		for _, strip := range []bool{false, true} {
			for _, reS := range []string{"", "^a", "b$"} {
				for _, list := range [][]string{nil, {"ab"}, {"b", "a"}} {
					for _, sreS := range []string{"", "^s"} {
						re, sre := mustRe(reS), mustRe(sreS)
						inner := &recInvoker{}
						ctl := bifrost_rpc.NewRpcServiceController(verifInfo, bifrost_rpc.NewRpcServiceBuilder(inner), ps, strip, re, list, sre)
						_ = ctl.Execute(ectx)
						for _, sid := range sids {
							for _, srv := range srvsFor(sreS) {
								op := fmt.Sprintf("dispatch.rpcsvc prefixes=%s strip=%s re=%s list=%s sre=%s sid=%s srv=%s",
									hxList(ps), bit(strip), bit(re != nil), hxList(list), bit(sre != nil), hx(sid), hx(srv))
								model, line := e.oracleQuery(op, func(req string) string {
									subj := string(lib.Unhex(lib.KV(req, "subj")))
									if strings.HasPrefix(req, "need re ") {
										return "rem=" + bit(re.MatchString(subj))
									}
									return "srem=" + bit(sre.MatchString(subj))
								})
								answered := false
								inner.seen = nil
								impl := lib.Recover(func() string {
									di := &fakeInst{ctx: e.ctx, dir: bifrost_rpc.NewLookupRpcService(sid, srv)}
									res, err := ctl.HandleDirective(e.ctx, di)
									if err != nil {
										return "err"
									}
									answered = len(res) != 0
									if answered {
										v := e.resolveValue(res[0])
										inv, ok := v.(srpc.Invoker)
										if !ok {
											return "ok a=1 seen=no-value"
										}
										_, _ = inv.InvokeMethod(sid, "m", nil)
									} else {
										// what the registered service would see if invoked is still defined by the wrapper
										var inv srpc.Invoker = inner
										if strip {
											inv = srpc.NewPrefixInvoker(inner, ps)
										}
										_, _ = inv.InvokeMethod(sid, "m", nil)
									}
									return "ok a=" + bit(answered) + " seen=" + optStr(inner.seen)
								})
								// monitor: the filter chain, stated directly
								_, anyP := firstPrefix(ps, sid)
								want := (len(ps) == 0 && re == nil && len(list) == 0) || anyP || (re != nil && re.MatchString(sid)) || contains(list, sid)
								want = want && (sre == nil || sre.MatchString(srv))
								mon, key := "", "dispatch.rpcsvc"
								br := "rpcsvc.a" + bit(answered)
								if answered != want {
									mon = fmt.Sprintf("RpcServiceController answered=%v for service %q server %q but its filters say %v", answered, sid, srv, want)
									key += ":filter"
								} else if answered {
									fp, has := firstPrefix(ps, sid)
									switch {
									case !strip || len(ps) == 0:
										if inner.seen == nil || *inner.seen != sid {
											mon, key = "without stripping the service must see the requested ID unchanged", key+":nostrip"
										}
									case !has:
										// regex / list-only match with stripping on: PrefixInvoker documents
										// "if none of the prefixes match, returns unimplemented"
										br = "rpcsvc.refused"
										if inner.seen != nil {
											mon, key = "a service ID matching no prefix reached the service through the prefix stripper", key+":strip"
										}
									case fp == "":
										br = "rpcsvc.refused"
										if inner.seen == nil {
											mon, key = emptyPrefixWhat+" (RpcServiceController with strip: lookup answered, invocation refused)", "dispatch.emptyprefix:rpcsvc-strip"
										}
									default:
										br = "rpcsvc.strip"
										if inner.seen == nil || *inner.seen != sid[len(fp):] {
											mon, key = fmt.Sprintf("service sees %s instead of %q with exactly the first matching prefix %q removed", optStr(inner.seen), sid[len(fp):], fp), key+":strip"
										}
									}
								}
								e.cmp(line, model, impl, br, key, mon)
							}
						}
					}
				}
			}
		}
	}

	// ---------------- InvokerController ----------------
	for _, ps := range prefixLists(u, true) {
		inner := &recInvoker{}
		ctl := bifrost_rpc.NewInvokerController(e.le, e.bus, verifInfo, inner, ps)
		for _, sid := range sids {
			op := fmt.Sprintf("dispatch.invoker prefixes=%s sid=%s", hxList(ps), hx(sid))
			model := e.m.Query(op)
			answered := false
			inner.seen = nil
			impl := lib.Recover(func() string {
				di := &fakeInst{ctx: e.ctx, dir: bifrost_rpc.NewLookupRpcService(sid, "")}
				res, err := ctl.HandleDirective(e.ctx, di)
				if err != nil {
					return "err"
				}
				answered = len(res) != 0
				_, _ = ctl.InvokeMethod(sid, "m", nil)
				return "ok a=" + bit(answered) + " seen=" + optStr(inner.seen)
			})
			fp, has := firstPrefix(ps, sid)
			want := len(ps) == 0 || has
			mon, key := "", "dispatch.invoker"
			br := "invoker.a" + bit(answered)
			switch {
			case answered != want && contains(ps, ""):
				mon, key = emptyPrefixWhat+fmt.Sprintf(" (InvokerController prefixes %q, service %q not answered)", ps, sid), "dispatch.emptyprefix:invoker-answers"
			case answered != want:
				mon, key = fmt.Sprintf("InvokerController answered=%v for %q but its prefixes say %v", answered, sid, want), key+":filter"
			case answered && len(ps) == 0:
				if inner.seen == nil || *inner.seen != sid {
					mon, key = "without prefixes the invoker must see the requested ID unchanged", key+":nostrip"
				}
			case answered:
				if inner.seen == nil || *inner.seen != sid[len(fp):] {
					mon, key = fmt.Sprintf("invoker sees %s instead of %q with exactly the first matching prefix removed", optStr(inner.seen), sid[len(fp):]), key+":strip"
				}
			default:
				if inner.seen == nil {
					br = "invoker.refused"
				} else {
					mon, key = "an unanswered service ID reached the invoker", key+":strip"
				}
			}
			e.cmp(op, model, impl, br, key, mon)
		}
	}

	// ---------------- HTTPHandlerController ----------------
	hu := []string{"", "/a", "/a/b", "/b/"}
	if e.a.Scale > 1 {
		hu = append(hu, "/", "/a/")
	}
	var urls []*url.URL
	for _, t := range []string{"/a", "/a/b", "/a/b/c", "/b/", "/b/x", "/c", "/", "/a%2Fb", "/a/b%2Fc", ""} {
		pu, err := url.Parse(t)
		if err != nil {
			panic(err)
		}
		urls = append(urls, pu)
	}
	for _, ps := range prefixLists(hu, true) {
		for _, strip := range []bool{false, true} {
			for _, reS := range []string{"", "^/a", "c$"} {
				re := mustRe(reS)
				inner := &recHandler{}
				ctl := bifrost_http.NewHTTPHandlerController(verifInfo, bifrost_http.NewHTTPHandlerBuilder(inner), ps, strip, re)
				_ = ctl.Execute(ectx)
				for _, pu := range urls {
					path, raw := pu.Path, pu.RawPath
					op := fmt.Sprintf("dispatch.http prefixes=%s strip=%s re=%s path=%s raw=%s", hxList(ps), bit(strip), bit(re != nil), hx(path), hx(raw))
					model, line := e.oracleQuery(op, func(req string) string {
						return "rem=" + bit(re.MatchString(string(lib.Unhex(lib.KV(req, "subj")))))
					})
					answered := false
					inner.seen = nil
					impl := lib.Recover(func() string {
						di := &fakeInst{ctx: e.ctx, dir: bifrost_http.NewLookupHTTPHandler("GET", pu, "")}
						res, err := ctl.HandleDirective(e.ctx, di)
						if err != nil {
							return "err"
						}
						answered = len(res) != 0
						if !answered {
							// the model's `seen` is "what the handler would see": evaluate the same wrapper shape
							return "ok a=0 seen=-"
						}
						v := e.resolveValue(res[0])
						hh, ok := v.(http.Handler)
						if !ok {
							return "ok a=1 seen=no-value"
						}
						u2 := *pu
						hh.ServeHTTP(httptest.NewRecorder(), &http.Request{Method: "GET", URL: &u2})
						if inner.seen == nil {
							return "ok a=1 seen=none"
						}
						return "ok a=1 seen=some:" + hx(inner.seen[0]) + "|" + hx(inner.seen[1])
					})
					if !answered && strings.HasPrefix(model, "ok a=0 ") {
						model = "ok a=0 seen=-"
					}
					fp, has := firstPrefix(ps, path)
					want := (len(ps) == 0 && re == nil) || has || (re != nil && re.MatchString(path))
					mon, key := "", "dispatch.http"
					br := "http.a" + bit(answered)
					if answered != want {
						mon, key = fmt.Sprintf("HTTPHandlerController answered=%v for path %q but its filters say %v", answered, path, want), key+":filter"
					} else if answered {
						if strip && has && fp != "" {
							if raw == "" || strings.HasPrefix(raw, fp) {
								br = "http.strip"
								wantRaw := ""
								if raw != "" {
									wantRaw = raw[len(fp):]
								}
								if inner.seen == nil || inner.seen[0] != path[len(fp):] || inner.seen[1] != wantRaw {
									mon, key = fmt.Sprintf("handler does not see %q with exactly the matched prefix %q removed", path, fp), key+":strip"
								}
							} else {
								// net/http.StripPrefix answers 404 when the escaped path does not carry the prefix
								br = "http.404"
								if inner.seen != nil {
									mon, key = "handler reached although the escaped path does not carry the prefix", key+":strip"
								}
							}
						} else if inner.seen == nil || inner.seen[0] != path || inner.seen[1] != raw {
							mon, key = "handler must see the request path unchanged when nothing is stripped", key+":nostrip"
						}
					}
					e.cmp(line, model, impl, br, key, mon)
				}
			}
		}
	}

	// ---------------- ServeMux registration (transport/websocket/http) ----------------
	// Pattern shapes: exact path, subtree (trailing slash), method-qualified, HOST-qualified (the
	// documented example of the config: "GET example.com/my/ws"), single-segment wildcard {x},
	// end anchor {$}; lookups incl. absolute URLs naming the host / another host / a host with port.
	patLists := [][]string{nil, {"/a"}, {"/b/"}, {"/a", "/b/"}, {"GET /c"}, {"/a", "GET /c"},
		{"h.example/a"}, {"GET h.example/g", "/a"}, {"/w/{x}"}, {"/e/{$}"}, {"HEAD /h"}, {"h.example/s/", "POST /c"}}
	muxURLs := []string{"/a", "/a/x", "/b", "/b/", "/b/x", "/c", "/d", "/", "/p",
		"http://h.example/a", "http://other.example/a", "//h.example/a", "http://h.example:8080/a", "http://h.example/g", "/g",
		"http://h.example/s/x", "http://h.example/s", "/s/x", "/w/1", "/w/", "/w/1/2", "/w", "/e/", "/e/x", "/e", "/h", "/A", "/a/"}
	for _, pats := range patLists {
		for _, ppats := range [][]string{nil, {"/p"}} {
			ctl, err := websocket_http.NewWebSocketHttp(e.le, e.bus, &websocket_http.Config{HttpPatterns: pats, PeerHttpPatterns: ppats})
			if err != nil {
				panic(err)
			}
			ref := http.NewServeMux() // the oracle: the same registrations on a mux of our own
			all := append(append([]string{}, pats...), ppats...)
			for _, p := range all {
				ref.HandleFunc(p, func(http.ResponseWriter, *http.Request) {})
			}
			for _, method := range []string{"", "GET", "POST", "HEAD"} {
				for _, t := range muxURLs {
					pu, _ := url.Parse(t)
					op := fmt.Sprintf("dispatch.mux method=%s uhost=%s", hx(method), hx(pu.Host))
					effMethod := ""
					model, line := e.oracleQuery(op, func(req string) string {
						// the model says with which method and which host the mux is consulted
						effMethod = string(lib.Unhex(lib.KV(req, "method")))
						_, pat := ref.Handler(&http.Request{Method: effMethod, URL: pu, Host: string(lib.Unhex(lib.KV(req, "host")))})
						return "pat=" + hx(pat)
					})
					line += " url=" + hx(t) + " pats=" + hxList(all)
					answered := false
					impl := lib.Recover(func() string {
						di := &fakeInst{ctx: e.ctx, dir: bifrost_http.NewLookupHTTPHandler(method, pu, "")}
						res, err := ctl.HandleDirective(e.ctx, di)
						if err != nil {
							return "err"
						}
						answered = len(res) != 0
						return "ok a=" + bit(answered)
					})
					// monitor: the pattern shapes used here, stated directly
					m := method
					if m == "" {
						m = "OPTIONS" // documented default of MatchServeMuxPattern
					}
					want := false
					for _, p := range all {
						want = want || muxPatternMatches(p, m, pu)
					}
					mon, key := "", "dispatch.mux"
					if answered != want {
						mon = fmt.Sprintf("websocket/http registration %q answered=%v for %s %q; its patterns say %v", all, answered, m, t, want)
						key += ":filter"
					}
					e.cmp(line, model, impl, "mux.a"+bit(answered), key, mon)
				}
			}
		}
	}

	// ---------------- primitives, differentially ----------------
	alpha := []byte("ab/")
	rs := func(max int) string {
		n := e.rng.Intn(max + 1)
		b := make([]byte, n)
		for i := range b {
			b[i] = alpha[e.rng.Intn(len(alpha))]
		}
		return string(b)
	}
	for i := 0; i < 400*e.a.Scale; i++ {
		id := rs(5)
		var ps []string
		for k := e.rng.Intn(4); k > 0; k-- {
			ps = append(ps, rs(3))
		}
		op := fmt.Sprintf("dispatch.csp id=%s ps=%s", hx(id), hxList(ps))
		s, m := srpc.CheckStripPrefix(id, ps)
		mon := ""
		if m != "" && (!strings.HasPrefix(id, m) || id != m+s) {
			mon = "CheckStripPrefix: id is not matchedPrefix + strippedID"
		}
		e.cmp(op, e.m.Query(op), "ok s="+hx(s)+" m="+hx(m), "csp", "dispatch.csp", mon)
	}
	for i := 0; i < 400*e.a.Scale; i++ {
		pfx, path := rs(3), rs(5)
		raw := ""
		switch e.rng.Intn(3) {
		case 1:
			raw = path
		case 2:
			raw = rs(5)
		}
		op := fmt.Sprintf("dispatch.strip pfx=%s path=%s raw=%s", hx(pfx), hx(path), hx(raw))
		inner := &recHandler{}
		http.StripPrefix(pfx, inner).ServeHTTP(httptest.NewRecorder(), &http.Request{Method: "GET", URL: &url.URL{Path: path, RawPath: raw}})
		impl := "ok seen=none"
		if inner.seen != nil {
			impl = "ok seen=some:" + hx(inner.seen[0]) + "|" + hx(inner.seen[1])
		}
		e.cmp(op, e.m.Query(op), impl, "stripprefix", "dispatch.strip", "")
	}

	// history independence + separator-ambiguity families of the prefix encoders (c35b.go)
	e.runC35Pure()
	// LookupRpcClient registrations and the rpc/access client controller (c35c.go)
	e.runC35Clients()
}

// muxPatternMatches states, for the pattern shapes of the generator ([METHOD ][HOST]/PATH with an
// exact path, a subtree "…/", one trailing wildcard segment "/{x}" or the end anchor "/{$}"), whether
// a lookup with method m for URL u falls under pattern p — without consulting net/http.
func muxPatternMatches(p, m string, u *url.URL) bool {
	if i := strings.IndexByte(p, ' '); i >= 0 {
		pm := p[:i]
		p = p[i+1:]
		if !(pm == m || (pm == "GET" && m == "HEAD")) {
			return false
		}
	}
	if !strings.HasPrefix(p, "/") {
		i := strings.IndexByte(p, '/')
		host := u.Host
		if h, _, err := net.SplitHostPort(host); err == nil {
			host = h
		}
		if host != p[:i] {
			return false
		}
		p = p[i:]
	}
	t := u.Path
	switch {
	case strings.HasSuffix(p, "/{$}"):
		base := strings.TrimSuffix(p, "{$}")
		return t == base || t+"/" == base // the latter is answered with a redirect to the former
	case strings.HasSuffix(p, "/{x}"):
		base := strings.TrimSuffix(p, "{x}")
		rest := strings.TrimPrefix(t, base)
		return strings.HasPrefix(t, base) && rest != "" && !strings.Contains(rest, "/")
	case strings.HasSuffix(p, "/"):
		return strings.HasPrefix(t, p) || t+"/" == p
	default:
		return t == p
	}
}
