package main

import (
	"context"
	"fmt"
	"net/http"
	"net/http/httptest"
	"net/url"
	"strings"

	bifrost_http "github.com/aperturerobotics/bifrost/http"
	bifrost_rpc "github.com/aperturerobotics/bifrost/rpc"
	"github.com/aperturerobotics/starpc/srpc"

	"verif/harness/lib"
)

// C35, the pure encoders behind the lookups — service-ID prefix handling (RpcServiceController
// with stripping, InvokerController) and HTTP prefix stripping (HTTPHandlerController) — under the
// two classes of c36c.go:
//
//	(i)  history independence: one long-lived controller answers p and then x; x must come out as
//	     on a fresh controller that has answered nothing else (and as its specification says);
//	(ii) separator-ambiguity inputs: IDs / paths with the separator characters straddling the
//	     prefix boundary ("plugin/" + "web" against "plugin" + "/web"), processed forward and
//	     backward on the same controller; monitors: what the registered service / handler sees is
//	     the requested ID with exactly the first matching prefix removed, and two different
//	     requests with the same matched prefix are never seen as the same ID.

type prefixCase struct {
	answered bool
	seen     *string
}

func (c prefixCase) String() string { return "ok a=" + bit(c.answered) + " seen=" + optStr(c.seen) }

// prefixSubject is one way of sending a service ID through a prefix-handling controller.
type prefixSubject struct {
	kind string
	op   func(ps []string, sid string) string
	mk   func(e *engine, ctx context.Context, ps []string) func(sid string) prefixCase
}

func prefixSubjects() []prefixSubject {
	return []prefixSubject{
		{"rpcsvc", func(ps []string, sid string) string {
			return fmt.Sprintf("dispatch.rpcsvc prefixes=%s strip=1 re=0 list=_ sre=0 sid=%s srv=-", hxList(ps), hx(sid))
		}, func(e *engine, ctx context.Context, ps []string) func(string) prefixCase {
			inner := &recInvoker{}
			ctl := bifrost_rpc.NewRpcServiceController(verifInfo, bifrost_rpc.NewRpcServiceBuilder(inner), ps, true, nil, nil, nil)
			_ = ctl.Execute(ctx)
			return func(sid string) prefixCase {
				inner.seen = nil
				res, err := ctl.HandleDirective(e.ctx, &fakeInst{ctx: e.ctx, dir: bifrost_rpc.NewLookupRpcService(sid, "")})
				if err != nil || len(res) == 0 {
					// what the registered service would see is still defined by the wrapper
					_, _ = srpc.NewPrefixInvoker(inner, ps).InvokeMethod(sid, "m", nil)
					return prefixCase{false, inner.seen}
				}
				if inv, ok := e.resolveValue(res[0]).(srpc.Invoker); ok {
					_, _ = inv.InvokeMethod(sid, "m", nil)
				}
				return prefixCase{true, inner.seen}
			}
		}},
		{"invoker", func(ps []string, sid string) string {
			return fmt.Sprintf("dispatch.invoker prefixes=%s sid=%s", hxList(ps), hx(sid))
		}, func(e *engine, ctx context.Context, ps []string) func(string) prefixCase {
			inner := &recInvoker{}
			ctl := bifrost_rpc.NewInvokerController(e.le, e.bus, verifInfo, inner, ps)
			return func(sid string) prefixCase {
				inner.seen = nil
				res, err := ctl.HandleDirective(e.ctx, &fakeInst{ctx: e.ctx, dir: bifrost_rpc.NewLookupRpcService(sid, "")})
				_, _ = ctl.InvokeMethod(sid, "m", nil)
				return prefixCase{err == nil && len(res) != 0, inner.seen}
			}
		}},
	}
}

func (e *engine) runC35Pure() {
	e.rep.Require("pure.rpcsvc.hist", "pure.rpcsvc.fwd", "pure.rpcsvc.rev", "pure.invoker.hist", "pure.invoker.fwd", "pure.invoker.rev",
		"pure.http.hist", "pure.http.fwd", "pure.http.rev")
	ectx, ecancel := context.WithCancel(e.ctx)
	defer ecancel()
	a, b := "plugin", "web"
	seps := sepSeparators
	if e.a.Scale == 1 {
		seps = append([]string{"/", "\x00", "é"}, seps[1+e.rng.Intn(3)], seps[4+e.rng.Intn(4)], seps[9+e.rng.Intn(4)])
	}
	for _, sub := range prefixSubjects() {
		for _, c := range seps {
			lists := [][]string{{a + c, a}, {a, a + c}, {a + c}, {a + c + b, a + c, b}}
			sids := []string{a + c + b, a + b, a + c, a, a + c + c + b, c + b, b + c + a, a + c + b + c + b, b, a[:3], ""}
			if len(c) > 1 {
				sids = append(sids, a+c[:1]+b, a+c[:1])
			}
			for _, ps := range lists {
				want := func(sid string) prefixCase {
					fp, has := firstPrefix(ps, sid)
					if !has {
						return prefixCase{false, nil}
					}
					s := sid[len(fp):]
					return prefixCase{true, &s}
				}
				shared := sub.mk(e, ectx, ps)
				owner := map[string]string{} // (matched prefix, seen ID) -> requested ID
				judge := func(sid string, got prefixCase, phase string) (string, string) {
					w := want(sid)
					key := "dispatch." + sub.kind
					switch {
					case got.answered != w.answered:
						return fmt.Sprintf("%s controller with prefixes %q answered=%v for %s (%s); its prefixes say %v", sub.kind, ps, got.answered, showIn(sid), phase, w.answered), key + ":filter"
					case optStr(got.seen) != optStr(w.seen):
						return fmt.Sprintf("%s controller with prefixes %q (%s): the service sees %s for the requested %s, instead of %s (exactly the first matching prefix removed)",
							sub.kind, ps, phase, showOpt(got.seen), showIn(sid), showOpt(w.seen)), key + ":strip"
					case got.seen != nil:
						fp, _ := firstPrefix(ps, sid)
						k := fp + "\x00|" + *got.seen
						if o, dup := owner[k]; dup && o != sid {
							return fmt.Sprintf("%s controller with prefixes %q: the different requests %s and %s are both seen as %s", sub.kind, ps, showIn(o), showIn(sid), showIn(*got.seen)), key + ":not-injective"
						}
						owner[k] = sid
					}
					return "", key
				}
				// (i) history: p then x on the shared controller against x on a fresh one
				for _, x := range sids {
					alone := lib.Recover(func() string { return sub.mk(e, ectx, ps)(x).String() })
					mon, key := "", "dispatch.history:"+sub.kind
					var last prefixCase
					for _, p := range sids {
						got := lib.Recover(func() string { shared(p); last = shared(x); return last.String() })
						if got != alone && mon == "" {
							mon = fmt.Sprintf("%s controller with prefixes %q: the outcome depends on the previous request: %s on a fresh controller gives %s, but after %s it gives %s",
								sub.kind, ps, showIn(x), alone, showIn(p), got)
						}
					}
					if mon == "" && !strings.HasPrefix(alone, "panic") {
						mon, key = judge(x, last, "after other requests")
					}
					op := sub.op(ps, x)
					e.cmp(op+" history=1", e.m.Query(op), alone, "pure."+sub.kind+".hist", key, mon)
				}
				// (ii) the family forward and backward on the shared controller
				for pass, order := range []string{"fwd", "rev"} {
					for i := range sids {
						x := sids[i]
						if pass == 1 {
							x = sids[len(sids)-1-i]
						}
						var got prefixCase
						impl := lib.Recover(func() string { got = shared(x); return got.String() })
						mon, key := "", "dispatch."+sub.kind
						if strings.HasPrefix(impl, "panic") {
							mon, key = sub.kind+" controller panics on "+showIn(x), key+":panic"
						} else {
							mon, key = judge(x, got, "order "+order)
						}
						op := sub.op(ps, x)
						e.cmp(op+" order="+order, e.m.Query(op), impl, "pure."+sub.kind+"."+order, key, mon)
					}
				}
			}
		}
	}

	// ---------------- HTTP prefix stripping ----------------
	type httpCase struct {
		answered bool
		seen     *[2]string
	}
	show := func(c httpCase) string {
		switch {
		case !c.answered:
			return "ok a=0 seen=-"
		case c.seen == nil:
			return "ok a=1 seen=none"
		}
		return "ok a=1 seen=some:" + hx(c.seen[0]) + "|" + hx(c.seen[1])
	}
	mkHTTP := func(ps []string) func(pu *url.URL) httpCase {
		inner := &recHandler{}
		ctl := bifrost_http.NewHTTPHandlerController(verifInfo, bifrost_http.NewHTTPHandlerBuilder(inner), ps, true, nil)
		_ = ctl.Execute(ectx)
		return func(pu *url.URL) httpCase {
			inner.seen = nil
			res, err := ctl.HandleDirective(e.ctx, &fakeInst{ctx: e.ctx, dir: bifrost_http.NewLookupHTTPHandler("GET", pu, "")})
			if err != nil || len(res) == 0 {
				return httpCase{}
			}
			if hh, ok := e.resolveValue(res[0]).(http.Handler); ok {
				u2 := *pu
				hh.ServeHTTP(httptest.NewRecorder(), &http.Request{Method: "GET", URL: &u2})
			}
			return httpCase{true, inner.seen}
		}
	}
	for _, c := range []string{"/", "%2F", ":", "é", "%C3%A9", ".", "%00", "|"} {
		lists := [][]string{{"/a" + c, "/a"}, {"/a", "/a" + c}, {"/a" + c}, {"/a/", "/a" + c + "b"}}
		var urls []*url.URL
		for _, t := range []string{"/a" + c + "b", "/ab", "/a" + c, "/a", "/a" + c + c + "b", "/a/b", "/a/" + c + "b", "/b" + c + "a", "/a" + c + "b" + c + "b", "/", ""} {
			if pu, err := url.Parse(t); err == nil {
				urls = append(urls, pu)
			}
		}
		for _, ps := range lists {
			// prefixes are matched against the decoded path: use the decoded form of the separator
			dps := make([]string, len(ps))
			for i := range ps {
				if d, err := url.PathUnescape(ps[i]); err == nil {
					dps[i] = d
				} else {
					dps[i] = ps[i]
				}
			}
			want := func(pu *url.URL) httpCase {
				fp, has := firstPrefix(dps, pu.Path)
				if !has {
					return httpCase{}
				}
				if pu.RawPath != "" && !strings.HasPrefix(pu.RawPath, fp) {
					return httpCase{true, nil} // net/http.StripPrefix: 404 when the escaped path does not carry the prefix
				}
				raw := ""
				if pu.RawPath != "" {
					raw = pu.RawPath[len(fp):]
				}
				return httpCase{true, &[2]string{pu.Path[len(fp):], raw}}
			}
			shared := mkHTTP(dps)
			owner := map[string]string{}
			judge := func(pu *url.URL, got httpCase, phase string) (string, string) {
				w := want(pu)
				key := "dispatch.http"
				switch {
				case got.answered != w.answered:
					return fmt.Sprintf("HTTPHandlerController with prefixes %q answered=%v for path %s (%s); its prefixes say %v", dps, got.answered, showIn(pu.Path), phase, w.answered), key + ":filter"
				case show(got) != show(w):
					return fmt.Sprintf("HTTPHandlerController with prefixes %q (%s): for path %s the handler sees %s instead of %s (exactly the matched prefix removed)", dps, phase, showIn(pu.Path), show(got), show(w)), key + ":strip"
				case got.seen != nil:
					fp, _ := firstPrefix(dps, pu.Path)
					k := fp + "\x00|" + got.seen[0] + "\x00|" + got.seen[1]
					id := pu.Path + "\x00|" + pu.RawPath
					if o, dup := owner[k]; dup && o != id {
						return fmt.Sprintf("HTTPHandlerController with prefixes %q: two different request paths (%s and %s) reach the handler as the same path", dps, showIn(o), showIn(id)), key + ":not-injective"
					}
					owner[k] = id
				}
				return "", key
			}
			opOf := func(pu *url.URL) string {
				return fmt.Sprintf("dispatch.http prefixes=%s strip=1 re=0 path=%s raw=%s", hxList(dps), hx(pu.Path), hx(pu.RawPath))
			}
			fix := func(m string) string {
				if strings.HasPrefix(m, "ok a=0 ") {
					return "ok a=0 seen=-"
				}
				return m
			}
			for _, x := range urls {
				alone := lib.Recover(func() string { return show(mkHTTP(dps)(x)) })
				mon, key := "", "dispatch.history:http"
				var last httpCase
				for _, p := range urls {
					got := lib.Recover(func() string { shared(p); last = shared(x); return show(last) })
					if got != alone && mon == "" {
						mon = fmt.Sprintf("HTTPHandlerController with prefixes %q: the outcome depends on the previous request: %s on a fresh controller gives %s, but after %s it gives %s",
							dps, showIn(x.Path), alone, showIn(p.Path), got)
					}
				}
				if mon == "" && !strings.HasPrefix(alone, "panic") {
					mon, key = judge(x, last, "after other requests")
				}
				e.cmp(opOf(x)+" history=1", fix(e.m.Query(opOf(x))), alone, "pure.http.hist", key, mon)
			}
			for pass, order := range []string{"fwd", "rev"} {
				for i := range urls {
					x := urls[i]
					if pass == 1 {
						x = urls[len(urls)-1-i]
					}
					var got httpCase
					impl := lib.Recover(func() string { got = shared(x); return show(got) })
					mon, key := "", "dispatch.http"
					if strings.HasPrefix(impl, "panic") {
						mon, key = "HTTPHandlerController panics on "+showIn(x.Path), key+":panic"
					} else {
						mon, key = judge(x, got, "order "+order)
					}
					e.cmp(opOf(x)+" order="+order, fix(e.m.Query(opOf(x))), impl, "pure.http."+order, key, mon)
				}
			}
		}
	}
}

func showOpt(s *string) string {
	if s == nil {
		return "nothing"
	}
	return showIn(*s)
}
