package main

import (
	"bufio"
	"fmt"
	"os"
	"os/exec"
	"runtime"
	"strings"

	"verif/harness/lib"
)

// History independence (the phase of the codec / config engines, extended across processes):
// every pure function must be a function of its input alone.
//
//  1. In process, under GOMAXPROCS(1) (sync.Pool's per-P slot is deterministic): for every ordered
//     pair (p, x) of the function's input set, p is evaluated and then x; every evaluation of x must
//     give the same canonical outcome; on a difference x is evaluated once more after two garbage
//     collections (which empty every sync.Pool) to name the outcome it has alone.
//  2. Across processes (this catches state that is never dropped again — a process-wide cache or
//     intern table, where the FIRST of two interfering inputs wins for the rest of the process, so
//     that re-evaluating x in the same process can never show a difference): the whole input set
//     is evaluated in a fresh child process in forward order and in another fresh child in reverse
//     order. Every input must have the same outcome in both, and that of phase 1. On a difference
//     a fresh child evaluates x alone, and fresh children evaluate (p, x) for the inputs p until
//     the one that changes x's outcome is found: the confirmed violation names p and x.
//
// The child is this binary re-executed with VERIF_DISPATCH_HIST=<function>; it reads one input per
// line (hex) and prints one outcome per line. It never talks to the model.

type histFn struct {
	name   string
	inputs []string               // canonical text of each input (no whitespace)
	f      func(x string) string  // canonical outcome on the real code
	op     func(x string) string  // model op line for x ("" / nil = none)
	fix    func(m string) string  // maps the model's answer to the canonical outcome (nil = identity)
	spec   func(x string) *string // model-independent statement of the outcome (nil = none)
	show   func(x string) string  // how an input is printed in a verdict (nil = showIn)
	branch string
}

const histEnv = "VERIF_DISPATCH_HIST"

func runHist(fn histFn, x string) string {
	r := lib.Recover(func() string { return fn.f(x) })
	if strings.HasPrefix(r, "panic") {
		return "panic"
	}
	return r
}

// histChildMain is the child side. Returns false when this process is not a child.
func histChildMain(table func() []histFn) bool {
	name := os.Getenv(histEnv)
	if name == "" {
		return false
	}
	runtime.GOMAXPROCS(1)
	var fn *histFn
	for _, f := range table() {
		if f.name == name {
			f := f
			fn = &f
		}
	}
	if fn == nil {
		fmt.Println("unknown-function")
		return true
	}
	sc := bufio.NewScanner(os.Stdin)
	sc.Buffer(make([]byte, 1<<20), 1<<24)
	w := bufio.NewWriter(os.Stdout)
	for sc.Scan() {
		x := string(lib.Unhex(sc.Text()))
		fmt.Fprintln(w, lib.Hex([]byte(runHist(*fn, x))))
	}
	w.Flush()
	return true
}

// histChild evaluates `xs` in order in a fresh process.
func histChild(name string, xs []string) []string {
	self, err := os.Executable()
	if err != nil {
		panic(err)
	}
	cmd := exec.Command(self)
	cmd.Env = append(os.Environ(), histEnv+"="+name)
	var in strings.Builder
	for _, x := range xs {
		in.WriteString(lib.Hex([]byte(x)))
		in.WriteByte('\n')
	}
	cmd.Stdin = strings.NewReader(in.String())
	cmd.Stderr = os.Stderr
	out, err := cmd.Output()
	if err != nil {
		panic("history child: " + err.Error())
	}
	lines := strings.Split(strings.TrimRight(string(out), "\n"), "\n")
	if len(lines) != len(xs) {
		panic(fmt.Sprintf("history child %s: %d outcomes for %d inputs", name, len(lines), len(xs)))
	}
	res := make([]string, len(lines))
	for i := range lines {
		res[i] = string(lib.Unhex(lines[i]))
	}
	return res
}

func (e *engine) historyPhase(fns []histFn) {
	prev := runtime.GOMAXPROCS(1)
	defer runtime.GOMAXPROCS(prev)
	for _, fn := range fns {
		xs := fn.inputs
		showIn := showIn
		if fn.show != nil {
			showIn = fn.show
		}
		mons := make([]string, len(xs))
		alone := make([]string, len(xs))
		// ---- 1. in process ----
		runtime.GC()
		runtime.GC()
		for i, x := range xs {
			alone[i] = runHist(fn, x)
			for _, poison := range xs {
				runHist(fn, poison)
				if got := runHist(fn, x); got != alone[i] && mons[i] == "" {
					runtime.GC()
					runtime.GC()
					clean := runHist(fn, x)
					other := got
					if other == clean {
						other = alone[i]
					}
					mons[i] = fmt.Sprintf("%s: the outcome depends on the previous input: %s alone gives %s, but after %s it gives %s",
						fn.name, showIn(x), lib.Trunc(clean), showIn(poison), lib.Trunc(other))
					alone[i] = clean
				}
			}
		}
		// ---- 2. across processes ----
		fwd := histChild(fn.name, xs)
		rev := make([]string, len(xs))
		{
			rx := make([]string, len(xs))
			for i := range xs {
				rx[i] = xs[len(xs)-1-i]
			}
			r := histChild(fn.name, rx)
			for i := range xs {
				rev[i] = r[len(xs)-1-i]
			}
		}
		searches := 0
		for i, x := range xs {
			if mons[i] != "" || (fwd[i] == rev[i] && fwd[i] == alone[i]) {
				continue
			}
			fresh := histChild(fn.name, []string{x})[0]
			other := fwd[i]
			if other == fresh {
				other = rev[i]
			}
			if other == fresh {
				other = alone[i]
			}
			culprit := "the inputs handled earlier in the same process"
			if searches < 3 { // name the single input that changes the outcome (first witnesses only)
				searches++
				for _, p := range xs {
					if p == x {
						continue
					}
					if r := histChild(fn.name, []string{p, x}); r[1] != fresh {
						culprit, other = showIn(p), r[1]
						break
					}
				}
			}
			mons[i] = fmt.Sprintf("%s: the outcome depends on what the process handled before: %s alone (fresh process) gives %s, but after %s it gives %s",
				fn.name, showIn(x), lib.Trunc(fresh), culprit, lib.Trunc(other))
			alone[i] = fresh
		}
		// ---- report: the outcome alone against the model and the specification ----
		for i, x := range xs {
			mon := mons[i]
			if mon == "" && fn.spec != nil {
				if want := fn.spec(x); want != nil && *want != alone[i] {
					mon = fmt.Sprintf("%s(%s) = %s, but its specification says %s", fn.name, showIn(x), lib.Trunc(alone[i]), lib.Trunc(*want))
				}
			}
			model := alone[i]
			op := "history " + fn.name + " x=" + lib.Hex([]byte(x))
			if fn.op != nil {
				if o := fn.op(x); o != "" {
					model = e.m.Query(o)
					if fn.fix != nil {
						model = fn.fix(model)
					}
					op = o + " history=" + fn.name
				}
			}
			e.cmp(op, model, alone[i], fn.branch, "dispatch.history:"+fn.name, mon)
		}
	}
}

// showIn prints an input for a verdict: printable text as it is, anything else in hex.
func showIn(x string) string {
	for _, c := range []byte(x) {
		if c < 0x20 || c > 0x7e {
			return "0x" + lib.Hex([]byte(x))
		}
	}
	return fmt.Sprintf("%q", x)
}
