package main

import (
	"context"
	"fmt"
	"net/url"
	"sort"
	"strings"

	"github.com/aperturerobotics/bifrost/crypto"
	bifrost_http "github.com/aperturerobotics/bifrost/http"
	"github.com/aperturerobotics/bifrost/link"
	link_solicit "github.com/aperturerobotics/bifrost/link/solicit"
	"github.com/aperturerobotics/bifrost/peer"
	"github.com/aperturerobotics/bifrost/protocol"
	"github.com/aperturerobotics/bifrost/pubsub"
	"github.com/aperturerobotics/bifrost/router"
	bifrost_rpc "github.com/aperturerobotics/bifrost/rpc"
	"github.com/aperturerobotics/bifrost/signaling"
	"github.com/aperturerobotics/bifrost/tptaddr"
	"github.com/aperturerobotics/bifrost/transport"
	"github.com/aperturerobotics/bifrost/transport/common/dialer"
	"github.com/aperturerobotics/controllerbus/directive"
	"github.com/aperturerobotics/util/backoff"

	"verif/harness/lib"
)

// param is one constructor argument drawn from a small universe: `enc` is its encoding on the
// model line, `class` identifies the resolution-affecting value it denotes (two params with the
// same class must not make two directives different), `v` is the Go value.
type param struct {
	enc   string
	class string
	v     any
}

type dirKind struct {
	name   string
	fields [][]param // universe per field, in Go struct order
	build  func(p []param) directive.Directive
	// neverMerge: the directive type is never de-duplicated by design (its IsEquivalent is
	// `return false`): "separates two identical requests" is not a violation of the property
	// (which only forbids merging different requests)
	neverMerge bool
}

// fakeSession is a signaling.SignalPeerSession identified by its address.
type fakeSession struct{ local, remote peer.ID }

func (s *fakeSession) GetLocalPeerID() peer.ID                    { return s.local }
func (s *fakeSession) GetRemotePeerID() peer.ID                   { return s.remote }
func (s *fakeSession) Send(ctx context.Context, msg []byte) error { return nil }
func (s *fakeSession) Recv(ctx context.Context) ([]byte, error)   { return nil, nil }

// fakeKey is a crypto.PrivKey identified by its address.
type fakeKey struct{ n byte }

func (k *fakeKey) Equals(o crypto.Key) bool    { ok, is := o.(*fakeKey); return is && ok.n == k.n }
func (k *fakeKey) Raw() ([]byte, error)        { return []byte{k.n}, nil }
func (k *fakeKey) Type() crypto.KeyType        { return crypto.KeyType_Ed25519 }
func (k *fakeKey) Sign([]byte) ([]byte, error) { return nil, nil }
func (k *fakeKey) GetPublic() crypto.PubKey    { return nil }

func strParams(vals ...string) []param {
	var out []param
	for _, v := range vals {
		out = append(out, param{enc: hx(v), class: "s:" + v, v: v})
	}
	return out
}

func u64Params(vals ...uint64) []param {
	var out []param
	for _, v := range vals {
		out = append(out, param{enc: fmt.Sprint(v), class: fmt.Sprint("u:", v), v: v})
	}
	return out
}

func (e *engine) runC37() {
	prevRule := e.rep.Rule
	defer func() {
		if e.onlyKinds != nil {
			names := make([]string, 0, len(e.onlyKinds))
			for n := range e.onlyKinds {
				names = append(names, n)
			}
			sort.Strings(names)
			e.rep.Rule = prevRule + "request de-duplication this property relies on (directive types " + strings.Join(names, ", ") + " only): " + e.rep.Rule
		}
	}()
	e.rep.Rule = "for each of the 14 directive types (every IsEquivalent implementation of the repository): all ordered pairs over the product of a 2–5-value universe per constructor parameter (peer IDs: none/P1/P2; strings: empty/x/y + case variant X + xy (x as proper prefix); protocol IDs p/a, p/b, P/A, p/a/x; methods GET/POST/get; transport IDs 0/1/2 + 2^32, 2^32+1 (equal to 0 / 1 below bit 32); DialerOpts: nil / empty / address x / address x with backoff / address y; URLs: eight parsed URLs differing in path, query, host, escaping, case of path / host) ; sessions: nil / s1 / s2 / s3 = another object with the peers of s1; private keys: nil / k1 / k2 / k3 = another object with the bytes of k1) against the real IsEquivalent; the URL's String() is computed with net/url directly; plus the cross-type sweep: three instances of every type against three of every OTHER type (all ordered pairs of different types), which must never be equivalent; distinct = distinct op line"
	p1, p2 := mkPeer(1), mkPeer(101)
	peers := strParams("", p1.id, p2.id)
	// strings: besides unset / two different values, a CASE variant ("X": an EqualFold comparison
	// merges it with "x") and a value with another one as proper prefix ("xy": HasPrefix / length-
	// truncating comparisons merge it with "x")
	strs := strParams("", "x", "y", "X", "xy")
	strs3 := strParams("", "x", "y")
	protoStrs := strParams("", "p/a", "p/b", "P/A", "p/a/x")
	// integers: besides 0 / 1 / 2, values that differ from them only above bit 31 (a comparison
	// through uint32 / int32 merges 1<<32 with 0 and 1<<32+1 with 1)
	wide := u64Params(0, 1, 2, 1<<32, 1<<32+1)
	if e.a.Scale > 1 { // thorough: prefix-related and non-multihash values
		peers = strParams("", p1.id, p2.id, p1.id[:len(p1.id)-1], "raw")
		strs = strParams("", "x", "y", "X", "xy", "x ")
		wide = u64Params(0, 1, 2, 1<<32, 1<<32+1, 1<<63, 1<<16)
	}
	var urls []param
	for _, t := range []string{"/a", "/b", "/a?q=1", "http://h/a", "/a%2Fb", "/a/b", "/A", "http://H/a"} {
		pu, err := url.Parse(t)
		if err != nil {
			panic(err)
		}
		urls = append(urls, param{enc: hx(pu.String()), class: "url:" + t, v: pu})
	}
	dopts := []param{
		{enc: "nil", class: "addr:", v: (*dialer.DialerOpts)(nil)},
		{enc: "o:-:0", class: "addr:", v: &dialer.DialerOpts{}},
		{enc: "o:" + hx("x") + ":0", class: "addr:x", v: &dialer.DialerOpts{Address: "x"}},
		// backoff is connection tuning, not part of what is resolved (the one judgement call)
		{enc: "o:" + hx("x") + ":1", class: "addr:x", v: &dialer.DialerOpts{Address: "x", Backoff: &backoff.Backoff{BackoffKind: backoff.BackoffKind_BackoffKind_CONSTANT}}},
		{enc: "o:" + hx("y") + ":0", class: "addr:y", v: &dialer.DialerOpts{Address: "y"}},
	}
	// interface-typed parameters are identified by the Go object (0 = nil interface)
	s1, s2, s3 := &fakeSession{peer.ID(p1.id), peer.ID(p2.id)}, &fakeSession{peer.ID(p2.id), peer.ID(p1.id)}, &fakeSession{peer.ID(p1.id), peer.ID(p2.id)}
	sessions := []param{
		{enc: "0", class: "sess:0", v: signaling.SignalPeerSession(nil)},
		{enc: "1", class: "sess:1", v: signaling.SignalPeerSession(s1)},
		{enc: "2", class: "sess:2", v: signaling.SignalPeerSession(s2)},
		{enc: "3", class: "sess:3", v: signaling.SignalPeerSession(s3)},
	}
	k1, k2, k3 := &fakeKey{1}, &fakeKey{2}, &fakeKey{1}
	keys := []param{
		{enc: "0", class: "key:0", v: crypto.PrivKey(nil)},
		{enc: "1", class: "key:1", v: crypto.PrivKey(k1)},
		{enc: "2", class: "key:2", v: crypto.PrivKey(k2)},
		{enc: "3", class: "key:3", v: crypto.PrivKey(k3)},
	}
	kinds := []dirKind{
		{"SolicitProtocol", [][]param{strParams("p/a", "p/b", "P/A"), strParams("", "c", "d", "C"), peers, u64Params(0, 1, 2, 1<<32)}, func(p []param) directive.Directive {
			var ctx []byte
			if s := p[1].v.(string); s != "" {
				ctx = []byte(s)
			}
			return link_solicit.NewSolicitProtocol(protocol.ID(p[0].v.(string)), ctx, peer.ID(p[2].v.(string)), p[3].v.(uint64))
		}, false},
		{"EstablishLinkWithPeer", [][]param{peers, peers}, func(p []param) directive.Directive {
			return link.NewEstablishLinkWithPeer(peer.ID(p[0].v.(string)), peer.ID(p[1].v.(string)))
		}, false},
		{"HandleMountedStream", [][]param{protoStrs, peers, peers}, func(p []param) directive.Directive {
			return link.NewHandleMountedStream(protocol.ID(p[0].v.(string)), peer.ID(p[1].v.(string)), peer.ID(p[2].v.(string)))
		}, false},
		{"DialTptAddr", [][]param{dopts, peers, peers}, func(p []param) directive.Directive {
			return tptaddr.NewDialTptAddr(p[0].v.(*dialer.DialerOpts), peer.ID(p[1].v.(string)), peer.ID(p[2].v.(string)))
		}, false},
		{"LookupTptAddr", [][]param{peers}, func(p []param) directive.Directive {
			return tptaddr.NewLookupTptAddr(peer.ID(p[0].v.(string)))
		}, false},
		{"LookupTransport", [][]param{peers, wide}, func(p []param) directive.Directive {
			return transport.NewLookupTransport(peer.ID(p[0].v.(string)), p[1].v.(uint64))
		}, false},
		{"LookupRpcService", [][]param{strs, strs}, func(p []param) directive.Directive {
			return bifrost_rpc.NewLookupRpcService(p[0].v.(string), p[1].v.(string))
		}, false},
		{"LookupRpcClient", [][]param{strs, strs}, func(p []param) directive.Directive {
			return bifrost_rpc.NewLookupRpcClient(p[0].v.(string), p[1].v.(string))
		}, false},
		{"LookupHTTPHandler", [][]param{strParams("", "GET", "POST", "get"), urls, strs3}, func(p []param) directive.Directive {
			return bifrost_http.NewLookupHTTPHandler(p[0].v.(string), p[1].v.(*url.URL), p[2].v.(string))
		}, false},
		{"SignalPeer", [][]param{strs, peers, peers}, func(p []param) directive.Directive {
			return signaling.NewSignalPeer(p[0].v.(string), peer.ID(p[1].v.(string)), peer.ID(p[2].v.(string)))
		}, false},
		{"GetPeer", [][]param{peers}, func(p []param) directive.Directive {
			return peer.NewGetPeer(peer.ID(p[0].v.(string)))
		}, false},
		{"HandleSignalPeer", [][]param{strs, sessions}, func(p []param) directive.Directive {
			sess, _ := p[1].v.(signaling.SignalPeerSession)
			return signaling.NewHandleSignalPeer(p[0].v.(string), sess)
		}, false},
		{"BuildChannelSubscription", [][]param{strs, keys}, func(p []param) directive.Directive {
			k, _ := p[1].v.(crypto.PrivKey)
			return pubsub.NewBuildChannelSubscription(p[0].v.(string), k)
		}, true},
		{"DiscoverRoutes", [][]param{protoStrs, peers, peers}, func(p []param) directive.Directive {
			return router.NewDiscoverRoutesWithPeerIDs(protocol.ID(p[0].v.(string)), peer.ID(p[1].v.(string)), peer.ID(p[2].v.(string)))
		}, false},
	}
	type inst struct {
		kind string
		enc  string
		d    directive.Directive
	}
	var reps []inst
	included := 0
	for _, k := range kinds {
		if e.onlyKinds != nil && !e.onlyKinds[k.name] {
			continue
		}
		included++
		if k.neverMerge {
			e.rep.Require(k.name + ".ne")
		} else {
			e.rep.Require(k.name+".eq", k.name+".ne")
		}
		// all parameter tuples
		tuples := [][]param{nil}
		for _, f := range k.fields {
			var next [][]param
			for _, t := range tuples {
				for _, p := range f {
					next = append(next, append(append([]param{}, t...), p))
				}
			}
			tuples = next
		}
		enc := func(t []param) string {
			s := make([]string, len(t))
			for i := range t {
				s[i] = t[i].enc
			}
			return strings.Join(s, ";")
		}
		cls := func(t []param) string {
			s := make([]string, len(t))
			for i := range t {
				s[i] = t[i].class
			}
			return strings.Join(s, "\x00")
		}
		dirs := make([]directive.Directive, len(tuples))
		for i, t := range tuples {
			dirs[i] = k.build(t)
		}
		// representatives for the cross-type sweep: the first tuple (all-empty / nil), the tuple of
		// every field's second value (the values "x" / P1 / 1 that other types also use, so that a
		// comparison reached across types would succeed), and the last tuple
		mid := 0
		for _, f := range k.fields {
			ix := 1
			if len(f) < 2 {
				ix = 0
			}
			mid = mid*len(f) + ix
		}
		for _, ix := range []int{0, mid, len(tuples) - 1} {
			reps = append(reps, inst{k.name, enc(tuples[ix]), dirs[ix]})
		}
		for i, ta := range tuples {
			for j, tb := range tuples {
				op := fmt.Sprintf("dispatch.iseq dir=%s a=%s b=%s", k.name, enc(ta), enc(tb))
				model := e.m.Query(op)
				var eq bool
				impl := lib.Recover(func() string {
					eq = dirs[i].(directive.DirectiveWithEquiv).IsEquivalent(dirs[j])
					return "ok " + bit(eq)
				})
				same := cls(ta) == cls(tb)
				mon, key := "", "dispatch.iseq"
				if eq && !same {
					var diff []string
					for x := range ta {
						if ta[x].class != tb[x].class {
							diff = append(diff, fmt.Sprintf("parameter %d (%s vs %s)", x, ta[x].enc, tb[x].enc))
						}
					}
					mon = fmt.Sprintf("%s.IsEquivalent merges two requests that differ in %s", k.name, strings.Join(diff, ", "))
					key += ":" + k.name + "-merges-different"
				} else if !eq && same && !k.neverMerge {
					mon = fmt.Sprintf("%s.IsEquivalent separates two identical requests", k.name)
					key += ":" + k.name + "-splits-equal"
				}
				br := k.name + ".ne"
				if model == "ok 1" {
					br = k.name + ".eq"
				}
				e.cmp(op, model, impl, br, key, mon)
			}
		}
	}
	// ---- cross-type sweep: directives of different types are never the same request ----
	if included > 1 {
		e.rep.Require("cross.ne")
	}
	for _, x := range reps {
		for _, y := range reps {
			if x.kind == y.kind {
				continue
			}
			op := fmt.Sprintf("dispatch.iseqx ka=%s a=%s kb=%s b=%s", x.kind, x.enc, y.kind, y.enc)
			model := e.m.Query(op)
			var eq bool
			impl := lib.Recover(func() string {
				eq = x.d.(directive.DirectiveWithEquiv).IsEquivalent(y.d)
				return "ok " + bit(eq)
			})
			mon, key := "", "dispatch.iseqx"
			if eq {
				mon = fmt.Sprintf("%s.IsEquivalent merges a %s request (%s) with a %s request (%s)", x.kind, x.kind, x.enc, y.kind, y.enc)
				key += ":" + x.kind + "-merges-" + y.kind
			}
			br := "cross.ne"
			if model == "ok 1" {
				br = "cross.eq"
			}
			e.cmp(op, model, impl, br, key, mon)
		}
	}
}
