package main

import (
	"fmt"
	"net/url"
	"strings"

	bifrost_http "github.com/aperturerobotics/bifrost/http"
	"github.com/aperturerobotics/bifrost/link"
	link_solicit "github.com/aperturerobotics/bifrost/link/solicit"
	"github.com/aperturerobotics/bifrost/peer"
	"github.com/aperturerobotics/bifrost/protocol"
	bifrost_rpc "github.com/aperturerobotics/bifrost/rpc"
	"github.com/aperturerobotics/bifrost/signaling"
	"github.com/aperturerobotics/bifrost/tptaddr"
	"github.com/aperturerobotics/bifrost/transport"
	"github.com/aperturerobotics/bifrost/transport/common/dialer"
	"github.com/aperturerobotics/controllerbus/directive"
	"github.com/aperturerobotics/util/backoff"

	"verif/harness/lib"
)

// param is one constructor argument drawn from a small universe: `enc` is its encoding on the
// model line, `class` identifies the resolution-affecting value it denotes (two params with the
// same class must not make two directives different), `v` is the Go value.
type param struct {
	enc   string
	class string
	v     any
}

type dirKind struct {
	name   string
	fields [][]param // universe per field, in Go struct order
	build  func(p []param) directive.Directive
}

func strParams(vals ...string) []param {
	var out []param
	for _, v := range vals {
		out = append(out, param{enc: hx(v), class: "s:" + v, v: v})
	}
	return out
}

func u64Params(vals ...uint64) []param {
	var out []param
	for _, v := range vals {
		out = append(out, param{enc: fmt.Sprint(v), class: fmt.Sprint("u:", v), v: v})
	}
	return out
}

func (e *engine) runC37() {
	e.rep.Rule = "for each of the 11 directive types: all ordered pairs over the product of a 2–5-value universe per constructor parameter (peer IDs: none/P1/P2; strings: empty/x/y; transport IDs 0/1/2; DialerOpts: nil / empty / address x / address x with backoff / address y; URLs: six parsed URLs differing in path, query, host, escaping) against the real IsEquivalent; the URL's String() is computed with net/url directly; distinct = distinct op line"
	p1, p2 := mkPeer(1), mkPeer(101)
	peers := strParams("", p1.id, p2.id)
	strs := strParams("", "x", "y")
	if e.a.Scale > 1 { // thorough: prefix-related and non-multihash values
		peers = strParams("", p1.id, p2.id, p1.id[:len(p1.id)-1], "raw")
		strs = strParams("", "x", "y", "xy", "x ")
	}
	var urls []param
	for _, t := range []string{"/a", "/b", "/a?q=1", "http://h/a", "/a%2Fb", "/a/b"} {
		pu, err := url.Parse(t)
		if err != nil {
			panic(err)
		}
		urls = append(urls, param{enc: hx(pu.String()), class: "url:" + t, v: pu})
	}
	dopts := []param{
		{enc: "nil", class: "addr:", v: (*dialer.DialerOpts)(nil)},
		{enc: "o:-:0", class: "addr:", v: &dialer.DialerOpts{}},
		{enc: "o:" + hx("x") + ":0", class: "addr:x", v: &dialer.DialerOpts{Address: "x"}},
		// backoff is connection tuning, not part of what is resolved (the one judgement call)
		{enc: "o:" + hx("x") + ":1", class: "addr:x", v: &dialer.DialerOpts{Address: "x", Backoff: &backoff.Backoff{BackoffKind: backoff.BackoffKind_BackoffKind_CONSTANT}}},
		{enc: "o:" + hx("y") + ":0", class: "addr:y", v: &dialer.DialerOpts{Address: "y"}},
	}
	kinds := []dirKind{
		{"SolicitProtocol", [][]param{strParams("p/a", "p/b"), strParams("", "c", "d"), peers, u64Params(0, 1, 2)}, func(p []param) directive.Directive {
			var ctx []byte
			if s := p[1].v.(string); s != "" {
				ctx = []byte(s)
			}
			return link_solicit.NewSolicitProtocol(protocol.ID(p[0].v.(string)), ctx, peer.ID(p[2].v.(string)), p[3].v.(uint64))
		}},
		{"EstablishLinkWithPeer", [][]param{peers, peers}, func(p []param) directive.Directive {
			return link.NewEstablishLinkWithPeer(peer.ID(p[0].v.(string)), peer.ID(p[1].v.(string)))
		}},
		{"HandleMountedStream", [][]param{strParams("", "p/a", "p/b"), peers, peers}, func(p []param) directive.Directive {
			return link.NewHandleMountedStream(protocol.ID(p[0].v.(string)), peer.ID(p[1].v.(string)), peer.ID(p[2].v.(string)))
		}},
		{"DialTptAddr", [][]param{dopts, peers, peers}, func(p []param) directive.Directive {
			return tptaddr.NewDialTptAddr(p[0].v.(*dialer.DialerOpts), peer.ID(p[1].v.(string)), peer.ID(p[2].v.(string)))
		}},
		{"LookupTptAddr", [][]param{peers}, func(p []param) directive.Directive {
			return tptaddr.NewLookupTptAddr(peer.ID(p[0].v.(string)))
		}},
		{"LookupTransport", [][]param{peers, u64Params(0, 1, 2)}, func(p []param) directive.Directive {
			return transport.NewLookupTransport(peer.ID(p[0].v.(string)), p[1].v.(uint64))
		}},
		{"LookupRpcService", [][]param{strs, strs}, func(p []param) directive.Directive {
			return bifrost_rpc.NewLookupRpcService(p[0].v.(string), p[1].v.(string))
		}},
		{"LookupRpcClient", [][]param{strs, strs}, func(p []param) directive.Directive {
			return bifrost_rpc.NewLookupRpcClient(p[0].v.(string), p[1].v.(string))
		}},
		{"LookupHTTPHandler", [][]param{strParams("", "GET", "POST"), urls, strs}, func(p []param) directive.Directive {
			return bifrost_http.NewLookupHTTPHandler(p[0].v.(string), p[1].v.(*url.URL), p[2].v.(string))
		}},
		{"SignalPeer", [][]param{strs, peers, peers}, func(p []param) directive.Directive {
			return signaling.NewSignalPeer(p[0].v.(string), peer.ID(p[1].v.(string)), peer.ID(p[2].v.(string)))
		}},
		{"GetPeer", [][]param{peers}, func(p []param) directive.Directive {
			return peer.NewGetPeer(peer.ID(p[0].v.(string)))
		}},
	}
	for _, k := range kinds {
		e.rep.Require(k.name+".eq", k.name+".ne")
		// all parameter tuples
		tuples := [][]param{nil}
		for _, f := range k.fields {
			var next [][]param
			for _, t := range tuples {
				for _, p := range f {
					next = append(next, append(append([]param{}, t...), p))
				}
			}
			tuples = next
		}
		enc := func(t []param) string {
			s := make([]string, len(t))
			for i := range t {
				s[i] = t[i].enc
			}
			return strings.Join(s, ";")
		}
		cls := func(t []param) string {
			s := make([]string, len(t))
			for i := range t {
				s[i] = t[i].class
			}
			return strings.Join(s, "\x00")
		}
		dirs := make([]directive.Directive, len(tuples))
		for i, t := range tuples {
			dirs[i] = k.build(t)
		}
		for i, ta := range tuples {
			for j, tb := range tuples {
				op := fmt.Sprintf("dispatch.iseq dir=%s a=%s b=%s", k.name, enc(ta), enc(tb))
				model := e.m.Query(op)
				var eq bool
				impl := lib.Recover(func() string {
					eq = dirs[i].(directive.DirectiveWithEquiv).IsEquivalent(dirs[j])
					return "ok " + bit(eq)
				})
				same := cls(ta) == cls(tb)
				mon, key := "", "dispatch.iseq"
				if eq && !same {
					var diff []string
					for x := range ta {
						if ta[x].class != tb[x].class {
							diff = append(diff, fmt.Sprintf("parameter %d (%s vs %s)", x, ta[x].enc, tb[x].enc))
						}
					}
					mon = fmt.Sprintf("%s.IsEquivalent merges two requests that differ in %s", k.name, strings.Join(diff, ", "))
					key += ":" + k.name + "-merges-different"
				} else if !eq && same {
					mon = fmt.Sprintf("%s.IsEquivalent separates two identical requests", k.name)
					key += ":" + k.name + "-splits-equal"
				}
				br := k.name + ".ne"
				if model == "ok 1" {
					br = k.name + ".eq"
				}
				e.cmp(op, model, impl, br, key, mon)
			}
		}
	}
}
