package main

// C35, third part: the registrations the first two parts never built (audit rows 4 and 29) —
//   * bifrost_rpc.ClientController (LookupRpcClient) with a given prefix list: answered?, and
//     what the wrapped client is called with when the resolved srpc.Client is used;
//   * the controller stream/srpc/client/controller.NewController builds from a Config, for every
//     service_id_prefixes list incl. none / [""] / a leading and a trailing empty prefix;
//   * bifrost_rpc_access.ClientController (the registration standing for a remote bus):
//     service-ID pattern × server-ID pattern × IDs incl. the empty ones.
// The monitors state the property's clause ("answers exactly when the requested ID satisfies the
// configured prefixes / patterns, or there is no filter; with stripping the remote sees exactly the
// matched prefix removed") on the generated inputs only.

import (
	"context"
	"errors"
	"fmt"
	"regexp"
	"strings"

	bifrost_rpc "github.com/aperturerobotics/bifrost/rpc"
	bifrost_rpc_access "github.com/aperturerobotics/bifrost/rpc/access"
	stream_srpc_client "github.com/aperturerobotics/bifrost/stream/srpc/client"
	stream_srpc_client_controller "github.com/aperturerobotics/bifrost/stream/srpc/client/controller"
	"github.com/aperturerobotics/starpc/echo"
	"github.com/aperturerobotics/starpc/srpc"

	"verif/harness/lib"
)

// recClient is the srpc.Client behind the prefix stripper: it records the service ID it is called with.
type recClient struct{ seen *string }

var errRecClient = errors.New("verif-rec-client")

func (r *recClient) ExecCall(ctx context.Context, service, method string, in, out srpc.Message) error {
	s := service
	r.seen = &s
	return errRecClient
}

func (r *recClient) NewStream(ctx context.Context, service, method string, firstMsg srpc.Message) (srpc.Stream, error) {
	s := service
	r.seen = &s
	return nil, errRecClient
}

const emptyPrefixClientWhat = "a LookupRpcClient registration whose prefix list contains the empty prefix does not serve lookups that satisfy its prefixes: srpc.CheckStripPrefix reports an empty matched prefix, which ClientController / PrefixClient read as 'no match'"

func (e *engine) runC35Clients() {
	e.rep.Require("client.a0", "client.a1", "client.refused", "clientcfg.a0", "clientcfg.a1", "clientcfg.default", "clientcfg.leading-empty",
		"access.a0", "access.a1", "access.empty-id")
	u := []string{"", "a", "ab", "b/"}
	sids := []string{"", "a", "ab", "abb", "b", "b/a", "c"}
	if e.a.Scale > 1 {
		u = append(u, "b", "abb")
		sids = append(sids, "b/", "abba", "ba")
	}

	// ---------------- bifrost_rpc.ClientController with a given list ----------------
	for _, ps := range prefixLists(u, true) {
		base := &recClient{}
		ctl := bifrost_rpc.NewClientController(e.le, e.bus, verifInfo, base, ps)
		for _, sid := range sids {
			op := fmt.Sprintf("dispatch.rpcclient prefixes=%s sid=%s", hxList(ps), hx(sid))
			model := e.m.Query(op)
			answered := false
			base.seen = nil
			impl := lib.Recover(func() string {
				di := &fakeInst{ctx: e.ctx, dir: bifrost_rpc.NewLookupRpcClient(sid, "")}
				res, err := ctl.HandleDirective(e.ctx, di)
				if err != nil {
					return "err"
				}
				answered = len(res) != 0
				var cl srpc.Client = ctl.GetClient()
				if answered {
					v := e.resolveValue(res[0])
					c, ok := v.(srpc.Client)
					if !ok {
						return "ok a=1 seen=no-value"
					}
					cl = c
				}
				_ = cl.ExecCall(e.ctx, sid, "m", &echo.EchoMsg{}, &echo.EchoMsg{})
				first := base.seen
				// the streaming entry point strips the same way
				base.seen = nil
				_, _ = cl.NewStream(e.ctx, sid, "m", nil)
				if optStr(first) != optStr(base.seen) {
					return "ok a=" + bit(answered) + " seen=" + optStr(first) + " but NewStream seen=" + optStr(base.seen)
				}
				return "ok a=" + bit(answered) + " seen=" + optStr(base.seen)
			})
			fp, has := firstPrefix(ps, sid)
			want := len(ps) == 0 || has
			mon, key := "", "dispatch.rpcclient"
			br := "client.a" + bit(answered)
			switch {
			case answered != want && contains(ps, ""):
				mon, key = emptyPrefixClientWhat+fmt.Sprintf(" (ClientController prefixes %q, service %q not answered)", ps, sid), "dispatch.emptyprefix:client-answers"
			case answered != want:
				mon, key = fmt.Sprintf("ClientController answered=%v for %q but its prefixes %q say %v", answered, sid, ps, want), key+":filter"
			case answered && len(ps) == 0:
				if base.seen == nil || *base.seen != sid {
					mon, key = "without prefixes the remote must see the requested service ID unchanged", key+":nostrip"
				}
			case answered:
				if base.seen == nil || *base.seen != sid[len(fp):] {
					mon, key = fmt.Sprintf("the remote sees %s instead of %q with exactly the first matching prefix %q removed", optStr(base.seen), sid[len(fp):], fp), key+":strip"
				}
			default:
				if base.seen == nil {
					br = "client.refused"
				} else {
					mon, key = "a service ID that was not answered reached the remote through the prefix client", key+":strip"
				}
			}
			e.cmp(op, model, impl, br, key, mon)
		}
	}

	// ---------------- the controller built from a Config ----------------
	cctx, ccancel := context.WithCancel(e.ctx)
	ccancel() // calls through the built client never leave the process
	for _, cfg := range prefixLists(u, true) {
		conf := &stream_srpc_client_controller.Config{ProtocolId: "p/a", Client: &stream_srpc_client.Config{}, ServiceIdPrefixes: cfg}
		verr := conf.Validate()
		ctl, cerr := stream_srpc_client_controller.NewController(e.le, e.bus, conf)
		for _, sid := range sids {
			op := fmt.Sprintf("dispatch.rpcclientcfg cfg=%s sid=%s", hxList(cfg), hx(sid))
			model := e.m.Query(op)
			answered, fwd := false, false
			impl := lib.Recover(func() string {
				if verr != nil || cerr != nil {
					return "noctl"
				}
				di := &fakeInst{ctx: e.ctx, dir: bifrost_rpc.NewLookupRpcClient(sid, "")}
				res, err := ctl.HandleDirective(e.ctx, di)
				if err != nil {
					return "err"
				}
				answered = len(res) != 0
				var cl srpc.Client = ctl.GetClient()
				if answered {
					if c, ok := e.resolveValue(res[0]).(srpc.Client); ok {
						cl = c
					} else {
						return "ok a=1 fwd=no-value"
					}
				}
				// no server peer is configured: a forwarded call fails to connect, a refused one is
				// srpc.ErrUnimplemented before anything is opened
				cerr := cl.ExecCall(cctx, sid, "m", &echo.EchoMsg{}, &echo.EchoMsg{})
				fwd = cerr != srpc.ErrUnimplemented
				return "ok a=" + bit(answered) + " fwd=" + bit(fwd)
			})
			_, has := firstPrefix(cfg, sid)
			want := len(cfg) == 0 || has // "If empty slice or empty string: matches all" + the prefix clause
			mon, key := "", "dispatch.rpcclientcfg"
			br := "clientcfg.a" + bit(answered)
			switch {
			case verr != nil || cerr != nil:
				mon, key = fmt.Sprintf("a well-formed client controller config (prefixes %q) is refused: validate=%v construct=%v", cfg, verr, cerr), key+":refused"
			case len(cfg) == 0 && !answered:
				mon, key = fmt.Sprintf("a client controller configured WITHOUT service_id_prefixes does not answer the lookup of %q (documented: matches all LookupRpcClient calls)", sid), key+":default-matches-nothing"
			case answered != want && len(cfg) > 0 && cfg[0] == "":
				mon, key = fmt.Sprintf("a client controller whose first prefix is the empty prefix (%q) does not answer the lookup of %q (documented: empty string matches all)", cfg, sid), key+":leading-empty-matches-nothing"
			case answered != want && contains(cfg, ""):
				mon, key = emptyPrefixClientWhat+fmt.Sprintf(" (config prefixes %q, service %q not answered)", cfg, sid), "dispatch.emptyprefix:clientcfg-answers"
			case answered != want:
				mon, key = fmt.Sprintf("client controller (config prefixes %q) answered=%v for %q but its prefixes say %v", cfg, answered, sid, want), key+":filter"
			case answered != fwd:
				mon, key = fmt.Sprintf("client controller (config prefixes %q), service %q: lookup answered=%v but a call through its client forwarded=%v", cfg, sid, answered, fwd), key+":answer-vs-forward"
			}
			if len(cfg) == 0 {
				br = "clientcfg.default"
			} else if cfg[0] == "" && answered {
				br = "clientcfg.leading-empty"
			}
			e.cmp(op, model, impl, br, key, mon)
		}
	}

	// ---------------- bifrost_rpc_access.ClientController ----------------
	never := bifrost_rpc_access.AccessClientFunc(func(ctx context.Context, released func()) (bifrost_rpc_access.SRPCAccessRpcServiceClient, func(), error) {
		return nil, nil, errors.New("verif: the access client is never needed to decide HandleDirective")
	})
	asids := append([]string{}, sids...)
	asrvs := []string{"", "s", "t", "xs", "st"}
	for _, reS := range []string{"", "^a", "b$", "^$"} {
		for _, sreS := range []string{"", "^s", "t$", "^$"} {
			var re, sre *regexp.Regexp
			if reS != "" {
				re = regexp.MustCompile(reS)
			}
			if sreS != "" {
				sre = regexp.MustCompile(sreS)
			}
			ctl := bifrost_rpc_access.NewClientController(e.le, verifInfo, never, re, sre, false, nil)
			for _, sid := range asids {
				for _, srv := range asrvs {
					op := fmt.Sprintf("dispatch.accessclient re=%s sre=%s sid=%s srv=%s", bit(re != nil), bit(sre != nil), hx(sid), hx(srv))
					model, line := e.oracleQuery(op, func(req string) string {
						subj := string(lib.Unhex(lib.KV(req, "subj")))
						if strings.HasPrefix(req, "need re ") {
							return "rem=" + bit(re.MatchString(subj))
						}
						return "srem=" + bit(sre.MatchString(subj))
					})
					line += " pats=" + hx(reS) + "|" + hx(sreS)
					answered := false
					impl := lib.Recover(func() string {
						di := &fakeInst{ctx: e.ctx, dir: bifrost_rpc.NewLookupRpcService(sid, srv)}
						res, err := ctl.HandleDirective(e.ctx, di)
						if err != nil {
							return "err"
						}
						answered = len(res) != 0
						return "ok a=" + bit(answered)
					})
					okSid := re == nil || re.MatchString(sid)
					okSrv := sre == nil || sre.MatchString(srv)
					want := okSid && okSrv
					// the same with the explicit "empty ID is not filtered" reading of the code
					wantLax := (okSid || sid == "") && (okSrv || srv == "")
					mon, key := "", "dispatch.accessclient"
					br := "access.a" + bit(answered)
					switch {
					case answered == want:
					case answered && answered == wantLax:
						br = "access.empty-id"
						mon, key = fmt.Sprintf("rpc/access ClientController (service pattern %q, server pattern %q) answers the lookup of service %q server %q: an EMPTY id is never held against its pattern (HandleDirective tests `id != \"\" && !re.MatchString(id)`), unlike RpcServiceController, which applies the server pattern to the empty server ID", reS, sreS, sid, srv), "dispatch.accessclient-empty-id"
					default:
						mon, key = fmt.Sprintf("rpc/access ClientController (service pattern %q, server pattern %q) answered=%v for service %q server %q but its patterns say %v", reS, sreS, answered, sid, srv, want), key+":filter"
					}
					e.cmp(line, model, impl, br, key, mon)
				}
			}
		}
	}
}
