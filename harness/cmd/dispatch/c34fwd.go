package main

import (
	"context"
	"errors"
	"fmt"
	"net"
	"sync"
	"time"

	"github.com/aperturerobotics/bifrost/link"
	"github.com/aperturerobotics/bifrost/peer"
	"github.com/aperturerobotics/bifrost/protocol"
	"github.com/aperturerobotics/bifrost/stream"
	stream_srpc_server "github.com/aperturerobotics/bifrost/stream/srpc/server"
	"github.com/aperturerobotics/controllerbus/controller"
	"github.com/aperturerobotics/controllerbus/directive"

	"verif/harness/lib"
)

// C34, second half: "dispatched to the configured target". A handler that re-opens the stream
// somewhere else (the relay) or keeps the incoming link up (relay, srpc server) does so through
// directives on the bus; linkSpy is the only controller on the harness bus that answers
// EstablishLinkWithPeer, and the links it hands out record what is opened on them.

type linkSpy struct {
	mtx   sync.Mutex
	est   [][2]string // (source, target) of every EstablishLinkWithPeer the bus handed over, in order
	opens []spyOpen
	ch    chan struct{}
}

type spyOpen struct{ proto, from, to string }

func (s *linkSpy) GetControllerInfo() *controller.Info { return verifInfo }
func (s *linkSpy) Execute(ctx context.Context) error   { return nil }
func (s *linkSpy) Close() error                        { return nil }

func (s *linkSpy) HandleDirective(ctx context.Context, di directive.Instance) ([]directive.Resolver, error) {
	d, ok := di.GetDirective().(link.EstablishLinkWithPeer)
	if !ok {
		return nil, nil
	}
	src, dst := string(d.EstablishLinkSourcePeerId()), string(d.EstablishLinkTargetPeerId())
	s.mtx.Lock()
	s.est = append(s.est, [2]string{src, dst})
	s.mtx.Unlock()
	return directive.Resolvers(&spyLinkResolver{lnk: &spyLink{spy: s, local: src, remote: dst}}), nil
}

func (s *linkSpy) reset() {
	s.mtx.Lock()
	s.est, s.opens = nil, nil
	s.mtx.Unlock()
	for {
		select {
		case <-s.ch:
			continue
		default:
		}
		return
	}
}

func (s *linkSpy) snapshot() ([][2]string, []spyOpen) {
	s.mtx.Lock()
	defer s.mtx.Unlock()
	return append([][2]string{}, s.est...), append([]spyOpen{}, s.opens...)
}

type spyLinkResolver struct{ lnk *spyLink }

func (r *spyLinkResolver) Resolve(ctx context.Context, h directive.ResolverHandler) error {
	_, _ = h.AddValue(link.MountedLink(r.lnk))
	return nil
}

// spyLink is the link.MountedLink the spy resolves EstablishLinkWithPeer with.
type spyLink struct {
	spy           *linkSpy
	local, remote string
}

func (l *spyLink) GetLinkUUID() uint64            { return 1 }
func (l *spyLink) GetTransportUUID() uint64       { return 2 }
func (l *spyLink) GetRemoteTransportUUID() uint64 { return 3 }
func (l *spyLink) GetLocalPeer() peer.ID          { return peer.ID(l.local) }
func (l *spyLink) GetRemotePeer() peer.ID         { return peer.ID(l.remote) }
func (l *spyLink) OpenMountedStream(ctx context.Context, protocolID protocol.ID, opts stream.OpenOpts) (link.MountedStream, error) {
	if l.spy != nil {
		l.spy.mtx.Lock()
		l.spy.opens = append(l.spy.opens, spyOpen{proto: string(protocolID), from: l.local, to: l.remote})
		l.spy.mtx.Unlock()
		select {
		case l.spy.ch <- struct{}{}:
		default:
		}
	}
	return nil, errors.New("verif: the spy link opens no streams")
}

// spyStream is the incoming link.MountedStream handed to a handler.
type spyStream struct {
	conn  net.Conn
	proto string
	peer  string
	lnk   *spyLink
}

func (m *spyStream) GetStream() stream.Stream     { return m.conn }
func (m *spyStream) GetProtocolID() protocol.ID   { return protocol.ID(m.proto) }
func (m *spyStream) GetOpenOpts() stream.OpenOpts { return stream.OpenOpts{} }
func (m *spyStream) GetPeerID() peer.ID           { return peer.ID(m.peer) }
func (m *spyStream) GetLink() link.MountedLink    { return m.lnk }

func (e *engine) ensureSpy() *linkSpy {
	if e.spy != nil {
		return e.spy
	}
	spy := &linkSpy{ch: make(chan struct{}, 16)}
	if _, err := e.bus.AddController(e.ctx, spy, nil); err != nil {
		panic("link spy: " + err.Error())
	}
	e.spy = spy
	return spy
}

// waitClosed waits until the handler has closed its end of the incoming stream.
func waitClosed(c net.Conn) bool {
	_ = c.SetReadDeadline(time.Now().Add(2 * time.Second))
	buf := make([]byte, 16)
	for {
		_, err := c.Read(buf)
		if err != nil {
			var ne net.Error
			return !(errors.As(err, &ne) && ne.Timeout())
		}
	}
}

type relayWant struct{ proto, peer string }

// c34RelayForward: the relay built from `op` is handed a stream that arrived for its local peer
// `lid` from a fresh remote peer; the spy reports the link it keeps up and what it opens.
func (e *engine) c34RelayForward(op string, ctl handlerCtl, listen, lid string, want relayWant, proper bool) {
	spy := e.ensureSpy()
	e.fwdN++
	remote := fmt.Sprintf("verif-remote-%d", e.fwdN)
	line := fmt.Sprintf("dispatch.relayfwd %s ll=%s sr=%s", op, hx(lid), hx(remote))
	model := e.m.Query(line)
	var got *spyOpen
	var back [][2]string
	taken := ""
	impl := lib.Recover(func() string {
		// the stream the relay is configured for; if it refuses that one, whichever protocol of
		// the universe it does take for its peer (so that the forward can still be observed)
		var res []directive.Resolver
		for _, p := range []string{listen, want.proto, "p/a", "p/b", "p/t"} {
			di := &fakeInst{ctx: e.ctx, dir: link.NewHandleMountedStream(protocol.ID(p), peer.ID(lid), peer.ID(remote))}
			r, err := ctl.HandleDirective(e.ctx, di)
			if err != nil {
				return "err"
			}
			if len(r) != 0 {
				res, taken = r, p
				break
			}
		}
		if len(res) == 0 {
			return "nohandle"
		}
		vh := newValHandler()
		ctx, cancel := context.WithCancel(e.ctx)
		defer cancel()
		if err := res[0].Resolve(ctx, vh); err != nil {
			return "err resolve"
		}
		var h link.MountedStreamHandler
		select {
		case v := <-vh.vals:
			var ok bool
			if h, ok = v.(link.MountedStreamHandler); !ok {
				return "err value"
			}
		default:
			return "err novalue"
		}
		a, b := net.Pipe()
		defer b.Close()
		spy.reset()
		ms := &spyStream{conn: a, proto: taken, peer: remote, lnk: &spyLink{local: lid, remote: remote}}
		if err := h.HandleMountedStream(ctx, ms); err != nil {
			a.Close()
			return "err handle"
		}
		back, _ = spy.snapshot() // the back link is added before HandleMountedStream returns
		select {
		case <-spy.ch:
		case <-time.After(2 * time.Second):
			return "err nothing-opened"
		}
		if !waitClosed(b) {
			return "err stream-left-open"
		}
		_, opens := spy.snapshot()
		if len(opens) != 1 {
			return fmt.Sprintf("err opens=%d", len(opens))
		}
		got = &opens[0]
		bk := "none"
		if len(back) != 0 {
			bk = hx(back[0][0]) + ">" + hx(back[0][1])
		}
		return fmt.Sprintf("ok back=%s open=%s from=%s to=%s", bk, hx(got.proto), hx(got.from), hx(got.to))
	})
	mon, key := "", "dispatch.relayfwd"
	switch {
	case len(impl) >= 5 && impl[:5] == "panic":
		mon, key = "relay handler panics while forwarding: "+impl, key+":panic"
	case got != nil && (got.proto != want.proto || got.to != want.peer || got.from != lid):
		mon = fmt.Sprintf("relay configured to forward with protocol %q to peer %s opens the relayed stream with protocol %q to peer %s (from %s; incoming stream protocol %q)",
			want.proto, short(want.peer), got.proto, short(got.to), short(got.from), taken)
		key += ":wrong-target"
	case got != nil && (len(back) == 0 || back[0] != [2]string{lid, remote}):
		mon = fmt.Sprintf("relay does not keep the incoming link (%s > %s) up while relaying: first EstablishLinkWithPeer = %v", short(lid), short(remote), back)
		key += ":no-back-link"
	case proper && got == nil:
		mon = fmt.Sprintf("relay with a proper configuration forwards nothing for its own stream (protocol %q local %s): %s", listen, short(lid), impl)
		key += ":forwards-nothing"
	}
	br := "relayfwd.noctl"
	if len(model) > 2 && model[:2] == "ok" {
		br = "relayfwd.ok"
	}
	e.cmp(line, model, impl, br, key, mon)
}

// c34SrpcBackLink: what the srpc server does with a stream it took — it keeps the incoming link
// up with EstablishLinkWithPeer(local, remote) unless disable_establish_link is set.
func (e *engine) c34SrpcBackLink(op string, srv *stream_srpc_server.Server, dis bool, lid string) {
	spy := e.ensureSpy()
	e.fwdN++
	remote := fmt.Sprintf("verif-remote-%d", e.fwdN)
	line := fmt.Sprintf("dispatch.srpcest %s ll=%s sr=%s", op, hx(lid), hx(remote))
	model := e.m.Query(line)
	var est [][2]string
	ran := false
	impl := lib.Recover(func() string {
		a, b := net.Pipe()
		spy.reset()
		ctx, cancel := context.WithCancel(e.ctx)
		defer cancel()
		ms := &spyStream{conn: a, proto: "p/a", peer: remote, lnk: &spyLink{local: lid, remote: remote}}
		if err := srv.HandleMountedStream(ctx, ms); err != nil {
			a.Close()
			b.Close()
			return "err handle"
		}
		est, _ = spy.snapshot()
		ran = true
		b.Close() // the RPC stream ends; the server closes its end and releases the link
		if len(est) == 0 {
			return "ok back=none"
		}
		return "ok back=" + hx(est[0][0]) + ">" + hx(est[0][1])
	})
	mon, key := "", "dispatch.srpcest"
	if ran {
		switch {
		case dis && len(est) != 0:
			mon, key = fmt.Sprintf("srpc server with disable_establish_link adds EstablishLinkWithPeer %v", est), key+":link-despite-disable"
		case !dis && (len(est) != 1 || est[0] != [2]string{lid, remote}):
			mon, key = fmt.Sprintf("srpc server does not keep exactly the incoming link (%s > %s) up: %v", short(lid), short(remote), est), key+":wrong-back-link"
		}
	} else if len(impl) >= 5 && impl[:5] == "panic" {
		mon, key = "srpc server panics on a mounted stream: "+impl, key+":panic"
	}
	br := "srpcest.back"
	if model == "ok back=none" {
		br = "srpcest.none"
	}
	e.cmp(line, model, impl, br, key, mon)
}
