package main

// C36, second part: what the first part (c36.go) left unobserved —
//   * the directive LookupRpcService places on the bus (service ID, server ID, serverIdCb),
//     on a scripted bus and on the real controller bus;
//   * idle callbacks that carry resolver errors (the currResErr path of the send loop),
//     including the recovery of the same server object afterwards and a real resolver
//     failing on the real bus;
//   * RequestFromDirective / ToDirective / Validate;
//   * CallRpcService end to end (rpcstream over an in-memory srpc pipe) for provided /
//     missing services, invalid requests, failing serverIdCb and malformed component IDs.

import (
	"context"
	"errors"
	"fmt"
	"strings"
	"sync"
	"time"

	bifrost_rpc "github.com/aperturerobotics/bifrost/rpc"
	bifrost_rpc_access "github.com/aperturerobotics/bifrost/rpc/access"
	"github.com/aperturerobotics/controllerbus/controller"
	"github.com/aperturerobotics/controllerbus/directive"
	"github.com/aperturerobotics/starpc/echo"
	"github.com/aperturerobotics/starpc/rpcstream"
	"github.com/aperturerobotics/starpc/srpc"
	b58 "github.com/mr-tron/base58/base58"

	"verif/harness/lib"
)

// ---------------------------------------------------------------------------------------------
// serverIdCb universe (the harness's own functions; the model gets the same by name)

type cbSpec struct {
	enc string
	fn  func(string) (string, error)
}

var errCbFail = errors.New("verif-cb-fail")

func cbUniverse() []cbSpec {
	return []cbSpec{
		{"none", nil},
		{"pfx:" + hx("m:"), func(s string) (string, error) { return "m:" + s, nil }},
		{"fail", func(s string) (string, error) { return "", errCbFail }},
		{"failon:" + hx("srv-1"), func(s string) (string, error) {
			if s == "srv-1" {
				return "", errCbFail
			}
			return s, nil
		}},
		{"const:" + hx("fixed"), func(s string) (string, error) { return "fixed", nil }},
	}
}

// want applies the callback the way the documentation of NewAccessRpcServiceServer says:
// "an optional callback to override the ServerID".
func (c cbSpec) want(srv string) (string, bool) {
	if c.fn == nil {
		return srv, true
	}
	s, err := c.fn(srv)
	return s, err == nil
}

// ---------------------------------------------------------------------------------------------
// the directive placed on the bus

// placedScripted runs LookupRpcService on a scripted bus and returns the directive it added.
func (e *engine) placedScripted(sid, srv string, cb cbSpec) string {
	t := &tapBus{ready: make(chan struct{}, 1)}
	server := bifrost_rpc_access.NewAccessRpcServiceServer(t, false, cb.fn)
	sctx, cancel := context.WithCancel(e.ctx)
	defer cancel()
	strm := &lookupStream{ctx: sctx}
	done := make(chan error, 1)
	go func() {
		done <- server.LookupRpcService(&bifrost_rpc_access.LookupRpcServiceRequest{ServiceId: sid, ServerId: srv}, strm)
	}()
	select {
	case <-t.ready:
	case <-done:
		return "err"
	case <-time.After(5 * time.Second):
		return "timeout-start"
	}
	out := "no-directive"
	if d, ok := t.dir.(bifrost_rpc.LookupRpcService); ok {
		out = "ok sid=" + hx(d.LookupRpcServiceID()) + " srv=" + hx(d.LookupRpcServerID())
	}
	t.dispose()
	select {
	case <-done:
	case <-time.After(5 * time.Second):
		return "timeout-return"
	}
	return out
}

// spyCtrl sits on the real bus and records the LookupRpcService directives the bus hands to
// controllers whose service ID starts with its prefix; it resolves the pairs in `provide`.
type spyCtrl struct {
	prefix  string
	mtx     sync.Mutex
	seen    [][2]string
	seenCh  chan struct{}
	provide map[[2]string]srpc.Invoker
	// acceptEmpty: also answer lookups with an empty service ID (which must never reach the bus
	// from CallRpcService: the request is validated first)
	acceptEmpty bool
}

func (c *spyCtrl) GetControllerInfo() *controller.Info { return verifInfo }
func (c *spyCtrl) Execute(ctx context.Context) error   { return nil }
func (c *spyCtrl) Close() error                        { return nil }
func (c *spyCtrl) HandleDirective(ctx context.Context, di directive.Instance) ([]directive.Resolver, error) {
	d, ok := di.GetDirective().(bifrost_rpc.LookupRpcService)
	if !ok || !(strings.HasPrefix(d.LookupRpcServiceID(), c.prefix) || (c.acceptEmpty && d.LookupRpcServiceID() == "")) {
		return nil, nil
	}
	k := [2]string{d.LookupRpcServiceID(), d.LookupRpcServerID()}
	c.mtx.Lock()
	c.seen = append(c.seen, k)
	inv := c.provide[k]
	c.mtx.Unlock()
	select {
	case c.seenCh <- struct{}{}:
	default:
	}
	if inv == nil {
		return nil, nil
	}
	return directive.R(bifrost_rpc.NewLookupRpcServiceResolver(inv), nil)
}

func (c *spyCtrl) take() [][2]string {
	c.mtx.Lock()
	defer c.mtx.Unlock()
	s := c.seen
	c.seen = nil
	return s
}

// placedBus runs LookupRpcService on the real bus; the spy reports what reached the controllers.
func (e *engine) placedBus(spy *spyCtrl, sid, srv string, cb cbSpec) string {
	spy.take()
	t := &tapBus{Bus: e.bus, ready: make(chan struct{}, 1)}
	server := bifrost_rpc_access.NewAccessRpcServiceServer(t, false, cb.fn)
	sctx, cancel := context.WithCancel(e.ctx)
	defer cancel()
	strm := &lookupStream{ctx: sctx}
	done := make(chan error, 1)
	go func() {
		done <- server.LookupRpcService(&bifrost_rpc_access.LookupRpcServiceRequest{ServiceId: sid, ServerId: srv}, strm)
	}()
	select {
	case <-t.ready:
	case <-done:
		return "err"
	case <-time.After(5 * time.Second):
		return "timeout-start"
	}
	// the bus calls HandleDirective of every controller before AddDirective returns or shortly after
	var seen [][2]string
	for i := 0; i < 400 && len(seen) == 0; i++ {
		seen = spy.take()
		if len(seen) == 0 {
			select {
			case <-spy.seenCh:
			case <-time.After(5 * time.Millisecond):
			}
		}
	}
	t.dispose()
	select {
	case <-done:
	case <-time.After(5 * time.Second):
		return "timeout-return"
	}
	if len(seen) == 0 {
		return "no-directive"
	}
	out := "ok sid=" + hx(strings.TrimPrefix(seen[0][0], spy.prefix)) + " srv=" + hx(seen[0][1])
	for _, s := range seen[1:] {
		if s != seen[0] {
			out += " also=" + hx(s[0]) + "|" + hx(s[1])
		}
	}
	return out
}

func (e *engine) runC36Placed() {
	e.rep.Require("placed.scripted.ok", "placed.scripted.cb-error", "placed.bus.ok")
	sids := []string{"", "svc", "Svc", "svc/", "svc/x", "\xff\x00"}
	srvs := []string{"", "srv-1", "SRV-1", "srv-1/", "svc"}
	for _, cb := range cbUniverse() {
		for _, sid := range sids {
			for _, srv := range srvs {
				op := fmt.Sprintf("dispatch.placed sid=%s srv=%s cb=%s", hx(sid), hx(srv), cb.enc)
				model := e.m.Query(op)
				impl := lib.Recover(func() string { return e.placedScripted(sid, srv, cb) })
				wsrv, wok := cb.want(srv)
				want := "err"
				if wok {
					want = "ok sid=" + hx(sid) + " srv=" + hx(wsrv)
				}
				mon, key, br := "", "dispatch.placed", "placed.scripted.ok"
				if !wok {
					br = "placed.scripted.cb-error"
				}
				if impl != want {
					mon = fmt.Sprintf("lookup request (service %q, server %q, serverIdCb %s) was put on the bus as [%s], expected [%s]", sid, srv, cb.enc, impl, want)
					key += ":wrong-directive"
				}
				e.cmp(op, model, impl, br, key, mon)
			}
		}
	}
	// the real bus: what the controllers are asked is what was requested
	busPlacedN++
	spy := &spyCtrl{prefix: fmt.Sprintf("verif-p%d-", busPlacedN), seenCh: make(chan struct{}, 1)}
	rel, err := e.bus.AddController(e.ctx, spy, nil)
	if err != nil {
		e.cmp("dispatch.placed bus", "ok", "add-controller-"+err.Error(), "placed.bus.ok", "dispatch.placed:bus", "")
		return
	}
	defer rel()
	cbs := cbUniverse()
	for _, cb := range []cbSpec{cbs[0], cbs[1], cbs[3]} {
		for _, sid := range []string{"svc", "Svc", "svc/", "svc/x"} {
			for _, srv := range srvs {
				op := fmt.Sprintf("dispatch.placed sid=%s srv=%s cb=%s bus=1", hx(sid), hx(srv), cb.enc)
				model := e.m.Query(op)
				impl := lib.Recover(func() string { return e.placedBus(spy, spy.prefix+sid, srv, cb) })
				wsrv, wok := cb.want(srv)
				want := "err"
				if wok {
					want = "ok sid=" + hx(sid) + " srv=" + hx(wsrv)
				}
				mon, key, br := "", "dispatch.placed", "placed.bus.ok"
				if !wok {
					br = "placed.scripted.cb-error"
				}
				if impl != want {
					mon = fmt.Sprintf("lookup request (service %q, server %q, serverIdCb %s): the controllers of the bus were asked [%s], expected [%s]", sid, srv, cb.enc, impl, want)
					key += ":wrong-directive-on-bus"
				}
				e.cmp(op, model, impl, br, key, mon)
			}
		}
	}
}

var busPlacedN int

// ---------------------------------------------------------------------------------------------
// idle callbacks with resolver errors

// specC36 restates the reporting rule with plain counters, including the end of the stream:
// a resolver error (other than context.Canceled) that has been handed over ends the stream, with
// that error, as soon as the directive is idle.
type specC36 struct {
	live  map[string]bool
	idle  bool
	first string // the first non-nil error handed over ("" none, "c" canceled, "e<n>")
	want  []string
	end   string // "" while the stream is open
}

func (s *specC36) apply(ev string) {
	if s.live == nil {
		s.live = map[string]bool{}
	}
	var batch []string
	switch ev[0] {
	case 'a':
		was := len(s.live)
		s.live[ev[1:]] = true
		if was == 0 && len(s.live) == 1 {
			batch = append(batch, "010")
		}
	case 'r':
		if s.live[ev[1:]] {
			delete(s.live, ev[1:])
			if len(s.live) == 0 {
				batch = append(batch, "001")
			}
		}
	case 'i', 'I':
		b := ev[1] == '1'
		if ev[0] == 'I' && s.first == "" {
			for _, t := range strings.Split(ev[3:], ".") {
				if t != "" && t != "n" {
					s.first = t
					break
				}
			}
		}
		if b != s.idle {
			s.idle = b
			batch = append(batch, bit(b)+"00")
		}
	}
	if s.idle && s.first != "" && s.first != "c" {
		s.end = s.first // the batch of this callback is not sent
		return
	}
	s.want = append(s.want, batch...)
}

func errsOf(ev string) []error {
	var out []error
	if ev[0] != 'I' || len(ev) <= 3 {
		return nil
	}
	for _, t := range strings.Split(ev[3:], ".") {
		switch {
		case t == "n":
			out = append(out, nil)
		case t == "c":
			out = append(out, context.Canceled)
		case t != "":
			out = append(out, errors.New(t))
		}
	}
	return out
}

// scriptedSync plays callbacks (possibly with resolver errors) into the server one at a time,
// waiting after each for the stream to show what the rule says that callback causes (a message
// count, or the end), so that the send loop has run before the next callback: the consumer keeps up.
func (e *engine) scriptedSync(evs []string) (sent []string, end string) {
	t := &tapBus{ready: make(chan struct{}, 1)}
	return e.scriptedSyncOn(bifrost_rpc_access.NewAccessRpcServiceServer(t, false, nil), t, evs)
}

func (e *engine) scriptedSyncOn(server *bifrost_rpc_access.AccessRpcServiceServer, t *tapBus, evs []string) (sent []string, end string) {
	sctx, cancel := context.WithCancel(e.ctx)
	defer cancel()
	strm := &lookupStream{ctx: sctx}
	done := make(chan error, 1)
	go func() {
		done <- server.LookupRpcService(&bifrost_rpc_access.LookupRpcServiceRequest{ServiceId: "svc", ServerId: "srv"}, strm)
	}()
	select {
	case <-t.ready:
	case <-time.After(10 * time.Second):
		return nil, "timeout-start"
	}
	var spec specC36
	var ret error
	returned := false
	nsent := func() int {
		strm.mtx.Lock()
		defer strm.mtx.Unlock()
		return len(strm.sent)
	}
	for _, ev := range evs {
		var id uint32
		fmt.Sscanf(ev[1:], "%d", &id)
		switch ev[0] {
		case 'a':
			t.deliverAdded(directive.NewAttachedValue(id, srpc.Invoker(&recInvoker{})))
		case 'x':
			t.deliverAdded(directive.NewAttachedValue(id, "not a service"))
		case 'r':
			t.deliverRemoved(directive.NewAttachedValue(id, nil))
		case 'i':
			t.deliverIdle(ev == "i1", nil)
		case 'I':
			t.deliverIdle(ev[1] == '1', errsOf(ev))
		}
		spec.apply(ev)
		deadline := time.After(1500 * time.Millisecond)
		if spec.end != "" {
			select {
			case ret = <-done:
				returned = true
			case <-deadline:
			}
			break
		}
		for nsent() < len(spec.want) && !returned {
			select {
			case ret = <-done:
				returned = true
			case <-deadline:
				goto next
			case <-time.After(50 * time.Microsecond):
			}
		}
	next:
		if returned {
			break
		}
	}
	if !returned {
		t.dispose()
		select {
		case ret = <-done:
		case <-time.After(10 * time.Second):
			return nil, "timeout-return"
		}
	}
	t.mtx.Lock()
	t.closed = true
	t.mtx.Unlock()
	strm.mtx.Lock()
	sent = append(sent, strm.sent...)
	strm.mtx.Unlock()
	switch {
	case ret == nil:
		end = "nil"
	case ret.Error() == "directive disposed":
		end = "none"
	case ret == context.Canceled:
		end = "c"
	default:
		end = ret.Error()
	}
	return sent, end
}

// monitorC36Err: the rule of specC36 against what the client saw.
func monitorC36Err(evs, sent []string, end string) string {
	var spec specC36
	for _, ev := range evs {
		spec.apply(ev)
		if spec.end != "" {
			break
		}
	}
	if spec.end != "" && end != spec.end {
		return fmt.Sprintf("resolver error %s was handed over and the directive went idle, but the client was not told: the stream ended with [%s] after [%s]", spec.end, end, strings.Join(sent, ","))
	}
	if spec.end == "" && end != "none" {
		return fmt.Sprintf("the stream ended with [%s] although no resolver error was pending while idle", end)
	}
	if strings.Join(sent, ",") != strings.Join(spec.want, ",") {
		return fmt.Sprintf("stream reported [%s] but the availability / idle changes before its end are [%s]", strings.Join(sent, ","), strings.Join(spec.want, ","))
	}
	return ""
}

func (e *engine) c36SyncCompare(evs, sent []string, end, branch string) {
	op := "dispatch.runsync evs=" + evList(evs)
	model := e.m.Query(op)
	impl := "ok msgs=" + evList(sent) + " end=" + end
	mon, key := "", "dispatch.lookup-err"
	if v := monitorC36Err(evs, sent, end); v != "" {
		mon, key = "remote lookup stream: "+v, key+":"+branch
	}
	e.cmp(op, model, impl, branch, key, mon)
}

func classifyErrHistory(evs []string) string {
	var spec specC36
	for _, ev := range evs {
		before := spec.first
		spec.apply(ev)
		if spec.end != "" {
			if before == "" {
				return "err.reported" // the error arrived with this very callback
			}
			return "err.busy-then-idle"
		}
	}
	if spec.first == "c" {
		return "err.canceled"
	}
	return "err.none"
}

func (e *engine) runC36Errors() {
	e.rep.Require("err.reported", "err.busy-then-idle", "err.canceled", "err.none", "err.recovery", "err.bus")
	sentinels := [][]string{
		{"I1:e7"},
		{"a1", "I1:e7"},
		{"a1", "I1:n.e7", "r1"},
		{"a1", "i1", "I1:e3", "r1"},       // already idle: no idle change, the error alone ends the stream
		{"I0:e7", "a1", "i1"},             // handed over while busy, reported when idle
		{"I0:e7", "a1", "I1:", "r1"},      // … with an empty list at the idle callback
		{"I0:e1", "I0:e2", "a1", "I1:e3"}, // the first error is the one reported
		{"i1", "I0:e5", "a1", "r1", "i1"},
		{"I1:c", "i0", "I1:e1", "a1"}, // Canceled first: never reported, and it masks e1
		{"I1:c.e2", "a1", "i0"},
		{"I1:n.n", "a1", "r1", "i0"}, // nil entries only: no error
		{"I1:", "I0:", "a1"},
		{"a1", "a2", "r1", "I1:n.n.e9"},
	}
	run := func(evs []string) {
		sent, end := e.scriptedSync(evs)
		e.c36SyncCompare(evs, sent, end, classifyErrHistory(evs))
	}
	for _, evs := range sentinels {
		run(evs)
	}
	for i := 0; i < 120*e.a.Scale; i++ {
		n := 3 + e.rng.Intn(8)
		var evs []string
		live := map[int]bool{}
		for k := 0; k < n; k++ {
			id := 1 + e.rng.Intn(3)
			switch e.rng.Intn(9) {
			case 0, 1:
				if live[id] {
					continue
				}
				live[id] = true
				evs = append(evs, fmt.Sprintf("a%d", id))
			case 2:
				if !live[id] {
					continue
				}
				delete(live, id)
				evs = append(evs, fmt.Sprintf("r%d", id))
			case 3:
				evs = append(evs, "i1")
			case 4:
				evs = append(evs, "i0")
			default:
				var errs []string
				for j := e.rng.Intn(3); j > 0; j-- {
					errs = append(errs, []string{"n", "n", "c", fmt.Sprintf("e%d", 1+e.rng.Intn(9)), fmt.Sprintf("e%d", 1+e.rng.Intn(9))}[e.rng.Intn(5)])
				}
				evs = append(evs, fmt.Sprintf("I%d:%s", e.rng.Intn(2), strings.Join(errs, ".")))
			}
		}
		run(evs)
	}
	// recovery: a stream that ended with a resolver error leaves nothing behind — the same server
	// object serves the next lookup of the same request from scratch
	{
		t1 := &tapBus{ready: make(chan struct{}, 1)}
		server := bifrost_rpc_access.NewAccessRpcServiceServer(t1, false, nil)
		h1 := []string{"a1", "I1:e4"}
		sent, end := e.scriptedSyncOn(server, t1, h1)
		e.c36SyncCompare(h1, sent, end, "err.reported")
		for _, h2 := range [][]string{{"a1", "i1", "r1", "i0"}, {"i1", "a2", "a3", "r2", "r3"}} {
			// a fresh scripted bus behind the same server
			t1.reset()
			sent, end = e.scriptedSyncOn(server, t1, h2)
			e.c36SyncCompare(h2, sent, end, "err.recovery")
		}
	}
	// a real resolver failing on the real bus: the bus marks the directive idle with the
	// resolver's error and the client must be told
	for i := 0; i < 3*e.a.Scale; i++ {
		pre := [][]string{{}, {"a1"}, {"a1", "a2", "r1"}}[i%3]
		evs, sent, end := e.busErrHistory(pre)
		op := "dispatch.runsync evs=" + evList(evs)
		model := e.m.Query(op)
		impl := "ok msgs=" + evList(sent) + " end=" + end
		mon, key := "", "dispatch.lookup-err"
		if end != "e9" {
			mon, key = fmt.Sprintf("remote lookup stream: the resolver of the service failed with e9 on the real bus but the stream ended with [%s] after [%s]", end, strings.Join(sent, ",")), key+":err.bus"
		} else if v := monitorC36Err(evs, sent, end); v != "" {
			mon, key = "remote lookup stream: "+v, key+":err.bus"
		}
		e.cmp(op, model, impl, "err.bus", key, mon)
	}
}

// failCtrl: a controller on the real bus whose resolver adds values on command and then fails.
type failCtrl struct {
	svc string
	hch chan directive.ResolverHandler
	err chan error
}

func (c *failCtrl) GetControllerInfo() *controller.Info { return verifInfo }
func (c *failCtrl) Execute(ctx context.Context) error   { return nil }
func (c *failCtrl) Close() error                        { return nil }
func (c *failCtrl) HandleDirective(ctx context.Context, di directive.Instance) ([]directive.Resolver, error) {
	d, ok := di.GetDirective().(bifrost_rpc.LookupRpcService)
	if !ok || d.LookupRpcServiceID() != c.svc {
		return nil, nil
	}
	return directive.R(directive.NewFuncResolver(func(rctx context.Context, h directive.ResolverHandler) error {
		select {
		case c.hch <- h:
		case <-rctx.Done():
			return nil
		}
		select {
		case err := <-c.err:
			return err
		case <-rctx.Done():
			return nil
		}
	}), nil)
}

// busErrHistory: actions `pre` through a real resolver on the real bus, then the resolver returns
// the error e9. Returns the callbacks the bus delivered (with their error lists), the messages and
// the end of the stream.
func (e *engine) busErrHistory(pre []string) (evs, sent []string, end string) {
	busHistoryN++
	fc := &failCtrl{svc: fmt.Sprintf("verif-svc-%d", busHistoryN), hch: make(chan directive.ResolverHandler, 1), err: make(chan error, 1)}
	rel, err := e.bus.AddController(e.ctx, fc, nil)
	if err != nil {
		return nil, nil, "add-controller-" + err.Error()
	}
	defer rel()
	t := &tapBus{Bus: e.bus, ready: make(chan struct{}, 1), logErrs: true}
	server := bifrost_rpc_access.NewAccessRpcServiceServer(t, false, nil)
	sctx, cancel := context.WithCancel(e.ctx)
	defer cancel()
	strm := &lookupStream{ctx: sctx}
	done := make(chan error, 1)
	go func() {
		done <- server.LookupRpcService(&bifrost_rpc_access.LookupRpcServiceRequest{ServiceId: fc.svc, ServerId: "srv"}, strm)
	}()
	var h directive.ResolverHandler
	select {
	case h = <-fc.hch:
	case <-time.After(10 * time.Second):
		return nil, nil, "timeout-resolver"
	}
	select {
	case <-t.ready:
	case <-time.After(10 * time.Second):
		return nil, nil, "timeout-start"
	}
	ids := map[string]uint32{}
	want := 0
	for _, a := range pre {
		switch a[0] {
		case 'a':
			id, _ := h.AddValue(srpc.Invoker(&recInvoker{}))
			if len(ids) == 0 {
				want++
			}
			ids[a[1:]] = id
		case 'r':
			if id, ok := ids[a[1:]]; ok {
				h.RemoveValue(id)
				delete(ids, a[1:])
				if len(ids) == 0 {
					want++
				}
			}
		}
		// the consumer keeps up
		for i := 0; i < 2000; i++ {
			strm.mtx.Lock()
			n := len(strm.sent)
			strm.mtx.Unlock()
			if n >= want {
				break
			}
			time.Sleep(100 * time.Microsecond)
		}
	}
	fc.err <- errors.New("e9")
	var ret error
	select {
	case ret = <-done:
	case <-time.After(3 * time.Second):
		t.dispose()
		select {
		case ret = <-done:
		case <-time.After(10 * time.Second):
			return nil, nil, "timeout-return"
		}
	}
	t.mtx.Lock()
	t.closed = true
	evs = append(evs, t.log...)
	t.mtx.Unlock()
	strm.mtx.Lock()
	sent = append(sent, strm.sent...)
	strm.mtx.Unlock()
	switch {
	case ret == nil:
		end = "nil"
	case ret.Error() == "directive disposed":
		end = "none"
	default:
		end = ret.Error()
	}
	return evs, sent, end
}

// ---------------------------------------------------------------------------------------------
// RequestFromDirective / ToDirective / Validate

func (e *engine) runC36ReqDir() {
	e.rep.Require("reqdir.valid", "reqdir.invalid")
	vals := []string{"", "a", "svc", "Svc", "svc/", "svc/x", strings.Repeat("s", 200), "\xff\x00", "srv-1"}
	for _, sid := range vals {
		for _, srv := range vals {
			op := fmt.Sprintf("dispatch.reqdir sid=%s srv=%s", hx(sid), hx(srv))
			model := e.m.Query(op)
			var dsid, dsrv, rsid, rsrv string
			var valid bool
			impl := lib.Recover(func() string {
				req := bifrost_rpc_access.NewLookupRpcServiceRequest(sid, srv)
				d := req.ToDirective()
				dsid, dsrv = d.LookupRpcServiceID(), d.LookupRpcServerID()
				back := bifrost_rpc_access.RequestFromDirective(d)
				rsid, rsrv = back.GetServiceId(), back.GetServerId()
				valid = req.Validate() == nil
				return fmt.Sprintf("ok dsid=%s dsrv=%s rsid=%s rsrv=%s v=%s", hx(dsid), hx(dsrv), hx(rsid), hx(rsrv), bit(valid))
			})
			mon, key, br := "", "dispatch.reqdir", "reqdir.valid"
			if sid == "" {
				br = "reqdir.invalid"
			}
			switch {
			case dsid != sid || dsrv != srv:
				mon, key = fmt.Sprintf("ToDirective of request (%q,%q) is a lookup of (%q,%q)", sid, srv, dsid, dsrv), key+":to-directive"
			case rsid != sid || rsrv != srv:
				mon, key = fmt.Sprintf("RequestFromDirective(ToDirective(r)) of r = (%q,%q) is (%q,%q)", sid, srv, rsid, rsrv), key+":roundtrip"
			case valid != (sid != ""):
				mon, key = fmt.Sprintf("Validate() of request (%q,%q): accepted=%v, but a request is valid iff it names a service", sid, srv, valid), key+":validate"
			}
			e.cmp(op, model, impl, br, key, mon)
		}
	}
}

// ---------------------------------------------------------------------------------------------
// CallRpcService

// tagInvoker remembers which registration served the last call.
type tagInvoker struct {
	pair  [2]string
	inner srpc.Invoker
	last  *[2]string
	mtx   *sync.Mutex
}

func (t *tagInvoker) InvokeMethod(serviceID, methodID string, strm srpc.Stream) (bool, error) {
	t.mtx.Lock()
	*t.last = t.pair
	t.mtx.Unlock()
	return t.inner.InvokeMethod(serviceID, methodID, strm)
}

// cidOf builds the component ID text without bifrost: protobuf fields 1 and 2 (omitted when
// empty, lengths < 128), base58 (mr-tron).
func cidOf(sid, srv string) string {
	var raw []byte
	if sid != "" {
		raw = append(append(raw, 0x0a, byte(len(sid))), sid...)
	}
	if srv != "" {
		raw = append(append(raw, 0x12, byte(len(srv))), srv...)
	}
	return b58.Encode(raw)
}

func (e *engine) runC36Call() {
	e.rep.Require("call.served", "call.noserver", "call.invalid", "call.serverid", "call.decode",
		"call.waitone.served", "call.waitone.invalid", "call.waitone.serverid", "call.waitone.decode", "call.waitone.late-provider")
	e.runC36CallW(false)
	// waitOne = true: CallRpcService waits for a provider instead of reporting "no server": the
	// registered pairs, the refusals that come before the lookup, and a provider that is
	// registered only after the call reached the bus
	e.runC36CallW(true)
}

func (c *spyCtrl) saw(k [2]string) bool {
	c.mtx.Lock()
	defer c.mtx.Unlock()
	for _, s := range c.seen {
		if s == k {
			return true
		}
	}
	return false
}

func (e *engine) runC36CallW(waitOne bool) {
	busPlacedN++
	pfx := fmt.Sprintf("verif-c%d-", busPlacedN)
	var last [2]string
	var lmtx sync.Mutex
	spy := &spyCtrl{prefix: pfx, seenCh: make(chan struct{}, 1), provide: map[[2]string]srpc.Invoker{}, acceptEmpty: true}
	provided := [][2]string{
		{pfx + "svc", "srv-1"}, {pfx + "svc", ""}, {pfx + "Svc", "srv-1"}, {pfx + "svc/", "SRV-1"},
		{pfx + "svc", "m:srv-1"}, {pfx + "svc/x", "fixed"},
		{"", "srv-1"}, {"", "fixed"}, // somebody answers the empty service ID: such a call must still be refused
	}
	for _, p := range provided {
		mux := srpc.NewMux()
		if err := echo.SRPCRegisterEchoer(mux, echo.NewEchoServer(nil)); err != nil {
			panic(err)
		}
		spy.provide[p] = &tagInvoker{pair: p, inner: mux, last: &last, mtx: &lmtx}
	}
	rel, err := e.bus.AddController(e.ctx, spy, nil)
	if err != nil {
		e.cmp("dispatch.call", "ok", "add-controller-"+err.Error(), "call.served", "dispatch.call", "")
		return
	}
	defer rel()
	isProvided := func(sid, srv string) bool {
		for _, p := range provided {
			if p[0] == sid && p[1] == srv {
				return true
			}
		}
		return false
	}
	callN := 0
	one := func(cb cbSpec, cid string, sid, srv string, wellFormed bool) {
		callN++
		var provEnc []string
		for _, p := range provided {
			provEnc = append(provEnc, hx(p[0])+":"+hx(p[1]))
		}
		op := fmt.Sprintf("dispatch.call cid=%s cb=%s prov=%s", hx(cid), cb.enc, strings.Join(provEnc, ","))
		if waitOne {
			op += " w=1"
			if wellFormed {
				if wsrv, wok := cb.want(srv); sid != "" && wok && !isProvided(sid, wsrv) {
					return // nobody provides it: the call would wait for a provider for ever
				}
			}
		}
		model := e.m.Query(op)
		accessServer := bifrost_rpc_access.NewAccessRpcServiceServer(e.bus, waitOne, cb.fn)
		mux := srpc.NewMux()
		if err := bifrost_rpc_access.SRPCRegisterAccessRpcService(mux, accessServer); err != nil {
			panic(err)
		}
		client := srpc.NewClient(srpc.NewServerPipe(srpc.NewServer(mux)))
		ac := bifrost_rpc_access.NewSRPCAccessRpcServiceClient(client)
		body := fmt.Sprintf("verif-call-%d", callN)
		lmtx.Lock()
		last = [2]string{}
		lmtx.Unlock()
		var served [2]string
		var callErr error
		var got string
		impl := lib.Recover(func() string {
			cctx, cancel := context.WithTimeout(e.ctx, 5*time.Second)
			defer cancel()
			sub := rpcstream.NewRpcStreamClient(ac.CallRpcService, cid, true)
			resp, err := echo.NewSRPCEchoerClient(sub).Echo(cctx, &echo.EchoMsg{Body: body})
			callErr = err
			if err != nil {
				switch {
				case strings.Contains(err.Error(), rpcstream.ErrNoServerForComponent.Error()):
					return "err noserver"
				case strings.Contains(err.Error(), srpc.ErrEmptyServiceID.Error()):
					return "err invalid"
				case strings.Contains(err.Error(), errCbFail.Error()):
					return "err serverid"
				case cctx.Err() != nil:
					return "timeout"
				}
				return "err decode"
			}
			got = resp.GetBody()
			lmtx.Lock()
			served = last
			lmtx.Unlock()
			return "ok sid=" + hx(served[0]) + " srv=" + hx(served[1])
		})
		mon, key, br := "", "dispatch.call", "call.decode"
		if strings.HasPrefix(model, "ok") {
			br = "call.served"
		} else if strings.HasPrefix(model, "err ") {
			br = "call." + model[4:]
		}
		if waitOne {
			br = "call.waitone." + strings.TrimPrefix(br, "call.")
			if strings.HasSuffix(sid, "late") {
				br = "call.waitone.late-provider"
			}
		}
		if wellFormed {
			wsrv, wok := cb.want(srv)
			switch {
			case callErr == nil && got != body:
				mon, key = fmt.Sprintf("call for (%q,%q) answered %q to an echo of %q", sid, srv, got, body), key+":wrong-answer"
			case callErr == nil && sid == "":
				mon, key = fmt.Sprintf("call with an empty service ID (server %q) was served by the registration %q: a lookup must name a service", srv, served), key+":served-empty-service"
			case callErr == nil && (!wok || !isProvided(sid, wsrv)):
				mon, key = fmt.Sprintf("call for (%q,%q) [serverIdCb %s] was served (by the registration %q) although nothing is registered for that request", sid, srv, cb.enc, served), key+":served-unregistered"
			case callErr == nil && served != [2]string{sid, wsrv}:
				mon, key = fmt.Sprintf("call for (%q,%q) [serverIdCb %s] was served by the registration for %q", sid, srv, cb.enc, served), key+":served-by-other"
			case callErr != nil && sid != "" && wok && isProvided(sid, wsrv):
				mon, key = fmt.Sprintf("call for (%q,%q) [serverIdCb %s], which is registered, failed: %v", sid, srv, cb.enc, callErr), key+":registered-failed"
			}
		}
		e.cmp(op, model, impl, br, key, mon)
	}
	cbs := cbUniverse()
	for _, cb := range cbs {
		for _, sid := range []string{pfx + "svc", pfx + "Svc", pfx + "svc/", pfx + "svc/x", pfx + "missing", ""} {
			for _, srv := range []string{"", "srv-1", "SRV-1", "srv-1/"} {
				if sid == "" && srv == "" {
					continue // the empty component ID: malformed text, below
				}
				one(cb, cidOf(sid, srv), sid, srv, true)
			}
		}
	}
	for _, cid := range []string{"", "0OIl", b58.Encode([]byte{0x0a, 0x05, 'a'}), b58.Encode([]byte{0x08, 0x01}), b58.Encode([]byte{0xff, 0xff, 0xff})} {
		one(cbs[0], cid, "", "", false)
	}
	if waitOne {
		// a provider that appears after the lookup is on the bus: the call must be served by it
		late := [2]string{pfx + "late", "srv-1"}
		lmux := srpc.NewMux()
		if err := echo.SRPCRegisterEchoer(lmux, echo.NewEchoServer(nil)); err != nil {
			panic(err)
		}
		spy2 := &spyCtrl{prefix: late[0], seenCh: make(chan struct{}, 1), provide: map[[2]string]srpc.Invoker{
			late: &tagInvoker{pair: late, inner: lmux, last: &last, mtx: &lmtx},
		}}
		relCh := make(chan func(), 1)
		go func() {
			for i := 0; i < 4000 && !spy.saw(late); i++ {
				time.Sleep(500 * time.Microsecond)
			}
			rel2, err := e.bus.AddController(e.ctx, spy2, nil)
			if err != nil {
				rel2 = func() {}
			}
			relCh <- rel2
		}()
		provided = append(provided, late)
		one(cbs[0], cidOf(late[0], late[1]), late[0], late[1], true)
		(<-relCh)()
	}
}
