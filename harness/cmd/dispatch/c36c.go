package main

import (
	"encoding/binary"
	"fmt"
	"strings"

	bifrost_rpc_access "github.com/aperturerobotics/bifrost/rpc/access"
	b58 "github.com/mr-tron/base58/base58"

	"verif/harness/lib"
)

// C36, the pure functions of rpc/access (MarshalComponentID / UnmarshalComponentID /
// RequestFromDirective / ToDirective / Validate):
//
//	(i)  history independence — hist.go, in process and across fresh processes;
//	(ii) separator-ambiguity inputs: requests whose IDs contain the separator characters an
//	     encoding (or a cache key in front of one) might join fields with, straddling the field
//	     boundary, processed as PAIRS and as whole sets in both orders in ONE process, with the
//	     monitors "the component ID is base58(protobuf(request))" (computed here without bifrost),
//	     "Unmarshal(Marshal(r)) = r for every r, in any order of processing" and "Marshal is
//	     injective on everything processed so far".

type reqPair struct{ sid, srv string }

func (r reqPair) enc() string { return hx(r.sid) + ":" + hx(r.srv) }

func decPair(x string) reqPair {
	i := strings.IndexByte(x, ':')
	return reqPair{string(lib.Unhex(x[:i])), string(lib.Unhex(x[i+1:]))}
}

func (r reqPair) String() string {
	return fmt.Sprintf("(service %s, server %s)", showIn(r.sid), showIn(r.srv))
}

// cidSpec is the component ID by its specification: the protobuf encoding of the request (field 1
// service_id, field 2 server_id, both omitted when empty, uvarint lengths) in base58 (mr-tron).
func cidSpec(r reqPair) string {
	var raw []byte
	if r.sid != "" {
		raw = append(raw, 0x0a)
		raw = binary.AppendUvarint(raw, uint64(len(r.sid)))
		raw = append(raw, r.sid...)
	}
	if r.srv != "" {
		raw = append(raw, 0x12)
		raw = binary.AppendUvarint(raw, uint64(len(r.srv)))
		raw = append(raw, r.srv...)
	}
	return b58.Encode(raw)
}

// sepSeparators: what an encoding or a cache key might join two IDs with.
var sepSeparators = []string{"/", ":", "|", "\x00", "%", ".", " ", "-", "\u00e9", "\u2215", "%2F", "\xff", ","}

// sepFamily: pairs of different requests that become equal under some naive joining of
// (server ID, service ID) — in either order, with or without the separator.
func sepFamily(a, b, d string) [][2]reqPair {
	var out [][2]reqPair
	for _, c := range sepSeparators {
		out = append(out,
			// joined with c: a·c·b·c·d both times
			[2]reqPair{{sid: b + c + d, srv: a}, {sid: d, srv: a + c + b}},
			[2]reqPair{{sid: a, srv: b + c + d}, {sid: a + c + b, srv: d}},
			// plain concatenation: the separator belongs to the one or the other
			[2]reqPair{{sid: b, srv: a + c}, {sid: c + b, srv: a}},
			// a joined pair against a single field
			[2]reqPair{{sid: a + c + b, srv: ""}, {sid: b, srv: a}},
			[2]reqPair{{sid: a + c + b, srv: ""}, {sid: a, srv: b}},
			[2]reqPair{{sid: "x", srv: a + c + b}, {sid: "x", srv: a + c + b + c}},
		)
		if len(c) > 1 { // the boundary inside a multi-byte separator / rune
			out = append(out, [2]reqPair{{sid: c[1:] + b, srv: a + c[:1]}, {sid: b, srv: a + c}})
		}
	}
	out = append(out,
		[2]reqPair{{sid: a, srv: b}, {sid: b, srv: a}},                                                   // the two fields swapped
		[2]reqPair{{sid: a, srv: b}, {sid: a, srv: d}},                                                   // same service, other server
		[2]reqPair{{sid: a, srv: b}, {sid: d, srv: b}},                                                   // same server, other service
		[2]reqPair{{sid: a, srv: ""}, {sid: a, srv: "\x00"}},                                             // unset against a NUL
		[2]reqPair{{sid: "Plugin", srv: b}, {sid: "plugin", srv: b}},                                     // case
		[2]reqPair{{sid: "a%2Fb", srv: "c"}, {sid: "a/b", srv: "c"}},                                     // escaping
		[2]reqPair{{sid: "\u00e9", srv: "c"}, {sid: "e\u0301", srv: "c"}},                                // unicode normal forms
		[2]reqPair{{sid: "a\x12\x01b", srv: ""}, {sid: "a", srv: "b"}},                                   // the protobuf framing of the second field inside the first
		[2]reqPair{{sid: strings.Repeat("s", 127), srv: "v"}, {sid: strings.Repeat("s", 128), srv: "v"}}, // length prefix grows a byte
	)
	return out
}

func marshalOutcome(r reqPair) string {
	cid, err := bifrost_rpc_access.NewLookupRpcServiceRequest(r.sid, r.srv).MarshalComponentID()
	if err != nil {
		return "err"
	}
	return "ok " + hx(cid)
}

func unmarshalOutcome(text string) string {
	back := &bifrost_rpc_access.LookupRpcServiceRequest{}
	if err := back.UnmarshalComponentID(text); err != nil {
		return "err"
	}
	re, _ := back.MarshalVT()
	known, _ := bifrost_rpc_access.NewLookupRpcServiceRequest(back.GetServiceId(), back.GetServerId()).MarshalVT()
	unk := []byte{}
	if len(re) >= len(known) {
		unk = re[len(known):]
	}
	return "ok sid=" + hx(back.GetServiceId()) + " srv=" + hx(back.GetServerId()) + " unk=" + lib.Hex(unk)
}

func reqdirOutcome(r reqPair) string {
	req := bifrost_rpc_access.NewLookupRpcServiceRequest(r.sid, r.srv)
	d := req.ToDirective()
	back := bifrost_rpc_access.RequestFromDirective(d)
	return fmt.Sprintf("ok dsid=%s dsrv=%s rsid=%s rsrv=%s v=%s", hx(d.LookupRpcServiceID()), hx(d.LookupRpcServerID()),
		hx(back.GetServiceId()), hx(back.GetServerId()), bit(req.Validate() == nil))
}

func roundtripOutcome(r reqPair) string {
	cid, err := bifrost_rpc_access.NewLookupRpcServiceRequest(r.sid, r.srv).MarshalComponentID()
	if err != nil {
		return "err marshal"
	}
	back := &bifrost_rpc_access.LookupRpcServiceRequest{}
	if err := back.UnmarshalComponentID(cid); err != nil {
		return "err unmarshal"
	}
	return "ok sid=" + hx(back.GetServiceId()) + " srv=" + hx(back.GetServerId())
}

// c36HistTable: the functions of the history phase (also built by the child process; the inputs
// are filled in by the parent only).
func c36HistTable() []histFn {
	str := func(s string) *string { return &s }
	showPair := func(x string) string { return decPair(x).String() }
	tab := []histFn{
		{name: "MarshalComponentID", branch: "history.marshal",
			f: func(x string) string { return marshalOutcome(decPair(x)) },
			op: func(x string) string {
				r := decPair(x)
				return fmt.Sprintf("dispatch.cidenc sid=%s srv=%s", hx(r.sid), hx(r.srv))
			},
			spec: func(x string) *string { return str("ok " + hx(cidSpec(decPair(x)))) }},
		{name: "UnmarshalComponentID", branch: "history.unmarshal",
			f:  unmarshalOutcome,
			op: func(x string) string { return "dispatch.ciddec s=" + hx(x) }},
		{name: "ComponentIDRoundTrip", branch: "history.roundtrip",
			f: func(x string) string { return roundtripOutcome(decPair(x)) },
			spec: func(x string) *string {
				r := decPair(x)
				if r.sid == "" && r.srv == "" {
					return str("err unmarshal") // the empty request has the empty component ID, which base58 refuses
				}
				return str("ok sid=" + hx(r.sid) + " srv=" + hx(r.srv))
			}},
		{name: "RequestDirective", branch: "history.reqdir",
			f: func(x string) string { return reqdirOutcome(decPair(x)) },
			op: func(x string) string {
				r := decPair(x)
				return fmt.Sprintf("dispatch.reqdir sid=%s srv=%s", hx(r.sid), hx(r.srv))
			},
			spec: func(x string) *string {
				r := decPair(x)
				return str(fmt.Sprintf("ok dsid=%s dsrv=%s rsid=%s rsrv=%s v=%s", hx(r.sid), hx(r.srv), hx(r.sid), hx(r.srv), bit(r.sid != "")))
			}},
	}
	for i := range tab {
		if tab[i].name != "UnmarshalComponentID" {
			tab[i].show = showPair
		}
	}
	return tab
}

func (e *engine) runC36Pure() {
	e.rep.Require("history.marshal", "history.unmarshal", "history.roundtrip", "history.reqdir", "pairs.fwd", "pairs.rev", "pairs.ab", "pairs.ba")
	fam := sepFamily("plugin", "web", "fetch.S")
	// ---- (i) history independence ----
	// input set: absent fields, the empty request, long and non-UTF-8 IDs, and a sample of the
	// separator family (both members of each chosen pair, adjacent)
	var reqs []reqPair
	reqs = append(reqs, reqPair{"", ""}, reqPair{"a", ""}, reqPair{"", "s"}, reqPair{"svc/x", "srv-1"},
		reqPair{strings.Repeat("s", 200), "\xff\x00"}, reqPair{"\xff", strings.Repeat("v", 130)})
	pick := map[int]bool{0: true, 2: true} // the "/" pairs always
	for len(pick) < 10 {
		pick[e.rng.Intn(len(fam))] = true
	}
	for i := range fam {
		if pick[i] {
			reqs = append(reqs, fam[i][0], fam[i][1])
		}
	}
	var pairIn, textIn []string
	seenIn := map[string]bool{}
	for _, r := range reqs {
		if !seenIn[r.enc()] {
			seenIn[r.enc()] = true
			pairIn = append(pairIn, r.enc())
			textIn = append(textIn, cidSpec(r))
		}
	}
	// decoder inputs: the component IDs above plus malformed / late-rejected / unknown-field text
	textIn = append(textIn, "0OIl", " ", b58.Encode([]byte{0x0a, 0x01, 'a', 0x12, 0x01, 'b', 0x0a, 0x02, 'c', 'd'}), // repeated field: last wins
		b58.Encode([]byte{0x0a, 0x01, 'a', 0x12, 0x05, 'x'}), // second field truncated: rejected late
		b58.Encode([]byte{0x0a, 0x01, 'a', 0x18, 0x07}),      // unknown field retained
		b58.Encode([]byte{0x08, 0x01}), b58.Encode([]byte{0x12, 0x01, 'b'}))
	tab := c36HistTable()
	for i := range tab {
		if tab[i].name == "UnmarshalComponentID" {
			tab[i].inputs = textIn
		} else {
			tab[i].inputs = pairIn
		}
	}
	e.historyPhase(tab)

	// ---- (ii) separator-ambiguity pairs, all in this process ----
	owner := map[string]reqPair{} // component ID -> the request it was handed out for
	n := 0
	process := func(r reqPair, order string) {
		n++
		op := fmt.Sprintf("dispatch.cidenc sid=%s srv=%s order=%s#%d", hx(r.sid), hx(r.srv), order, n)
		model := e.m.Query(op)
		cid, back, derr := "", reqPair{}, error(nil)
		impl := lib.Recover(func() string {
			var err error
			cid, err = bifrost_rpc_access.NewLookupRpcServiceRequest(r.sid, r.srv).MarshalComponentID()
			if err != nil {
				return "err"
			}
			m := &bifrost_rpc_access.LookupRpcServiceRequest{}
			derr = m.UnmarshalComponentID(cid)
			back = reqPair{m.GetServiceId(), m.GetServerId()}
			return "ok " + hx(cid)
		})
		mon, key := "", "dispatch.cid"
		switch {
		case r.sid == "" && r.srv == "":
			// the empty request has the empty component ID (componentID_empty); not part of the family
		case strings.HasPrefix(impl, "panic") || impl == "err":
			mon, key = fmt.Sprintf("MarshalComponentID of %v fails: %s", r, impl), key+":marshal-fails"
		case derr != nil || back != r:
			mon = fmt.Sprintf("component ID of %v (request %d handled by this process, order %s) decodes as %v (err=%v): decode(encode(r)) != r", r, n, order, back, derr)
			key += ":roundtrip"
		case cid != cidSpec(r):
			mon, key = fmt.Sprintf("component ID of %v is %q, but base58(protobuf(request)) is %q", r, cid, cidSpec(r)), key+":encoding"
		default:
			if o, dup := owner[cid]; dup && o != r {
				mon, key = fmt.Sprintf("MarshalComponentID is not injective: %v and %v share the component ID %q", o, r, cid), key+":not-injective"
			}
		}
		if _, dup := owner[cid]; !dup && cid != "" {
			owner[cid] = r
		}
		e.cmp(op, model, impl, "pairs."+order, key, mon)
	}
	var all []reqPair
	for _, p := range fam {
		all = append(all, p[0], p[1])
	}
	// each pair right after one another: first member first on one set of tokens, second member
	// first on another set (so that in both cases the process has not seen the pair before) …
	for _, p := range fam {
		process(p[0], "ab")
		process(p[1], "ab")
	}
	for _, p := range sepFamily("host", "api", "echo.E") {
		process(p[1], "ba")
		process(p[0], "ba")
		all = append(all, p[0], p[1])
	}
	// … then both families as a whole, forward and backward
	for _, r := range all {
		process(r, "fwd")
	}
	for i := len(all) - 1; i >= 0; i-- {
		process(all[i], "rev")
	}
}
