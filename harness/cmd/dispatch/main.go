// Command dispatch is the correspondence engine for
//
//	C34 stream handlers only take the streams they are configured for,
//	C35 RPC / HTTP lookups reach only matching registrations, with exact prefix stripping,
//	C36 the remote lookup stream reports availability faithfully (+ component-ID codec),
//	C37 IsEquivalent never merges directives that differ in a resolution-affecting parameter.
//
// Every case drives the real bifrost controller / directive code, asks the Lean model the same
// question, and evaluates a property monitor that is stated directly on the inputs the harness
// generated (it never consults bifrost code). Regular expressions, net/http.ServeMux,
// net/url and base58 are called directly where the model treats them as oracles.
package main

import (
	"context"
	"crypto/ed25519"
	"fmt"
	"strings"

	"github.com/aperturerobotics/controllerbus/bus"
	"github.com/aperturerobotics/controllerbus/directive"
	b58 "github.com/mr-tron/base58/base58"
	"github.com/sirupsen/logrus"

	"github.com/aperturerobotics/bifrost/testbed"

	"verif/harness/lib"
)

type engine struct {
	onlyKinds map[string]bool // C37 sweep restricted to these directive types (nil = all)
	a         *lib.Args
	rng       *lib.Rng
	m         *lib.Model
	rep       *lib.Report
	le        *logrus.Entry
	ctx       context.Context
	bus       bus.Bus
	dis       map[string]int
	spy       *linkSpy // C34: the only controller answering EstablishLinkWithPeer on the harness bus
	fwdN      int
}

// cmp is rep.Compare, except that after three disagreements with the same finding key further
// ones of that key are only counted as cases (a class of failing inputs is reported by its
// first witnesses, and cannot crowd other classes out of the report).
func (e *engine) cmp(op, model, impl, branch, key, mon string) {
	if model != impl || mon != "" {
		if e.dis == nil {
			e.dis = map[string]int{}
		}
		e.dis[key]++
		if e.dis[key] > 3 {
			e.rep.Case(op, model, impl, branch, true)
			return
		}
	}
	e.rep.Compare(op, model, impl, branch, key, mon)
}

// fakeInst is a directive.Instance that only carries a directive.
type fakeInst struct {
	ctx context.Context
	dir directive.Directive
}

func (f *fakeInst) GetContext() context.Context       { return f.ctx }
func (f *fakeInst) GetDirective() directive.Directive { return f.dir }
func (f *fakeInst) GetDirectiveIdent() string         { return "verif" }
func (f *fakeInst) GetResolverErrors() []error        { return nil }
func (f *fakeInst) AddReference(cb directive.ReferenceHandler, weak bool) directive.Reference {
	return fakeRef{}
}
func (f *fakeInst) AddDisposeCallback(cb func()) func()                { return func() {} }
func (f *fakeInst) AddIdleCallback(cb directive.IdleCallback) func()   { return func() {} }
func (f *fakeInst) AddStateCallback(cb directive.StateCallback) func() { return func() {} }
func (f *fakeInst) CloseIfUnreferenced(inclWeakRefs bool) bool         { return false }
func (f *fakeInst) Close()                                             {}

type fakeRef struct{}

func (fakeRef) Release() {}

// valHandler is a directive.ResolverHandler that collects values and signals idle.
type valHandler struct {
	vals chan directive.Value
	idle chan struct{}
}

func newValHandler() *valHandler {
	return &valHandler{vals: make(chan directive.Value, 4), idle: make(chan struct{}, 4)}
}

func (h *valHandler) AddValue(v directive.Value) (uint32, bool) {
	select {
	case h.vals <- v:
	default:
	}
	return 1, true
}
func (h *valHandler) RemoveValue(id uint32) (directive.Value, bool) { return nil, false }
func (h *valHandler) RemoveValues() []directive.Value               { return nil }
func (h *valHandler) CountValues(bool) int                          { return 0 }
func (h *valHandler) ClearValues() []uint32                         { return nil }
func (h *valHandler) MarkIdle(b bool) {
	if b {
		select {
		case h.idle <- struct{}{}:
		default:
		}
	}
}
func (h *valHandler) AddValueRemovedCallback(id uint32, cb func()) func() { return func() {} }
func (h *valHandler) AddResolverRemovedCallback(cb func()) func()         { return func() {} }
func (h *valHandler) AddResolver(res directive.Resolver, cb func()) func() {
	return func() {}
}

// peerUniverse: two well-formed peer IDs (identity multihash of a marshalled Ed25519 public
// key, built here byte by byte) with their base58 text, computed with mr-tron/base58 directly.
type peerVal struct {
	id   string // raw multihash bytes
	text string // base58
}

func mkPeer(seed byte) peerVal {
	s := make([]byte, ed25519.SeedSize)
	for i := range s {
		s[i] = seed + byte(i)
	}
	pub := ed25519.NewKeyFromSeed(s).Public().(ed25519.PublicKey)
	id := append([]byte{0x00, 0x24, 0x08, 0x01, 0x12, 0x20}, pub...)
	return peerVal{id: string(id), text: b58.Encode(id)}
}

func hx(s string) string { return lib.Hex([]byte(s)) }

func hxList(l []string) string {
	if len(l) == 0 {
		return "_"
	}
	o := make([]string, len(l))
	for i := range l {
		o[i] = hx(l[i])
	}
	return strings.Join(o, ",")
}

func bit(b bool) string {
	if b {
		return "1"
	}
	return "0"
}

func contains(l []string, s string) bool {
	for _, x := range l {
		if x == s {
			return true
		}
	}
	return false
}

func main() {
	if histChildMain(c36HistTable) { // re-executed as the fresh process of the history phase (hist.go)
		return
	}
	a := lib.ParseArgs()
	e := &engine{a: a, rng: lib.NewRng(a.Seed), m: lib.NewModel(a.Driver)}
	e.rep = lib.NewReport("dispatch", a)
	log := logrus.New()
	log.SetLevel(logrus.PanicLevel)
	e.le = logrus.NewEntry(log)
	ctx, cancel := context.WithCancel(context.Background())
	defer cancel()
	e.ctx = ctx
	tb, err := testbed.NewTestbed(ctx, e.le, testbed.TestbedOpts{NoEcho: true, NoPeer: true})
	if err != nil {
		fmt.Println("testbed:", err)
		return
	}
	e.bus = tb.Bus
	switch a.Prop {
	case "C34":
		e.runC34()
	case "C35":
		e.runC35()
	case "C36":
		e.runC36()
	case "C37":
		e.runC37()
	case "C04", "C05", "C07", "C30":
		// these properties rely on the bus merging two requests only when they are the same
		// request: the IsEquivalent of the directive types their mechanisms are reached through
		e.onlyKinds = map[string]map[string]bool{
			"C04": {"EstablishLinkWithPeer": true, "HandleMountedStream": true},
			"C05": {"DialTptAddr": true, "LookupTptAddr": true, "LookupTransport": true, "EstablishLinkWithPeer": true},
			"C07": {"HandleMountedStream": true},
			"C30": {"SolicitProtocol": true},
		}[a.Prop]
		e.runC37()
	default:
		fmt.Println("unknown property", a.Prop)
		return
	}
	e.m.Close()
	e.rep.Write(a.Out)
}
