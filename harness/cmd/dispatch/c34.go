package main

import (
	"context"
	"fmt"
	"unicode/utf8"

	"github.com/aperturerobotics/bifrost/link"
	link_solicit_controller "github.com/aperturerobotics/bifrost/link/solicit/controller"
	"github.com/aperturerobotics/bifrost/peer"
	"github.com/aperturerobotics/bifrost/protocol"
	pubsub_controller "github.com/aperturerobotics/bifrost/pubsub/controller"
	stream_api_accept "github.com/aperturerobotics/bifrost/stream/api/accept"
	stream_echo "github.com/aperturerobotics/bifrost/stream/echo"
	stream_forwarding "github.com/aperturerobotics/bifrost/stream/forwarding"
	stream_relay "github.com/aperturerobotics/bifrost/stream/relay"
	stream_srpc_server "github.com/aperturerobotics/bifrost/stream/srpc/server"
	stream_srpc_server_lookup "github.com/aperturerobotics/bifrost/stream/srpc/server/lookup"
	"github.com/aperturerobotics/controllerbus/controller"
	"github.com/aperturerobotics/controllerbus/directive"
	"github.com/blang/semver/v4"

	"verif/harness/lib"
)

// handlerCtl is what all seven controllers have in common.
type handlerCtl interface {
	HandleDirective(ctx context.Context, di directive.Instance) ([]directive.Resolver, error)
}

type strm struct{ proto, local, remote string }

// spec is the harness's own statement of what a configuration serves, written down from the
// universe values the configuration was assembled from (never parsed back by bifrost code).
type spec struct {
	proper  bool     // the configuration is one the handler's documentation admits
	protos  []string // protocol IDs served
	prefix  string   // additionally: any protocol with this prefix (solicit only)
	local   string   // "" = any local peer
	locals  []string // alternative to local: any of these (srpc); empty = any
	remotes []string // empty = any remote peer
}

func (s *spec) serves(x strm) bool {
	okP := contains(s.protos, x.proto) || (s.prefix != "" && len(x.proto) >= len(s.prefix) && x.proto[:len(s.prefix)] == s.prefix)
	okL := (s.local == "" || s.local == x.local) && (len(s.locals) == 0 || contains(s.locals, x.local))
	okR := len(s.remotes) == 0 || contains(s.remotes, x.remote)
	return okP && okL && okR
}

func protoOK(p string) bool { return p != "" && utf8.ValidString(p) }

var verifInfo = controller.NewInfo("verif/dispatch", semver.MustParse("0.0.1"), "verif")

// one handler configuration: the model op prefix, the real controller (nil = constructor
// refused), whether the real Validate() accepted the config, and the spec.
func (e *engine) c34Config(kind, op string, ctl handlerCtl, ctorErr error, validateErr error, sp spec, streams []strm) {
	for _, x := range streams {
		line := fmt.Sprintf("dispatch.%s %s sp=%s sl=%s sr=%s", kind, op, hx(x.proto), hx(x.local), hx(x.remote))
		if op == "" {
			line = fmt.Sprintf("dispatch.%s sp=%s sl=%s sr=%s", kind, hx(x.proto), hx(x.local), hx(x.remote))
		}
		model := e.m.Query(line)
		handled, errored := false, false
		impl := lib.Recover(func() string {
			if ctl == nil || ctorErr != nil {
				return "noctl v=" + bit(validateErr == nil)
			}
			di := &fakeInst{ctx: e.ctx, dir: link.NewHandleMountedStream(protocol.ID(x.proto), peer.ID(x.local), peer.ID(x.remote))}
			res, err := ctl.HandleDirective(e.ctx, di)
			if err != nil {
				errored = true
				return "err"
			}
			handled = len(res) != 0
			return "ok h=" + bit(handled) + " v=" + bit(validateErr == nil)
		})
		mon := ""
		key := "dispatch." + kind
		want := sp.serves(x)
		if errored {
			// "Streams for other protocols or peers are left to other handlers": a handler that is
			// not concerned returns no resolver and no error (an error is a verdict on the stream)
			mon = fmt.Sprintf("%s handler answers a HandleMountedStream directive with an error instead of taking or leaving the stream (protocol %q local %s remote %s; configured for it: %v)", kind, x.proto, short(x.local), short(x.remote), want)
			key += ":errors-on-stream"
		} else if handled && !want {
			mon = fmt.Sprintf("%s handler takes a stream it is not configured for (protocol %q local %s remote %s)", kind, x.proto, short(x.local), short(x.remote))
			key += ":takes-foreign-stream"
		} else if sp.proper && ctl != nil && ctorErr == nil && !handled && want {
			mon = fmt.Sprintf("%s handler refuses a stream it is configured for (protocol %q local %s remote %s)", kind, x.proto, short(x.local), short(x.remote))
			key += ":refuses-own-stream"
		}
		br := kind + ".noctl"
		if len(model) > 5 && model[:4] == "ok h" {
			br = kind + ".h" + model[5:6]
		}
		e.cmp(line, model, impl, br, key, mon)
	}
}

func short(id string) string {
	if id == "" {
		return "(none)"
	}
	t := hx(id)
	if len(t) > 12 {
		return t[len(t)-8:]
	}
	return t
}

func (e *engine) runC34() {
	e.rep.Rule = "exhaustive product, per handler, of configuration values (peer: unset / P1 / P2 / malformed text; protocol: unset / p/a / p/b / invalid UTF-8 (+ bifrost/echo, solicit:*); remote lists: empty / [P1] / [P1,P2] / [P2] / [\"\"] / [malformed]) × EVERY other field of each config message (relay target_peer_id: unset / = peer_id / other / malformed; relay target_protocol_id: unset / = protocol_id / other / invalid; accept transport_id; srpc disable_establish_link, Config.ApplyDefaults; pubsub peer argument; solicit max_hashes) × stream (protocol incl. every target protocol × local ∈ {none,P1,P2} × remote ∈ {none,P1,P2}) (+ NEAR MISSES of the configured protocol on the stream side: p/a/x, p/, P/A, p/A, xp/a, bifrost/echo2, bifrost/ech, Bifrost/Echo, bifrost/echo/, Solicit:ab, BIFROST/SOLICIT, bifrost/solicit/) against the real HandleDirective of each controller, the srpc server through all three constructors (Config.BuildServer, raw NewServer, stream/srpc/server/lookup.NewController = NewServerWithMux, with server_id varied); a HandleDirective error on any stream is a violation of its own (errors-on-stream); for every relay that constructs, the value it resolves is handed a stream and a spy on the bus reports the link it keeps up and the (protocol, local peer, target peer) the relayed stream is opened with; same for the srpc server's back link; distinct = distinct op line"
	for _, k := range []string{"echo", "fwd", "relay", "accept", "srpc", "srpclk", "srpcraw", "pubsub", "solicit"} {
		e.rep.Require(k+".h0", k+".h1")
	}
	e.rep.Require("echo.noctl", "fwd.noctl", "relay.noctl", "accept.noctl", "srpc.noctl", "srpclk.noctl", "srpcdef.h0", "srpcdef.h1",
		"relay.tproto-unset", "relay.tproto-same", "relay.tproto-other", "relay.tpeer-same", "relay.tpeer-other",
		"relayfwd.ok", "srpcest.back", "srpcest.none", "srpcdef.defaulted", "srpcdef.own")
	p1, p2 := mkPeer(1), mkPeer(101)
	bad := "0OIl" // not base58
	peerTexts := []string{"", p1.text, p2.text, bad}
	idOf := func(text string) (string, bool) {
		switch text {
		case "":
			return "", true
		case p1.text:
			return p1.id, true
		case p2.text:
			return p2.id, true
		}
		return "", false
	}
	protos := []string{"", "p/a", "p/b", "\xff"}
	// near misses of the configured protocol IDs, on the stream side only: a longer ID with the
	// configured one as prefix, a proper prefix of it, and case variants (a HasPrefix / EqualFold /
	// Contains comparison instead of == takes one of them)
	nearProtos := []string{"p/a/x", "p/", "P/A", "p/A", "xp/a"}
	nearEcho := []string{"bifrost/echo2", "bifrost/ech", "Bifrost/Echo", "bifrost/echo/"}
	var streams, echoStreams, solStreams []strm
	streamPeers := []string{"", p1.id, p2.id}
	if e.a.Scale > 1 { // thorough: a peer no configuration mentions, and a non-multihash ID
		streamPeers = append(streamPeers, mkPeer(201).id, "raw-id")
	}
	for _, l := range streamPeers {
		for _, r := range streamPeers {
			for _, p := range append(append([]string{}, protos...), nearProtos...) {
				streams = append(streams, strm{p, l, r})
			}
			for _, p := range append(append([]string{"bifrost/echo"}, protos...), append(nearProtos[:3:3], nearEcho...)...) {
				echoStreams = append(echoStreams, strm{p, l, r})
			}
			for _, p := range []string{"", "p/a", "bifrost/solicit", "bifrost/solici", "bifrost/solicit2", "solicit:", "solicit:ab12", "solicit", "xsolicit:ab", "Solicit:ab", "BIFROST/SOLICIT", "bifrost/solicit/"} {
				solStreams = append(solStreams, strm{p, l, r})
			}
		}
	}

	// ---- echo ----
	for _, pt := range peerTexts {
		for _, pr := range append([]string{"bifrost/echo"}, protos...) {
			conf := &stream_echo.Config{PeerId: pt, ProtocolId: pr}
			verr := conf.Validate()
			ctl, cerr := stream_echo.NewController(e.le, e.bus, conf)
			lid, okL := idOf(pt)
			eff := pr
			if eff == "" {
				eff = "bifrost/echo" // documented default
			}
			sp := spec{proper: okL && protoOK(eff), protos: []string{eff}, local: lid}
			var h handlerCtl
			if cerr == nil {
				h = ctl
			}
			e.c34Config("echo", fmt.Sprintf("peer=%s proto=%s", hx(pt), hx(pr)), h, cerr, verr, sp, echoStreams)
		}
	}
	// ---- forwarding ----
	for _, pt := range peerTexts {
		for _, pr := range protos {
			for _, tgt := range []string{"/ip4/127.0.0.1/tcp/4000", "", "bogus"} {
				conf := &stream_forwarding.Config{PeerId: pt, ProtocolId: pr, TargetMultiaddr: tgt}
				verr := conf.Validate()
				ctl, cerr := stream_forwarding.NewController(e.le, e.bus, conf)
				lid, okL := idOf(pt)
				// a configuration without protocol / target is outside what Validate admits;
				// for those only "never takes a foreign stream" is meaningful when a protocol is set
				sp := spec{proper: okL && protoOK(pr) && tgt == "/ip4/127.0.0.1/tcp/4000", protos: []string{pr}, local: lid}
				var h handlerCtl
				if cerr == nil {
					h = ctl
				}
				st := streams
				if pr == "" {
					// invalid config (Validate refuses it): the constructor does not check, and the
					// handler then takes every protocol. Compared with the model, no property verdict.
					sp = spec{proper: false, protos: append(append([]string{}, protos...), nearProtos...), local: lid}
				}
				// ma.NewMultiaddr("") fails: tok=0 for both "" and "bogus"
				e.c34Config("fwd", fmt.Sprintf("peer=%s proto=%s tset=%s tok=%s", hx(pt), hx(pr), bit(tgt != ""), bit(tgt == "/ip4/127.0.0.1/tcp/4000")), h, cerr, verr, sp, st)
			}
		}
	}
	// ---- relay ----
	// Every field of the config message is varied: the two secondary fields (target peer, target
	// protocol) over unset / equal to the primary / different / malformed, and every variant that
	// constructs is run against the full stream product — which contains every target protocol and
	// target peer as a stream protocol / local peer. The spec never mentions the target: a relay
	// listens on (protocol_id, peer_id) whatever it forwards to.
	relayFail := []strm{}
	for _, x := range streams {
		if (x.local == p1.id || x.local == p2.id) && x.remote == p1.id {
			relayFail = append(relayFail, x)
		}
	}
	relayStreams := append([]strm{}, streams...)
	for _, l := range []string{p1.id, p2.id} {
		relayStreams = append(relayStreams, strm{"p/t", l, p1.id})
	}
	for _, pt := range peerTexts {
		for _, pr := range protos {
			for _, tp := range []string{p2.text, p1.text, "", bad} {
				for _, tpr := range []string{"", "p/a", "p/b", "p/t", "\xff"} {
					conf := &stream_relay.Config{PeerId: pt, ProtocolId: pr, TargetPeerId: tp, TargetProtocolId: tpr}
					verr := conf.Validate()
					ctl, cerr := stream_relay.NewController(e.le, e.bus, conf)
					lid, okL := idOf(pt)
					tid, okT := idOf(tp)
					okTP := tpr == "" || protoOK(tpr)
					sp := spec{proper: okL && lid != "" && protoOK(pr) && okT && tid != "" && okTP, protos: []string{pr}, local: lid}
					if lid == "" {
						sp.protos = nil // no source peer: must serve nothing
					}
					var h handlerCtl
					if cerr == nil {
						h = ctl
					}
					st := relayStreams
					if !sp.proper && cerr != nil {
						st = relayFail // constructor-failure variants: the streams a built controller would take
					}
					rel := "unset"
					switch {
					case tpr == pr && tpr != "":
						rel = "same"
					case tpr != "" && okTP:
						rel = "other"
					case tpr != "":
						rel = "bad"
					}
					if cerr == nil {
						e.rep.Branches["relay.tproto-"+rel]++
						if tid == lid {
							e.rep.Branches["relay.tpeer-same"]++
						} else {
							e.rep.Branches["relay.tpeer-other"]++
						}
					}
					op := fmt.Sprintf("peer=%s proto=%s tpeer=%s tproto=%s", hx(pt), hx(pr), hx(tp), hx(tpr))
					e.c34Config("relay", op, h, cerr, verr, sp, st)
					// what the relayed stream is opened WITH
					if cerr == nil {
						want := relayWant{proto: tpr, peer: tid}
						if tpr == "" {
							want.proto = pr
						}
						e.c34RelayForward(op, ctl, pr, lid, want, sp.proper)
					}
				}
			}
		}
	}
	// ---- accept ----
	remoteLists := [][]string{nil, {p1.text}, {p1.text, p2.text}, {p2.text}, {""}, {bad}, {p1.text, ""}}
	for _, pt := range peerTexts {
		for ri, rl := range remoteLists {
			for _, pr := range protos {
				for _, tid := range []uint64{0, 7} {
					if tid != 0 && ri > 1 {
						continue // transport_id (means nothing for the filter): varied on the first two lists
					}
					conf := &stream_api_accept.Config{LocalPeerId: pt, RemotePeerIds: rl, ProtocolId: pr, TransportId: tid}
					verr := conf.Validate()
					ctl, cerr := stream_api_accept.NewController(e.le, conf, e.bus)
					lid, okL := idOf(pt)
					okR := true
					var rids []string
					for _, t := range rl {
						id, ok := idOf(t)
						if !ok || id == "" {
							okR = false
						}
						rids = append(rids, id)
					}
					sp := spec{proper: okL && okR && protoOK(pr), protos: []string{pr}, local: lid, remotes: rids}
					if !okR {
						sp.protos = nil
					}
					var h handlerCtl
					if cerr == nil {
						h = ctl
					}
					e.c34Config("accept", fmt.Sprintf("local=%s remotes=%s proto=%s tid=%d", hx(pt), hxList(rl), hx(pr), tid), h, cerr, verr, sp, streams)
				}
			}
		}
	}
	// ---- srpc server (through Config.BuildServer, and the raw constructor) ----
	peerLists := [][]string{nil, {p1.text}, {p1.text, p2.text}, {p2.text}, {""}, {bad}, {p2.text, p2.text}}
	protoLists := [][]string{nil, {"p/a"}, {"p/a", "p/b"}, {"p/b"}, {""}, {"\xff"}, {"p/b", "p/b"}}
	for pi, pl := range peerLists {
		for pri, prl := range protoLists {
			for _, dis := range []bool{false, true} {
				if dis && (pi > 3 || pri > 3) {
					continue // disable_establish_link (not a filter): varied on the well-formed lists
				}
				conf := &stream_srpc_server.Config{PeerIds: pl, ProtocolIds: prl, DisableEstablishLink: dis}
				verr := conf.Validate()
				srv, cerr := conf.BuildServer(e.bus, e.le, verifInfo, nil)
				proper := true
				var lids []string
				for _, t := range pl {
					id, ok := idOf(t)
					if !ok || id == "" {
						proper = false
					}
					lids = append(lids, id)
				}
				for _, p := range prl {
					if !protoOK(p) {
						proper = false
					}
				}
				sp := spec{proper: proper, protos: prl, locals: lids}
				if !proper {
					sp.protos = nil
				}
				var h handlerCtl
				if cerr == nil {
					h = srv
				}
				e.c34Config("srpc", fmt.Sprintf("peers=%s protos=%s dis=%s", hxList(pl), hxList(prl), bit(dis)), h, cerr, verr, sp, streams)
			}
		}
	}
	// Config.ApplyDefaults(defaults).BuildServer — the path signaling/rpc/server takes: a config
	// that names protocols serves exactly those, one that names none serves exactly the defaults.
	for _, pl := range [][]string{nil, {p1.text}} {
		for _, prl := range [][]string{nil, {"p/a"}, {"p/b", "p/b"}, {""}} {
			for _, defs := range [][]string{nil, {"p/b"}, {"p/a", "p/b"}, {"\xff"}} {
				conf := &stream_srpc_server.Config{PeerIds: pl, ProtocolIds: prl}
				dp := make([]protocol.ID, len(defs))
				for i := range defs {
					dp[i] = protocol.ID(defs[i])
				}
				conf2 := conf.ApplyDefaults(dp)
				verr := conf2.Validate()
				srv, cerr := conf2.BuildServer(e.bus, e.le, verifInfo, nil)
				eff := prl
				if len(prl) == 0 {
					eff = defs
				}
				proper := true
				for _, p := range eff {
					if !protoOK(p) {
						proper = false
					}
				}
				var lids []string
				for _, t := range pl {
					id, _ := idOf(t)
					lids = append(lids, id)
				}
				sp := spec{proper: proper, protos: eff, locals: lids}
				if !proper {
					sp.protos = nil
				}
				var h handlerCtl
				if cerr == nil {
					h = srv
				}
				if len(prl) == 0 {
					e.rep.Branches["srpcdef.defaulted"]++
				} else {
					e.rep.Branches["srpcdef.own"]++
				}
				e.c34Config("srpcdef", fmt.Sprintf("peers=%s protos=%s dis=0 defs=%s", hxList(pl), hxList(prl), hxList(defs)), h, cerr, verr, sp, streams)
			}
		}
	}
	// stream/srpc/server/lookup.NewController — the second constructor (NewServerWithMux): same
	// lists, plus server_id (the server ID of the LookupRpcService directives of incoming calls; not a filter)
	for _, pl := range peerLists {
		for pri, prl := range protoLists {
			for _, srvid := range []string{"", "srv"} {
				if srvid != "" && pri > 3 {
					continue
				}
				conf := &stream_srpc_server_lookup.Config{PeerIds: pl, ProtocolIds: prl, ServerId: srvid}
				verr := conf.Validate()
				srv, cerr := stream_srpc_server_lookup.NewController(e.bus, e.le, conf)
				proper := true
				var lids []string
				for _, t := range pl {
					id, ok := idOf(t)
					if !ok || id == "" {
						proper = false
					}
					lids = append(lids, id)
				}
				for _, p := range prl {
					if !protoOK(p) {
						proper = false
					}
				}
				sp := spec{proper: proper, protos: prl, locals: lids}
				if !proper {
					sp.protos = nil
				}
				var h handlerCtl
				if cerr == nil {
					h = srv
				}
				e.c34Config("srpclk", fmt.Sprintf("peers=%s protos=%s srvid=%s", hxList(pl), hxList(prl), hx(srvid)), h, cerr, verr, sp, streams)
			}
		}
	}
	// raw NewServer: peerIDs are base58 *text*; entries that are not the text of any peer never match
	rawPeerLists := [][]string{nil, {p1.text}, {p1.text, p2.text}, {p2.text}, {"zz"}, {""}}
	for pi, pl := range rawPeerLists {
		for pri, prl := range protoLists {
			for _, dis := range []bool{true, false} {
				if !dis && (pi > 2 || pri > 3) {
					continue
				}
				ps := make([]protocol.ID, len(prl))
				for i := range prl {
					ps[i] = protocol.ID(prl[i])
				}
				srv, cerr := stream_srpc_server.NewServer(e.bus, e.le, verifInfo, nil, ps, pl, dis)
				var lids []string
				for _, t := range pl {
					switch t {
					case p1.text:
						lids = append(lids, p1.id)
					case p2.text:
						lids = append(lids, p2.id)
					case "":
						lids = append(lids, "") // base58 of the empty ID is the empty string
					default:
						lids = append(lids, "\x00no-such-peer")
					}
				}
				sp := spec{proper: true, protos: prl, locals: lids}
				var h handlerCtl
				if cerr == nil {
					h = srv
				}
				e.c34Config("srpcraw", fmt.Sprintf("protos=%s peers=%s dis=%s", hxList(prl), hxList(pl), bit(dis)), h, cerr, nil, sp, streams)
				// what the server does with a stream it took: the back link, iff not disabled
				if cerr == nil && pi == 1 && pri == 1 {
					e.c34SrpcBackLink(fmt.Sprintf("protos=%s peers=%s dis=%s", hxList(prl), hxList(pl), bit(dis)), srv, dis, p1.id)
				}
			}
		}
	}
	// ---- pubsub ---- (the peer ID argument names the signing peer; it is not a filter)
	for _, pp := range []string{p1.id, "", p2.id} {
		for _, pr := range protos {
			ctl := pubsub_controller.NewController(e.le, e.bus, verifInfo, peer.ID(pp), protocol.ID(pr), nil)
			e.c34Config("pubsub", "peer="+hx(pp)+" pid="+hx(pr), ctl, nil, nil, spec{proper: true, protos: []string{pr}}, streams)
		}
	}
	// ---- solicit ---- (max_hashes bounds an exchange; it is not a filter)
	for _, mh := range []uint32{0, 1, 256, 100000} {
		sctl, serr := link_solicit_controller.NewController(e.le, &link_solicit_controller.Config{MaxHashes: mh})
		e.c34Config("solicit", fmt.Sprintf("mh=%d", mh), sctl, serr, nil, spec{proper: true, protos: []string{"bifrost/solicit"}, prefix: "solicit:"}, solStreams)
	}
}
