package main

// C36, fourth part (audit rows 14 and 15):
//   * the ends of a LookupRpcService call other than "directive disposed": the stream context is
//     cancelled after k callbacks, the k-th Send fails; with the resources the call holds — the
//     directive reference and the idle callback — released exactly once on every exit path;
//   * CallRpcService with waitOne = true (registered pairs, refusals that come before the lookup,
//     and a provider that appears only after the call was made);
//   * the production CONSUMER of the response stream, rpc/access LookupRpcServiceResolver, connected
//     to the real server over an in-memory srpc pipe and the real bus: its handler must hold exactly
//     one value while the remote has a provider and none otherwise, for scripted add / remove / idle
//     histories; and the production component-ID ENCODER, ProxyInvoker: a call through the value the
//     resolver added, with the directive's own service ID and with another one, must be served by
//     exactly the registration for (that service ID, the directive's server ID).

import (
	"context"
	"fmt"
	"strings"
	"sync"
	"sync/atomic"
	"time"

	bifrost_rpc "github.com/aperturerobotics/bifrost/rpc"
	bifrost_rpc_access "github.com/aperturerobotics/bifrost/rpc/access"
	"github.com/aperturerobotics/controllerbus/directive"
	"github.com/aperturerobotics/starpc/echo"
	"github.com/aperturerobotics/starpc/srpc"

	"verif/harness/lib"
	"verif/harness/quiet"
)

func optN(n int) string {
	if n < 0 {
		return "-"
	}
	return fmt.Sprint(n)
}

// scriptedEnds plays callbacks into a fresh server one at a time (the consumer keeps up), cancels
// the stream context after `cancelAfter` callbacks (-1: never) and makes the Send of message number
// `failAt` fail (-1: never). If the call has not returned by the end of the history it is disposed.
func (e *engine) scriptedEnds(evs []string, cancelAfter, failAt int) (sent []string, end string, refRel, idleRel int32) {
	t := &tapBus{ready: make(chan struct{}, 1)}
	server := bifrost_rpc_access.NewAccessRpcServiceServer(t, false, nil)
	sctx, cancel := context.WithCancel(e.ctx)
	defer cancel()
	strm := &lookupStream{ctx: sctx}
	if failAt >= 0 {
		strm.failAt = &failAt
	}
	done := make(chan error, 1)
	go func() {
		done <- server.LookupRpcService(&bifrost_rpc_access.LookupRpcServiceRequest{ServiceId: "svc", ServerId: "srv"}, strm)
	}()
	select {
	case <-t.ready:
	case <-time.After(10 * time.Second):
		return nil, "timeout-start", 0, 0
	}
	var spec specC36
	var ret error
	returned := false
	nsent := func() int {
		strm.mtx.Lock()
		defer strm.mtx.Unlock()
		return len(strm.sent)
	}
	awaitReturn := func() {
		select {
		case ret = <-done:
			returned = true
		case <-time.After(8 * time.Second):
		}
	}
	if cancelAfter == 0 {
		cancel()
		awaitReturn()
	}
	for i, ev := range evs {
		if returned {
			break
		}
		var id uint32
		fmt.Sscanf(ev[1:], "%d", &id)
		switch ev[0] {
		case 'a':
			t.deliverAdded(directive.NewAttachedValue(id, srpc.Invoker(&recInvoker{})))
		case 'x':
			t.deliverAdded(directive.NewAttachedValue(id, "not a service"))
		case 'r':
			t.deliverRemoved(directive.NewAttachedValue(id, nil))
		case 'i':
			t.deliverIdle(ev == "i1", nil)
		case 'I':
			t.deliverIdle(ev[1] == '1', errsOf(ev))
		}
		spec.apply(ev)
		if spec.end != "" || (failAt >= 0 && len(spec.want) > failAt) {
			awaitReturn()
			break
		}
		deadline := time.After(5 * time.Second)
	wait:
		for nsent() < len(spec.want) {
			select {
			case ret = <-done:
				returned = true
				break wait
			case <-deadline:
				break wait
			case <-time.After(50 * time.Microsecond):
			}
		}
		if !returned && cancelAfter == i+1 {
			cancel()
			awaitReturn()
			break
		}
	}
	if !returned {
		t.dispose()
		select {
		case ret = <-done:
		case <-time.After(10 * time.Second):
			return nil, "timeout-return", 0, 0
		}
	}
	t.mtx.Lock()
	t.closed = true
	t.mtx.Unlock()
	strm.mtx.Lock()
	sent = append(sent, strm.sent...)
	strm.mtx.Unlock()
	switch {
	case ret == nil:
		end = "nil"
	case ret == errSendFail:
		end = "send"
	case ret == context.Canceled:
		end = "c"
	case ret.Error() == "directive disposed":
		end = "none"
	default:
		end = ret.Error()
	}
	return sent, end, atomic.LoadInt32(&t.refReleased), atomic.LoadInt32(&t.idleReleased)
}

// wantEnds restates, with the plain counters of specC36, what a client that keeps up has received
// when the call ends.
func wantEnds(evs []string, cancelAfter, failAt int) (want []string, end string) {
	var spec specC36
	hist := evs
	if cancelAfter >= 0 && cancelAfter < len(evs) {
		hist = evs[:cancelAfter]
	}
	for _, ev := range hist {
		spec.apply(ev)
		if spec.end != "" {
			break
		}
	}
	switch {
	case failAt >= 0 && failAt < len(spec.want):
		return spec.want[:failAt], "send"
	case spec.end != "":
		return spec.want, spec.end
	case cancelAfter >= 0:
		return spec.want, "c"
	}
	return spec.want, "none"
}

func (e *engine) runC36Ends() {
	e.rep.Require("ends.cancel", "ends.send-fails", "ends.cancel+send-fails", "ends.resolver-error", "ends.disposed")
	one := func(evs []string, cancelAfter, failAt int) {
		op := fmt.Sprintf("dispatch.runends evs=%s cancel=%s fail=%s", evList(evs), optN(cancelAfter), optN(failAt))
		model := e.m.Query(op)
		var sent []string
		var end string
		var refRel, idleRel int32
		impl := lib.Recover(func() string {
			sent, end, refRel, idleRel = e.scriptedEnds(evs, cancelAfter, failAt)
			return "ok msgs=" + evList(sent) + " end=" + end
		})
		want, wend := wantEnds(evs, cancelAfter, failAt)
		br := "ends.disposed"
		switch wend {
		case "c":
			br = "ends.cancel"
			if failAt >= 0 {
				br = "ends.cancel+send-fails"
			}
		case "send":
			br = "ends.send-fails"
		case "none":
		default:
			br = "ends.resolver-error"
		}
		mon, key := "", "dispatch.lookup-ends"
		switch {
		case strings.HasPrefix(impl, "panic"):
			mon, key = "LookupRpcService panicked: "+impl, key+":panic"
		case end != wend:
			mon, key = fmt.Sprintf("remote lookup call (cancel after %s callbacks, Send failing at message %s) ended with [%s], expected [%s], after [%s]", optN(cancelAfter), optN(failAt), end, wend, strings.Join(sent, ",")), key+":end"
		case strings.Join(sent, ",") != strings.Join(want, ","):
			mon, key = fmt.Sprintf("remote lookup call ending with [%s]: the client received [%s] but the changes up to that end are [%s]", end, strings.Join(sent, ","), strings.Join(want, ",")), key+":report"
		case refRel != 1:
			mon, key = fmt.Sprintf("remote lookup call ended with [%s]: the directive reference was released %d times (exactly once expected: a reference that is kept pins the lookup on the bus for ever)", end, refRel), key+":reference"
		case idleRel != 1:
			mon, key = fmt.Sprintf("remote lookup call ended with [%s]: the idle callback was removed %d times (exactly once expected)", end, idleRel), key+":idle-callback"
		}
		e.cmp(op, model, impl, br, key, mon)
	}
	hists := [][]string{
		{"a1", "i1", "r1", "i0"},
		{"i1", "a1", "a2", "r1", "r2"},
		{"a1", "r1", "a2", "r2", "i1"},
		{"a1", "I1:e7", "r1"},
		{"I0:e7", "a1", "i1", "r1"},
		{"I1:c", "a1", "i0", "r1"},
		{"x1", "a2", "i1"},
	}
	for _, h := range hists {
		one(h, -1, -1)
		for c := 0; c <= len(h); c++ {
			one(h, c, -1)
		}
		for f := 0; f <= len(h); f++ {
			one(h, -1, f)
		}
		one(h, len(h)-1, 1)
		one(h, 2, 0)
	}
	for i := 0; i < 60*e.a.Scale; i++ {
		n := 3 + e.rng.Intn(7)
		var evs []string
		live := map[int]bool{}
		for k := 0; k < n; k++ {
			id := 1 + e.rng.Intn(3)
			switch e.rng.Intn(8) {
			case 0, 1, 2:
				if live[id] {
					continue
				}
				live[id] = true
				evs = append(evs, fmt.Sprintf("a%d", id))
			case 3, 4:
				if !live[id] {
					continue
				}
				delete(live, id)
				evs = append(evs, fmt.Sprintf("r%d", id))
			case 5:
				evs = append(evs, "i1")
			case 6:
				evs = append(evs, "i0")
			default:
				evs = append(evs, fmt.Sprintf("I%d:%s", e.rng.Intn(2), []string{"e4", "c", "n.e2", ""}[e.rng.Intn(4)]))
			}
		}
		c, f := -1, -1
		switch e.rng.Intn(3) {
		case 0:
			c = e.rng.Intn(len(evs) + 1)
		case 1:
			f = e.rng.Intn(4)
		default:
			c, f = e.rng.Intn(len(evs)+1), e.rng.Intn(4)
		}
		one(evs, c, f)
	}
}

// ---------------------------------------------------------------------------------------------
// the production consumer: LookupRpcServiceResolver + ProxyInvoker

// recResHandler is the directive.ResolverHandler of the client-side resolver: the client's belief.
type recResHandler struct {
	mtx    sync.Mutex
	next   uint32
	vals   map[uint32]directive.Value
	idle   bool
	maxLen int
}

func (h *recResHandler) AddValue(v directive.Value) (uint32, bool) {
	h.mtx.Lock()
	defer h.mtx.Unlock()
	if h.vals == nil {
		h.vals = map[uint32]directive.Value{}
	}
	h.next++
	h.vals[h.next] = v
	if len(h.vals) > h.maxLen {
		h.maxLen = len(h.vals)
	}
	return h.next, true
}
func (h *recResHandler) RemoveValue(id uint32) (directive.Value, bool) {
	h.mtx.Lock()
	defer h.mtx.Unlock()
	v, ok := h.vals[id]
	delete(h.vals, id)
	return v, ok
}
func (h *recResHandler) RemoveValues() []directive.Value { return nil }
func (h *recResHandler) CountValues(bool) int {
	h.mtx.Lock()
	defer h.mtx.Unlock()
	return len(h.vals)
}
func (h *recResHandler) ClearValues() []uint32 {
	h.mtx.Lock()
	defer h.mtx.Unlock()
	var ids []uint32
	for id := range h.vals {
		ids = append(ids, id)
	}
	h.vals = map[uint32]directive.Value{}
	return ids
}
func (h *recResHandler) MarkIdle(b bool) {
	h.mtx.Lock()
	h.idle = b
	h.mtx.Unlock()
}
func (h *recResHandler) AddValueRemovedCallback(id uint32, cb func()) func() { return func() {} }
func (h *recResHandler) AddResolverRemovedCallback(cb func()) func()         { return func() {} }
func (h *recResHandler) AddResolver(res directive.Resolver, cb func()) func() {
	return func() {}
}

func (h *recResHandler) snapshot() (n int, idle bool, v directive.Value) {
	h.mtx.Lock()
	defer h.mtx.Unlock()
	for _, x := range h.vals {
		v = x
	}
	return len(h.vals), h.idle, v
}

// namedEcho is an echo service registered under an arbitrary service ID behind a tagInvoker.
func namedEcho(serviceID string, pair [2]string, last *[2]string, mtx *sync.Mutex) srpc.Invoker {
	mux := srpc.NewMux()
	if err := mux.Register(echo.NewSRPCEchoerHandler(echo.NewEchoServer(nil), serviceID)); err != nil {
		panic(err)
	}
	return &tagInvoker{pair: pair, inner: mux, last: last, mtx: mtx}
}

// resolverRun connects the production resolver to the real server and plays `actions` on the
// provider side. Returns one line per step: what the client believes after it, and the results of
// calls through the ProxyInvoker.
func (e *engine) resolverRun(actions []string, staticClient bool) (steps []string, final, viol, belief string) {
	busHistoryN++
	svc := fmt.Sprintf("verif-rsvc-%d", busHistoryN)
	svc2 := svc + "/other"
	srvID := fmt.Sprintf("verif-rsrv-%d", busHistoryN)
	var last [2]string
	var lmtx sync.Mutex
	// provider side: the scripted resolver for (svc, srvID); a static registration for (svc2, srvID)
	sc := &scriptCtrl{svc: svc, hch: make(chan directive.ResolverHandler, 4), srv: make(chan string, 4), fail: make(chan error, 1)}
	rel1, err := e.bus.AddController(e.ctx, sc, nil)
	if err != nil {
		return nil, "add-controller-" + err.Error(), "", ""
	}
	defer rel1()
	spy := &spyCtrl{prefix: svc2, seenCh: make(chan struct{}, 1), provide: map[[2]string]srpc.Invoker{
		{svc2, srvID}: namedEcho(svc2, [2]string{svc2, srvID}, &last, &lmtx),
		{svc2, ""}:    namedEcho(svc2, [2]string{svc2, ""}, &last, &lmtx),
	}}
	rel2, err := e.bus.AddController(e.ctx, spy, nil)
	if err != nil {
		return nil, "add-controller-" + err.Error(), "", ""
	}
	defer rel2()
	// the remote: the real access server on the real bus, behind an in-memory srpc pipe
	accessServer := bifrost_rpc_access.NewAccessRpcServiceServer(e.bus, false, nil)
	mux := srpc.NewMux()
	if err := bifrost_rpc_access.SRPCRegisterAccessRpcService(mux, accessServer); err != nil {
		panic(err)
	}
	ac := bifrost_rpc_access.NewSRPCAccessRpcServiceClient(srpc.NewClient(srpc.NewServerPipe(srpc.NewServer(mux))))
	var acquired, released int32
	accessFn := bifrost_rpc_access.NewAccessClientFunc(ac) // release function: nil
	if !staticClient {
		accessFn = func(ctx context.Context, rel func()) (bifrost_rpc_access.SRPCAccessRpcServiceClient, func(), error) {
			atomic.AddInt32(&acquired, 1)
			return ac, func() { atomic.AddInt32(&released, 1) }, nil
		}
	}
	dir := bifrost_rpc.NewLookupRpcService(svc, srvID)
	resolver := bifrost_rpc_access.NewLookupRpcServiceResolver(dir, accessFn, false)
	h := &recResHandler{}
	rctx, rcancel := context.WithCancel(e.ctx)
	defer rcancel()
	resDone := make(chan string, 1)
	go func() {
		resDone <- lib.Recover(func() string {
			err := resolver.Resolve(rctx, h)
			if err == context.Canceled {
				return "canceled"
			}
			return fmt.Sprintf("returned-%v", err)
		})
	}()
	var hS directive.ResolverHandler
	nextHandler := func() bool {
		select {
		case hS = <-sc.hch:
			return true
		case r := <-resDone:
			resDone <- r
			return false
		case <-time.After(10 * time.Second):
			return false
		}
	}
	if !nextHandler() {
		select {
		case r := <-resDone:
			return nil, "resolver-ended-before-lookup:" + r, "", ""
		default:
		}
		return nil, "timeout-remote-lookup", "", ""
	}
	if got := <-sc.srv; got != srvID {
		viol = fmt.Sprintf("the remote was asked for server %q, the directive names %q", got, srvID)
	}
	provided := map[string]uint32{}
	truthIdle, everIdle := false, false
	await := func(wantN int, wantIdle bool) (int, bool) {
		var n int
		var idle bool
		for i := 0; i < 40000; i++ { // up to 10 s: only a wrong state waits that long
			n, idle, _ = h.snapshot()
			if n == wantN && (idle || !wantIdle) {
				break
			}
			time.Sleep(250 * time.Microsecond)
		}
		return n, idle
	}
	call := func(serviceID string) string {
		_, _, v := h.snapshot()
		inv, ok := v.(srpc.Invoker)
		if !ok {
			return "no-invoker"
		}
		cl := srpc.NewClient(srpc.NewServerPipe(srpc.NewServer(srpc.NewMux(inv))))
		cctx, ccancel := context.WithTimeout(e.ctx, 5*time.Second)
		defer ccancel()
		lmtx.Lock()
		last = [2]string{}
		lmtx.Unlock()
		body := "verif-proxy-" + serviceID
		resp, err := echo.NewSRPCEchoerClientWithServiceID(cl, serviceID).Echo(cctx, &echo.EchoMsg{Body: body})
		if err != nil {
			return "err:" + err.Error()
		}
		lmtx.Lock()
		served := last
		lmtx.Unlock()
		if resp.GetBody() != body {
			return "wrong-body"
		}
		sv := served[1]
		switch sv {
		case srvID:
			sv = "own"
		case "":
			sv = "none"
		}
		return "served=" + strings.TrimPrefix(served[0], svc) + "|" + sv
	}
	for _, a := range actions {
		step := a
		switch a[0] {
		case 'a':
			id, _ := hS.AddValue(namedEcho(svc, [2]string{svc, srvID}, &last, &lmtx))
			provided[a[1:]] = id
		case 'r':
			if id, ok := provided[a[1:]]; ok {
				hS.RemoveValue(id)
				delete(provided, a[1:])
			}
		case 'i':
			truthIdle = a == "i1"
			if truthIdle {
				everIdle = true
			}
			hS.MarkIdle(truthIdle)
			if !truthIdle {
				// nothing observable is due at the client for "busy again" (Resolve only ever marks
				// idle): give a wrong MarkIdle(false) / value change the time to show
				quiet.Settle(func() int {
					n, idle, _ := h.snapshot()
					if idle {
						n += 1000
					}
					return n
				}, 200*time.Microsecond, 4, 2*time.Second)
			}
		case 'c': // a call with the directive's own service ID and one with another service ID
			step += ":" + call(svc) + "," + call(svc2)
			steps = append(steps, step)
			continue
		case 'e': // the remote ends the stream (its resolver fails while idle): the client must look up again
			// the provider's resolver returns an error: the bus marks the directive idle with it
			hS.ClearValues()
			provided = map[string]uint32{}
			sc.fail <- fmt.Errorf("verif-remote-resolver-failed")
			if !nextHandler() {
				steps = append(steps, step+":no-second-lookup")
				goto end
			}
			truthIdle, everIdle = false, false
		}
		wantN := 0
		if len(provided) > 0 {
			wantN = 1
		}
		n, idle := await(wantN, truthIdle)
		step += fmt.Sprintf(":n=%d", n)
		if everIdle {
			step += ",idle=" + bit(idle)
		}
		steps = append(steps, step)
		if n != wantN && viol == "" {
			viol = fmt.Sprintf("after %q the remote has %d provider(s) but the client-side resolver holds %d value(s)", a, len(provided), n)
		}
		if truthIdle && !idle && viol == "" {
			viol = fmt.Sprintf("after %q the remote lookup is idle but the client-side resolver was not marked idle", a)
		}
	}
end:
	{
		n, idle, _ := h.snapshot()
		belief = fmt.Sprintf("ok has=%s idle=%s", bit(n > 0), bit(idle))
	}
	rcancel()
	select {
	case r := <-resDone:
		if final == "" {
			final = r
		}
	case <-time.After(5 * time.Second):
		final = "timeout-resolver-return"
	}
	n, _, _ := h.snapshot()
	final += fmt.Sprintf(" left=%d max=%d", n, h.maxLen)
	if !staticClient {
		final += fmt.Sprintf(" acquired-released=%d", atomic.LoadInt32(&acquired)-atomic.LoadInt32(&released))
	}
	return steps, final, viol, belief
}

func (e *engine) runC36Resolver() {
	e.rep.Require("resolver.history", "resolver.proxy-call", "resolver.remote-ends", "resolver.idle-sticky")
	type rcase struct {
		acts   []string
		static bool
		br     string
	}
	cases := []rcase{
		{[]string{"a1", "r1", "a2", "i1", "r2"}, false, "resolver.history"},
		// witness of resolver_idle_faithful_false: idle, busy again — the resolver stays marked idle
		{[]string{"i1", "i0"}, false, "resolver.idle-sticky"},
		{[]string{"a1", "i1", "i0", "r1", "i1"}, true, "resolver.idle-sticky"},
		{[]string{"i1", "a1", "a2", "r1", "r2", "a3"}, false, "resolver.history"},
		// (a call is made once the remote lookup is idle: CallRpcService without waitOne collects the
		// providers of an idle lookup)
		{[]string{"a1", "i1", "c", "r1"}, false, "resolver.proxy-call"},
		{[]string{"a1", "a2", "i1", "c", "r1", "c", "r2"}, true, "resolver.proxy-call"},
		{[]string{"a1", "e", "a2", "i1", "c", "r2"}, false, "resolver.remote-ends"},
		// (the remote ends the stream when its resolver fails while the lookup is busy: the bus then
		// turns idle with the error; a lookup that is idle already tells nobody)
		{[]string{"a1", "e", "a2", "r2", "e", "a3", "i1"}, true, "resolver.remote-ends"},
	}
	for i := 0; i < 4*e.a.Scale; i++ {
		var acts []string
		live := []int{}
		next := 1
		isIdle := false
		for k := 0; k < 4+e.rng.Intn(5); k++ {
			switch e.rng.Intn(5) {
			case 0, 1:
				acts = append(acts, fmt.Sprintf("a%d", next))
				live = append(live, next)
				next++
			case 2:
				if len(live) > 0 {
					j := e.rng.Intn(len(live))
					acts = append(acts, fmt.Sprintf("r%d", live[j]))
					live = append(live[:j], live[j+1:]...)
				}
			case 3:
				acts = append(acts, "i1")
				isIdle = true
			case 4:
				if len(live) > 0 && isIdle {
					acts = append(acts, "c")
				}
			}
		}
		cases = append(cases, rcase{acts, i%2 == 0, "resolver.history"})
	}
	for _, c := range cases {
		op := fmt.Sprintf("dispatch.resolver acts=%s static=%s", strings.Join(c.acts, ","), bit(c.static))
		var steps []string
		var final, viol, belief string
		obs := lib.Recover(func() string {
			steps, final, viol, belief = e.resolverRun(c.acts, c.static)
			return strings.Join(steps, " ") + " | " + final
		})
		impl := belief
		if strings.HasPrefix(obs, "panic") || belief == "" {
			impl = obs
		}
		// the Lean model: the callbacks of the remote's current stream (those after the last remote
		// end), its final provider count and idle state = what the client must believe at the end
		var mevs []string
		for _, a := range c.acts {
			switch a[0] {
			case 'e':
				mevs = nil
			case 'a', 'r', 'i':
				mevs = append(mevs, a)
			}
		}
		model := e.m.Query("dispatch.resolverview evs=" + evList(mevs))
		// expectation, stated on the actions alone: provider count > 0 <=> exactly one value; idle
		// follows; calls are served by (own service, server) and (other service, server)
		var want []string
		live, idle := map[string]bool{}, false
		for _, a := range c.acts {
			switch a[0] {
			case 'a':
				live[a[1:]] = true
			case 'r':
				delete(live, a[1:])
			case 'i':
				idle = idle || a == "i1" // the resolver's idle mark is sticky (resolver_idle_sticky)
			case 'c':
				want = append(want, "c:served=|own,served=/other|own")
				continue
			case 'e':
				live, idle = map[string]bool{}, false
			}
			n := 0
			if len(live) > 0 {
				n = 1
			}
			w := fmt.Sprintf("%s:n=%d", a, n)
			if idle {
				w += ",idle=1"
			}
			want = append(want, w)
		}
		wfinal := "canceled left=0 max=1"
		if len(want) == 0 || !strings.Contains(strings.Join(want, " "), "n=1") {
			wfinal = "canceled left=0 max=0"
		}
		if !c.static {
			wfinal += " acquired-released=0"
		}
		wantObs := strings.Join(want, " ") + " | " + wfinal
		mon, key := "", "dispatch.resolver"
		switch {
		case strings.Contains(obs, "panic"):
			mon, key = "rpc/access LookupRpcServiceResolver: "+obs, key+":panic"
		case viol != "":
			mon, key = "rpc/access LookupRpcServiceResolver: "+viol, key+":belief"
		case obs != wantObs:
			mon, key = fmt.Sprintf("rpc/access LookupRpcServiceResolver / ProxyInvoker over the real server: observed [%s], expected [%s]", obs, wantObs), key+":"+strings.TrimPrefix(c.br, "resolver.")
		}
		e.cmp(op, model, impl, c.br, key, mon)
	}
}
