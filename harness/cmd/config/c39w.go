package main

import (
	"bytes"
	"crypto/ed25519"
	"encoding/pem"
	"fmt"
	"io"
	"os"
	"path/filepath"
	"sort"
	"strings"
	"sync"
	"time"

	bcli "github.com/aperturerobotics/bifrost/cli"
	"github.com/aperturerobotics/bifrost/crypto"
	"github.com/aperturerobotics/bifrost/keypem/keyfile"
	"github.com/aperturerobotics/bifrost/peer"
	"github.com/sirupsen/logrus"

	"verif/harness/lib"
)

// loadKeyVia is the key-file loader under test: keyfile.OpenOrWritePrivKey itself, or the caller
// `bifrost pipe -k <path>` (PipeArgs.loadOrGenerateKey, exported under the verif tag).
func loadKeyVia(via string, le *logrus.Entry, path string) (crypto.PrivKey, error) {
	if via == "pipe" {
		return (&bcli.PipeArgs{PrivKeyPath: path, Quiet: true}).VerifLoadOrGenerateKey(le)
	}
	return keyfile.OpenOrWritePrivKey(le, path)
}

// noteGenerated: "a missing file gets a NEW key" — every key any loader generates during the run
// (key files, envelope / daemon / pipe callers, ephemeral pipe keys, concurrent starts) must differ
// from every key generated before. A constant or replayed random source shows here.
func (e *engine) noteGenerated(priv []byte, where string) string {
	if e.genSeen == nil {
		e.genSeen = map[string]string{}
	}
	k := string(priv)
	if first, ok := e.genSeen[k]; ok {
		return fmt.Sprintf("the key generated for a missing file is not new: %s produced the same private key as %s", where, first)
	}
	e.genSeen[k] = where
	e.rep.Branches["generated.distinct"]++
	return ""
}

// gateHook holds every logger call with the given message until `n` callers have arrived.
type gateHook struct {
	msg     string
	n       int
	mu      sync.Mutex
	arrived int
	open    chan struct{}
}

func (g *gateHook) Levels() []logrus.Level { return logrus.AllLevels }
func (g *gateHook) Fire(en *logrus.Entry) error {
	if en.Message != g.msg {
		return nil
	}
	g.mu.Lock()
	g.arrived++
	if g.arrived == g.n {
		close(g.open)
	}
	g.mu.Unlock()
	select {
	case <-g.open:
	case <-time.After(30 * time.Second): // never decides a verdict: the count is checked below
	}
	return nil
}

// concurrentFirstStart: n callers open the SAME missing path at the same time. Each is held at the
// "generating priv key" log line — i.e. after its os.Stat has said "does not exist" and before it
// generates and writes — until all n are there (a deterministic schedule: no verdict depends on
// timing). Clauses stated directly:
//
//	(a) every caller gets a key or an error, never (nil, nil), never a panic;
//	(b) the keys are new: pairwise different and different from every key generated before;
//	(c) afterwards the path holds ONE complete private key file (mode 0600) of one of the callers,
//	    and loading it again (twice) gives that identity and leaves the file alone;
//	(d) every caller that was told "no error" holds the identity the file reloads to.
//
// (d) is FALSE of the code (known finding keyfile-concurrent-first-start; theorems
// concurrent_first_start_false / _partial): stat and write are separate steps and os.WriteFile
// replaces the file, so all but the last writer keep a key that exists nowhere.
func (e *engine) concurrentFirstStart(n int, via string) {
	dir, err := os.MkdirTemp("", "verif-c39c-")
	if err != nil {
		panic(err)
	}
	defer os.RemoveAll(dir)
	path := filepath.Join(dir, "key.pem")
	gate := &gateHook{msg: "generating priv key", n: n, open: make(chan struct{})}
	type res struct {
		key   crypto.PrivKey
		err   error
		panic string
	}
	out := make([]res, n)
	var wg sync.WaitGroup
	for i := 0; i < n; i++ {
		wg.Add(1)
		go func(i int) {
			defer wg.Done()
			l := logrus.New()
			l.SetOutput(io.Discard)
			l.SetLevel(logrus.DebugLevel)
			l.AddHook(gate)
			out[i].panic = lib.Recover(func() string {
				out[i].key, out[i].err = loadKeyVia(via, logrus.NewEntry(l), path)
				return ""
			})
		}(i)
	}
	wg.Wait()
	what := "OpenOrWritePrivKey"
	if via != "" {
		what = via + " key loader"
	}
	op := fmt.Sprintf("concurrent first start n=%d via=%s", n, via)
	if gate.arrived != n {
		// the code no longer passes the log line once per caller after its stat: the schedule was
		// not the intended one; the clauses below are still checked
		e.rep.Branches["concurrent.ungated"]++
	} else {
		e.rep.Branches["concurrent.gated"]++
	}
	after, rerr := os.ReadFile(path)
	blk, _ := pem.Decode(after)
	st, serr := os.Stat(path)
	mon, lost := "", ""
	var ids []string
	fileKey := []byte(nil)
	if blk != nil && bytes.HasPrefix(blk.Bytes, []byte{0x08, 0x01, 0x12, 0x40}) && len(blk.Bytes) == 68 {
		fileKey = blk.Bytes[4:]
	}
	owner := -1
	for i, r := range out {
		switch {
		case r.panic != "":
			mon = what + " panics in a concurrent first start: " + r.panic
		case r.key == nil && r.err == nil:
			mon = what + " returns (nil, nil) in a concurrent first start"
		case r.key != nil:
			raw := privRaw(r.key)
			if d := e.noteGenerated(raw, fmt.Sprintf("concurrent first start, caller %d", i)); d != "" && !bytes.Equal(raw, fileKey) {
				mon = d
			}
			if len(raw) != 64 || !bytes.Equal(ed25519.NewKeyFromSeed(raw[:32]), raw) {
				mon = what + " returns a malformed key in a concurrent first start"
			}
			if bytes.Equal(raw, fileKey) {
				owner = i
			}
			ids = append(ids, lib.Hex(raw[32:36]))
		}
	}
	if mon == "" {
		k2, e2 := loadKeyVia(via, nil, path)
		k3, e3 := loadKeyVia(via, nil, path)
		after2, _ := os.ReadFile(path)
		switch {
		case rerr != nil || fileKey == nil || blk.Type != "LIBP2P PRIVATE KEY":
			mon = "after a concurrent first start the path does not hold one complete LIBP2P PRIVATE KEY file"
		case serr != nil || st.Mode().Perm() != 0o600:
			mon = "after a concurrent first start the key file is not private (mode 0600)"
		case owner < 0:
			mon = "after a concurrent first start the key file holds a key that no caller was given"
		case e2 != nil || e3 != nil || k2 == nil || k3 == nil || !bytes.Equal(privRaw(k2), fileKey) || !bytes.Equal(privRaw(k3), fileKey) || !bytes.Equal(after, after2):
			mon = "after a concurrent first start the key file does not reload (twice) to the key it holds, or reloading changed it"
		default:
			fid, _ := peer.IDFromPrivateKey(k2)
			for i, r := range out {
				if r.key == nil || r.err != nil {
					continue
				}
				id, _ := peer.IDFromPrivateKey(r.key)
				if id != fid && lost == "" {
					lost = fmt.Sprintf("concurrent first start of %d callers on one missing key path: caller %d was given the new identity %s without an error, but the file reloads to %s (the key of caller %d, written later): that caller's identity is lost at its next start", n, i, id.String(), fid.String(), owner)
				}
			}
		}
	}
	sort.Strings(ids)
	impl := fmt.Sprintf("callers=%d keys=%d", n, len(ids))
	br := "concurrent." + map[bool]string{true: "direct", false: via}[via == ""]
	e.rep.Compare(op, impl, impl, br, "config.openOrWrite:concurrent-clauses", mon)
	// clause (d): the known finding, replayed on the real code
	e.rep.Compare(op+" clause=same-identity", "ok", "ok", br+".identity", "config.openOrWrite:concurrent-first-start", lost)
}

// ephemeralPipeKey: `bifrost pipe` without -k runs with a generated key: a well-formed new key, no
// error, nothing written.
func (e *engine) ephemeralPipeKey() {
	dir, err := os.MkdirTemp("", "verif-c39e-")
	if err != nil {
		panic(err)
	}
	defer os.RemoveAll(dir)
	var key crypto.PrivKey
	var kerr error
	impl := canonPanic(lib.Recover(func() string {
		key, kerr = (&bcli.PipeArgs{Quiet: true}).VerifLoadOrGenerateKey(quietLogger())
		return "ok"
	}))
	mon := ""
	switch {
	case impl == "panic":
		mon = "pipe: generating the ephemeral key panics"
	case kerr != nil || key == nil:
		mon = "pipe without -k does not get a key"
	default:
		raw := privRaw(key)
		if len(raw) != 64 || !bytes.Equal(ed25519.NewKeyFromSeed(raw[:32]), raw) {
			mon = "pipe: the ephemeral key is not a well-formed Ed25519 key"
		} else {
			mon = e.noteGenerated(raw, "pipe without -k")
		}
	}
	e.rep.Compare("pipe ephemeral key", "ok", impl, "pipeKey.ephemeral", "config.pipeKey:ephemeral", mon)
}

func withStdin(content []byte, f func()) {
	stdoutMu.Lock()
	old := os.Stdin
	r, w, err := os.Pipe()
	if err != nil {
		panic(err)
	}
	os.Stdin = r
	stdoutMu.Unlock()
	go func() {
		w.Write(content)
		w.Close()
	}()
	defer func() {
		stdoutMu.Lock()
		os.Stdin = old
		stdoutMu.Unlock()
		r.Close()
	}()
	f()
}

// multiKeyEnvelope: `envelope seal` with several -k (an existing key file and a MISSING path, which
// gets a new key), input from stdin and output to stdout; then `unseal` with each key alone and with
// both, at thresholds 0 (any one key opens) and 1 (both needed). Everything is stated on the bytes:
// the payload comes back exactly, or the command fails and writes nothing.
func (e *engine) multiKeyEnvelope(k *edKey, threshold int) {
	dir, err := os.MkdirTemp("", "verif-c39m-")
	if err != nil {
		panic(err)
	}
	defer os.RemoveAll(dir)
	a, b := filepath.Join(dir, "a.pem"), filepath.Join(dir, "b.pem")
	writeFile(a, pem.EncodeToMemory(&pem.Block{Type: "LIBP2P PRIVATE KEY", Bytes: keyMsg(1, k.priv)}))
	payload := append([]byte("multi-key payload "), e.rng.Bytes(1+e.rng.Intn(60))...)
	var sealed string
	var oc string
	withStdin(payload, func() {
		sealed, oc = runCLI("envelope", "seal", "-k", a, "-k", b, "-t", fmt.Sprint(threshold))
	})
	mon := ""
	made := inspectCreated(b)
	switch {
	case oc != "ok" || len(sealed) == 0:
		mon = "envelope seal with two -k (one missing path), stdin → stdout, fails: " + oc
	case !made.ok:
		mon = "envelope seal did not write a private key file for the missing second -k path"
	default:
		mon = e.noteGenerated(made.priv, "envelope seal, second -k")
	}
	br := fmt.Sprintf("envelope.multi.t%d", threshold)
	if mon == "" {
		env := filepath.Join(dir, "env.bin")
		writeFile(env, []byte(sealed))
		try := func(stdin bool, keys ...string) (string, string) {
			args := []string{"envelope", "unseal"}
			for _, p := range keys {
				args = append(args, "-k", p)
			}
			if stdin {
				var o, c string
				withStdin([]byte(sealed), func() { o, c = runCLI(args...) })
				return o, c
			}
			return runCLI(append(args, "-i", env)...)
		}
		type tc struct {
			name  string
			keys  []string
			wantP bool
		}
		cases := []tc{{"both", []string{a, b}, true}, {"both-reversed", []string{b, a}, true}, {"first", []string{a}, threshold == 0}, {"created", []string{b}, threshold == 0}}
		for i, c := range cases {
			o, oc := try(i%2 == 0, c.keys...)
			switch {
			case oc == "panic":
				mon = "envelope unseal panics (" + c.name + ")"
			case c.wantP && (oc != "ok" || o != string(payload)):
				mon = fmt.Sprintf("envelope sealed to two keys (threshold %d) does not open with %s: %s", threshold, c.name, oc)
			case !c.wantP && (oc == "ok" || strings.Contains(o, string(payload))):
				mon = fmt.Sprintf("envelope sealed to two keys with threshold 1 opens with one key (%s)", c.name)
			}
			if mon != "" {
				break
			}
		}
		// a third, unrelated key alone never opens it, and a missing path among the unseal keys gets
		// a new key that opens nothing
		if mon == "" {
			c := filepath.Join(dir, "c.pem")
			o, oc := try(false, c)
			if oc == "ok" || strings.Contains(o, string(payload)) {
				mon = "envelope unseal with a freshly generated key claims to open an envelope sealed to other keys"
			} else if mk := inspectCreated(c); mk.ok {
				mon = e.noteGenerated(mk.priv, "envelope unseal, missing -k")
			}
		}
	}
	e.rep.Compare(fmt.Sprintf("envelope multi-key threshold=%d", threshold), "ok", map[bool]string{true: "ok", false: "bad"}[mon == ""], br, "config.envelope.multi", mon)
}

func (e *engine) runC39Wave3(k *edKey) {
	e.rep.Require("generated.distinct", "concurrent.gated", "concurrent.direct", "concurrent.direct.identity", "concurrent.pipe", "pipeKey.ephemeral", "envelope.multi.t0", "envelope.multi.t1")
	for i := 0; i < 3*e.a.Scale; i++ {
		e.concurrentFirstStart(2+i%3, "")
		e.ephemeralPipeKey()
	}
	e.concurrentFirstStart(3, "pipe")
	for i := 0; i < e.a.Scale && i < 4; i++ {
		e.multiKeyEnvelope(k, 0)
		e.multiKeyEnvelope(k, 1)
	}
}
