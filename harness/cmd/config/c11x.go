package main

import (
	"bytes"
	"crypto/ecdsa"
	"crypto/ed25519"
	"crypto/elliptic"
	"errors"
	"fmt"
	"io"
	"strings"

	"github.com/aperturerobotics/bifrost/crypto"
	"github.com/aperturerobotics/bifrost/keypem"
	"github.com/aperturerobotics/bifrost/peer"
	"github.com/aperturerobotics/bifrost/util/confparse"

	"verif/harness/lib"
)

// ---- Equals: negative pairs ----

// foreignKey is a crypto.Key / PrivKey / PubKey implementation that is not bifrost's.
type foreignKey struct {
	typ crypto.KeyType
	raw []byte
}

func (k *foreignKey) Equals(o crypto.Key) bool            { return false }
func (k *foreignKey) Raw() ([]byte, error)                { return k.raw, nil }
func (k *foreignKey) Type() crypto.KeyType                { return k.typ }
func (k *foreignKey) Sign([]byte) ([]byte, error)         { return nil, errors.New("foreign") }
func (k *foreignKey) GetPublic() crypto.PubKey            { return nil }
func (k *foreignKey) Verify([]byte, []byte) (bool, error) { return false, nil }

// other is one right-hand side of Equals: the value handed to the real code and what it is, by
// construction (nil, or key type + raw bytes) — the monitor never asks bifrost what it is.
type other struct {
	class string
	val   crypto.Key
	isNil bool
	typ   int
	raw   []byte
}

func keyValArg(typ int, raw []byte) string { return fmt.Sprintf("%d:%s", typ, lib.Hex(raw)) }

func (e *engine) equalsCase(recvName string, recv crypto.Key, recvRaw []byte, o other) {
	b := "nil"
	if !o.isNil {
		b = keyValArg(o.typ, o.raw)
	}
	op := fmt.Sprintf("config.keyEquals a=%s b=%s recv=%s class=%s", keyValArg(1, recvRaw), b, recvName, o.class)
	model := e.m.Query(op)
	impl := canonPanic(lib.Recover(func() string {
		if recv.Equals(o.val) {
			return "ok 1"
		}
		return "ok 0"
	}))
	want := !o.isNil && o.typ == 1 && bytes.Equal(o.raw, recvRaw)
	mon := ""
	switch {
	case impl == "panic":
		mon = recvName + ".Equals panics on " + o.class
	case impl == "ok 1" && !want:
		mon = recvName + ".Equals reports true for " + o.class + " (" + b + " vs " + keyValArg(1, recvRaw) + ")"
	case impl == "ok 0" && want:
		mon = recvName + ".Equals reports false for " + o.class
	}
	e.rep.Compare(op, model, impl, "equals."+recvName+"."+o.class+"."+model[3:], "config.keyEquals:"+recvName+"/"+o.class, mon)
}

func (e *engine) equalsCases(k, k2 *edKey) {
	mk := func(ek *edKey) (crypto.PrivKey, crypto.PubKey) {
		sk, err := crypto.UnmarshalEd25519PrivateKey(append([]byte(nil), ek.priv...))
		if err != nil {
			panic(err)
		}
		pk, err := crypto.UnmarshalEd25519PublicKey(append([]byte(nil), ek.pub...))
		if err != nil {
			panic(err)
		}
		return sk, pk
	}
	sk, pk := mk(k)
	skCopy, pkCopy := mk(k)
	sk2, pk2 := mk(k2)
	flip := func(b []byte) []byte {
		c := append([]byte(nil), b...)
		pos := []int{0, len(c) - 1, e.rng.Intn(len(c))}[e.rng.Intn(3)]
		c[pos] ^= 1 << e.rng.Intn(8)
		return c
	}
	fpriv, fpub := flip(k.priv), flip(k.pub)
	skF, _ := crypto.UnmarshalEd25519PrivateKey(fpriv)
	pkF, _ := crypto.UnmarshalEd25519PublicKey(fpub)
	ec := crypto.ECDSAPublicKeyFromStdKey(&ecdsa.PublicKey{Curve: elliptic.P256()})
	for _, r := range []struct {
		name string
		recv crypto.Key
		raw  []byte
		same crypto.Key
		diff crypto.Key
		dRaw []byte
		bit  crypto.Key
		bRaw []byte
		kind crypto.Key // the other kind (private vs public) of the SAME key pair
		kRaw []byte
		nilP crypto.Key
	}{
		{"priv", sk, k.priv, skCopy, sk2, k2.priv, skF, fpriv, pk, k.pub, (*crypto.Ed25519PrivateKey)(nil)},
		{"pub", pk, k.pub, pkCopy, pk2, k2.pub, pkF, fpub, sk, k.priv, (*crypto.Ed25519PublicKey)(nil)},
	} {
		for _, o := range []other{
			{"same-key", r.same, false, 1, r.raw},
			{"itself", r.recv, false, 1, r.raw},
			{"other-key", r.diff, false, 1, r.dRaw},
			{"one-bit", r.bit, false, 1, r.bRaw},
			{"other-kind", r.kind, false, 1, r.kRaw},
			{"nil-interface", nil, true, 0, nil},
			{"nil-pointer", r.nilP, true, 0, nil},
			{"foreign-same-raw", &foreignKey{crypto.KeyType_Ed25519, append([]byte(nil), r.raw...)}, false, 1, r.raw},
			{"foreign-other-raw", &foreignKey{crypto.KeyType_Ed25519, r.dRaw}, false, 1, r.dRaw},
			{"foreign-prefix-raw", &foreignKey{crypto.KeyType_Ed25519, r.raw[:len(r.raw)-1]}, false, 1, r.raw[:len(r.raw)-1]},
			{"foreign-other-type", &foreignKey{crypto.KeyType(3), append([]byte(nil), r.raw...)}, false, 3, r.raw},
			{"ecdsa-adapter", ec, false, 3, nil},
		} {
			e.equalsCase(r.name, r.recv, r.raw, o)
		}
	}
}

// ---- key generation from a reader ----

// srcReader delivers the bytes of b in chunks of at most `chunk`, then fails with `end`.
type srcReader struct {
	b     []byte
	chunk int
	end   error
	n     int // bytes delivered
	calls int
}

func (r *srcReader) Read(p []byte) (int, error) {
	r.calls++
	if len(r.b) == 0 {
		return 0, r.end
	}
	n := len(p)
	if n > r.chunk {
		n = r.chunk
	}
	if n > len(r.b) {
		n = len(r.b)
	}
	copy(p, r.b[:n])
	r.b = r.b[n:]
	r.n += n
	return n, nil
}

func (e *engine) generateCase(typ int, src []byte, chunk int, viaEd bool, gen string) {
	op := fmt.Sprintf("config.generate typ=%d src=%s", typ, lib.Hex(src))
	model := e.ask(op)
	rd := &srcReader{b: append([]byte(nil), src...), chunk: chunk, end: []error{io.EOF, io.ErrUnexpectedEOF, errors.New("entropy source failed")}[e.rng.Intn(3)]}
	var sk crypto.PrivKey
	var pk crypto.PubKey
	impl := canonPanic(lib.Recover(func() string {
		var err error
		if viaEd {
			sk, pk, err = crypto.GenerateEd25519Key(rd)
		} else {
			sk, pk, err = crypto.GenerateKeyPairWithReader(crypto.KeyType(typ), []int{0, 256, 2048, -1}[e.rng.Intn(4)], rd)
		}
		if err != nil {
			if sk != nil || pk != nil {
				return "ok key-and-error"
			}
			return "err"
		}
		return "ok priv=" + lib.Hex(privRaw(sk)) + " pub=" + lib.Hex(pubRaw(pk))
	}))
	mon := ""
	wantOK := typ == 1 && len(src) >= 32
	switch {
	case impl == "panic":
		mon = "key generation panics (" + gen + ")"
	case wantOK:
		// the standard library on the same 32 bytes
		std := ed25519.NewKeyFromSeed(src[:32])
		switch {
		case impl != "ok priv="+lib.Hex(std)+" pub="+lib.Hex(std[32:]):
			mon = "generated key pair is not ed25519.NewKeyFromSeed of the 32 bytes read (" + gen + ")"
		case rd.n != 32:
			mon = fmt.Sprintf("key generation consumed %d bytes of the reader, want exactly 32", rd.n)
		default:
			id1, e1 := peer.IDFromPrivateKey(sk)
			id2, e2 := peer.IDFromPublicKey(pk)
			if e1 != nil || e2 != nil || id1 != id2 || !bytes.Equal([]byte(id1), idOf(std[32:])) || !bytes.Equal(pubRaw(sk.GetPublic()), std[32:]) {
				mon = "generated private and public key give different public keys / peer IDs"
			} else if !sk.GetPublic().Equals(pk) || !pk.Equals(sk.GetPublic()) || sk.Equals(pk) {
				mon = "generated pair: GetPublic().Equals(pub) must hold and priv.Equals(pub) must not"
			}
		}
	case impl != "err":
		mon = "key generation succeeds with an unsupported key type or a reader that ends before 32 bytes (" + gen + ")"
	case typ != 1 && rd.calls != 0:
		mon = "key generation reads the random source for an unsupported key type"
	}
	e.rep.Compare(op, model, impl, "generate."+head(model)+"."+gen, "config.generate:"+gen, mon)
}

// ---- nil keys into the marshal functions ----

func (e *engine) marshalOptCases(k *edKey) {
	sk, _ := crypto.UnmarshalEd25519PrivateKey(append([]byte(nil), k.priv...))
	pk, _ := crypto.UnmarshalEd25519PublicKey(append([]byte(nil), k.pub...))
	// the nil keys come out of the real parsers: input without a PEM block / empty field
	noBlock := [][]byte{nil, []byte("not a pem"), e.rng.Bytes(1 + e.rng.Intn(40)), []byte("-----BEGIN LIBP2P PRIVATE KEY-----\n")}[e.rng.Intn(4)]
	nilPriv, err1 := keypem.ParsePrivKeyPem(noBlock)
	nilPub, err2 := keypem.ParsePubKeyPem(noBlock)
	nilPriv2, err3 := confparse.ParsePrivateKeyPEM(nil)
	nilPub2, err4 := confparse.ParsePublicKeyPEM(nil)
	if err1 != nil || err2 != nil || err3 != nil || err4 != nil || nilPriv != nil || nilPub != nil || nilPriv2 != nil || nilPub2 != nil {
		e.rep.Disagree(lib.Disagreement{Op: "parse no-block " + lib.Hex(noBlock), Monitor: "unconfirmed", What: "the PEM parsers no longer return (nil, nil) for input without a PEM block (generator assumption)", Key: "config.marshalOpt:setup"})
		return
	}
	type mc struct {
		which string
		priv  bool
		f     func(sk crypto.PrivKey, pk crypto.PubKey) ([]byte, error)
		pem   bool
	}
	str := func(s string, err error) ([]byte, error) { return []byte(s), err }
	for _, c := range []mc{
		{"priv", true, func(s crypto.PrivKey, _ crypto.PubKey) ([]byte, error) { return crypto.MarshalPrivateKey(s) }, false},
		{"pub", false, func(_ crypto.PrivKey, p crypto.PubKey) ([]byte, error) { return crypto.MarshalPublicKey(p) }, false},
		{"privPem", true, func(s crypto.PrivKey, _ crypto.PubKey) ([]byte, error) { return keypem.MarshalPrivKeyPem(s) }, true},
		{"pubPem", false, func(_ crypto.PrivKey, p crypto.PubKey) ([]byte, error) { return keypem.MarshalPubKeyPem(p) }, true},
		{"privPem", true, func(s crypto.PrivKey, _ crypto.PubKey) ([]byte, error) { return confparse.MarshalPrivateKeyPEM(s) }, true},
		{"pubPem", false, func(_ crypto.PrivKey, p crypto.PubKey) ([]byte, error) { return confparse.MarshalPublicKeyPEM(p) }, true},
		{"confPriv", true, func(s crypto.PrivKey, _ crypto.PubKey) ([]byte, error) { return str(confparse.MarshalPrivateKey(s)) }, false},
		{"confPub", false, func(_ crypto.PrivKey, p crypto.PubKey) ([]byte, error) { return str(confparse.MarshalPublicKey(p)) }, false},
	} {
		for _, isNil := range []bool{true, false} {
			karg := "nil"
			var s crypto.PrivKey
			var p crypto.PubKey
			if !isNil {
				s, p = sk, pk
				karg = lib.Hex(k.pub)
				if c.priv {
					karg = lib.Hex(k.priv)
				}
			} else if e.rng.Intn(2) == 0 {
				s, p = nilPriv, nilPub
			} else {
				s, p = nilPriv2, nilPub2
			}
			op := fmt.Sprintf("config.marshalOpt which=%s k=%s", c.which, karg)
			model := e.m.Query(op)
			impl := canonPanic(lib.Recover(func() string {
				out, err := c.f(s, p)
				if err != nil {
					return "err"
				}
				if c.pem {
					return blockOf(out)
				}
				return "ok " + lib.Hex(out)
			}))
			mon := ""
			switch {
			case impl == "panic":
				mon = "marshalling the nil key a parser returned panics (" + c.which + ")"
			case isNil && strings.HasPrefix(impl, "ok ") && impl != "ok -":
				mon = "a nil key marshals to a non-empty encoding (" + c.which + ")"
			case !isNil && !strings.HasPrefix(impl, "ok "):
				mon = "marshalling an honest key fails (" + c.which + ")"
			}
			cls := "key"
			if isNil {
				cls = "nil"
			}
			e.rep.Compare(op, model, impl, "marshalOpt."+c.which+"."+cls, "config.marshalOpt:"+c.which+"/"+cls, mon)
		}
	}
}

func (e *engine) runC11Extra(keys []*edKey) {
	e.rep.Require(
		"equals.priv.same-key.1", "equals.priv.other-key.0", "equals.priv.one-bit.0", "equals.priv.other-kind.0", "equals.priv.nil-interface.0", "equals.priv.nil-pointer.0",
		"equals.priv.foreign-same-raw.1", "equals.priv.foreign-other-raw.0", "equals.priv.foreign-prefix-raw.0", "equals.priv.foreign-other-type.0", "equals.priv.ecdsa-adapter.0",
		"equals.pub.same-key.1", "equals.pub.other-key.0", "equals.pub.one-bit.0", "equals.pub.other-kind.0", "equals.pub.nil-interface.0", "equals.pub.nil-pointer.0",
		"equals.pub.foreign-same-raw.1", "equals.pub.foreign-other-raw.0", "equals.pub.foreign-other-type.0", "equals.pub.ecdsa-adapter.0",
		"generate.ok.exact", "generate.ok.long", "generate.ok.byte-at-a-time", "generate.err.short", "generate.err.empty", "generate.err.keytype",
		"marshalOpt.priv.nil", "marshalOpt.pub.nil", "marshalOpt.privPem.nil", "marshalOpt.pubPem.nil", "marshalOpt.confPriv.nil", "marshalOpt.confPub.nil", "marshalOpt.privPem.key",
	)
	n := 12 * e.a.Scale
	for i := 0; i < n; i++ {
		k := keys[i%len(keys)]
		k2 := keys[(i+1+e.rng.Intn(len(keys)-1))%len(keys)]
		e.equalsCases(k, k2)
		e.marshalOptCases(k)
		seed := e.rng.Bytes(32)
		e.generateCase(1, seed, 64, i%2 == 0, "exact")
		e.generateCase(1, append(append([]byte(nil), seed...), e.rng.Bytes(1+e.rng.Intn(40))...), 64, i%2 == 1, "long")
		e.generateCase(1, e.rng.Bytes(32), 1, i%2 == 0, "byte-at-a-time")
		e.generateCase(1, e.rng.Bytes(33), 1+e.rng.Intn(7), false, "long")
		e.generateCase(1, e.rng.Bytes(e.rng.Intn(32)), 1+e.rng.Intn(40), i%2 == 0, "short")
		e.generateCase(1, e.rng.Bytes(31), 31, i%2 == 1, "short")
		e.generateCase(1, nil, 8, i%2 == 0, "empty")
		e.generateCase([]int{0, 2, 3, 4, -1, 1 << 20}[e.rng.Intn(6)], e.rng.Bytes(64), 64, false, "keytype")
	}
}
