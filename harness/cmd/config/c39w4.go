package main

import (
	"bytes"
	"encoding/pem"
	"fmt"
	"os"
	"path/filepath"
	"strings"
	"time"

	b58 "github.com/mr-tron/base58/base58"

	"verif/harness/lib"
)

// Wave 4 (C39): HISTORY INDEPENDENCE over file states. The outcome of loading a key file is a function of
// what the path holds NOW — whatever was loaded from that path (or through another name of the same file)
// earlier in the same process. The one-shot cases use a fresh temporary directory per call and cannot see
// anything the loader remembers between calls (a cache keyed by path / size / mtime / inode, a memoised
// parse, a "first key wins" rule).
//
// One path, one process, a sequence of file states. Between two loads the file is replaced — in place,
// by remove + create, or by renaming another file over it — and its modification time is set back to the
// first one (os.Chtimes), so that for the same-length contents neither size nor mtime tells the states
// apart (every Ed25519 PEM key file has the same length). States: another valid key, garbage / zeros of
// the same length, a PUBLIC key PEM padded to that length, the key file with one base64 character
// destroyed, the same contents again, a valid key in the 96-byte form, a text file, an empty file, and the
// file removed (a writing loader then generates a NEW key; a read-only one reports an error). After each
// change the path is loaded twice, and once through a hard link and a symbolic link made at that moment.
//
// Monitor (model-independent: encoding/pem + the literal PrivateKey message, keyInFile): the file holds a
// key ⇒ that key (OpenOrWritePrivKey / pipe: the private key bytes; util read-private: its peer ID) and no
// error; it holds none ⇒ an error; the load does not modify the file. The model (config.openOrWrite /
// config.readPriv on the current contents) is asked at every step as well.
//
// Loaders: keyfile.OpenOrWritePrivKey, `bifrost pipe -k` (PipeArgs.loadOrGenerateKey) and the read-only
// `bifrost util read-private -f` (real command-line wiring).

type seqState struct {
	class   string
	sameLen bool // same length as the first (valid Ed25519) key file
	mk      func(cur []byte, l int) []byte
}

func (e *engine) c39SeqStates() []seqState {
	keyPem := func(priv []byte) []byte {
		return pem.EncodeToMemory(&pem.Block{Type: "LIBP2P PRIVATE KEY", Bytes: keyMsg(1, priv)})
	}
	return []seqState{
		{"other-valid-key", true, func(cur []byte, l int) []byte { return keyPem(e.newKey().priv) }},
		{"garbage-same-length", true, func(cur []byte, l int) []byte { return e.rng.Bytes(l) }},
		{"same-contents", true, func(cur []byte, l int) []byte { return append([]byte(nil), cur...) }},
		{"zeroed", true, func(cur []byte, l int) []byte { return make([]byte, l) }},
		{"other-valid-key", true, func(cur []byte, l int) []byte { return keyPem(e.newKey().priv) }},
		{"public-pem-padded", true, func(cur []byte, l int) []byte {
			p := pem.EncodeToMemory(&pem.Block{Type: "LIBP2P PUBLIC KEY", Bytes: pubMsg(e.newKey().pub)})
			for len(p) < l {
				p = append(p, '\n')
			}
			return p
		}},
		{"other-valid-key", true, func(cur []byte, l int) []byte { return keyPem(e.newKey().priv) }},
		{"corrupt-base64", true, func(cur []byte, l int) []byte {
			c := keyPem(e.newKey().priv)
			c[40+e.rng.Intn(20)] = '!'
			return c
		}},
		{"valid-key-96", false, func(cur []byte, l int) []byte {
			k := e.newKey()
			return pem.EncodeToMemory(&pem.Block{Type: "LIBP2P PRIVATE KEY", Bytes: keyMsg(1, append(append([]byte(nil), k.priv...), k.pub...))})
		}},
		{"text-file", false, func(cur []byte, l int) []byte { return []byte("this is not a key\n") }},
		{"other-valid-key", true, func(cur []byte, l int) []byte { return keyPem(e.newKey().priv) }},
		{"empty-file", false, func(cur []byte, l int) []byte { return []byte{} }},
		{"removed", false, nil},
		{"other-valid-key", true, func(cur []byte, l int) []byte { return keyPem(e.newKey().priv) }},
	}
}

var c39SeqVias = []string{"direct", "pipe", "util"}

func c39SeqBranches(states []seqState) []string {
	var out []string
	for _, v := range c39SeqVias {
		for _, s := range states {
			out = append(out, "seq."+v+"."+s.class)
		}
		out = append(out, "seq."+v+".alias-hardlink", "seq."+v+".alias-symlink", "seq."+v+".same-size-and-mtime")
	}
	return out
}

// seqLoad runs one loader on path and renders the outcome like the one-shot cases do.
// direct / pipe: "ok key=<private key hex|nil> err=<0|1>"; util: "ok id=<peer id hex>" | "err".
func seqLoad(via, path string) string {
	if via == "util" {
		stdout, oc := runCLI("util", "read-private", "-f", path)
		if oc != "ok" {
			return oc
		}
		idb, err := b58.Decode(strings.TrimSuffix(stdout, "\n"))
		if err != nil {
			return "ok unparsable-output " + lib.Hex([]byte(stdout))
		}
		return "ok id=" + lib.Hex(idb)
	}
	v := via
	if v == "direct" {
		v = ""
	}
	return canonPanic(lib.Recover(func() string {
		key, err := loadKeyVia(v, nil, path)
		ks := "nil"
		if key != nil {
			ks = lib.Hex(privRaw(key))
		}
		return fmt.Sprintf("ok key=%s err=%s", ks, b01(err != nil))
	}))
}

func (e *engine) keyFileSequence(via string, start int) {
	states := e.c39SeqStates()
	dir, err := os.MkdirTemp("", "verif-c39s-")
	if err != nil {
		panic(err)
	}
	defer os.RemoveAll(dir)
	path := filepath.Join(dir, "key.pem")
	first := pem.EncodeToMemory(&pem.Block{Type: "LIBP2P PRIVATE KEY", Bytes: keyMsg(1, e.newKey().priv)})
	writeFile(path, first)
	st0, err := os.Stat(path)
	if err != nil {
		panic(err)
	}
	mt0 := st0.ModTime()
	l0 := len(first)
	var history []string
	cur := first
	seen := map[string]bool{}

	// check: the path (or an alias of the file) holds `content` now; load and judge.
	check := func(class, p string, content []byte, branch string) {
		priv, pub := keyInFile(content)
		want := "ok key=nil err=1"
		modelOp := "config.openOrWrite fs=file:" + lib.Hex(content) + " gen=none write=1 class=" + class
		if via == "util" {
			want = "err"
			modelOp = "config.readPriv fs=file:" + lib.Hex(content)
			if priv != nil {
				want = "ok " + idHexOfPub(pub)
			}
		} else if priv != nil {
			want = "ok key=" + lib.Hex(priv) + " err=0"
		}
		model := e.ask(modelOp)
		if via == "util" {
			model = reduceModel(model, "id")
		} else {
			model = strings.TrimSuffix(model, " fs=same")
		}
		for n := 1; n <= 2; n++ {
			got := seqLoad(via, p)
			after, rerr := os.ReadFile(p)
			mon := ""
			hist := strings.Join(history, " → ")
			switch {
			case got == "panic":
				mon = "the key loader panics"
			case rerr != nil || !bytes.Equal(after, content):
				mon = "loading the key file modified it (" + class + ")"
			case got != want && priv == nil && strings.HasPrefix(got, "ok") && !strings.HasSuffix(got, "err=1"):
				mon = fmt.Sprintf("a file that holds NO private key (%s) is loaded without error — the loader answers %s; states loaded from this path before, in this process: %s (size and mtime were set back after each change)", class, lib.Trunc(got), hist)
			case got != want && priv != nil:
				mon = fmt.Sprintf("the loaded key is not the key the file holds NOW (%s): loader answers %s, the file holds the key of peer %s; states loaded from this path before, in this process: %s (size and mtime were set back after each change)", class, lib.Trunc(got), lib.Hex(idOf(pub)), hist)
			case got != want:
				mon = fmt.Sprintf("key file without a key (%s): expected an error and no key, got %s", class, lib.Trunc(got))
			}
			op := fmt.Sprintf("%s via=%s seq=%d load=%d path=%s after=[%s]", modelOp, via, len(history), n, filepath.Base(p), hist)
			e.rep.Compare(op, model, got, branch, "config.keySequence."+via+":"+class, mon)
		}
	}

	history = append(history, "valid-key")
	check("valid-key", path, cur, "seq."+via+".first")
	for i := 0; i < len(states); i++ {
		s := states[(start+i)%len(states)]
		if p, _ := keyInFile(cur); p != nil {
			seen[lib.Hex(p)] = true
		}
		if s.class == "removed" {
			if err := os.Remove(path); err != nil {
				panic(err)
			}
			got := seqLoad(via, path)
			after, rerr := os.ReadFile(path)
			mon := ""
			want := got
			switch {
			case got == "panic":
				mon = "the key loader panics on a removed key file"
			case via == "util":
				want = "err"
				if got != "err" || rerr == nil {
					mon = "read-only loader: a removed key file is not an error (or a file was created): " + lib.Trunc(got) + "; states loaded from this path before: " + strings.Join(history, " → ")
				}
			default:
				priv, _ := keyInFile(after)
				switch {
				case rerr != nil || priv == nil:
					mon = "a removed key file was not replaced by a new key file: " + lib.Trunc(got)
				case got != "ok key="+lib.Hex(priv)+" err=0":
					mon = "after the key file was removed the loader does not return the key it wrote: " + lib.Trunc(got)
				case seen[lib.Hex(priv)]:
					mon = "after the key file was removed the loader re-creates a key this path held BEFORE instead of generating a new one; states before: " + strings.Join(history, " → ")
				default:
					mon = e.noteGenerated(priv, "key sequence "+via)
				}
				want = "ok key=" + lib.Hex(priv) + " err=0"
			}
			e.rep.Compare(fmt.Sprintf("config.keySequence removed via=%s seq=%d after=[%s]", via, len(history), strings.Join(history, " → ")), want, got, "seq."+via+".removed", "config.keySequence."+via+":removed", mon)
			history = append(history, "removed")
			if rerr != nil {
				// read-only loader: put a key file back so that the sequence goes on
				after = pem.EncodeToMemory(&pem.Block{Type: "LIBP2P PRIVATE KEY", Bytes: keyMsg(1, e.newKey().priv)})
				writeFile(path, after)
				history = append(history, "valid-key")
			}
			_ = os.Chtimes(path, mt0, mt0)
			cur = after
			check("valid-key", path, cur, "seq."+via+".after-removed")
			continue
		}
		next := s.mk(cur, l0)
		// replace the contents: in place / remove + create / rename over; then the old mtime
		how := []string{"overwrite", "recreate", "rename-over"}[e.rng.Intn(3)]
		switch how {
		case "overwrite":
			writeFile(path, next)
		case "recreate":
			_ = os.Remove(path)
			writeFile(path, next)
		case "rename-over":
			tmp := filepath.Join(dir, "key.pem.new")
			writeFile(tmp, next)
			if err := os.Rename(tmp, path); err != nil {
				panic(err)
			}
		}
		if err := os.Chtimes(path, time.Now(), mt0); err != nil {
			panic(err)
		}
		if st, err := os.Stat(path); err == nil && st.ModTime().Equal(mt0) && st.Size() == int64(l0) && !bytes.Equal(next, cur) {
			e.rep.Branches["seq."+via+".same-size-and-mtime"]++
		}
		history = append(history, s.class+"("+how+")")
		cur = next
		check(s.class, path, cur, "seq."+via+"."+s.class)
		// other names of the same file, made now
		if i%3 == 0 {
			hl, sl := filepath.Join(dir, fmt.Sprintf("hard%d.pem", i)), filepath.Join(dir, fmt.Sprintf("sym%d.pem", i))
			if os.Link(path, hl) == nil {
				check(s.class, hl, cur, "seq."+via+".alias-hardlink")
			}
			if os.Symlink(path, sl) == nil {
				check(s.class, sl, cur, "seq."+via+".alias-symlink")
			}
			// the hard link keeps the inode alive across remove + create; drop it again
			_ = os.Remove(hl)
		}
	}
}

func (e *engine) runC39Sequences() {
	states := e.c39SeqStates()
	e.rep.Require(c39SeqBranches(states)...)
	for r := 0; r < e.a.Scale; r++ {
		for vi, via := range c39SeqVias {
			e.keyFileSequence(via, (r*5+vi*3+int(uint64(e.a.Seed)%1000))%len(states))
		}
	}
}
