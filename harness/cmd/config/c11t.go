package main

import (
	"bytes"
	"context"
	"crypto/ed25519"
	"encoding/pem"
	"fmt"
	"runtime"
	"strings"

	"github.com/aperturerobotics/bifrost/crypto"
	"github.com/aperturerobotics/bifrost/keypem"
	"github.com/aperturerobotics/bifrost/peer"
	"github.com/aperturerobotics/bifrost/util/confparse"
	b58 "github.com/mr-tron/base58/base58"

	"verif/harness/lib"
)

// ---- truncations of valid canonical encodings, at every length, in every memory layout ----
//
// A parser sees `len(b)` bytes, but a Go slice may have more memory behind it (cap > len): a network
// read buffer, a window into a file image, the rest of the message the prefix was cut from. A parser
// that slices by an expected size instead of by len(b) either panics (cap too small) or silently
// reads bytes that are not part of its input (cap large enough) — and only a TRUNCATED VALID
// encoding reaches such code, because it carries the header that selects the path. So for every
// byte parser of the property, every canonical encoding E of a key and every n < len(E) the engine
// calls the parser on E[:n] in three layouts:
//
//	exact    a fresh allocation of exactly n bytes (cap = n): reading past the end panics
//	rest     E[:n] with the REST of the valid encoding behind it (cap = len(E)): reading past the
//	         end yields exactly the valid key
//	poison   E[:n] at the start of a larger buffer filled with 0xee
//
// Monitors (no model involved): the parser does not panic; a proper prefix of a canonical encoding
// never yields a key (except where a prefix is itself a canonical encoding: the 64-byte prefix of the
// 96-byte raw form); the outcome is the same in all three layouts (= it is a function of the len(b)
// bytes); the parser writes neither to its input nor to the memory behind it.

type layout struct {
	name string
	in   []byte // the slice handed to the parser
	buf  []byte // the whole backing buffer
	orig []byte // copy of buf before the call
}

func layoutsOf(enc []byte, n int) []*layout {
	exact := make([]byte, n)
	copy(exact, enc[:n])
	rest := append([]byte(nil), enc...)
	poison := bytes.Repeat([]byte{0xee}, n+160)
	copy(poison, enc[:n])
	ls := []*layout{{name: "exact", in: exact, buf: exact}, {name: "rest", in: rest[:n], buf: rest}, {name: "poison", in: poison[:n], buf: poison}}
	for _, l := range ls {
		l.orig = append([]byte(nil), l.buf...)
	}
	return ls
}

// windowed runs f on E[:n] in every layout and checks the layout-level clauses. f returns the
// canonical outcome of the real parser for the slice it was given (it also records its own case).
func (e *engine) windowed(parser string, enc []byte, n int, f func(in []byte, lay string) string) {
	first := ""
	for i, l := range layoutsOf(enc, n) {
		got := f(l.in, l.name)
		what := ""
		switch {
		case !bytes.Equal(l.buf, l.orig):
			what = parser + " wrote to its input buffer or to the memory behind it"
		case i > 0 && got != first:
			what = fmt.Sprintf("%s: the outcome for the same %d input bytes depends on the memory behind the slice (exact allocation: %s, layout %s: %s)", parser, n, lib.Trunc(first), l.name, lib.Trunc(got))
		}
		if i == 0 {
			first = got
		}
		e.rep.Case(fmt.Sprintf("layout %s %s n=%d/%d", parser, l.name, n, len(enc)), got, got, "trunc.layout."+l.name, false)
		if what != "" {
			e.rep.Disagree(lib.Disagreement{Op: fmt.Sprintf("%s on the first %d of %d bytes of %s (layout %s)", parser, n, len(enc), lib.Hex(enc), l.name),
				Impl: lib.Trunc(got), Monitor: "confirmed", What: what, Key: "config.trunc:" + parser + "/" + l.name, Branch: "trunc.layout." + l.name})
		}
	}
}

func (e *engine) edPubCase(d []byte, gen string) string {
	impl := canonPanic(lib.Recover(func() string {
		k, err := crypto.UnmarshalEd25519PublicKey(d)
		if err != nil {
			return "err"
		}
		return "ok " + lib.Hex(pubRaw(k))
	}))
	mon := ""
	switch {
	case impl == "panic":
		mon = "UnmarshalEd25519PublicKey panics"
	case (len(d) == ed25519.PublicKeySize) != strings.HasPrefix(impl, "ok "):
		mon = "UnmarshalEd25519PublicKey: accepted ⇎ 32 bytes"
	case len(d) == ed25519.PublicKeySize && impl != "ok "+lib.Hex(d):
		mon = "UnmarshalEd25519PublicKey returns different key bytes"
	}
	want := "err"
	if len(d) == ed25519.PublicKeySize {
		want = "ok " + lib.Hex(d)
	}
	e.rep.Compare("crypto.UnmarshalEd25519PublicKey "+lib.Hex(d), want, impl, "unmarshalEdPub."+head(want), "config.unmarshalEdPub:"+gen, mon)
	return impl
}

func (e *engine) edPrivCase(d []byte, gen string) string {
	op := "config.unmarshalEdPriv d=" + lib.Hex(d)
	model := e.m.Query(op)
	impl := canonPanic(lib.Recover(func() string {
		key, err := crypto.UnmarshalEd25519PrivateKey(d)
		if err != nil {
			return "err"
		}
		return "ok " + lib.Hex(privRaw(key))
	}))
	mon := ""
	wantOK := len(d) == 64 || (len(d) == 96 && bytes.Equal(d[32:64], d[64:]))
	switch {
	case impl == "panic":
		mon = "UnmarshalEd25519PrivateKey panics"
	case wantOK != strings.HasPrefix(impl, "ok"):
		mon = "UnmarshalEd25519PrivateKey: accepted ⇎ (64 bytes, or 96 bytes with matching redundant public key)"
	case wantOK && impl != "ok "+lib.Hex(d[:64]):
		mon = "UnmarshalEd25519PrivateKey returns different key bytes"
	}
	e.rep.Compare(op, model, impl, "unmarshalEdPriv."+head(model), "config.unmarshalEdPriv:"+gen, mon)
	return impl
}

// lastImpl runs a recorded case function and hands back the implementation outcome it saw: the
// case functions of c11.go record through rep.Compare; the layout check needs the outcome too.
func (e *engine) implOfPriv(b []byte) string {
	return canonPanic(lib.Recover(func() string { return resPriv(crypto.UnmarshalPrivateKey(b)) }))
}

func (e *engine) implOfPub(b []byte) string {
	return canonPanic(lib.Recover(func() string { return resPub(crypto.UnmarshalPublicKey(b)) }))
}

func (e *engine) implOfPem(d []byte) string {
	return canonPanic(lib.Recover(func() string {
		sk, pk, err := keypem.ParseKeyPem(d)
		if err != nil {
			return "err"
		}
		s, p := "nil", "nil"
		if !isNilPriv(sk) {
			s = lib.Hex(privRaw(sk))
		}
		if !isNilPub(pk) {
			p = lib.Hex(pubRaw(pk))
		}
		a := canonPanic(lib.Recover(func() string { return resPriv(keypem.ParsePrivKeyPem(d)) }))
		b := canonPanic(lib.Recover(func() string { return resPub(keypem.ParsePubKeyPem(d)) }))
		c := canonPanic(lib.Recover(func() string { return resPriv(confparse.ParsePrivateKeyPEM(d)) }))
		dd := canonPanic(lib.Recover(func() string { return resPub(confparse.ParsePublicKeyPEM(d)) }))
		return "ok priv=" + s + " pub=" + p + " | " + a + " | " + b + " | " + c + " | " + dd
	}))
}

func mhIdentity(msg []byte) []byte {
	return append([]byte{0x00, byte(len(msg))}, msg...)
}

func (e *engine) runC11Trunc(keys []*edKey) {
	e.rep.Require("trunc.layout.exact", "trunc.layout.rest", "trunc.layout.poison",
		"unmarshalPriv.err.trunc-priv", "unmarshalPriv.err.trunc-priv96", "unmarshalPub.err", "unmarshalEdPub.err", "unmarshalEdPub.ok",
		"parseKeyPem.ok.trunc-pem", "parseKeyPem.err.trunc-body", "confPriv.err.b58-trunc-body", "parsePeer.err.trunc-body", "parsePeer.err.trunc-text")
	nk := e.a.Scale
	if nk > 4 {
		nk = 4
	}
	for ki := 0; ki < nk; ki++ {
		k := keys[ki]
		red := append(append([]byte(nil), k.priv...), k.pub...)
		privM, privM96, pubM := keyMsg(1, k.priv), keyMsg(1, red), pubMsg(k.pub)
		privPem := pem.EncodeToMemory(&pem.Block{Type: "LIBP2P PRIVATE KEY", Bytes: privM})
		pubPem := pem.EncodeToMemory(&pem.Block{Type: "LIBP2P PUBLIC KEY", Bytes: pubM})

		// (A) byte parsers: every proper prefix in every layout. Each canonical message is offered to
		// BOTH protobuf parsers (the two messages share their schema).
		for _, enc := range []struct {
			gen string
			b   []byte
		}{{"trunc-priv", privM}, {"trunc-priv96", privM96}, {"trunc-pub", pubM}} {
			for n := 0; n < len(enc.b); n++ {
				e.windowed("UnmarshalPrivateKey", enc.b, n, func(in []byte, lay string) string {
					if lay == "exact" {
						e.unmarshalPrivCase(in, enc.gen, "err", nil)
					} else if r := e.implOfPriv(in); r != "err" {
						e.unmarshalPrivCase(in, enc.gen, "err", nil)
					}
					return e.implOfPriv(in)
				})
				e.windowed("UnmarshalPublicKey", enc.b, n, func(in []byte, lay string) string {
					if lay == "exact" {
						e.unmarshalPubCase(in, enc.gen, "err", nil)
					} else if r := e.implOfPub(in); r != "err" {
						e.unmarshalPubCase(in, enc.gen, "err", nil)
					}
					return e.implOfPub(in)
				})
			}
		}
		for _, raw := range [][]byte{k.priv, red} {
			for n := 0; n < len(raw); n++ {
				e.windowed("UnmarshalEd25519PrivateKey", raw, n, func(in []byte, lay string) string { return e.edPrivCase(in, "trunc") })
			}
		}
		for n := 0; n <= len(k.pub)+1; n++ {
			ext := append(append([]byte(nil), k.pub...), 0x01, 0x02)
			e.windowed("UnmarshalEd25519PublicKey", ext, n, func(in []byte, lay string) string { return e.edPubCase(in, "trunc") })
		}
		for _, txt := range [][]byte{privPem, pubPem} {
			for n := 0; n < len(txt); n++ {
				// a cut inside the trailing newline still leaves a complete block
				complete := n >= len(txt)-1
				e.windowed("ParseKeyPem", txt, n, func(in []byte, lay string) string {
					if lay == "exact" {
						if complete {
							if bytes.Equal(txt, privPem) {
								e.pemCase(in, "honest-priv", k.priv, k.pub, false)
							} else {
								e.pemCase(in, "honest-pub", nil, k.pub, false)
							}
						} else {
							e.pemCase(in, "trunc-pem", nil, nil, true)
						}
					}
					r := e.implOfPem(in)
					if lay != "exact" && !complete && (strings.Contains(r, "panic") || strings.Contains(r, lib.Hex(k.pub))) {
						e.pemCase(in, "trunc-pem", nil, nil, true) // records the confirmed violation
					}
					return r
				})
			}
		}

		// (B) the truncated MESSAGE inside every wrapper (there the slice the protobuf parser gets is
		// allocated by the wrapper: base58 / base64 decoders return tight slices)
		for _, enc := range []struct {
			b    []byte
			priv bool
		}{{privM, true}, {pubM, false}, {privM96, true}} {
			for n := 0; n < len(enc.b); n++ {
				body := enc.b[:n]
				typ := "LIBP2P PUBLIC KEY"
				if enc.priv {
					typ = "LIBP2P PRIVATE KEY"
				}
				e.pemCase(pem.EncodeToMemory(&pem.Block{Type: typ, Bytes: body}), "trunc-body", nil, nil, true)
				if n > 0 {
					txt := b58.Encode(body)
					e.confCase(txt, "b58-trunc-body", nil, nil, true, true)
					if enc.priv {
						e.peerCase(txt, "", "", "trunc-body", nil, nil, true)
					} else {
						e.peerCase("", txt, "", "trunc-body", nil, nil, true)
						e.peerCase("", "", b58.Encode(mhIdentity(body)), "trunc-body", nil, nil, true)
						e.validatePubCase(txt, k.id, "trunc-body", "ok 0")
					}
				}
			}
		}

		// (C) every proper prefix of the TEXT forms (model comparison + the generic monitors: no
		// panic, a non-blank string is never "absent"); for the peer a prefix of the text of a key
		// never yields that key's identity
		privTxt, pubTxt, idTxt := b58.Encode(privM), b58.Encode(pubM), b58.Encode(k.id)
		for _, txt := range []string{privTxt, pubTxt, string(privPem), string(pubPem)} {
			isPem := strings.HasPrefix(txt, "-----")
			for n := 0; n < len(txt); n++ {
				if isPem && n >= len(txt)-1 {
					continue
				}
				g := "b58-trunc-text"
				if isPem {
					g = "pem-trunc-text"
				}
				if n == 0 {
					g = "blank"
				}
				e.confCase(txt[:n], g, nil, nil, false, false)
			}
		}
		for n := 1; n < len(idTxt); n++ {
			op := fmt.Sprintf("config.parsePeer priv=- pub=- id=%s", lib.Hex([]byte(idTxt[:n])))
			model := e.ask(op)
			impl := canonPanic(lib.Recover(func() string {
				p, err := confparse.ParsePeer("", "", idTxt[:n])
				if err != nil {
					return "err"
				}
				return fmt.Sprintf("ok priv=nil pub=%s id=%s", lib.Hex(pubRaw(p.GetPubKey())), lib.Hex([]byte(p.GetPeerID())))
			}))
			mon := ""
			switch {
			case impl == "panic":
				mon = "confparse.ParsePeer panics on a truncated peer ID"
			case strings.Contains(impl, lib.Hex(k.pub)):
				mon = "confparse.ParsePeer builds the peer of a key from a proper prefix of its ID text"
			}
			e.rep.Compare(op, model, impl, "parsePeer."+head(model)+".trunc-text", "config.parsePeer:trunc-text", mon)
		}
	}
}

// ---- retained keys ----
//
// A decoded key is a VALUE: it must not change when the caller re-uses the buffer it was decoded
// from, nor when the same decoder later handles other input (a key that aliases a pooled scratch
// message, a zero-copy protobuf decode, a package-level buffer …). For every key-returning decoder of
// the property and every ordered pair (x, p) of its input set — x yields a key, p is any input
// (valid, every error class, rejected late) — the engine decodes a private copy of x, renders the key
// (raw bytes, public half, re-marshalled form), overwrites the copy, decodes p twice, garbage
// collects, decodes p again and renders the key of x again. Any difference is a confirmed violation.
// The raw wrappers UnmarshalEd25519{Private,Public}Key(64/32 bytes) and KeyPairFromStdKey are
// conversions of the caller's slice (like ed25519.PrivateKey(b) itself) and are not part of this
// phase.

type keeper struct {
	name string
	f    func(x []byte) func() string // nil = no key
}

func renderPriv(k crypto.PrivKey) string {
	return lib.Recover(func() string {
		m, err := crypto.MarshalPrivateKey(k)
		id, err2 := peer.IDFromPrivateKey(k)
		return fmt.Sprintf("priv=%s pub=%s msg=%s/%v id=%s/%v", lib.Hex(privRaw(k)), lib.Hex(pubRaw(k.GetPublic())), lib.Hex(m), err != nil, lib.Hex([]byte(id)), err2 != nil)
	})
}

func renderPub(k crypto.PubKey) string {
	return lib.Recover(func() string {
		m, err := crypto.MarshalPublicKey(k)
		id, err2 := peer.IDFromPublicKey(k)
		return fmt.Sprintf("pub=%s msg=%s/%v id=%s/%v", lib.Hex(pubRaw(k)), lib.Hex(m), err != nil, lib.Hex([]byte(id)), err2 != nil)
	})
}

func keepPriv(k crypto.PrivKey, err error) func() string {
	if err != nil || k == nil {
		return nil
	}
	return func() string { return renderPriv(k) }
}

func keepPub(k crypto.PubKey, err error) func() string {
	if err != nil || k == nil {
		return nil
	}
	return func() string { return renderPub(k) }
}

func (e *engine) retainPhase(keepers []keeper, inputs map[string][][]byte) {
	prev := runtime.GOMAXPROCS(1)
	defer runtime.GOMAXPROCS(prev)
	for _, kp := range keepers {
		xs := inputs[kp.name]
		e.rep.Require("retain." + kp.name)
		for _, x := range xs {
			for _, p := range xs {
				in := append([]byte(nil), x...)
				var rd func() string
				r := lib.Recover(func() string { rd = kp.f(in); return "" })
				if r != "" || rd == nil {
					break // x yields no key (or panics: reported by the other phases)
				}
				before := rd()
				for i := range in {
					in[i] ^= 0xa5
				}
				pc := append([]byte(nil), p...)
				lib.Recover(func() string { kp.f(pc); kp.f(pc); return "" })
				runtime.GC()
				lib.Recover(func() string { kp.f(pc); return "" })
				after := rd()
				e.rep.Case("retain "+kp.name+" x="+lib.Hex(x)+" then="+lib.Hex(p), before, after, "retain."+kp.name, false)
				if before != after {
					e.rep.Disagree(lib.Disagreement{Op: "retain " + kp.name + " x=" + lib.Hex(x) + " then=" + lib.Hex(p), Model: lib.Trunc(before), Impl: lib.Trunc(after), Monitor: "confirmed",
						What: kp.name + ": a decoded key changed after its input buffer was overwritten and the decoder handled another input (the key is not a value of its own)", Key: "config.retain:" + kp.name, Branch: "retain." + kp.name})
					break
				}
			}
		}
	}
}

func c11Keepers() []keeper {
	return []keeper{
		{"unmarshalPriv", func(x []byte) func() string { return keepPriv(crypto.UnmarshalPrivateKey(x)) }},
		{"unmarshalPub", func(x []byte) func() string { return keepPub(crypto.UnmarshalPublicKey(x)) }},
		{"parseKeyPem", func(x []byte) func() string {
			sk, pk, err := keypem.ParseKeyPem(x)
			if err != nil || pk == nil {
				return nil
			}
			return func() string {
				s := renderPub(pk)
				if sk != nil {
					s += " " + renderPriv(sk)
				}
				return s
			}
		}},
		{"parsePrivKeyPem", func(x []byte) func() string { return keepPriv(keypem.ParsePrivKeyPem(x)) }},
		{"parsePubKeyPem", func(x []byte) func() string { return keepPub(keypem.ParsePubKeyPem(x)) }},
		{"confPrivPem", func(x []byte) func() string { return keepPriv(confparse.ParsePrivateKeyPEM(x)) }},
		{"confPubPem", func(x []byte) func() string { return keepPub(confparse.ParsePublicKeyPEM(x)) }},
		{"confPriv", func(x []byte) func() string { return keepPriv(confparse.ParsePrivateKey(string(x))) }},
		{"confPub", func(x []byte) func() string { return keepPub(confparse.ParsePublicKey(string(x))) }},
		{"parsePeer", func(x []byte) func() string {
			p, err := confparse.ParsePeer(string(x), "", "")
			if err != nil || p == nil {
				return nil
			}
			return func() string {
				sk, _ := p.GetPrivKey(context.Background())
				s := renderPub(p.GetPubKey()) + " id=" + lib.Hex([]byte(p.GetPeerID()))
				if sk != nil {
					s += " " + renderPriv(sk)
				}
				return s
			}
		}},
	}
}
