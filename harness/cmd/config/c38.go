package main

import (
	"fmt"
	"math"
	"net/url"
	"reflect"
	"sort"
	"strconv"
	"strings"
	"time"
	"unicode/utf8"

	"github.com/aperturerobotics/bifrost/peer"
	"github.com/aperturerobotics/bifrost/protocol"
	"github.com/aperturerobotics/bifrost/tptaddr"
	tptaddr_static "github.com/aperturerobotics/bifrost/tptaddr/static"
	"github.com/aperturerobotics/bifrost/util/confparse"
	"github.com/aperturerobotics/protobuf-go-lite/types/known/timestamppb"
	b58 "github.com/mr-tron/base58/base58"

	"verif/harness/lib"
)

func hexList(l []string) string {
	b := make([][]byte, len(l))
	for i := range l {
		b[i] = []byte(l[i])
	}
	return lib.HexList(b)
}

func b01(b bool) string {
	if b {
		return "1"
	}
	return "0"
}

var utf8Atoms = []string{"a", "/", "bifrost", "é", "世", "\U0001F600", "\x00", " ", "\u2028", "\uFFFD", "\uFEFF", "\U0010FFFF", "\uD7FF", "\uE000"}
var badUtf8Atoms = []string{"\xff", "\xc0\x80", "\xc1\xbf", "\xed\xa0\x80", "\xed\xbf\xbf", "\xf4\x90\x80\x80", "\xe0\x80\x80", "\xe0\x9f\xbf", "\xf0\x8f\xbf\xbf", "\xf5\x80\x80\x80", "\xc2", "\xe2\x82", "\xf0\x9f\x98", "\x80", "\xbf", "\xc2\x20", "\xe1\x80\x20", "\xf8\x88\x80\x80\x80"}

func (e *engine) randProtoID() string {
	s := ""
	for j := 1 + e.rng.Intn(4); j > 0; j-- {
		if e.rng.Intn(6) == 0 {
			s += badUtf8Atoms[e.rng.Intn(len(badUtf8Atoms))]
		} else {
			s += utf8Atoms[e.rng.Intn(len(utf8Atoms))]
		}
	}
	return s
}

// isUniqueInOrder: out = the distinct elements of in, in order of first occurrence.
func isUniqueInOrder(in, out []string) bool {
	seen := map[string]bool{}
	var want []string
	for _, s := range in {
		if !seen[s] {
			seen[s] = true
			want = append(want, s)
		}
	}
	return reflect.DeepEqual(want, out) || (len(want) == 0 && len(out) == 0)
}

func (e *engine) protoCases() {
	n := 450 * e.a.Scale
	for i := 0; i < n; i++ {
		var s string
		switch i % 6 {
		case 0:
			s = ""
		case 1:
			s = string(e.rng.Bytes(1 + e.rng.Intn(6)))
		case 2:
			s = badUtf8Atoms[e.rng.Intn(len(badUtf8Atoms))]
		case 3:
			s = utf8Atoms[e.rng.Intn(len(utf8Atoms))] + badUtf8Atoms[e.rng.Intn(len(badUtf8Atoms))][:1]
		default:
			s = e.randProtoID()
		}
		for _, allow := range []bool{false, true} {
			op := fmt.Sprintf("config.protoId s=%s allow=%s", lib.Hex([]byte(s)), b01(allow))
			model := e.m.Query(op)
			impl := lib.Recover(func() string {
				id, err := confparse.ParseProtocolID(s, allow)
				if err != nil {
					return "err"
				}
				return "ok " + lib.Hex([]byte(id))
			})
			mon := panicMon(impl, "ParseProtocolID")
			wantOK := (s != "" && utf8.ValidString(s)) || (allow && s == "")
			if mon == "" {
				switch {
				case wantOK != strings.HasPrefix(impl, "ok"):
					mon = "protocol ID accepted ⇎ non-empty valid UTF-8"
				case wantOK && impl != "ok "+lib.Hex([]byte(s)):
					mon = "ParseProtocolID changes the ID"
				case (confparse.ValidateProtocolID(s, allow) == nil) != wantOK:
					mon = "ValidateProtocolID disagrees with ParseProtocolID"
				case (protocol.ID(s).Validate() == nil) != (s != "" && utf8.ValidString(s)):
					mon = "protocol.ID.Validate accepted ⇎ non-empty valid UTF-8"
				}
			}
			br := "protoId." + head(model)
			if s == "" {
				br += ".empty"
			} else if !utf8.ValidString(s) {
				br += ".badutf8"
			}
			e.rep.Compare(op, model, canonPanic(impl), br, "config.protoId", mon)
		}
	}
	// lists
	uni := []string{"a", "b/c", "é", "a", "", "\xff", "世"}
	for i := 0; i < 180*e.a.Scale; i++ {
		var l []string
		for j := e.rng.Intn(6); j > 0; j-- {
			k := e.rng.Intn(len(uni))
			if k >= 4 && e.rng.Intn(3) != 0 {
				k = e.rng.Intn(4)
			}
			l = append(l, uni[k])
		}
		allow := i%2 == 0
		for _, unique := range []bool{false, true} {
			name := "protoIds"
			if unique {
				name = "protoIdsUnique"
			}
			op := fmt.Sprintf("config.%s l=%s allow=%s", name, hexList(l), b01(allow))
			model := e.m.Query(op)
			var out []string
			impl := lib.Recover(func() string {
				var ids []protocol.ID
				var err error
				if unique {
					ids, err = confparse.ParseProtocolIDsUnique(l, allow)
				} else {
					ids, err = confparse.ParseProtocolIDs(l, allow)
				}
				if err != nil {
					return "err"
				}
				out = protocol.IDsToString(ids)
				return "ok " + hexList(out)
			})
			mon := panicMon(impl, name)
			allOK := true
			for _, s := range l {
				if !((s != "" && utf8.ValidString(s)) || (allow && s == "")) {
					allOK = false
				}
			}
			if mon == "" {
				switch {
				case allOK != strings.HasPrefix(impl, "ok"):
					mon = name + ": accepted ⇎ every entry is acceptable"
				case allOK && unique && !isUniqueInOrder(l, out):
					mon = name + ": result is not the distinct IDs in order of first occurrence"
				case allOK && !unique && !(reflect.DeepEqual(l, out) || len(l) == 0):
					mon = name + ": result differs from the input list"
				}
			}
			e.rep.Compare(op, model, canonPanic(impl), name+"."+head(model), "config."+name, mon)
		}
	}
}

func (e *engine) peerIDCases() {
	var ids []string
	for i := 0; i < 4; i++ {
		ids = append(ids, b58.Encode(e.newKey().id))
	}
	bads := []string{"0", "QmYyQSo1c1Ym7orWxLYvCrM2EmxFTANf8wXmmE7DWjhx5N!", "l", "1", "111", b58.Encode([]byte{0, 5, 1}), b58.Encode([]byte{0x12}), "\xff", " "}
	for i := 0; i < 180*e.a.Scale; i++ {
		var s string
		switch i % 4 {
		case 0:
			s = ids[e.rng.Intn(len(ids))]
			if i%16 == 0 {
				s = "11" // the identity multihash of the empty digest: a well-formed (if useless) ID
			}
		case 1:
			s = ""
		case 2:
			s = bads[e.rng.Intn(len(bads))]
		case 3:
			s = e.ws() + ids[e.rng.Intn(len(ids))] + e.ws()
		}
		op := "config.peerId s=" + lib.Hex([]byte(s))
		model := e.m.Query(op)
		impl := lib.Recover(func() string {
			id, err := confparse.ParsePeerID(s)
			if err != nil {
				return "err"
			}
			return "ok " + lib.Hex([]byte(id))
		})
		mon := panicMon(impl, "ParsePeerID")
		if mon == "" && strings.HasPrefix(impl, "ok") {
			// format then parse again gives the same value
			id := peer.ID(lib.Unhex(impl[3:]))
			if len(id) != 0 {
				if id2, err := confparse.ParsePeerID(id.String()); err != nil || id2 != id {
					mon = "peer ID does not survive format-then-parse"
				}
				if id.String() != s {
					mon = "ParsePeerID accepts a non-canonical text form"
				}
			} else if s != "" {
				mon = "ParsePeerID returns the empty ID for a non-empty string"
			}
			if (confparse.ValidatePeerID(s) == nil) != (len(id) != 0) {
				mon = "ValidatePeerID disagrees with ParsePeerID"
			}
		}
		if mon == "" && impl == "err" && confparse.ValidatePeerID(s) == nil {
			mon = "ValidatePeerID accepts a string that ParsePeerID rejects"
		}
		e.rep.Compare(op, model, canonPanic(impl), "peerId."+head(model), "config.peerId", mon)
		e.validatePeerIDCase(s)
	}
	for _, s := range append(append([]string{"", "11"}, bads...), ids...) {
		e.validatePeerIDCase(s)
		e.validatePeerIDCase(s + "1")
		e.validatePeerIDCase(" " + s)
	}
	// lists
	for i := 0; i < 180*e.a.Scale; i++ {
		var l []string
		var intent []int // index into ids, -1 empty, -2 bad
		for j := e.rng.Intn(6); j > 0; j-- {
			switch r := e.rng.Intn(10); {
			case r < 6:
				k := e.rng.Intn(len(ids))
				l = append(l, ids[k])
				intent = append(intent, k)
			case r < 8:
				l = append(l, "")
				intent = append(intent, -1)
			case r < 9:
				// white space around an ID: trimmed by the Unique variant only
				k := e.rng.Intn(len(ids))
				l = append(l, " "+ids[k]+"\n")
				intent = append(intent, 100+k)
			default:
				l = append(l, bads[e.rng.Intn(len(bads)-1)])
				intent = append(intent, -2)
			}
		}
		allow := i%2 == 0
		for _, unique := range []bool{false, true} {
			name := "peerIds"
			if unique {
				name = "peerIdsUnique"
			}
			op := fmt.Sprintf("config.%s l=%s allow=%s", name, hexList(l), b01(allow))
			model := e.m.Query(op)
			var out []string
			impl := lib.Recover(func() string {
				var pids []peer.ID
				var err error
				if unique {
					pids, err = confparse.ParsePeerIDsUnique(l, allow)
				} else {
					pids, err = confparse.ParsePeerIDs(l, allow)
				}
				if err != nil {
					return "err"
				}
				out = nil
				for _, p := range pids {
					out = append(out, string(p))
				}
				return "ok " + hexList(out)
			})
			mon := panicMon(impl, name)
			// expectation from the generator's intent
			wantOK := true
			var want []string
			seen := map[int]bool{}
			for _, k := range intent {
				switch {
				case k == -1:
					if !allow {
						wantOK = false
					}
				case k == -2:
					wantOK = false
				case k >= 100 && !unique:
					wantOK = false
				default:
					k %= 100
					if unique && seen[k] {
						continue
					}
					seen[k] = true
					raw, _ := b58.Decode(ids[k])
					want = append(want, string(raw))
				}
			}
			if mon == "" {
				if wantOK != strings.HasPrefix(impl, "ok") {
					mon = name + ": accepted ⇎ every entry is acceptable"
				} else if wantOK && !(reflect.DeepEqual(want, out) || (len(want) == 0 && len(out) == 0)) {
					mon = name + ": result is not the list of (distinct) IDs given"
				}
			}
			e.rep.Compare(op, model, canonPanic(impl), name+"."+head(model), "config."+name, mon)
		}
	}
}

func (e *engine) tptAddrCases() {
	atoms := []string{"a", "udp", "|", "|", " ", "é", "127.0.0.1:5000", "\xff", "", "||"}
	for i := 0; i < 600*e.a.Scale; i++ {
		s := ""
		for j := e.rng.Intn(5); j > 0; j-- {
			s += atoms[e.rng.Intn(len(atoms))]
		}
		op := "config.tptAddr s=" + lib.Hex([]byte(s))
		model := e.m.Query(op)
		impl := lib.Recover(func() string {
			t, a, err := tptaddr.ParseTptAddr(s)
			if err != nil {
				return "err"
			}
			return "ok t=" + lib.Hex([]byte(t)) + " a=" + lib.Hex([]byte(a))
		})
		mon := panicMon(impl, "ParseTptAddr")
		if mon == "" {
			idx := strings.IndexByte(s, '|')
			wantOK := idx > 0 && idx < len(s)-1
			switch {
			case wantOK != strings.HasPrefix(impl, "ok"):
				mon = "ParseTptAddr accepted ⇎ non-empty transport id, separator, non-empty address"
			case wantOK && impl != "ok t="+lib.Hex([]byte(s[:idx]))+" a="+lib.Hex([]byte(s[idx+1:])):
				mon = "ParseTptAddr does not split at the first separator"
			case wantOK:
				// format then parse again
				t, a, _ := tptaddr.ParseTptAddr(s)
				if t2, a2, err := tptaddr.ParseTptAddr(t + "|" + a); err != nil || t2 != t || a2 != a || t+"|"+a != s {
					mon = "transport address does not survive format-then-parse"
				}
			}
		}
		e.rep.Compare(op, model, canonPanic(impl), "tptAddr."+head(model), "config.tptAddr", mon)
	}
}

func (e *engine) peerAddrMapCases() {
	var ids []string
	var rawIDs []peer.ID
	for i := 0; i < 3; i++ {
		id := e.newKey().id
		ids = append(ids, b58.Encode(id))
		rawIDs = append(rawIDs, peer.ID(id))
	}
	absent := peer.ID(e.newKey().id)
	addrs := []string{"udp|1.2.3.4:5", "udp|1.2.3.4:6", "ws|host/path", "a|", "|", "b|c|d", "Udp|1.2.3.4:5", "udp|1.2.3.4:50", "é|x", "u|\xff"}
	for i := 0; i < 450*e.a.Scale; i++ {
		var l []string
		want := map[string]map[string]bool{}
		wantErrs := 0
		for j := e.rng.Intn(9); j > 0; j-- {
			p := e.rng.Intn(len(ids))
			a := addrs[e.rng.Intn(len(addrs))]
			switch r := e.rng.Intn(14); {
			case r < 8:
				l = append(l, ids[p]+"|"+a)
			case r < 10:
				// white space around both parts is trimmed
				l = append(l, e.ws()+ids[p]+e.ws()+"|"+e.ws()+a+e.ws())
			case r == 10:
				l = append(l, ids[p]+"|"+strings.ReplaceAll(a, "|", ":")) // no transport separator
				wantErrs++
				continue
			case r == 11:
				l = append(l, []string{"", ids[p], "|", " | ", ids[p] + "|", ids[p] + "| udp "}[e.rng.Intn(6)])
				wantErrs++
				continue
			case r == 12:
				l = append(l, []string{"nope", "", " ", ids[p] + "0", ids[p][1:], "\xff"}[e.rng.Intn(6)]+"|"+a) // bad peer id
				wantErrs++
				continue
			default:
				// white space inside the address is kept
				a = "udp| 1.2.3.4:5"
				l = append(l, ids[p]+"|"+a)
			}
			if want[ids[p]] == nil {
				want[ids[p]] = map[string]bool{}
			}
			want[ids[p]][a] = true
		}
		op := "config.peerAddrMap l=" + hexList(l)
		model := e.m.Query(op)
		var got map[string][]string
		var nerr int
		impl := lib.Recover(func() string {
			m, errs := tptaddr_static.ParsePeerAddressMap(l)
			got, nerr = m, len(errs)
			keys := make([]string, 0, len(m))
			for k := range m {
				keys = append(keys, k)
			}
			sort.Strings(keys)
			var parts []string
			for _, k := range keys {
				parts = append(parts, lib.Hex([]byte(k))+":"+hexList(m[k]))
			}
			ps := strings.Join(parts, ";")
			if len(parts) == 0 {
				ps = "_"
			}
			return fmt.Sprintf("ok errs=%d peers=%s", len(errs), ps)
		})
		mon := panicMon(impl, "ParsePeerAddressMap")
		if mon == "" {
			// each peer ↦ sorted, duplicate-free set of exactly the addresses given for it
			if nerr != wantErrs {
				mon = fmt.Sprintf("ParsePeerAddressMap reports %d skipped entries, %d were malformed", nerr, wantErrs)
			}
			if len(got) != len(want) {
				mon = "ParsePeerAddressMap: wrong set of peers"
			}
			for p, set := range want {
				g := got[p]
				if len(g) != len(set) {
					mon = "ParsePeerAddressMap: wrong number of addresses for a peer (duplicates kept or addresses lost)"
				}
				for k, a := range g {
					if !set[a] {
						mon = "ParsePeerAddressMap: address not given for this peer"
					}
					if k > 0 && !(g[k-1] < a) {
						mon = "ParsePeerAddressMap: addresses not strictly sorted"
					}
				}
			}
			if nc, err := tptaddr_static.NewController(&tptaddr_static.Config{Addresses: l}); (err == nil) != (wantErrs == 0) || (err == nil && nc == nil) {
				mon = "static controller constructed ⇎ no malformed entries"
			}
		}
		br := "peerAddrMap"
		if wantErrs > 0 {
			br = "peerAddrMap.errs"
		}
		if len(l) > len(want) && wantErrs == 0 && len(want) > 0 {
			br = "peerAddrMap.merged"
		}
		e.rep.Compare(op, model, canonPanic(impl), br, "config.peerAddrMap", mon)

		// the consumer: every peer of the universe (present in this list or not), a peer that is in no
		// list, and the same peers again through IDs decoded from their text form
		query := append([]peer.ID(nil), rawIDs...)
		query = append(query, absent)
		if i%3 == 0 {
			query = append(query, peer.ID(e.newKey().id))
		}
		e.staticCtlCase(l, want, wantErrs, query, i%25 == 0)
	}
}

func (e *engine) durationCases() {
	strs := []string{"", "1s", "1h2m3s", "-5ms", "1.5h", "abc", "1", "0", "0s", "+3us", "1µs", "1μs", "9223372036854775807ns", "9223372036854775808ns", "-9223372036854775808ns", "2562047h47m16.854775807s", "2562048h", ".5s", "1.s", "s", "1e3s", " 1s", "1s ", "1d", "1h1h", "\xff"}
	for i, n := 0, 180*e.a.Scale; i < n; i++ {
		s := strs[i%len(strs)]
		if i >= len(strs) {
			s = time.Duration(int64(e.rng.Uint64())).String()
			if i%7 == 0 {
				s = string(e.rng.Bytes(e.rng.Intn(6)))
			}
		}
		op := "config.duration s=" + lib.Hex([]byte(s))
		model := e.ask(op)
		impl := lib.Recover(func() string {
			d, err := confparse.ParseDuration(s)
			if err != nil {
				return "err"
			}
			return "ok " + strconv.FormatInt(int64(d), 10)
		})
		mon := panicMon(impl, "ParseDuration")
		if mon == "" && s == "" && impl != "ok 0" {
			mon = "ParseDuration of the empty string is not zero"
		}
		e.rep.Compare(op, model, canonPanic(impl), "duration."+head(model), "config.duration", mon)
	}
	vals := []int64{0, 1, -1, 999, 1000, 1e6, 1e9, 60e9, 3600e9, math.MaxInt64, math.MinInt64, math.MinInt64 + 1, 1500e6, -90061e9 - 1}
	for i, n := 0, 180*e.a.Scale; i < n; i++ {
		d := e.rng.Int63() >> uint(e.rng.Intn(63))
		if e.rng.Intn(2) == 0 {
			d = -d
		}
		if i < len(vals) {
			d = vals[i]
		}
		for _, ie := range []bool{false, true} {
			op := fmt.Sprintf("config.marshalDuration d=%d ie=%s", d, b01(ie))
			model := e.ask(op)
			var txt string
			impl := lib.Recover(func() string {
				txt = confparse.MarshalDuration(time.Duration(d), ie)
				return "ok " + lib.Hex([]byte(txt))
			})
			mon := panicMon(impl, "MarshalDuration")
			if mon == "" {
				if back, err := confparse.ParseDuration(txt); err != nil || int64(back) != d {
					mon = "duration does not survive format-then-parse"
				}
			}
			br := "marshalDuration"
			if d == 0 {
				br = "marshalDuration.zero"
			}
			e.rep.Compare(op, model, canonPanic(impl), br, "config.marshalDuration", mon)
		}
	}
}

const (
	minTs = -62135596800 // 0001-01-01T00:00:00Z
	maxTs = 253402300799 // 9999-12-31T23:59:59Z
)

func (e *engine) timestampCases() {
	strs := []string{"", "1629048153000", "2021-08-15T15:49:13Z", "invalid", "2021-08-15T15:49:13.5Z", "2021-08-15T15:49:13.123456789Z", "2021-08-15T15:49:13.1234567891Z",
		"2021-08-15T15:49:13+01:00", "2021-08-15T15:49:13", "2021-08-15 15:49:13Z", "null", "\"2021-08-15T15:49:13Z\"", "\"2021-08-15T15:49:13.000000001Z\"", "-1", "0", "1.5", "1e3", "9223372036854775807", "9223372036854775808", "-9223372036854775808",
		"0001-01-01T00:00:00Z", "9999-12-31T23:59:59.999999999Z", "0000-01-01T00:00:00Z", "10000-01-01T00:00:00Z", "2021-02-30T00:00:00Z", "2021-08-15T24:00:00Z", "2016-12-31T23:59:60Z",
		"true", "{}", "[]", "\"\"", "\"", "\\", "2021-08-15T15:49:13Z\n", " 2021-08-15T15:49:13Z", "2021-08-15T15:49:13z", "2021-08-15t15:49:13Z", "2021-08-15T15:49:13,5Z", "12 34", "\xff", "\u00e9", "1629048153000 ", "\"1629048153000\"", "00", "+5", "--5"}
	for i, n := 0, 240*e.a.Scale; i < n; i++ {
		s := strs[i%len(strs)]
		if i >= len(strs) {
			switch i % 4 {
			case 0:
				s = time.Unix(minTs+e.rng.Int63n(maxTs-minTs), e.rng.Int63n(1e9)).UTC().Format(time.RFC3339Nano)
			case 1:
				s = strconv.FormatInt(e.rng.Int63()>>uint(e.rng.Intn(63)), 10)
			case 2:
				s = string(e.rng.Bytes(e.rng.Intn(8)))
			case 3:
				s = time.Unix(e.rng.Int63n(maxTs), 0).UTC().Format(time.RFC3339)
				b := []byte(s)
				b[e.rng.Intn(len(b))] = "09:-TZ. "[e.rng.Intn(8)]
				s = string(b)
			}
		}
		op := "config.timestamp s=" + lib.Hex([]byte(s))
		model := e.ask(op)
		var got *timestamppb.Timestamp
		impl := lib.Recover(func() string {
			ts, err := confparse.ParseTimestamp(s)
			if err != nil {
				return "err"
			}
			if ts == nil {
				return "ok nil"
			}
			got = ts
			return fmt.Sprintf("ok %d,%d", ts.GetSeconds(), ts.GetNanos())
		})
		mon := panicMon(impl, "ParseTimestamp")
		key := "config.timestamp"
		if mon == "" && got != nil && got.GetSeconds() >= minTs && got.GetSeconds() <= maxTs {
			// formatting a parsed value then parsing it again gives the same value
			back, err := confparse.ParseTimestamp(confparse.MarshalTimestamp(got))
			if err != nil || back == nil || back.GetSeconds() != got.GetSeconds() || back.GetNanos() != got.GetNanos() {
				mon = fmt.Sprintf("timestamp %q does not survive format-then-parse (MarshalTimestamp gives %q)", s, confparse.MarshalTimestamp(got))
				if got.GetNanos() != 0 {
					key = "config.marshalTimestamp:nanos"
				}
			}
		}
		e.rep.Compare(op, model, canonPanic(impl), "timestamp."+kind(model), key, mon)
	}
	// MarshalTimestamp and the round trip for every representable timestamp
	for i, n := 0, 240*e.a.Scale; i < n; i++ {
		secs := minTs + e.rng.Int63n(maxTs-minTs+1)
		nanos := e.rng.Int63n(1e9)
		class := "nanos"
		switch i % 8 {
		case 0:
			nanos, class = 0, "whole"
		case 1:
			nanos = []int64{1, 999999999, 500000000, 1000, 100}[e.rng.Intn(5)]
		case 2:
			secs = []int64{minTs, maxTs, 0, -1, 1}[e.rng.Intn(5)]
		case 3:
			// outside the range proto3 allows: only totality is claimed
			class = "out-of-range"
			secs = []int64{minTs - 1, maxTs + 1, math.MaxInt64, math.MinInt64, -1 << 40, 1 << 40}[e.rng.Intn(6)]
			nanos = []int64{0, -1, 1e9, math.MaxInt32, math.MinInt32}[e.rng.Intn(5)]
		}
		ts := &timestamppb.Timestamp{Seconds: secs, Nanos: int32(nanos)}
		op := fmt.Sprintf("config.marshalTimestamp t=%d,%d", secs, nanos)
		model := e.ask(op)
		var txt string
		impl := lib.Recover(func() string {
			txt = confparse.MarshalTimestamp(ts)
			return "ok " + lib.Hex([]byte(txt))
		})
		mon := panicMon(impl, "MarshalTimestamp")
		key := "config.marshalTimestamp:" + class
		if mon == "" && class != "out-of-range" {
			back := lib.Recover(func() string {
				b, err := confparse.ParseTimestamp(txt)
				if err != nil || b == nil {
					return "err"
				}
				return fmt.Sprintf("%d,%d", b.GetSeconds(), b.GetNanos())
			})
			if back != fmt.Sprintf("%d,%d", secs, nanos) {
				mon = fmt.Sprintf("timestamp {%d, %d} does not survive format-then-parse: MarshalTimestamp gives %q, which parses to %s", secs, nanos, txt, back)
			}
		} else if mon == "" {
			if r := lib.Recover(func() string { _, _ = confparse.ParseTimestamp(txt); return "" }); r != "" {
				mon = "ParseTimestamp panics on MarshalTimestamp output"
			}
		}
		e.rep.Compare(op, model, canonPanic(impl), "marshalTimestamp."+class, key, mon)
	}
	op := "config.marshalTimestamp t=nil"
	txt := confparse.MarshalTimestamp(nil)
	mon := ""
	if back, err := confparse.ParseTimestamp(txt); err != nil || back != nil {
		mon = "absent timestamp does not survive format-then-parse"
	}
	e.rep.Compare(op, e.ask(op), "ok "+lib.Hex([]byte(txt)), "marshalTimestamp.nil", "config.marshalTimestamp:nil", mon)
}

func (e *engine) urlCases() {
	strs := []string{"", "http://example.com/a/b?x=1#f", "https://user:pw@host:8443/p%2Fq?a=b&c", "ws://[::1]:80/x", "udp://1.2.3.4:5", "/relative/path", "mailto:a@b.c", "a b", "http://a b/", "%zz", "http://[::1", "://x",
		"http://host/%", "http://host/a%20b", "HTTP://HOST/", "x:", "x:/", "x://", "//host", "?q", "#f", "http://host:port/", "http://host:99999/", "http://us er@host/", "http://host/\x7f", "http://\xff/", "*", "file:///a/b", "a:b:c", "1x://h", "http://h/?", "http://h/#", "http://h?#",
		"http://h/a?b=%zz", "http://h/%41", "http://h/a;b", "http://h/ü", "http://ü/", "http://h/a#%zz", "http://h/a#b%41", "s:opaque?q#f", "http://user@h", "http://:pw@h", "http://u:@h", "http://h:/", "unix:///var/run/x.sock", "quic://host:1/path?x=y", "\x00", " http://h"}
	atoms := []string{"http", "://", ":", "/", "//", "?", "#", "%", "%41", "%2f", "@", "a", "b.c", "[::1]", ":80", " ", "é", "&", "=", ";", "\\", "*"}
	for i, n := 0, 360*e.a.Scale; i < n; i++ {
		s := strs[i%len(strs)]
		if i >= len(strs) {
			s = ""
			for j := e.rng.Intn(7); j > 0; j-- {
				s += atoms[e.rng.Intn(len(atoms))]
			}
		}
		op := "config.url kind=url s=" + lib.Hex([]byte(s))
		model := e.ask(op)
		var got *url.URL
		impl := lib.Recover(func() string {
			u, err := confparse.ParseURL(s)
			if err != nil {
				return "err"
			}
			if u == nil {
				return "ok nil"
			}
			got = u
			return "ok " + lib.Hex([]byte(urlCanon(u)))
		})
		mon := panicMon(impl, "ParseURL")
		if mon == "" && got != nil {
			// formatting a parsed value then parsing it again: the wrapper must give exactly what
			// net/url gives for that text (net/url itself does not round-trip every URL, e.g. a
			// path that starts with an escaped slash; such inputs are counted, not blamed on bifrost)
			txt := got.String()
			back, err := confparse.ParseURL(txt)
			std, serr := url.Parse(txt)
			switch {
			case txt == "":
				if back != nil || err != nil {
					mon = "ParseURL of an empty text form is not absent"
				}
			case (err == nil) != (serr == nil) || (err == nil && (back == nil || urlCanon(back) != urlCanon(std))):
				mon = fmt.Sprintf("URL %q: format-then-parse through confparse differs from net/url", s)
			case serr != nil || std.String() != txt:
				n, _ := e.rep.Extra["neturl_text_form_not_idempotent"].(int)
				e.rep.Extra["neturl_text_form_not_idempotent"] = n + 1
			}
		}
		if mon == "" && s == "" && impl != "ok nil" {
			mon = "ParseURL of the empty string is not absent"
		}
		e.rep.Compare(op, model, canonPanic(impl), "url."+kind(model), "config.url", mon)

		for _, allow := range []bool{false, true} {
			op := fmt.Sprintf("config.validateUrl s=%s allow=%s", lib.Hex([]byte(s)), b01(allow))
			model := e.ask(op)
			impl := lib.Recover(func() string {
				if confparse.ValidateURL(s, allow) != nil {
					return "err"
				}
				return "ok"
			})
			mon := panicMon(impl, "ValidateURL")
			_, perr := url.Parse(s)
			if mon == "" && (impl == "ok") != ((s == "" && allow) || (s != "" && perr == nil)) {
				mon = "ValidateURL accepted ⇎ (parses, or empty and allowed)"
			}
			e.rep.Compare(op, model, canonPanic(impl), "validateUrl."+head(model), "config.validateUrl", mon)
		}
	}
	// lists
	for i := 0; i < 120*e.a.Scale; i++ {
		var l []string
		for j := e.rng.Intn(5); j > 0; j-- {
			switch r := e.rng.Intn(8); {
			case r < 5:
				l = append(l, strs[1+e.rng.Intn(8)])
			case r < 7:
				l = append(l, "")
			default:
				l = append(l, []string{"%zz", "http://[::1", "://x"}[e.rng.Intn(3)])
			}
		}
		allow := i%2 == 0
		op := fmt.Sprintf("config.urls l=%s allow=%s", hexList(l), b01(allow))
		model := e.ask(op)
		var out []*url.URL
		impl := lib.Recover(func() string {
			us, err := confparse.ParseURLs(l, allow)
			if err != nil {
				return "err"
			}
			out = us
			var r []string
			for _, u := range us {
				r = append(r, urlCanon(u))
			}
			return "ok " + hexList(r)
		})
		mon := panicMon(impl, "ParseURLs")
		if mon == "" {
			wantOK, cnt := true, 0
			for _, s := range l {
				if s == "" {
					if !allow {
						wantOK = false
					}
					continue
				}
				if _, err := url.Parse(s); err != nil {
					wantOK = false
				}
				cnt++
			}
			if wantOK != strings.HasPrefix(impl, "ok") {
				mon = "ParseURLs accepted ⇎ every entry parses (empty entries only if allowed)"
			} else if wantOK && len(out) != cnt {
				mon = "ParseURLs does not return exactly the non-empty entries"
			} else if wantOK {
				// content and order, against net/url on each entry
				j := 0
				for _, s := range l {
					if s == "" {
						continue
					}
					u, _ := url.Parse(s)
					if out[j] == nil || urlCanon(out[j]) != urlCanon(u) {
						mon = fmt.Sprintf("ParseURLs: element %d is not the URL of the entry %q", j, s)
						break
					}
					j++
				}
			}
		}
		e.rep.Compare(op, model, canonPanic(impl), "urls."+head(model), "config.urls", mon)
	}
	// regular expressions
	res := []string{"", "a+", "^bifrost/.*$", "(", "[a-", "a{2,1}", "\\", "(?i)x", "(?P<n>a)", "a**", "\\pL", "\\p{Nope}", "[[:alpha:]]", "x{1001}", "\xff", "(?=a)", "\\1", "a|", "()", "é+", "\\Qa.b\\E", "(?s).", "a{,2}", "\\x{110000}", " a "}
	for i, s := range res {
		_ = i
		op := "config.url kind=re s=" + lib.Hex([]byte(s))
		model := e.ask(op)
		impl := lib.Recover(func() string {
			re, err := confparse.ParseRegexp(s)
			if err != nil {
				return "err"
			}
			if re == nil {
				return "ok nil"
			}
			return "ok " + lib.Hex([]byte(re.String()))
		})
		mon := panicMon(impl, "ParseRegexp")
		if mon == "" && strings.HasPrefix(impl, "ok ") && impl != "ok nil" {
			re, _ := confparse.ParseRegexp(s)
			if back, err := confparse.ParseRegexp(re.String()); err != nil || back == nil || back.String() != re.String() || re.String() != s {
				mon = "regular expression does not survive format-then-parse"
			}
		}
		e.rep.Compare(op, model, canonPanic(impl), "regexp."+kind(model), "config.regexp", mon)
	}
}

func (e *engine) runC38() {
	e.rep.Rule = "configuration parsers: protocol IDs over valid / invalid UTF-8 atoms (surrogates, overlong, truncated, > U+10FFFF) and lists with duplicates; peer IDs and lists (blank, white-space wrapped, malformed); transport addresses over a separator-dense alphabet; static address lists over 3 peers × 10 addresses with duplicates, white space, malformed entries; durations, timestamps (RFC 3339 with/without fraction, offsets, milliseconds, JSON literals, range limits), URLs and regular expressions against the library parser they wrap, each with format-then-parse; distinct = distinct op line"
	e.rep.Require(
		"protoId.ok", "protoId.err.empty", "protoId.ok.empty", "protoId.err.badutf8", "protoIds.ok", "protoIds.err", "protoIdsUnique.ok", "protoIdsUnique.err",
		"peerId.ok", "peerId.err", "peerIds.ok", "peerIds.err", "peerIdsUnique.ok", "peerIdsUnique.err",
		"tptAddr.ok", "tptAddr.err", "peerAddrMap", "peerAddrMap.errs", "peerAddrMap.merged",
		"validatePeerId.1", "validatePeerId.0.parse-rejects", "validatePeerId.0.empty", "staticCtl.ok", "staticCtl.err", "staticCtl.bus", "staticCtl.factory", "staticCtl.factory-err", "trunc.text",
		"duration.ok", "duration.err", "marshalDuration", "marshalDuration.zero",
		"timestamp.ok", "timestamp.oknil", "timestamp.err", "marshalTimestamp.nanos", "marshalTimestamp.whole", "marshalTimestamp.out-of-range", "marshalTimestamp.nil",
		"url.ok", "url.oknil", "url.err", "validateUrl.ok", "validateUrl.err", "urls.ok", "urls.err", "regexp.ok", "regexp.oknil", "regexp.err",
	)
	e.protoCases()
	e.peerIDCases()
	e.tptAddrCases()
	e.peerAddrMapCases()
	e.durationCases()
	e.timestampCases()
	e.urlCases()
	e.runC38History()
	e.runC38Trunc()
}
