package main

import (
	"bytes"
	"crypto/ed25519"
	"encoding/pem"
	"fmt"
	"io"
	"os"
	"path/filepath"
	"strings"

	"github.com/aperturerobotics/bifrost/crypto"
	"github.com/aperturerobotics/bifrost/peer"
	"github.com/sirupsen/logrus"

	"verif/harness/lib"
)

// fsClass is how the harness sets up the path before the call.
type fsCase struct {
	class string                            // finding-key class
	state string                            // model state: missing | staterr | dir | file
	write bool                              // model: does os.WriteFile succeed
	setup func(dir string) (string, []byte) // returns the key path and (for files) the content
}

func writeFile(p string, b []byte) {
	if err := os.WriteFile(p, b, 0o600); err != nil {
		panic(err)
	}
}

func (e *engine) keyFileCase(c fsCase, useLog bool, via string) {
	dir, err := os.MkdirTemp("", "verif-c39-")
	if err != nil {
		panic(err)
	}
	defer os.RemoveAll(dir)
	path, content := c.setup(dir)

	var le *logrus.Entry
	if useLog {
		l := logrus.New()
		l.SetOutput(io.Discard)
		l.SetLevel(logrus.DebugLevel)
		le = logrus.NewEntry(l)
	}
	var key crypto.PrivKey
	var kerr error
	impl := lib.Recover(func() string {
		key, kerr = loadKeyVia(via, le, path)
		return ""
	})
	mon := panicMon(impl, "OpenOrWritePrivKey")
	genHex := "none"
	keyS := "nil"
	if key != nil {
		keyS = lib.Hex(privRaw(key))
		if c.state == "missing" {
			genHex = keyS // the random draw is an input of the model
		}
	}
	fsArg := c.state
	if c.state == "file" {
		fsArg = "file:" + lib.Hex(content)
	}
	op := fmt.Sprintf("config.openOrWrite fs=%s gen=%s write=%s class=%s", fsArg, genHex, b01(c.write), c.class)
	model := e.ask(op)

	// what is at the path afterwards
	fsAfter := "same"
	after, rerr := os.ReadFile(path)
	switch {
	case c.state == "file":
		if rerr != nil || !bytes.Equal(after, content) {
			fsAfter = "changed"
		}
	case c.state == "dir":
		fsAfter = "dir"
		if st, err := os.Stat(path); err != nil || !st.IsDir() {
			fsAfter = "changed"
		}
	case c.state == "staterr":
		fsAfter = "staterr"
		if _, err := os.Stat(path); err == nil || os.IsNotExist(err) {
			fsAfter = "changed"
		}
	case c.state == "missing":
		if rerr != nil {
			fsAfter = "missing"
		} else {
			fsAfter = strings.Replace(blockOf(after), "ok ", "file ", 1)
		}
	}
	if mon == "" {
		impl = fmt.Sprintf("ok key=%s err=%s fs=%s", keyS, b01(kerr != nil), fsAfter)
	}

	// ---- the property, stated directly ----
	key39 := "config.openOrWrite:" + c.class
	if mon == "" {
		switch {
		case key == nil && kerr == nil:
			mon = "OpenOrWritePrivKey returns (nil, nil) for " + c.class + ": neither a key nor an error"
		case c.state != "missing" && c.class != "valid-key" && !strings.HasPrefix(c.class, "valid-") && kerr == nil:
			mon = "OpenOrWritePrivKey reports no error for " + c.class
		case c.state == "missing" && !c.write && kerr == nil:
			mon = "OpenOrWritePrivKey reports success although the new key could not be written (the identity is lost at the next start)"
		case c.state == "missing" && c.write:
			// a new key is written and reloads to the same peer identity
			switch {
			case kerr != nil || key == nil:
				mon = "OpenOrWritePrivKey fails for a missing file in a writable directory"
			default:
				raw := privRaw(key)
				std := ed25519.NewKeyFromSeed(raw[:32])
				blk, _ := pem.Decode(after)
				st, serr := os.Stat(path)
				key2, err2 := loadKeyVia(via, le, path)
				after2, _ := os.ReadFile(path)
				dup := e.noteGenerated(raw, "OpenOrWritePrivKey "+via+" "+c.class)
				switch {
				case dup != "":
					mon = dup
				case len(raw) != 64 || !bytes.Equal(std, raw):
					mon = "generated key is not a well-formed Ed25519 key"
				case rerr != nil || blk == nil || blk.Type != "LIBP2P PRIVATE KEY" || !bytes.Equal(blk.Bytes, keyMsg(1, raw)):
					mon = "the new key was not written as a LIBP2P PRIVATE KEY PEM file"
				case serr != nil || st.Mode().Perm() != 0o600:
					mon = "the new key file is not private (mode 0600)"
				case err2 != nil || key2 == nil:
					mon = "the written key file does not load again"
				case !bytes.Equal(after, after2):
					mon = "loading the key file a second time changed it"
				default:
					id1, e1 := peer.IDFromPrivateKey(key)
					id2, e2 := peer.IDFromPrivateKey(key2)
					if e1 != nil || e2 != nil || id1 != id2 || !bytes.Equal([]byte(id1), idOf(raw[32:])) || !key.Equals(key2) {
						mon = "the written key file reloads to a different peer identity"
					}
				}
			}
		case strings.HasPrefix(c.class, "valid-"):
			if kerr != nil || key == nil {
				mon = "OpenOrWritePrivKey rejects a valid key file (" + c.class + ")"
			} else if fsAfter != "same" {
				mon = "OpenOrWritePrivKey modified an existing key file"
			}
		}
	}
	if via != "" {
		e.rep.Compare(op+" via="+via, model, canonPanic(impl), via+"Key."+c.class, "config."+via+"Key:"+c.class, mon)
		return
	}
	e.rep.Compare(op, model, canonPanic(impl), "openOrWrite."+c.class, key39, mon)
}

func (e *engine) runC39() {
	e.rep.Rule = "key files in real temporary directories: missing (writable directory, dangling symlink, missing parent directory), stat failures that are not 'does not exist' (ENOTDIR, ELOOP, ENAMETOOLONG), directory at the path, empty / white-space / garbage / truncated files, PEM of the wrong type, right type with a malformed body, valid keys (64- and 96-byte forms, CRLF, leading text, trailing data, second block); each with and without a logger; SEQUENCES of file states on one path in one process (contents replaced in place / by re-creation / by rename with the size and the modification time kept: another key, garbage, zeros, padded public-key PEM, removed, …; also through hard and symbolic links), each load judged on the CURRENT contents, through OpenOrWritePrivKey, pipe -k and util read-private; distinct = distinct op line"
	k := e.newKey()
	good := pem.EncodeToMemory(&pem.Block{Type: "LIBP2P PRIVATE KEY", Bytes: keyMsg(1, k.priv)})
	file := func(class string, mk func() []byte) fsCase {
		return fsCase{class: class, state: "file", write: true, setup: func(dir string) (string, []byte) {
			p := filepath.Join(dir, "key.pem")
			b := mk()
			writeFile(p, b)
			return p, b
		}}
	}
	cases := []fsCase{
		{class: "missing", state: "missing", write: true, setup: func(dir string) (string, []byte) { return filepath.Join(dir, "key.pem"), nil }},
		{class: "missing-dangling-symlink", state: "missing", write: true, setup: func(dir string) (string, []byte) {
			p := filepath.Join(dir, "key.pem")
			if err := os.Symlink(filepath.Join(dir, "target.pem"), p); err != nil {
				panic(err)
			}
			return p, nil
		}},
		{class: "missing-parent", state: "missing", write: false, setup: func(dir string) (string, []byte) { return filepath.Join(dir, "no", "such", "key.pem"), nil }},
		{class: "enotdir", state: "staterr", setup: func(dir string) (string, []byte) {
			writeFile(filepath.Join(dir, "plain"), []byte("x"))
			return filepath.Join(dir, "plain", "key.pem"), nil
		}},
		{class: "eloop", state: "staterr", setup: func(dir string) (string, []byte) {
			a, b := filepath.Join(dir, "a"), filepath.Join(dir, "b")
			if os.Symlink(a, b) != nil || os.Symlink(b, a) != nil {
				panic("symlink")
			}
			return a, nil
		}},
		{class: "eloop-parent", state: "staterr", setup: func(dir string) (string, []byte) {
			a, b := filepath.Join(dir, "a"), filepath.Join(dir, "b")
			if os.Symlink(a, b) != nil || os.Symlink(b, a) != nil {
				panic("symlink")
			}
			return filepath.Join(a, "key.pem"), nil
		}},
		{class: "enametoolong", state: "staterr", setup: func(dir string) (string, []byte) {
			return filepath.Join(dir, strings.Repeat("k", 300)), nil
		}},
		{class: "directory", state: "dir", setup: func(dir string) (string, []byte) {
			p := filepath.Join(dir, "key.pem")
			if err := os.Mkdir(p, 0o700); err != nil {
				panic(err)
			}
			return p, nil
		}},
		file("empty-file", func() []byte { return nil }),
		file("blank-file", func() []byte { return []byte(" \n\t\n") }),
		file("garbage-file", func() []byte { return e.rng.Bytes(1 + e.rng.Intn(200)) }),
		file("text-file", func() []byte { return []byte("this is not a key\n") }),
		file("truncated-pem", func() []byte { return good[:len(good)-e.rng.Intn(30)-2] }),
		file("begin-only", func() []byte { return []byte("-----BEGIN LIBP2P PRIVATE KEY-----\n") }),
		file("corrupt-base64", func() []byte {
			c := append([]byte(nil), good...)
			c[40+e.rng.Intn(20)] = '!'
			return c
		}),
		file("wrong-pem-type-public", func() []byte {
			return pem.EncodeToMemory(&pem.Block{Type: "LIBP2P PUBLIC KEY", Bytes: pubMsg(k.pub)})
		}),
		file("wrong-pem-type-other", func() []byte {
			t := []string{"RSA PRIVATE KEY", "PRIVATE KEY", "CERTIFICATE", "LIBP2P PRIVATE KEY ", ""}[e.rng.Intn(5)]
			return pem.EncodeToMemory(&pem.Block{Type: t, Bytes: keyMsg(1, k.priv)})
		}),
		file("wrong-type-first-block", func() []byte {
			return append(pem.EncodeToMemory(&pem.Block{Type: "CERTIFICATE", Bytes: []byte{1}}), good...)
		}),
		file("bad-body-empty", func() []byte { return pem.EncodeToMemory(&pem.Block{Type: "LIBP2P PRIVATE KEY"}) }),
		file("bad-body-length", func() []byte {
			l := []int{1, 32, 63, 65, 95, 97}[e.rng.Intn(6)]
			return pem.EncodeToMemory(&pem.Block{Type: "LIBP2P PRIVATE KEY", Bytes: keyMsg(1, e.rng.Bytes(l))})
		}),
		file("bad-body-keytype", func() []byte {
			return pem.EncodeToMemory(&pem.Block{Type: "LIBP2P PRIVATE KEY", Bytes: keyMsg(uint64(2*e.rng.Intn(2)), k.priv)})
		}),
		file("bad-body-redundant", func() []byte {
			return pem.EncodeToMemory(&pem.Block{Type: "LIBP2P PRIVATE KEY", Bytes: keyMsg(1, append(append([]byte(nil), k.priv...), e.rng.Bytes(32)...))})
		}),
		file("bad-body-garbage", func() []byte {
			return pem.EncodeToMemory(&pem.Block{Type: "LIBP2P PRIVATE KEY", Bytes: e.rng.Bytes(1 + e.rng.Intn(80))})
		}),
		file("valid-key", func() []byte {
			k2 := e.newKey()
			return pem.EncodeToMemory(&pem.Block{Type: "LIBP2P PRIVATE KEY", Bytes: keyMsg(1, k2.priv)})
		}),
		file("valid-key-96", func() []byte {
			return pem.EncodeToMemory(&pem.Block{Type: "LIBP2P PRIVATE KEY", Bytes: keyMsg(1, append(append([]byte(nil), k.priv...), k.pub...))})
		}),
		file("valid-crlf", func() []byte { return bytes.ReplaceAll(good, []byte("\n"), []byte("\r\n")) }),
		file("valid-leading-text", func() []byte { return append([]byte("# my key\n"), good...) }),
		file("valid-trailing-data", func() []byte { return append(append([]byte(nil), good...), e.rng.Bytes(5)...) }),
		file("valid-second-block", func() []byte {
			return append(append([]byte(nil), good...), pem.EncodeToMemory(&pem.Block{Type: "CERTIFICATE", Bytes: []byte{1}})...)
		}),
		file("valid-with-headers", func() []byte {
			return pem.EncodeToMemory(&pem.Block{Type: "LIBP2P PRIVATE KEY", Headers: map[string]string{"Comment": "x"}, Bytes: keyMsg(1, k.priv)})
		}),
	}
	var req []string
	for _, c := range cases {
		req = append(req, "openOrWrite."+c.class)
	}
	e.rep.Require(req...)
	var req2 []string
	for _, c := range cases {
		req2 = append(req2, "pipeKey."+c.class)
	}
	e.rep.Require(req2...)
	reps := 10 * e.a.Scale
	for r := 0; r < reps; r++ {
		for _, c := range cases {
			e.keyFileCase(c, r%2 == 0, "")
			if r < 2*e.a.Scale {
				// the same path states through `bifrost pipe -k <path>` (PipeArgs.loadOrGenerateKey)
				e.keyFileCase(c, r%2 == 0, "pipe")
			}
		}
	}
	e.runC39Sequences() // wave 4: history independence over file states on ONE path (c39w4.go)
	e.runC39Wave3(k)
	e.runC39Callers(cases, k)
}
