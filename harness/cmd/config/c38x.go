package main

import (
	"github.com/aperturerobotics/controllerbus/controller"
	"context"
	"encoding/binary"
	"fmt"
	"io"
	"sort"
	"strings"
	"time"

	"github.com/aperturerobotics/bifrost/link"
	"github.com/aperturerobotics/bifrost/peer"
	"github.com/aperturerobotics/bifrost/tptaddr"
	tptaddr_static "github.com/aperturerobotics/bifrost/tptaddr/static"
	"github.com/aperturerobotics/bifrost/util/confparse"
	"github.com/aperturerobotics/controllerbus/bus"
	"github.com/aperturerobotics/controllerbus/core"
	"github.com/aperturerobotics/controllerbus/directive"
	b58 "github.com/mr-tron/base58/base58"
	"github.com/sirupsen/logrus"

	"verif/harness/lib"
)

// ---- ValidatePeerID on every input, accepted or not ----

// wellFormedID: base58 text of a well-formed multihash (code varint, length varint, exactly
// that many digest bytes) — stated with mr-tron/base58 and encoding/binary only.
func wellFormedID(s string) bool {
	b, err := b58.Decode(s)
	if err != nil || len(b) == 0 {
		return false
	}
	_, n := binary.Uvarint(b)
	if n <= 0 {
		return false
	}
	dl, m := binary.Uvarint(b[n:])
	return m > 0 && uint64(len(b[n+m:])) == dl
}

func (e *engine) validatePeerIDCase(s string) {
	op := "config.validatePeerId s=" + lib.Hex([]byte(s))
	model := e.m.Query(op)
	impl := canonPanic(lib.Recover(func() string {
		if confparse.ValidatePeerID(s) == nil {
			return "ok 1"
		}
		return "ok 0"
	}))
	_, perr := confparse.ParsePeerID(s)
	mon := ""
	switch {
	case impl == "panic":
		mon = "ValidatePeerID panics"
	case (impl == "ok 1") != (s != "" && wellFormedID(s)):
		mon = fmt.Sprintf("ValidatePeerID(%q): accepted ⇎ non-empty base58 text of a well-formed multihash", s)
	case impl == "ok 1" && perr != nil:
		mon = fmt.Sprintf("ValidatePeerID accepts %q which ParsePeerID rejects", s)
	}
	br := "validatePeerId." + model[3:]
	if perr != nil {
		br += ".parse-rejects"
	} else if s == "" {
		br += ".empty"
	}
	e.rep.Compare(op, model, impl, br, "config.validatePeerId", mon)
}

// ---- the static controller as the consumer of the address map ----

type fakeInstance struct {
	directive.Instance
	dir directive.Directive
}

func (f *fakeInstance) GetDirective() directive.Directive { return f.dir }

type collectHandler struct {
	directive.ResolverHandler
	vals []directive.Value
}

func (h *collectHandler) AddValue(v directive.Value) (uint32, bool) {
	h.vals = append(h.vals, v)
	return uint32(len(h.vals)), true
}
func (h *collectHandler) RemoveValue(id uint32) (directive.Value, bool) { return nil, false }
func (h *collectHandler) CountValues(all bool) int                      { return len(h.vals) }
func (h *collectHandler) ClearValues() []uint32                         { h.vals = nil; return nil }
func (h *collectHandler) MarkIdle(bool)                                 {}

// lookupVia resolves a real LookupTptAddr directive for pid through HandleDirective and the
// resolvers it returns. "err" = HandleDirective / Resolve failed.
func lookupVia(ctl *tptaddr_static.Controller, pid peer.ID) ([]string, string) {
	ctx := context.Background()
	res, err := ctl.HandleDirective(ctx, &fakeInstance{dir: tptaddr.NewLookupTptAddr(pid)})
	if err != nil {
		return nil, "HandleDirective error: " + err.Error()
	}
	var out []string
	for _, r := range res {
		h := &collectHandler{}
		if err := r.Resolve(ctx, h); err != nil {
			return nil, "Resolve error: " + err.Error()
		}
		for _, v := range h.vals {
			s, ok := v.(tptaddr.LookupTptAddrValue)
			if !ok {
				return nil, fmt.Sprintf("resolver emitted a %T, want a transport address string", v)
			}
			out = append(out, s)
		}
	}
	return out, ""
}

func sortedSet(m map[string]bool) []string {
	out := make([]string, 0, len(m))
	for k := range m {
		out = append(out, k)
	}
	sort.Strings(out)
	return out
}

func sameStrings(a, b []string) bool {
	if len(a) != len(b) {
		return false
	}
	for i := range a {
		if a[i] != b[i] {
			return false
		}
	}
	return true
}

// staticCtlCase: Config.Validate, NewController and LookupTptAddr resolution for every peer in
// `query` (raw IDs): compared with the model, and with the generator's own bookkeeping `want`
// (peer text → set of addresses given for it) and wantErrs (number of malformed entries).
func (e *engine) staticCtlCase(l []string, want map[string]map[string]bool, wantErrs int, query []peer.ID, viaBus bool) {
	q := make([][]byte, len(query))
	for i := range query {
		q[i] = []byte(query[i])
	}
	op := fmt.Sprintf("config.staticCtl l=%s q=%s", hexList(l), lib.HexList(q))
	model := e.m.Query(op)
	mon := ""
	impl := canonPanic(lib.Recover(func() string {
		conf := &tptaddr_static.Config{Addresses: l}
		valid := b01(conf.Validate() == nil)
		ctl, err := tptaddr_static.NewController(conf)
		if err != nil {
			if ctl != nil {
				mon = "NewController returns a controller together with an error"
			}
			if fc, ferr := tptaddr_static.NewFactory(nil).Construct(context.Background(), &tptaddr_static.Config{Addresses: append([]string(nil), l...)}, controller.ConstructOpts{}); ferr == nil {
				_ = fc // (a typed-nil *Controller inside the interface next to the error: callers test the error)
				mon = "Factory.Construct builds a controller from a configuration with malformed entries"
			}
			e.rep.Branches["staticCtl.factory-err"]++
			return "ok valid=" + valid + " ctl=err"
		}
		if ctl == nil {
			mon = "NewController returns (nil, nil)"
			return "ok valid=" + valid + " ctl=nil"
		}
		// the same configuration through the controller factory (the path a daemon config takes)
		fac := tptaddr_static.NewFactory(nil)
		fconf, isConf := fac.ConstructConfig().(*tptaddr_static.Config)
		var fctl *tptaddr_static.Controller
		if !isConf || fconf == nil || len(fconf.Addresses) != 0 {
			mon = "Factory.ConstructConfig is not an empty static Config"
		} else {
			fconf.Addresses = append([]string(nil), l...)
			fc, ferr := fac.Construct(context.Background(), fconf, controller.ConstructOpts{})
			if ferr != nil || fc == nil {
				mon = "Factory.Construct fails for a configuration NewController accepts"
			} else if fctl, _ = fc.(*tptaddr_static.Controller); fctl == nil {
				mon = "Factory.Construct does not build the static controller"
			}
			e.rep.Branches["staticCtl.factory"]++
		}
		// a directive of another type is not this controller's business
		if res, err := ctl.HandleDirective(context.Background(), &fakeInstance{dir: link.NewEstablishLinkWithPeer("", query[0])}); err != nil || len(res) != 0 {
			mon = "the static controller answers a directive that is not LookupTptAddr"
		}
		var parts []string
		for _, pid := range query {
			vals, fail := lookupVia(ctl, pid)
			if fail != "" {
				mon = fail
			}
			// the property, per peer: exactly the addresses given for it, sorted, no duplicates
			exp := sortedSet(want[pid.String()])
			if mon == "" && !sameStrings(vals, exp) {
				mon = fmt.Sprintf("LookupTptAddr for peer %s resolves to %q, the list gives it exactly %q", pid.String(), vals, exp)
			}
			if fctl != nil && mon == "" {
				fvals, fail := lookupVia(fctl, pid)
				if fail != "" {
					mon = "factory-built controller: " + fail
				} else if !sameStrings(fvals, exp) {
					mon = fmt.Sprintf("the controller built by Factory.Construct resolves peer %s to %q, the list gives it exactly %q", pid.String(), fvals, exp)
				}
			}
			parts = append(parts, lib.Hex([]byte(pid))+":"+hexList(vals))
		}
		if viaBus && mon == "" {
			mon = e.lookupOnBus(ctl, query, want)
		}
		ps := strings.Join(parts, ";")
		if len(parts) == 0 {
			ps = "_"
		}
		return "ok valid=" + valid + " ctl=ok res=" + ps
	}))
	if impl == "panic" {
		mon = "static controller panics (Validate / NewController / HandleDirective)"
	}
	if mon == "" {
		okCtl := strings.Contains(impl, "ctl=ok")
		okVal := strings.Contains(impl, "valid=1")
		switch {
		case okCtl != (wantErrs == 0):
			mon = fmt.Sprintf("static controller constructed ⇎ no malformed entries (%d malformed)", wantErrs)
		case okVal != (wantErrs == 0):
			mon = fmt.Sprintf("Config.Validate accepts ⇎ no malformed entries (%d malformed)", wantErrs)
		}
	}
	br := "staticCtl.ok"
	if wantErrs > 0 {
		br = "staticCtl.err"
	}
	e.rep.Compare(op, model, impl, br, "config.staticCtl", mon)
}

// lookupOnBus attaches the controller to a real controller bus and resolves the directives with
// tptaddr.ExLookupTptAddr, the API the dialer uses.
func (e *engine) lookupOnBus(ctl *tptaddr_static.Controller, query []peer.ID, want map[string]map[string]bool) string {
	ctx, cancel := context.WithTimeout(context.Background(), 20*time.Second)
	defer cancel()
	lg := logrus.New()
	lg.SetOutput(io.Discard)
	var b bus.Bus
	b, _, err := core.NewCoreBus(ctx, logrus.NewEntry(lg))
	if err != nil {
		panic(err)
	}
	rel, err := b.AddController(ctx, ctl, nil)
	if err != nil {
		panic(err)
	}
	defer rel()
	e.rep.Branches["staticCtl.bus"]++
	for _, pid := range query {
		vals, _, ref, err := tptaddr.ExLookupTptAddr(ctx, b, pid, false)
		if err != nil {
			return "ExLookupTptAddr on a real bus fails: " + err.Error()
		}
		if ref != nil {
			ref.Release()
		}
		got := append([]string(nil), vals...)
		sort.Strings(got)
		if exp := sortedSet(want[pid.String()]); !sameStrings(got, exp) {
			return fmt.Sprintf("ExLookupTptAddr on a real bus yields %q for peer %s, the list gives it exactly %q", got, pid.String(), exp)
		}
	}
	return ""
}
