// Command config is the correspondence engine for C11 (key encodings), C38 (configuration
// parsers) and C39 (key files).
//
// The Lean model treats the standard-library codecs that bifrost merely wraps (encoding/pem,
// strconv.Quote, the proto3 JSON timestamp reader, time.ParseDuration, net/url, regexp) as
// parameters. Whenever the model needs one it answers `ask <arg> <kind> <payload>`; the harness
// computes the answer by calling that library directly on exactly the payload the model names
// and re-sends the op. bifrost code is only ever the subject, never the oracle.
package main

import (
	"crypto/ed25519"
	"encoding/binary"
	"encoding/pem"
	"fmt"
	"net/url"
	"regexp"
	"strconv"
	"strings"
	"time"

	"github.com/aperturerobotics/protobuf-go-lite/types/known/timestamppb"

	"verif/harness/lib"
)

type engine struct {
	a   *lib.Args
	rng *lib.Rng
	m   *lib.Model
	rep *lib.Report

	c38Parsers []histParser
	c38Inputs  map[string][][]byte
	genSeen    map[string]string // C39: generated private key → where it was generated
}

// ---- oracles (standard library / third party, called directly) ----

func pemAnswer(d []byte) string {
	b, rest := pem.Decode(d)
	if b == nil {
		return "none"
	}
	return lib.Hex([]byte(b.Type)) + ":" + lib.Hex(b.Bytes) + ":" + lib.Hex(rest)
}

func jsonTsAnswer(d []byte) (res string) {
	defer func() {
		if r := recover(); r != nil {
			res = "none"
		}
	}()
	ts := &timestamppb.Timestamp{}
	if err := ts.UnmarshalJSON(d); err != nil {
		return "none"
	}
	return fmt.Sprintf("%d,%d", ts.GetSeconds(), ts.GetNanos())
}

func urlCanon(u *url.URL) string {
	user := "<nil>"
	if u.User != nil {
		p, has := u.User.Password()
		user = fmt.Sprintf("%q:%q:%v", u.User.Username(), p, has)
	}
	return fmt.Sprintf("%q", []string{u.String(), u.Scheme, u.Opaque, user, u.Host, u.Path, u.RawPath,
		fmt.Sprint(u.ForceQuery), u.RawQuery, u.Fragment, u.RawFragment, fmt.Sprint(u.OmitHost)})
}

func urlAnswer(d []byte) string {
	u, err := url.Parse(string(d))
	if err != nil {
		return "none"
	}
	return lib.Hex([]byte(urlCanon(u)))
}

func parseTsTok(s string) (int64, int64) {
	p := strings.Split(s, ",")
	a, err := strconv.ParseInt(p[0], 10, 64)
	if err != nil {
		panic(err)
	}
	b, err := strconv.ParseInt(p[1], 10, 64)
	if err != nil {
		panic(err)
	}
	return a, b
}

func unhexList(s string) [][]byte {
	if s == "_" {
		return nil
	}
	var out [][]byte
	for _, t := range strings.Split(s, ",") {
		out = append(out, lib.Unhex(t))
	}
	return out
}

// ask runs the oracle protocol to completion and returns the model's final answer.
func (e *engine) ask(op string) string {
	line := op
	for i := 0; i < 6; i++ {
		ans := e.m.Query(line)
		if !strings.HasPrefix(ans, "ask ") {
			return ans
		}
		f := strings.SplitN(ans, " ", 4)
		if len(f) != 4 {
			panic("malformed oracle request: " + ans)
		}
		arg, kind, payload := f[1], f[2], f[3]
		var a string
		switch kind {
		case "pem":
			a = pemAnswer(lib.Unhex(payload))
		case "edpub":
			// ed25519.NewKeyFromSeed(seed).Public() of the standard library
			sd := lib.Unhex(payload)
			if len(sd) != ed25519.SeedSize {
				panic("edpub oracle: bad seed length")
			}
			a = lib.Hex(ed25519.NewKeyFromSeed(sd).Public().(ed25519.PublicKey))
		case "quote":
			a = lib.Hex([]byte(strconv.Quote(string(lib.Unhex(payload)))))
		case "json":
			a = jsonTsAnswer(lib.Unhex(payload))
		case "dur":
			d, err := time.ParseDuration(string(lib.Unhex(payload)))
			if err != nil {
				a = "none"
			} else {
				a = strconv.FormatInt(int64(d), 10)
			}
		case "durfmt":
			d, err := strconv.ParseInt(payload, 10, 64)
			if err != nil {
				panic(err)
			}
			a = lib.Hex([]byte(time.Duration(d).String()))
		case "tsfmt":
			s, n := parseTsTok(payload)
			a = lib.Hex([]byte(time.Unix(s, n).UTC().Format(time.RFC3339Nano)))
		case "url":
			a = urlAnswer(lib.Unhex(payload))
		case "re":
			re, err := regexp.Compile(string(lib.Unhex(payload)))
			if err != nil {
				a = "none"
			} else {
				a = lib.Hex([]byte(re.String()))
			}
		case "urls":
			var toks []string
			for _, s := range unhexList(payload) {
				if len(s) == 0 {
					toks = append(toks, "x")
				} else {
					toks = append(toks, urlAnswer(s))
				}
			}
			a = strings.Join(toks, ",")
			if len(toks) == 0 {
				a = "_"
			}
		default:
			panic("unknown oracle kind: " + ans)
		}
		line += " " + arg + "=" + a
	}
	panic("oracle protocol did not terminate: " + op)
}

// ---- helpers ----

func head(s string) string { return strings.SplitN(s, " ", 2)[0] }

// kind is the coarse class of a model answer: ok / oknil / err / panic.
func kind(model string) string {
	if model == "ok nil" {
		return "oknil"
	}
	return head(model)
}

// canonPanic maps "panic <message>" to "panic".
func canonPanic(s string) string {
	if strings.HasPrefix(s, "panic") {
		return "panic"
	}
	return s
}

func panicMon(impl, what string) string {
	if strings.HasPrefix(impl, "panic") {
		return what + " panics: " + impl
	}
	return ""
}

type edKey struct {
	priv ed25519.PrivateKey // 64 bytes: seed ‖ public
	pub  ed25519.PublicKey
	id   []byte // the peer ID, built without bifrost: identity multihash of the PublicKey message
}

// pubMsg is the protobuf PublicKey message of an Ed25519 key (field 1 = 1, field 2 = key).
func pubMsg(pub []byte) []byte {
	return append([]byte{0x08, 0x01, 0x12, byte(len(pub))}, pub...)
}

func idOf(pub []byte) []byte {
	msg := pubMsg(pub)
	id := binary.AppendUvarint(nil, 0) // IDENTITY
	id = binary.AppendUvarint(id, uint64(len(msg)))
	return append(id, msg...)
}

func (e *engine) newKey() *edKey {
	priv := ed25519.NewKeyFromSeed(e.rng.Bytes(32))
	pub := priv.Public().(ed25519.PublicKey)
	return &edKey{priv: priv, pub: pub, id: idOf(pub)}
}

var spaces = []string{" ", "\t", "\n", "\r\n", "\v", "\f", "\u0085", "\u00a0", "\u1680", "\u2000", "\u2001", "\u2005", "\u200a", "\u2028", "\u2029", "\u202f", "\u205f", "\u3000"}

// nearSpaces are byte strings that look like white space to a careless decoder but are not.
var nearSpaces = []string{"\xc2", "\xc2\x84", "\xc2\xa1", "\xe2\x80", "\xe2\x80\x8b", "\xe2\x80\xa7", "\xe2\x81\x9e", "\xe1\x9a", "\xe1\x9a\x81", "\xe3\x80\x81", "\x85", "\xa0", "\x80\x80", "\xe2\x80\xb0", "\u200b", "\ufeff", "\x00", "\x1f", "\x7f", "\xc0\xa0", "\xe0\x80\xa0", "\x1c", "\x1d", "\u180e", "\u2060"}

func (e *engine) ws() string {
	n := e.rng.Intn(3)
	s := ""
	for i := 0; i < n; i++ {
		s += spaces[e.rng.Intn(len(spaces))]
	}
	return s
}

func main() {
	a := lib.ParseArgs()
	e := &engine{a: a, rng: lib.NewRng(a.Seed), m: lib.NewModel(a.Driver)}
	e.rep = lib.NewReport("config", a)
	switch a.Prop {
	case "C11":
		e.runC11()
	case "C38":
		e.runC38()
	case "C39":
		e.runC39()
	default:
		fmt.Println("unknown property", a.Prop)
		return
	}
	e.m.Close()
	e.rep.Write(a.Out)
}
