package main

import (
	"bytes"
	"context"
	"crypto/ed25519"
	"encoding/pem"
	"fmt"
	"io"
	"os"
	"os/exec"
	"path/filepath"
	"regexp"
	"sort"
	"strings"
	"sync"
	"time"

	bcli "github.com/aperturerobotics/bifrost/cli"
	cliutil "github.com/aperturerobotics/bifrost/cli/util"
	"github.com/aperturerobotics/bifrost/crypto"
	bifrost_api "github.com/aperturerobotics/bifrost/daemon/api"
	"github.com/aperturerobotics/bifrost/envelope"
	"github.com/aperturerobotics/bifrost/pubsub"
	pubsub_api "github.com/aperturerobotics/bifrost/pubsub/api"
	ucli "github.com/aperturerobotics/cli"
	"github.com/aperturerobotics/controllerbus/controller"
	"github.com/aperturerobotics/controllerbus/core"
	"github.com/aperturerobotics/controllerbus/directive"
	"github.com/aperturerobotics/starpc/srpc"
	"github.com/blang/semver/v4"
	b58 "github.com/mr-tron/base58/base58"
	"github.com/sirupsen/logrus"
	"golang.org/x/crypto/ssh"

	"verif/harness/lib"
)

// The read-only uses of a key file / key text — the callers and sibling sites of
// keyfile.OpenOrWritePrivKey and keypem.Parse*KeyPem:
//   bifrost util read-private | derive-public   (cli/util readInputFilePrivKey)
//   bifrost util read-public  | derive-ssh-public (cli/util readInputFilePubKey)
//   bifrost envelope seal | unseal              (cli/envelope.go loadPubKeys / loadPrivKeys; these go through OpenOrWritePrivKey)
//   the priv_key_pem field of the Subscribe API (daemon/api/api_pubsub_subscribe.go)
//   bifrost daemon --node-priv                  (cmd/bifrost/cmd_daemon.go runDaemon; real binary)
// are driven through the real command-line wiring (cli.App.Run with the commands BuildCommands()
// returns), the real API object with an in-memory stream, and the real binary as a subprocess,
// on the file states of the OpenOrWritePrivKey cases. Monitor for the read-only uses (util, Subscribe): a
// file state that holds no key is an ERROR — never an absent key, never the identity of a freshly
// drawn key, never a new file — and a state that holds a key yields exactly that key's identity.
// For the callers of OpenOrWritePrivKey (envelope, daemon) a path that does not exist gets a new key
// that must be written, used and reload to the same identity; an existing non-key path is an error.

// keyInFile decodes a key file with encoding/pem and a literal reading of the canonical
// PrivateKey / PublicKey message: which key the file holds, if any.
func keyInFile(content []byte) (priv, pub []byte) {
	b, _ := pem.Decode(content)
	if b == nil {
		return nil, nil
	}
	msg := func(dataLen ...int) []byte {
		d := b.Bytes
		for _, l := range dataLen {
			if len(d) == 4+l && d[0] == 0x08 && d[1] == 0x01 && d[2] == 0x12 && int(d[3]) == l {
				return d[4:]
			}
		}
		return nil
	}
	switch b.Type {
	case "LIBP2P PRIVATE KEY":
		d := msg(64, 96)
		if d == nil || (len(d) == 96 && !bytes.Equal(d[32:64], d[64:])) {
			return nil, nil
		}
		return d[:64], d[32:64]
	case "LIBP2P PUBLIC KEY":
		return nil, msg(32)
	}
	return nil, nil
}

// pathState renders what is at the path after a call, relative to what the case set up.
func pathState(c fsCase, path string, content []byte) string {
	after, rerr := os.ReadFile(path)
	switch c.state {
	case "file":
		if rerr != nil || !bytes.Equal(after, content) {
			return "changed"
		}
		return "same"
	case "dir":
		if st, err := os.Stat(path); err != nil || !st.IsDir() {
			return "changed"
		}
		return "dir"
	case "staterr":
		if _, err := os.Stat(path); err == nil || os.IsNotExist(err) {
			return "changed"
		}
		return "staterr"
	}
	if rerr != nil {
		if _, err := os.Lstat(path); err == nil {
			if _, err := os.Stat(path); err != nil && os.IsNotExist(err) {
				return "missing" // dangling symlink still dangling
			}
		}
		return "missing"
	}
	return "file-created"
}

var stdoutMu sync.Mutex

// withStdout runs f with os.Stdout redirected into a buffer.
func withStdout(f func()) string {
	stdoutMu.Lock()
	defer stdoutMu.Unlock()
	old := os.Stdout
	r, w, err := os.Pipe()
	if err != nil {
		panic(err)
	}
	os.Stdout = w
	done := make(chan string)
	go func() {
		b, _ := io.ReadAll(r)
		done <- string(b)
	}()
	func() {
		defer func() {
			os.Stdout = old
			w.Close()
		}()
		f()
	}()
	return <-done
}

func quietLogger() *logrus.Entry {
	l := logrus.New()
	l.SetOutput(io.Discard)
	l.SetLevel(logrus.DebugLevel)
	return logrus.NewEntry(l)
}

// runCLI runs one command line through the real command definitions, wired as in cmd/bifrost.
// Returns what the command printed, "" / "err" / "panic …".
func runCLI(args ...string) (stdout string, outcome string) {
	ua := &cliutil.UtilArgs{}
	ua.SetLogger(quietLogger())
	ea := &bcli.EnvelopeArgs{}
	app := ucli.NewApp()
	app.Name = "bifrost"
	app.Writer, app.ErrWriter = io.Discard, io.Discard
	app.ExitErrHandler = func(*ucli.Context, error) {}
	app.Commands = []*ucli.Command{
		{Name: "util", Subcommands: ua.BuildCommands(), Flags: ua.BuildFlags()},
		{Name: "envelope", Subcommands: ea.BuildCommands()},
	}
	stdout = withStdout(func() {
		outcome = lib.Recover(func() string {
			if err := app.Run(append([]string{"bifrost"}, args...)); err != nil {
				return "err"
			}
			return "ok"
		})
	})
	return stdout, canonPanic(outcome)
}

func fsArgOf(c fsCase, content []byte) string {
	if c.state == "file" {
		return "file:" + lib.Hex(content)
	}
	return c.state
}

// reduceModel keeps of a model answer `ok k=v …` the named fields only.
func reduceModel(model string, fields ...string) string {
	if !strings.HasPrefix(model, "ok") {
		return model
	}
	out := "ok"
	for _, f := range fields {
		out += " " + f + "=" + lib.KV(model, f)
	}
	return out
}

// roVerdict states the property for one read-only use: got = "err" | "panic" | "ok <identity>".
func roVerdict(what string, c fsCase, got string, wantIdentity string, state string, wantState string) string {
	switch {
	case got == "panic":
		return what + " panics on a key file of class " + c.class
	case state != wantState:
		return fmt.Sprintf("%s changed what is at the key path (%s: %s, want %s)", what, c.class, state, wantState)
	case wantIdentity == "" && got != "err":
		return fmt.Sprintf("%s reports no error for a path that holds no usable key (%s) — it answers %s", what, c.class, lib.Trunc(got))
	case wantIdentity != "" && got == "err":
		return what + " rejects a valid key file (" + c.class + ")"
	case wantIdentity != "" && got != "ok "+wantIdentity:
		return fmt.Sprintf("%s yields an identity that is not the key in the file (%s): %s, want %s", what, c.class, lib.Trunc(got), wantIdentity)
	}
	return ""
}

func wantStateOf(c fsCase) string {
	switch c.state {
	case "file":
		return "same"
	case "dir":
		return "dir"
	case "staterr":
		return "staterr"
	}
	return "missing"
}

func idHexOfPub(pub []byte) string { return "id=" + lib.Hex(idOf(pub)) }

// pubOfPemFile reads a LIBP2P PUBLIC KEY PEM written by a command.
func pubOfPemFile(path string) ([]byte, bool) {
	dat, err := os.ReadFile(path)
	if err != nil {
		return nil, false
	}
	_, pub := keyInFile(dat)
	b, _ := pem.Decode(dat)
	return pub, pub != nil && b != nil && b.Type == "LIBP2P PUBLIC KEY"
}

// utilCases: read-private, derive-public, read-public, derive-ssh-public on one file state.
func (e *engine) utilCases(c fsCase) {
	for _, cmd := range []string{"read-private", "derive-public", "read-public", "derive-ssh-public"} {
		dir, err := os.MkdirTemp("", "verif-c39u-")
		if err != nil {
			panic(err)
		}
		path, content := c.setup(dir)
		priv, pub := keyInFile(content)
		private := cmd == "read-private" || cmd == "derive-public"
		want := ""
		if c.state == "file" && ((private && priv != nil) || (!private && pub != nil)) {
			want = idHexOfPub(pub)
		}
		modelOp := "config.readPub fs=" + fsArgOf(c, content)
		if private {
			modelOp = "config.readPriv fs=" + fsArgOf(c, content)
		}
		model := reduceModel(e.ask(modelOp), "id")
		out := filepath.Join(dir, "out.txt")
		args := []string{"util", cmd, "-f", path}
		if strings.HasPrefix(cmd, "derive") {
			args = append(args, "-o", out)
		}
		stdout, oc := runCLI(args...)
		got := oc
		if oc == "ok" {
			switch cmd {
			case "read-private", "read-public":
				idb, err := b58.Decode(strings.TrimSuffix(stdout, "\n"))
				if err != nil || !strings.HasSuffix(stdout, "\n") {
					got = "ok unparsable-output " + lib.Hex([]byte(stdout))
				} else {
					got = "ok id=" + lib.Hex(idb)
				}
			case "derive-public":
				if p, ok := pubOfPemFile(out); ok {
					got = "ok " + idHexOfPub(p)
				} else {
					got = "ok no-public-key-pem-written"
				}
			case "derive-ssh-public":
				got = "ok no-ssh-key-written"
				if dat, err := os.ReadFile(out); err == nil {
					if pk, _, _, _, err := ssh.ParseAuthorizedKey(dat); err == nil {
						if cp, ok := pk.(ssh.CryptoPublicKey); ok {
							if ek, ok := cp.CryptoPublicKey().(ed25519.PublicKey); ok {
								got = "ok " + idHexOfPub(ek)
							}
						}
					}
				}
			}
		} else if _, err := os.Stat(out); err == nil {
			got = "ok output-written-despite-error"
		}
		state := pathState(c, path, content)
		mon := roVerdict("bifrost util "+cmd, c, got, want, state, wantStateOf(c))
		op := fmt.Sprintf("%s cmd=%s class=%s", modelOp, cmd, c.class)
		e.rep.Compare(op, model, got, "util."+cmd+"."+head(model), "config.util."+cmd+":"+c.class, mon)
		os.RemoveAll(dir)
	}
}

// createdKey describes a key file that a command created at a path that did not exist.
type createdKey struct {
	fs   string // model rendering: "file type=… bytes=…"
	priv []byte
	pub  []byte
	ok   bool // a private 0600 LIBP2P PRIVATE KEY file holding a well-formed Ed25519 key
}

func inspectCreated(path string) createdKey {
	after, err := os.ReadFile(path)
	if err != nil {
		return createdKey{}
	}
	c := createdKey{fs: strings.Replace(blockOf(after), "ok ", "file ", 1)}
	c.priv, c.pub = keyInFile(after)
	st, serr := os.Stat(path)
	c.ok = c.priv != nil && serr == nil && st.Mode().Perm() == 0o600 && bytes.Equal(ed25519.NewKeyFromSeed(c.priv[:32]), c.priv)
	return c
}

// envelopeCases: `envelope seal` and `envelope unseal` with the key path in the given state. Both load
// their keys with keyfile.OpenOrWritePrivKey: an existing file must hold a private key (anything else
// is an error and is left alone); a path that does not exist gets a NEW key, which must be WRITTEN
// (private PEM file, mode 0600), must be the key actually used, and must load again to the same identity.
func (e *engine) envelopeCases(c fsCase, other *edKey) {
	payload := []byte("payload " + c.class)
	missing := c.state == "missing"
	sealTo := func(dir string, pub []byte) string {
		tk, err := crypto.UnmarshalEd25519PublicKey(append([]byte(nil), pub...))
		if err != nil {
			panic(err)
		}
		env, err := envelope.BuildEnvelope(lib.NewRng(e.a.Seed+7), "bifrost/cli envelope v1", payload, []crypto.PubKey{tk}, &envelope.EnvelopeConfig{
			GrantConfigs: []*envelope.EnvelopeGrantConfig{{ShareCount: 1, KeypairIndexes: []uint32{0}}},
		})
		if err != nil {
			panic(err)
		}
		edat, _ := env.MarshalVT()
		p := filepath.Join(dir, "env.bin")
		writeFile(p, edat)
		return p
	}
	for _, cmd := range []string{"seal", "unseal"} {
		dir, err := os.MkdirTemp("", "verif-c39e-")
		if err != nil {
			panic(err)
		}
		path, content := c.setup(dir)
		priv, pub := keyInFile(content)
		if c.state != "file" || priv == nil {
			priv, pub = nil, nil // a public-key PEM is not a key file for OpenOrWritePrivKey
		}
		in, out := filepath.Join(dir, "in.bin"), filepath.Join(dir, "out.bin")
		writeFile(in, payload)
		if cmd == "unseal" {
			target := other.pub
			if priv != nil {
				target = pub
			}
			in = sealTo(dir, target)
		}
		_, oc := runCLI("envelope", cmd, "-k", path, "-i", in, "-o", out)
		state := pathState(c, path, content)
		var made createdKey
		if state == "file-created" {
			made = inspectCreated(path)
		}
		// which key the command used
		used := "" // hex of the public key the command worked with, "" = unknown
		outWritten := false
		if dat, err := os.ReadFile(out); err == nil {
			outWritten = true
			if cmd == "seal" {
				env := &envelope.Envelope{}
				if env.UnmarshalVT(dat) == nil && len(env.GetKeypairs()) == 1 {
					if _, p := keyInFile(env.GetKeypairs()[0].GetPubKey()); p != nil {
						used = lib.Hex(p)
					}
				}
			} else if bytes.Equal(dat, payload) {
				used = lib.Hex(pub)
			}
		}
		what := "bifrost envelope " + cmd
		mon := ""
		loaded := false // did the loader come back with a key (as far as can be observed)
		switch {
		case oc == "panic":
			mon = what + " panics on a key path of class " + c.class
		case !missing && state != wantStateOf(c):
			mon = fmt.Sprintf("%s changed what is at an existing key path (%s: %s)", what, c.class, state)
		case !missing && priv == nil:
			if oc != "err" || outWritten {
				mon = fmt.Sprintf("%s reports no error for an existing path that holds no private key (%s)", what, c.class)
			}
		case !missing: // an existing key file
			loaded = true
			if oc != "ok" || used != lib.Hex(pub) {
				mon = fmt.Sprintf("%s with a valid key file (%s) does not work with the key in the file (outcome %s, key used %q)", what, c.class, oc, used)
			}
		case missing && !c.write:
			if oc != "err" || outWritten || state != "missing" {
				mon = fmt.Sprintf("%s: the new key cannot be written (%s) but the command reports no error / produced output (outcome %s, path %s)", what, c.class, oc, state)
			}
		default: // missing path in a writable directory: a new key must be written and used
			switch {
			case state != "file-created" && (oc == "ok" || outWritten):
				mon = what + " on a key path that does not exist worked with a key that was NOT written to the path: the identity is lost (" + c.class + ")"
			case state != "file-created":
				mon = what + " on a key path that does not exist in a writable directory did not write a new key there (" + c.class + ")"
			case !made.ok:
				mon = what + " created something at the missing key path that is not a private (0600) LIBP2P PRIVATE KEY file of a well-formed Ed25519 key (" + c.class + ")"
			case e.noteGenerated(made.priv, what+" "+c.class) != "":
				mon = what + ": the key written for a missing path is not new (the same private key was generated before in this run)"
			case cmd == "seal" && (oc != "ok" || used != lib.Hex(made.pub)):
				mon = fmt.Sprintf("%s on a missing key path did not seal to the key it wrote there (outcome %s, sealed to %q, file holds %s)", what, oc, used, lib.Hex(made.pub))
			case cmd == "unseal" && (oc == "ok" || outWritten):
				mon = what + " with a freshly generated key claims to have opened an envelope sealed to another key"
			default:
				loaded = true
				// the written key must load again to the same identity: seal → unseal (resp. seal again) with the same path
				before, _ := os.ReadFile(path)
				out2 := filepath.Join(dir, "out2.bin")
				in2 := in
				cmd2 := "unseal"
				if cmd == "seal" {
					in2 = out
				} else {
					in2 = sealTo(dir, made.pub)
				}
				_, oc2 := runCLI("envelope", cmd2, "-k", path, "-i", in2, "-o", out2)
				dat2, _ := os.ReadFile(out2)
				after, _ := os.ReadFile(path)
				switch {
				case oc2 != "ok" || !bytes.Equal(dat2, payload):
					mon = what + ": the key file written for a missing path does not reload to the same identity (an envelope sealed to it cannot be opened with it: " + oc2 + ")"
				case !bytes.Equal(before, after):
					mon = what + ": loading the new key file a second time changed it"
				}
			}
		}
		// model comparison
		gen, wr := "none", b01(c.write)
		fsS := state
		if state == "file-created" {
			fsS = made.fs
			if made.priv != nil {
				gen = lib.Hex(made.priv)
			}
		}
		modelOp := "config.loadPriv"
		if cmd == "seal" {
			modelOp = "config.loadPub"
		}
		op := fmt.Sprintf("%s fs=%s gen=%s write=%s", modelOp, fsArgOf(c, content), gen, wr)
		model := e.ask(op)
		// reduce the model answer to "did it load" + path state (the loaded key is compared by the monitor)
		mhead, mfs := head(model), ""
		if i := strings.Index(model, " fs="); i >= 0 {
			mfs = model[i+4:]
		}
		impl := oc
		if oc != "panic" {
			h := "err"
			if loaded {
				h = "ok"
			}
			impl = h + " fs=" + fsS
			model = mhead + " fs=" + mfs
		}
		e.rep.Compare(op+" class="+c.class, model, impl, "envelope."+cmd+"."+mhead+map[bool]string{true: ".created", false: ""}[missing && c.write], "config.envelope."+cmd+":"+c.class, mon)
		os.RemoveAll(dir)
	}
}

// ---- Subscribe API ----

// subStream is an in-memory SRPCPubSubService_SubscribeStream.
type subStream struct {
	srpc.Stream
	ctx  context.Context
	msgs chan *pubsub_api.SubscribeRequest
}

func (s *subStream) Context() context.Context { return s.ctx }
func (s *subStream) Recv() (*pubsub_api.SubscribeRequest, error) {
	select {
	case m := <-s.msgs:
		return m, nil
	case <-s.ctx.Done():
		return nil, s.ctx.Err()
	}
}
func (s *subStream) RecvTo(m *pubsub_api.SubscribeRequest) error {
	r, err := s.Recv()
	if err != nil {
		return err
	}
	*m = *r //nolint
	return nil
}
func (s *subStream) Send(*pubsub_api.SubscribeResponse) error         { return nil }
func (s *subStream) SendAndClose(*pubsub_api.SubscribeResponse) error { return nil }

// captureCtl records the private key of every BuildChannelSubscription directive on the bus.
type captureCtl struct {
	got chan crypto.PrivKey
}

func (c *captureCtl) GetControllerInfo() *controller.Info {
	return controller.NewInfo("verif/capture", semver.MustParse("0.0.1"), "captures channel subscriptions")
}
func (c *captureCtl) Execute(ctx context.Context) error { return nil }
func (c *captureCtl) Close() error                      { return nil }
func (c *captureCtl) HandleDirective(ctx context.Context, di directive.Instance) ([]directive.Resolver, error) {
	if d, ok := di.GetDirective().(pubsub.BuildChannelSubscription); ok {
		select {
		case c.got <- d.BuildChannelSubscriptionPrivKey():
		default:
		}
	}
	return nil, nil
}

// subscribeCase sends one Subscribe request carrying txt as priv_key_pem (and a channel id).
func (e *engine) subscribeCase(class string, txt []byte) {
	if len(txt) == 0 {
		return // an empty field means "no inline key" to the API
	}
	priv, _ := keyInFile(txt)
	model := reduceModel(e.ask("config.subscribe txt="+lib.Hex(txt)), "priv")
	ctx, cancel := context.WithTimeout(context.Background(), 10*time.Second)
	defer cancel()
	b, _, err := core.NewCoreBus(ctx, quietLogger())
	if err != nil {
		panic(err)
	}
	cc := &captureCtl{got: make(chan crypto.PrivKey, 1)}
	rel, err := b.AddController(ctx, cc, nil)
	if err != nil {
		panic(err)
	}
	defer rel()
	api, err := bifrost_api.NewAPI(b, &bifrost_api.Config{})
	if err != nil {
		panic(err)
	}
	st := &subStream{ctx: ctx, msgs: make(chan *pubsub_api.SubscribeRequest, 1)}
	st.msgs <- &pubsub_api.SubscribeRequest{PrivKeyPem: string(txt), ChannelId: "verif-channel"}
	ret := make(chan string, 1)
	go func() {
		ret <- canonPanic(lib.Recover(func() string {
			if err := api.Subscribe(st); err != nil {
				return "err"
			}
			return "returned-nil"
		}))
	}()
	got := ""
	select {
	case k := <-cc.got:
		got = "ok priv=nil"
		if k != nil {
			got = "ok priv=" + lib.Hex(privRaw(k))
		}
		cancel()
		<-ret
	case r := <-ret:
		got = r
		select {
		case k := <-cc.got:
			got = "ok priv=nil"
			if k != nil {
				got = "ok priv=" + lib.Hex(privRaw(k))
			}
		default:
		}
	}
	mon := ""
	switch {
	case got == "panic":
		mon = "API.Subscribe panics on a priv_key_pem of class " + class + " (a remote client crashes the handler)"
	case priv == nil && got != "err":
		mon = "API.Subscribe accepts a priv_key_pem that holds no private key (" + class + ") and subscribes as " + lib.Trunc(got)
	case priv != nil && got != "ok priv="+lib.Hex(priv):
		mon = "API.Subscribe does not subscribe with the key given in priv_key_pem (" + class + "): " + lib.Trunc(got)
	}
	e.rep.Compare(fmt.Sprintf("config.subscribe txt=%s class=%s", lib.Hex(txt), class), model, got, "subscribe."+head(model), "config.subscribe:"+class, mon)
}

// ---- the daemon binary ----

var daemonIDRe = regexp.MustCompile(`node controller resolved w/ ID: ([1-9A-HJ-NP-Za-km-z]+)`)

// buildDaemon builds cmd/bifrost of the repository under test. "" = could not be built.
func buildDaemon() (string, string) {
	repo := os.Getenv("VERIF_REPO")
	if repo == "" {
		repo = "/repo"
	}
	outDir := filepath.Join("..", ".work")
	if err := os.MkdirAll(outDir, 0o755); err != nil {
		return "", err.Error()
	}
	abs, err := filepath.Abs(filepath.Join(outDir, "bifrost-c39"))
	if err != nil {
		return "", err.Error()
	}
	cmd := exec.Command("go", "build", "-trimpath", "-o", abs, "./cmd/bifrost")
	cmd.Dir = repo
	env := []string{"GOFLAGS=-mod=mod", "GOPROXY=off"}
	for _, kv := range os.Environ() {
		if strings.HasPrefix(kv, "GOFLAGS=") || strings.HasPrefix(kv, "GOPROXY=") || strings.HasPrefix(kv, "GOTOOLCHAIN=") || strings.HasPrefix(kv, "GOSUMDB=") {
			continue
		}
		env = append(env, kv)
	}
	cmd.Env = env
	if out, err := cmd.CombinedOutput(); err != nil {
		return "", lib.Trunc(string(out))
	}
	return abs, ""
}

// daemonRun is one start of the real binary.
type daemonRun struct {
	c        fsCase
	content  []byte
	after    []byte
	out      string
	timedOut bool
	state    string
	perm     os.FileMode
}

// startDaemon runs `bifrost daemon --node-priv <path>` with a config path that does not exist, so the
// process ends right after the node identity is established (or refused).
func startDaemon(bin string, c fsCase) *daemonRun {
	dir, err := os.MkdirTemp("", "verif-c39d-")
	if err != nil {
		panic(err)
	}
	defer os.RemoveAll(dir)
	r := &daemonRun{c: c}
	var path string
	path, r.content = c.setup(dir)
	ctx, cancel := context.WithTimeout(context.Background(), 40*time.Second)
	defer cancel()
	cmd := exec.CommandContext(ctx, bin, "daemon", "--node-priv", path, "--config", filepath.Join(dir, "no-such-config.yaml"))
	cmd.Dir = dir
	outb, _ := cmd.CombinedOutput()
	r.out = string(outb)
	r.timedOut = ctx.Err() != nil
	r.after, _ = os.ReadFile(path)
	r.state = pathState(c, path, r.content)
	if st, err := os.Stat(path); err == nil {
		r.perm = st.Mode().Perm()
	}
	return r
}

func (e *engine) daemonVerdict(r *daemonRun) {
	c, content, out := r.c, r.content, r.out
	// the identity the daemon came up with
	got := "err"
	if m := daemonIDRe.FindStringSubmatch(out); m != nil {
		idb, _ := b58.Decode(m[1])
		got = "ok id=" + lib.Hex(idb)
	}
	if strings.Contains(out, "panic:") || strings.Contains(out, "goroutine 1 [") {
		got = "panic"
	} else if r.timedOut {
		got = "ok still-running-after-40s"
	}
	// expectation, from the file states alone
	want, wantState := "", wantStateOf(c)
	gen := "none"
	switch {
	case c.state == "file":
		if p, pub := keyInFile(content); p != nil {
			want = idHexOfPub(pub)
		}
	case c.state == "missing" && c.write:
		// a new key must have been written; the daemon must run under exactly that key
		wantState = "file-created"
		if p, pub := keyInFile(r.after); p != nil {
			want = idHexOfPub(pub)
			gen = lib.Hex(p)
		} else {
			want = "a-new-key-file"
		}
	}
	mon := roVerdict("bifrost daemon --node-priv", c, got, want, r.state, wantState)
	if mon == "" && c.state == "missing" && c.write && r.perm != 0o600 {
		mon = "the daemon's new key file is not private (mode 0600)"
	}
	model := e.ask(fmt.Sprintf("config.daemon fs=%s gen=%s write=%s", fsArgOf(c, content), gen, b01(c.write)))
	if strings.HasPrefix(model, "ok ") {
		// model: ok <priv hex> fs=…  →  ok id=<id of its public half>
		k := lib.Unhex(strings.Fields(model)[1])
		if len(k) == 64 {
			model = "ok " + idHexOfPub(k[32:])
		}
	} else {
		model = head(model)
	}
	e.rep.Compare(fmt.Sprintf("config.daemon fs=%s class=%s", fsArgOf(c, content), c.class), model, got, "daemon."+head(model), "config.daemon:"+c.class, mon)
}

// runC39Callers drives every caller on every file-state class.
func (e *engine) runC39Callers(cases []fsCase, k *edKey) {
	e.rep.Require(
		"util.read-private.ok", "util.read-private.err", "util.derive-public.ok", "util.derive-public.err",
		"util.read-public.ok", "util.read-public.err", "util.derive-ssh-public.ok", "util.derive-ssh-public.err",
		"envelope.seal.ok", "envelope.seal.err", "envelope.unseal.ok", "envelope.unseal.err", "envelope.seal.ok.created", "envelope.unseal.ok.created",
		"subscribe.ok", "subscribe.err", "daemon.ok", "daemon.err",
	)
	t0 := time.Now()
	defer func() { e.rep.Extra["c39_callers_seconds"] = fmt.Sprintf("%.1f", time.Since(t0).Seconds()) }()
	other := e.newKey()
	reps := e.a.Scale
	if reps > 3 {
		reps = 3
	}
	for r := 0; r < reps; r++ {
		for _, c := range cases {
			e.utilCases(c)
			e.envelopeCases(c, other)
			if c.state == "file" {
				dir, err := os.MkdirTemp("", "verif-c39s-")
				if err != nil {
					panic(err)
				}
				_, content := c.setup(dir)
				os.RemoveAll(dir)
				e.subscribeCase(c.class, content)
			}
		}
	}
	e.rep.Extra["c39_cli_api_seconds"] = fmt.Sprintf("%.1f", time.Since(t0).Seconds())
	bin, fail := buildDaemon()
	e.rep.Extra["c39_daemon_build_done_at"] = fmt.Sprintf("%.1f", time.Since(t0).Seconds())
	if bin == "" {
		e.rep.Disagree(lib.Disagreement{Op: "go build ./cmd/bifrost", Monitor: "unconfirmed", What: "cmd/bifrost of the repository under test does not build, runDaemon cannot be driven: " + fail, Key: "config.daemon:build"})
		return
	}
	var runs []*daemonRun
	var mu sync.Mutex
	var wg sync.WaitGroup
	sem := make(chan struct{}, 6)
	for _, c := range cases {
		switch c.class {
		case "missing", "missing-dangling-symlink", "missing-parent", "enotdir", "directory", "empty-file", "garbage-file",
			"wrong-pem-type-public", "bad-body-length", "valid-key", "valid-key-96", "valid-leading-text":
			wg.Add(1)
			go func(c fsCase) {
				defer wg.Done()
				sem <- struct{}{}
				r := startDaemon(bin, c)
				<-sem
				mu.Lock()
				runs = append(runs, r)
				mu.Unlock()
			}(c)
		}
	}
	wg.Wait()
	sort.Slice(runs, func(i, j int) bool { return runs[i].c.class < runs[j].c.class })
	for _, r := range runs {
		e.daemonVerdict(r)
	}
}
