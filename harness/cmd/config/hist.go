package main

import (
	"context"
	"encoding/pem"
	"fmt"
	"runtime"
	"strconv"
	"strings"

	"github.com/aperturerobotics/bifrost/crypto"
	"github.com/aperturerobotics/bifrost/keypem"
	"github.com/aperturerobotics/bifrost/peer"
	"github.com/aperturerobotics/bifrost/tptaddr"
	tptaddr_static "github.com/aperturerobotics/bifrost/tptaddr/static"
	"github.com/aperturerobotics/bifrost/util/confparse"
	b58 "github.com/mr-tron/base58/base58"

	"verif/harness/lib"
)

// History independence. Every parser / validator of this engine must be a FUNCTION of its input: the
// outcome for an input x may not depend on which inputs the process handled before (scratch objects
// taken from a sync.Pool and not reset on an error path, caches keyed too coarsely, package-level
// buffers …). The phase runs under GOMAXPROCS(1) (one P: sync.Pool's per-P slot is deterministic) and,
// for every ordered pair (p, x) of a parser's input set — the set mixes inputs with absent fields, empty
// inputs, one input per error class, inputs that are rejected LATE (after the fields were decoded),
// inputs with every field set and valid keys of every form — evaluates p and then x, and requires the
// canonical outcome of x to be the same every time; when two evaluations of x differ, x is evaluated
// once more after two garbage collections (which empty every sync.Pool) to name the outcome it has
// alone. A difference is a confirmed violation naming p and x.

type histParser struct {
	name string
	op   func(x []byte) string // model op line for input x ("" = no model counterpart)
	ask  bool                  // the model op needs the oracle protocol
	f    func(x []byte) string // the real parser, canonical outcome
}

func (e *engine) historyPhase(parsers []histParser, inputs map[string][][]byte) {
	prev := runtime.GOMAXPROCS(1)
	defer runtime.GOMAXPROCS(prev)
	for _, p := range parsers {
		xs := inputs[p.name]
		run := func(x []byte) string { return canonPanic(lib.Recover(func() string { return p.f(x) })) }
		runtime.GC()
		runtime.GC()
		for _, x := range xs {
			alone := run(x)
			mon := ""
			for _, poison := range xs {
				run(poison)
				if got := run(x); got != alone && mon == "" {
					// name the outcome x has in a fresh state (two collections empty every sync.Pool)
					runtime.GC()
					runtime.GC()
					clean := run(x)
					other := got
					if other == clean {
						other = alone
					}
					mon = fmt.Sprintf("%s: the outcome depends on the previous input: %s alone gives %s, but after %s it gives %s",
						p.name, lib.Hex(x), lib.Trunc(clean), lib.Hex(poison), lib.Trunc(other))
					alone = clean
				}
			}
			if strings.HasPrefix(alone, "panic") && mon == "" {
				mon = p.name + " panics"
			}
			model := alone
			op := "history " + p.name + " x=" + lib.Hex(x)
			if p.op != nil {
				op = p.op(x)
				if p.ask {
					model = e.ask(op)
				} else {
					model = e.m.Query(op)
				}
				op += " history=" + p.name
			}
			e.rep.Compare(op, model, alone, "history."+p.name, "config.history:"+p.name, mon)
		}
	}
}

func resOK(b []byte, err error) string {
	if err != nil {
		return "err"
	}
	return "ok " + lib.Hex(b)
}

// keyBodies are PrivateKey / PublicKey protobuf messages: absent fields, empty, every error class,
// rejected late, all fields set, valid keys of every form.
func (e *engine) keyBodies(k, k2 *edKey) [][]byte {
	red := append(append([]byte(nil), k.priv...), k.pub...)
	badRed := append(append([]byte(nil), k.priv...), k2.pub...)
	full := keyMsg(1, k.priv)
	return [][]byte{
		nil,                // empty message: no type, no data
		{0x08, 0x01},       // type only, data ABSENT
		{0x08, 0x00},       // explicit zero type, data absent
		{0x12, 0x00},       // empty data, type absent
		keyMsg(0, k2.priv), // data only, type absent
		{0x18, 0x01},       // unknown field only
		full,               // valid private key
		keyMsg(1, k2.priv), // another valid private key
		keyMsg(1, red),     // valid 96-byte form
		pubMsg(k.pub),      // valid public key
		pubMsg(k2.pub),     // another valid public key
		append(append([]byte(nil), full...), 0x1a, 0x05, 0x01), // valid key + TRUNCATED trailing field: rejected late
		append(append([]byte(nil), full...), 0x08),             // valid key + truncated varint: rejected late
		keyMsg(2, k.priv),               // all fields set, unsupported key type: rejected after decoding
		keyMsg(3, k2.pub),               // unsupported key type with public-key sized data
		keyMsg(1, badRed),               // mismatched redundant key: rejected by the Ed25519 decoder
		keyMsg(1, k.priv[:63]),          // bad length
		full[:len(full)-1],              // truncated data
		e.rng.Bytes(1 + e.rng.Intn(30)), // random
	}
}

func (e *engine) runC11History(keys []*edKey) {
	k, k2 := keys[0], keys[1]
	bodies := e.keyBodies(k, k2)
	var pems, confs [][]byte
	for i, b := range bodies {
		pems = append(pems, pem.EncodeToMemory(&pem.Block{Type: "LIBP2P PRIVATE KEY", Bytes: b}))
		if i%2 == 0 || len(b) > 30 {
			pems = append(pems, pem.EncodeToMemory(&pem.Block{Type: "LIBP2P PUBLIC KEY", Bytes: b}))
		}
		if len(b) > 0 {
			confs = append(confs, []byte(b58.Encode(b)))
		}
	}
	pems = append(pems, nil, []byte("no block here"), pem.EncodeToMemory(&pem.Block{Type: "CERTIFICATE", Bytes: keyMsg(1, k.priv)}))
	for i, p := range pems {
		if i%3 == 0 && len(p) > 0 {
			confs = append(confs, p)
		}
	}
	confs = append(confs, nil, []byte("  "), []byte("0OIl"))
	raws := [][]byte{nil, k.priv, k2.priv, append(append([]byte(nil), k.priv...), k.pub...), append(append([]byte(nil), k.priv...), k2.pub...), k.priv[:63], k.pub}
	hexOp := func(op, arg string) func([]byte) string {
		return func(x []byte) string { return "config." + op + " " + arg + "=" + lib.Hex(x) }
	}
	parsers := []histParser{
		{"unmarshalPriv", hexOp("unmarshalPriv", "b"), false, func(x []byte) string {
			key, err := crypto.UnmarshalPrivateKey(x)
			if err != nil {
				return "err"
			}
			return "ok " + lib.Hex(privRaw(key))
		}},
		{"unmarshalPub", hexOp("unmarshalPub", "b"), false, func(x []byte) string {
			key, err := crypto.UnmarshalPublicKey(x)
			if err != nil {
				return "err"
			}
			return "ok " + lib.Hex(pubRaw(key))
		}},
		{"unmarshalEdPriv", hexOp("unmarshalEdPriv", "d"), false, func(x []byte) string {
			key, err := crypto.UnmarshalEd25519PrivateKey(x)
			if err != nil {
				return "err"
			}
			return "ok " + lib.Hex(privRaw(key))
		}},
		{"parseKeyPem", hexOp("parseKeyPem", "d"), true, func(x []byte) string {
			sk, pk, err := keypem.ParseKeyPem(x)
			if err != nil {
				return "err"
			}
			s, p := "nil", "nil"
			if !isNilPriv(sk) {
				s = lib.Hex(privRaw(sk))
			}
			if !isNilPub(pk) {
				p = lib.Hex(pubRaw(pk))
			}
			return "ok priv=" + s + " pub=" + p
		}},
		{"parsePrivKeyPem", hexOp("parsePrivKeyPem", "d"), true, func(x []byte) string { return resPriv(keypem.ParsePrivKeyPem(x)) }},
		{"parsePubKeyPem", hexOp("parsePubKeyPem", "d"), true, func(x []byte) string { return resPub(keypem.ParsePubKeyPem(x)) }},
		{"confPrivPem", hexOp("confPrivPem", "d"), true, func(x []byte) string { return resPriv(confparse.ParsePrivateKeyPEM(x)) }},
		{"confPubPem", hexOp("confPubPem", "d"), true, func(x []byte) string { return resPub(confparse.ParsePublicKeyPEM(x)) }},
		{"confPriv", hexOp("confPriv", "s"), true, func(x []byte) string { return resPriv(confparse.ParsePrivateKey(string(x))) }},
		{"confPub", hexOp("confPub", "s"), true, func(x []byte) string { return resPub(confparse.ParsePublicKey(string(x))) }},
		{"parsePeer", func(x []byte) string { return "config.parsePeer priv=" + lib.Hex(x) + " pub=- id=-" }, true, func(x []byte) string {
			p, err := confparse.ParsePeer(string(x), "", "")
			if err != nil {
				return "err"
			}
			sk, err := p.GetPrivKey(context.Background())
			ps := "nil"
			if err == nil && sk != nil {
				ps = lib.Hex(privRaw(sk))
			}
			return fmt.Sprintf("ok priv=%s pub=%s id=%s", ps, lib.Hex(pubRaw(p.GetPubKey())), lib.Hex([]byte(p.GetPeerID())))
		}},
	}
	in := map[string][][]byte{"unmarshalPriv": bodies, "unmarshalPub": bodies, "unmarshalEdPriv": raws,
		"parseKeyPem": pems, "parsePrivKeyPem": pems, "parsePubKeyPem": pems, "confPrivPem": pems, "confPubPem": pems,
		"confPriv": confs, "confPub": confs, "parsePeer": confs}
	var req []string
	for _, p := range parsers {
		req = append(req, "history."+p.name)
	}
	e.rep.Require(req...)
	e.historyPhase(parsers, in)
	e.retainPhase(c11Keepers(), in)
}

func strs(l ...string) [][]byte {
	out := make([][]byte, len(l))
	for i := range l {
		out[i] = []byte(l[i])
	}
	return out
}

func (e *engine) runC38History() {
	id1, id2 := b58.Encode(e.newKey().id), b58.Encode(e.newKey().id)
	hexOp := func(op, arg, extra string) func([]byte) string {
		return func(x []byte) string { return "config." + op + " " + arg + "=" + lib.Hex(x) + extra }
	}
	parsers := []histParser{
		{"protoId", hexOp("protoId", "s", " allow=0"), false, func(x []byte) string {
			id, err := confparse.ParseProtocolID(string(x), false)
			return resOK([]byte(id), err)
		}},
		{"peerId", hexOp("peerId", "s", ""), false, func(x []byte) string {
			id, err := confparse.ParsePeerID(string(x))
			return resOK([]byte(id), err)
		}},
		{"validatePeerId", hexOp("validatePeerId", "s", ""), false, func(x []byte) string {
			if confparse.ValidatePeerID(string(x)) == nil {
				return "ok 1"
			}
			return "ok 0"
		}},
		{"tptAddr", hexOp("tptAddr", "s", ""), false, func(x []byte) string {
			t, a, err := tptaddr.ParseTptAddr(string(x))
			if err != nil {
				return "err"
			}
			return "ok t=" + lib.Hex([]byte(t)) + " a=" + lib.Hex([]byte(a))
		}},
		{"peerAddrMap", func(x []byte) string { return "config.peerAddrMap l=" + hexList([]string{string(x)}) }, false, func(x []byte) string {
			m, errs := tptaddr_static.ParsePeerAddressMap([]string{string(x)})
			ps := "_"
			for k, v := range m {
				ps = lib.Hex([]byte(k)) + ":" + hexList(v)
			}
			return fmt.Sprintf("ok errs=%d peers=%s", len(errs), ps)
		}},
		{"duration", hexOp("duration", "s", ""), true, func(x []byte) string {
			d, err := confparse.ParseDuration(string(x))
			if err != nil {
				return "err"
			}
			return "ok " + strconv.FormatInt(int64(d), 10)
		}},
		{"timestamp", hexOp("timestamp", "s", ""), true, func(x []byte) string {
			ts, err := confparse.ParseTimestamp(string(x))
			if err != nil {
				return "err"
			}
			if ts == nil {
				return "ok nil"
			}
			return fmt.Sprintf("ok %d,%d", ts.GetSeconds(), ts.GetNanos())
		}},
		{"url", func(x []byte) string { return "config.url kind=url s=" + lib.Hex(x) }, true, func(x []byte) string {
			u, err := confparse.ParseURL(string(x))
			if err != nil {
				return "err"
			}
			if u == nil {
				return "ok nil"
			}
			return "ok " + lib.Hex([]byte(urlCanon(u)))
		}},
		{"regexp", func(x []byte) string { return "config.url kind=re s=" + lib.Hex(x) }, true, func(x []byte) string {
			re, err := confparse.ParseRegexp(string(x))
			if err != nil {
				return "err"
			}
			if re == nil {
				return "ok nil"
			}
			return "ok " + lib.Hex([]byte(re.String()))
		}},
		{"peerIdOfText", nil, false, func(x []byte) string {
			id, err := peer.IDB58Decode(string(x))
			return resOK([]byte(id), err)
		}},
	}
	ids := strs("", id1, id2, " "+id1, id1+"1", "11", "0", "l", "\xff", b58.Encode([]byte{0, 5, 1}), b58.Encode([]byte{0x12, 2, 0xaa, 0xbb}))
	in := map[string][][]byte{
		"protoId":        strs("", "a", "b/c", "é", "\xff", "a\xc0\x80", "世", "\x00"),
		"peerId":         ids,
		"validatePeerId": ids,
		"peerIdOfText":   ids,
		"tptAddr":        strs("", "udp|1.2.3.4:5", "|", "a|", "|b", "a|b|c", "udp", "é|x", "\xff|\xff"),
		"peerAddrMap":    strs("", id1+"|udp|1.2.3.4:5", id2+"|ws|host/path", " "+id1+" | udp|x ", id1+"|udp", id1+"|", "nope|udp|x", "|", id1+"0|udp|x"),
		"duration":       strs("", "1s", "1h2m3s", "-5ms", "abc", "1", "9223372036854775808ns", "1.5h", " 1s"),
		"timestamp":      strs("", "1629048153000", "2021-08-15T15:49:13Z", "2021-08-15T15:49:13.123456789Z", "invalid", "\"2021-08-15T15:49:13Z\"", "null", "1e3", "2021-02-30T00:00:00Z"),
		"url":            strs("", "http://example.com/a?x=1#f", "https://user:pw@host:8443/p%2Fq", "%zz", "http://[::1", "://x", "/relative", "a b"),
		"regexp":         strs("", "a+", "^bifrost/.*$", "(", "[a-", "(?i)x", "a**", "\\pL"),
	}
	var req []string
	for _, p := range parsers {
		req = append(req, "history."+p.name)
	}
	e.rep.Require(req...)
	e.historyPhase(parsers, in)
	e.c38Parsers, e.c38Inputs = parsers, in
}

// runC38Trunc: every proper prefix of every input of the history sets (valid canonical texts of
// every parser among them) — a truncated valid value is the input that reaches length-guarded fast
// paths. Monitor: no panic; the outcome is the model's.
func (e *engine) runC38Trunc() {
	for _, p := range e.c38Parsers {
		seen := map[string]bool{}
		for _, x := range e.c38Inputs[p.name] {
			for n := 0; n < len(x); n++ {
				pre := x[:n:n]
				if seen[string(pre)] {
					continue
				}
				seen[string(pre)] = true
				impl := canonPanic(lib.Recover(func() string { return p.f(pre) }))
				model := impl
				op := "trunc " + p.name + " x=" + lib.Hex(pre)
				if p.op != nil {
					op = p.op(pre)
					if p.ask {
						model = e.ask(op)
					} else {
						model = e.m.Query(op)
					}
					op += " trunc=" + p.name
				}
				mon := ""
				if impl == "panic" {
					mon = p.name + " panics on a truncated value"
				}
				e.rep.Compare(op, model, impl, "trunc.text", "config.trunc:"+p.name, mon)
			}
		}
	}
}
