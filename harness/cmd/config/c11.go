package main

import (
	"bytes"
	"context"
	"crypto/ed25519"
	"encoding/pem"
	"fmt"
	"strings"

	"github.com/aperturerobotics/bifrost/crypto"
	"github.com/aperturerobotics/bifrost/keypem"
	"github.com/aperturerobotics/bifrost/peer"
	"github.com/aperturerobotics/bifrost/util/confparse"
	pbl "github.com/aperturerobotics/protobuf-go-lite"
	b58 "github.com/mr-tron/base58/base58"

	"verif/harness/lib"
)

// ---- canonical renderings of implementation results ----

func privRaw(k crypto.PrivKey) []byte {
	raw, err := k.Raw()
	if err != nil {
		panic(err)
	}
	return raw
}

func pubRaw(k crypto.PubKey) []byte {
	raw, err := k.Raw()
	if err != nil {
		panic(err)
	}
	return raw
}

func isNilPriv(k crypto.PrivKey) bool { return k == nil }
func isNilPub(k crypto.PubKey) bool   { return k == nil }

// resPriv renders (PrivKey, error) as the model's Res (Option Bytes).
func resPriv(k crypto.PrivKey, err error) string {
	if err != nil {
		return "err"
	}
	if isNilPriv(k) {
		return "ok nil"
	}
	return "ok " + lib.Hex(privRaw(k))
}

func resPub(k crypto.PubKey, err error) string {
	if err != nil {
		return "err"
	}
	if isNilPub(k) {
		return "ok nil"
	}
	return "ok " + lib.Hex(pubRaw(k))
}

// blockOf renders PEM text as the abstract block the model speaks about, provided the text is
// exactly what encoding/pem produces for that block.
func blockOf(dat []byte) string {
	b, rest := pem.Decode(dat)
	if b == nil || len(rest) != 0 || len(b.Headers) != 0 || !bytes.Equal(pem.EncodeToMemory(b), dat) {
		return "ok raw=" + lib.Hex(dat)
	}
	return "ok type=" + lib.Hex([]byte(b.Type)) + " bytes=" + lib.Hex(b.Bytes)
}

// privMsg is the protobuf PrivateKey message (field 1 = key type, field 2 = data).
func keyMsg(typ uint64, data []byte) []byte {
	var b []byte
	if typ != 0 {
		b = pbl.AppendVarint([]byte{0x08}, typ)
	}
	if len(data) != 0 {
		b = append(b, 0x12)
		b = pbl.AppendVarint(b, uint64(len(data)))
		b = append(b, data...)
	}
	return b
}

// ---- cases ----

// unmarshalPrivCase: crypto.UnmarshalPrivateKey on arbitrary bytes. want: "" (no expectation),
// "ok" or "err" from the generator's intent.
func (e *engine) unmarshalPrivCase(b []byte, gen, want string, wantKey []byte) {
	op := "config.unmarshalPriv b=" + lib.Hex(b)
	model := e.m.Query(op)
	var got crypto.PrivKey
	impl := lib.Recover(func() string {
		k, err := crypto.UnmarshalPrivateKey(b)
		if err != nil {
			return "err"
		}
		got = k
		return "ok " + lib.Hex(privRaw(k))
	})
	mon := panicMon(impl, "UnmarshalPrivateKey")
	switch {
	case mon != "":
	case want == "ok" && impl != "ok "+lib.Hex(wantKey):
		mon = "UnmarshalPrivateKey does not return the encoded key (" + gen + ")"
	case want == "err" && impl != "err":
		mon = "UnmarshalPrivateKey accepts a malformed private key (" + gen + ")"
	case got != nil:
		// whatever is accepted is a usable 64-byte key whose public half is its tail
		raw := privRaw(got)
		pub := lib.Recover(func() string { return lib.Hex(pubRaw(got.GetPublic())) })
		if len(raw) != ed25519.PrivateKeySize || pub != lib.Hex(raw[32:]) {
			mon = "UnmarshalPrivateKey returns an unusable key (" + gen + ")"
		}
	}
	e.rep.Compare(op, model, canonPanic(impl), "unmarshalPriv."+head(model)+"."+gen, "config.unmarshalPriv:"+gen, mon)
}

func (e *engine) unmarshalPubCase(b []byte, gen, want string, wantKey []byte) {
	op := "config.unmarshalPub b=" + lib.Hex(b)
	model := e.m.Query(op)
	impl := lib.Recover(func() string {
		k, err := crypto.UnmarshalPublicKey(b)
		if err != nil {
			return "err"
		}
		return "ok " + lib.Hex(pubRaw(k))
	})
	mon := panicMon(impl, "UnmarshalPublicKey")
	switch {
	case mon != "":
	case want == "ok" && impl != "ok "+lib.Hex(wantKey):
		mon = "UnmarshalPublicKey does not return the encoded key (" + gen + ")"
	case want == "err" && impl != "err":
		mon = "UnmarshalPublicKey accepts a malformed public key (" + gen + ")"
	case strings.HasPrefix(impl, "ok ") && len(lib.Unhex(impl[3:])) != ed25519.PublicKeySize:
		mon = "UnmarshalPublicKey returns a key that is not 32 bytes"
	}
	e.rep.Compare(op, model, canonPanic(impl), "unmarshalPub."+head(model), "config.unmarshalPub:"+gen, mon)
}

// pemCase runs the three keypem parsers and the two confparse PEM wrappers on d.
// wantPriv / wantPub: expected keys by construction (nil = none expected), wantErr: the
// generator knows the input must be rejected by the private-key parsers / all parsers.
func (e *engine) pemCase(d []byte, gen string, wantPriv, wantPub []byte, reject bool) {
	// keypem.ParseKeyPem
	op := "config.parseKeyPem d=" + lib.Hex(d)
	model := e.ask(op)
	impl := lib.Recover(func() string {
		sk, pk, err := keypem.ParseKeyPem(d)
		if err != nil {
			return "err"
		}
		s, p := "nil", "nil"
		if !isNilPriv(sk) {
			s = lib.Hex(privRaw(sk))
		}
		if !isNilPub(pk) {
			p = lib.Hex(pubRaw(pk))
		}
		return "ok priv=" + s + " pub=" + p
	})
	mon := panicMon(impl, "ParseKeyPem")
	if mon == "" {
		if wantPub != nil {
			w := "ok priv=nil pub=" + lib.Hex(wantPub)
			if wantPriv != nil {
				w = "ok priv=" + lib.Hex(wantPriv) + " pub=" + lib.Hex(wantPub)
			}
			if impl != w {
				mon = "ParseKeyPem does not return the key that was encoded (" + gen + ")"
			}
		} else if reject && strings.HasPrefix(impl, "ok priv=") && impl != "ok priv=nil pub=nil" {
			mon = "ParseKeyPem returns a key for " + gen
		}
	}
	e.rep.Compare(op, model, canonPanic(impl), "parseKeyPem."+head(model)+"."+gen, "config.parseKeyPem:"+gen, mon)

	type pf struct {
		name string
		f    func() string
		priv bool
	}
	for _, p := range []pf{
		{"parsePrivKeyPem", func() string { return resPriv(keypem.ParsePrivKeyPem(d)) }, true},
		{"parsePubKeyPem", func() string { return resPub(keypem.ParsePubKeyPem(d)) }, false},
		{"confPrivPem", func() string { return resPriv(confparse.ParsePrivateKeyPEM(d)) }, true},
		{"confPubPem", func() string { return resPub(confparse.ParsePublicKeyPEM(d)) }, false},
	} {
		op := "config." + p.name + " d=" + lib.Hex(d)
		model := e.ask(op)
		impl := lib.Recover(p.f)
		mon := panicMon(impl, p.name)
		want := wantPub
		if p.priv {
			want = wantPriv
		}
		if mon == "" {
			switch {
			case want != nil && impl != "ok "+lib.Hex(want):
				mon = p.name + " does not return the key that was encoded (" + gen + ")"
			case want == nil && (reject || (p.priv && wantPub != nil)) && strings.HasPrefix(impl, "ok ") && impl != "ok nil":
				mon = p.name + " returns a key for " + gen
			case strings.HasPrefix(p.name, "conf") && len(d) != 0 && impl == "ok nil":
				mon = p.name + " reports a non-empty field without a key as absent (" + gen + ")"
			}
		}
		e.rep.Compare(op, model, canonPanic(impl), p.name+"."+kind(model), "config."+p.name+":"+gen, mon)
	}
}

// confCase runs confparse.ParsePrivateKey / ParsePublicKey on a config string.
func (e *engine) confCase(s string, gen string, wantPriv, wantPub []byte, reject, rejectPub bool) {
	op := "config.confPriv s=" + lib.Hex([]byte(s))
	model := e.ask(op)
	var got crypto.PrivKey
	impl := lib.Recover(func() string {
		k, err := confparse.ParsePrivateKey(s)
		if err == nil {
			got = k
		}
		return resPriv(k, err)
	})
	mon := panicMon(impl, "confparse.ParsePrivateKey")
	if mon == "" {
		switch {
		case wantPriv != nil && impl != "ok "+lib.Hex(wantPriv):
			mon = "confparse.ParsePrivateKey does not return the key that was encoded (" + gen + ")"
		case wantPriv != nil:
			// same public key and peer ID as the original (computed without bifrost)
			id, err := peer.IDFromPrivateKey(got)
			if err != nil || !bytes.Equal([]byte(id), idOf(wantPriv[32:])) || !bytes.Equal(pubRaw(got.GetPublic()), wantPriv[32:]) {
				mon = "decoded private key has a different public key / peer ID (" + gen + ")"
			}
		case (reject || wantPub != nil) && strings.HasPrefix(impl, "ok ") && impl != "ok nil":
			mon = "confparse.ParsePrivateKey returns a key for " + gen
		case impl == "ok nil" && len(strings.TrimSpace(s)) != 0:
			mon = "confparse.ParsePrivateKey reports a non-blank string as absent (" + gen + ")"
		}
	}
	e.rep.Compare(op, model, canonPanic(impl), "confPriv."+kind(model)+"."+gen, "config.confPriv:"+gen, mon)

	op = "config.confPub s=" + lib.Hex([]byte(s))
	model = e.ask(op)
	impl = lib.Recover(func() string { return resPub(confparse.ParsePublicKey(s)) })
	mon = panicMon(impl, "confparse.ParsePublicKey")
	if mon == "" {
		switch {
		case wantPub != nil && impl != "ok "+lib.Hex(wantPub):
			mon = "confparse.ParsePublicKey does not return the key that was encoded (" + gen + ")"
		case wantPub == nil && rejectPub && strings.HasPrefix(impl, "ok ") && impl != "ok nil":
			mon = "confparse.ParsePublicKey returns a key for " + gen
		case impl == "ok nil" && len(strings.TrimSpace(s)) != 0:
			mon = "confparse.ParsePublicKey reports a non-blank string as absent (" + gen + ")"
		}
	}
	e.rep.Compare(op, model, canonPanic(impl), "confPub."+kind(model), "config.confPub:"+gen, mon)
}

// peerCase runs confparse.ParsePeer. want: expected (priv, pub) by construction; reject: must fail.
func (e *engine) peerCase(priv, pub, id string, gen string, wantPriv, wantPub []byte, reject bool) {
	op := fmt.Sprintf("config.parsePeer priv=%s pub=%s id=%s", lib.Hex([]byte(priv)), lib.Hex([]byte(pub)), lib.Hex([]byte(id)))
	model := e.ask(op)
	impl := lib.Recover(func() string {
		p, err := confparse.ParsePeer(priv, pub, id)
		if err != nil {
			return "err"
		}
		sk, err := p.GetPrivKey(context.Background())
		ps := "nil"
		if err == nil && sk != nil {
			ps = lib.Hex(privRaw(sk))
		}
		return fmt.Sprintf("ok priv=%s pub=%s id=%s", ps, lib.Hex(pubRaw(p.GetPubKey())), lib.Hex([]byte(p.GetPeerID())))
	})
	mon := panicMon(impl, "confparse.ParsePeer")
	if mon == "" {
		switch {
		case reject && impl != "err":
			mon = "confparse.ParsePeer builds a peer from " + gen
		case wantPub != nil:
			ps := "nil"
			if wantPriv != nil {
				ps = lib.Hex(wantPriv)
			}
			// same public key and peer ID whichever of the three forms the key came in
			if impl != fmt.Sprintf("ok priv=%s pub=%s id=%s", ps, lib.Hex(wantPub), lib.Hex(idOf(wantPub))) {
				mon = "confparse.ParsePeer: peer differs from the key that was encoded (" + gen + ")"
			}
		}
	}
	e.rep.Compare(op, model, canonPanic(impl), "parsePeer."+head(model)+"."+gen, "config.parsePeer:"+gen, mon)
}

func (e *engine) validatePubCase(s string, id []byte, gen string, want string) {
	op := fmt.Sprintf("config.validatePubKey s=%s id=%s", lib.Hex([]byte(s)), lib.Hex(id))
	model := e.ask(op)
	impl := lib.Recover(func() string {
		if confparse.ValidatePubKey(s, peer.ID(id)) != nil {
			return "ok 0"
		}
		return "ok 1"
	})
	mon := panicMon(impl, "confparse.ValidatePubKey")
	if mon == "" && want != "" && impl != want {
		mon = "confparse.ValidatePubKey: wrong verdict for " + gen
	}
	e.rep.Compare(op, model, canonPanic(impl), "validatePubKey."+strings.ReplaceAll(model, " ", ""), "config.validatePubKey:"+gen, mon)
}

// stdPublic is what ed25519.PrivateKey.Public copies out of a (possibly odd-sized) private key
// slice of at least 32 bytes: 32 bytes, taken from offset 32, zero-padded.
func stdPublic(b []byte) []byte {
	out := make([]byte, ed25519.PublicKeySize)
	copy(out, b[32:])
	return out
}

func (e *engine) trimCase(s string) {
	op := "config.trimSpace s=" + lib.Hex([]byte(s))
	model := e.m.Query(op)
	impl := "ok " + lib.Hex([]byte(strings.TrimSpace(s)))
	br := "trimSpace.same"
	if strings.TrimSpace(s) != s {
		br = "trimSpace.trimmed"
	}
	e.rep.Compare(op, model, impl, br, "config.trimSpace", "")
}

func (e *engine) runC11() {
	e.rep.Rule = "keys: random Ed25519 keys through protobuf / PEM / base58 config strings and back (64- and 96-byte private forms, white space around config strings); malformed: data lengths 0..128, mismatched redundant public key, unknown key types, duplicate / unknown / truncated protobuf fields, wrong PEM types, PEM with headers / garbage / two blocks / bad base64, non-base58 text; strings.TrimSpace vs the model on Unicode white space and near misses; distinct = distinct op line"
	e.rep.Require(
		"marshalPriv", "marshalPub", "marshalPrivPem", "marshalPubPem", "confMarshalPriv", "confMarshalPub",
		"unmarshalPriv.ok.honest", "unmarshalPriv.ok.redundant-96", "unmarshalPriv.err.redundant-mismatch", "unmarshalPriv.err.length", "unmarshalPriv.err.keytype", "unmarshalPriv.err.truncated",
		"unmarshalEdPriv.ok", "unmarshalEdPriv.err", "unmarshalPub.ok", "unmarshalPub.err",
		"parseKeyPem.ok.honest-priv", "parseKeyPem.ok.honest-pub", "parseKeyPem.err.wrong-type", "parseKeyPem.ok.no-block", "parseKeyPem.err.bad-body",
		"parsePrivKeyPem.oknil", "parsePrivKeyPem.err", "parsePubKeyPem.oknil", "parsePubKeyPem.err", "confPrivPem.err", "confPrivPem.oknil", "confPubPem.err", "confPubPem.oknil",
		"confPriv.oknil.blank", "confPriv.err.non-b58", "confPriv.err.pem-garbage", "confPub.err", "confPub.oknil",
		"trimSpace.same", "trimSpace.trimmed", "stdKey.ok", "stdKey.panic", "idFromPriv.ok",
		"parsePeer.ok.priv", "parsePeer.ok.pub", "parsePeer.ok.id", "parsePeer.err.nothing", "parsePeer.err.bad-id", "parsePeer.err.bad-priv", "parsePeer.err.bad-pub", "validatePubKey.ok1", "validatePubKey.ok0",
	)
	n := 60 * e.a.Scale
	var keys []*edKey
	for i := 0; i < n; i++ {
		k := e.newKey()
		keys = append(keys, k)
		sk, err := crypto.UnmarshalEd25519PrivateKey(k.priv)
		if err != nil {
			panic(err)
		}
		pk, err := crypto.UnmarshalEd25519PublicKey(k.pub)
		if err != nil {
			panic(err)
		}

		// --- protobuf ---
		op := "config.marshalPriv k=" + lib.Hex(k.priv)
		dat, err := crypto.MarshalPrivateKey(sk)
		if err != nil {
			panic(err)
		}
		mon := ""
		if !bytes.Equal(dat, keyMsg(1, k.priv)) {
			mon = "MarshalPrivateKey is not the PrivateKey message of the key"
		}
		if back, err := crypto.UnmarshalPrivateKey(dat); err != nil || !back.Equals(sk) || !sk.Equals(back) || !bytes.Equal(privRaw(back), k.priv) {
			mon = "private key does not survive the protobuf encoding"
		} else if id, err := peer.IDFromPrivateKey(back); err != nil || !bytes.Equal([]byte(id), k.id) || !bytes.Equal(pubRaw(back.GetPublic()), k.pub) {
			mon = "decoded private key has a different public key / peer ID"
		}
		e.rep.Compare(op, e.m.Query(op), "ok "+lib.Hex(dat), "marshalPriv", "config.marshalPriv", mon)
		e.unmarshalPrivCase(dat, "honest", "ok", k.priv)

		op = "config.marshalPub p=" + lib.Hex(k.pub)
		pdat, err := crypto.MarshalPublicKey(pk)
		if err != nil {
			panic(err)
		}
		mon = ""
		if back, err := crypto.UnmarshalPublicKey(pdat); err != nil || !back.Equals(pk) || !bytes.Equal(pubRaw(back), k.pub) {
			mon = "public key does not survive the protobuf encoding"
		} else if id, err := peer.IDFromPublicKey(back); err != nil || !bytes.Equal([]byte(id), k.id) {
			mon = "decoded public key has a different peer ID"
		}
		e.rep.Compare(op, e.m.Query(op), "ok "+lib.Hex(pdat), "marshalPub", "config.marshalPub", mon)
		e.unmarshalPubCase(pdat, "honest", "ok", k.pub)

		// --- 96-byte form ---
		red := append(append([]byte(nil), k.priv...), k.pub...)
		e.unmarshalPrivCase(keyMsg(1, red), "redundant-96", "ok", k.priv)
		bad := append([]byte(nil), red...)
		switch i % 3 {
		case 0:
			bad[64+e.rng.Intn(32)] ^= 1 << e.rng.Intn(8)
		case 1:
			bad[32+e.rng.Intn(32)] ^= 1 << e.rng.Intn(8)
		case 2:
			copy(bad[64:], e.rng.Bytes(32))
		}
		e.unmarshalPrivCase(keyMsg(1, bad), "redundant-mismatch", "err", nil)
		// 64-byte form whose public half is not the seed's public key: accepted as is (no curve check)
		odd := append(append([]byte(nil), k.priv[:32]...), e.rng.Bytes(32)...)
		e.unmarshalPrivCase(keyMsg(1, odd), "honest", "ok", odd)

		// raw Ed25519 forms
		for _, d := range [][]byte{k.priv, red, bad, k.priv[:63], append(append([]byte(nil), k.priv...), 0), red[:95], append(append([]byte(nil), red...), 0), nil, k.pub} {
			op := "config.unmarshalEdPriv d=" + lib.Hex(d)
			model := e.m.Query(op)
			impl := lib.Recover(func() string {
				key, err := crypto.UnmarshalEd25519PrivateKey(d)
				if err != nil {
					return "err"
				}
				return "ok " + lib.Hex(privRaw(key))
			})
			mon := panicMon(impl, "UnmarshalEd25519PrivateKey")
			if mon == "" {
				wantOK := len(d) == 64 || (len(d) == 96 && bytes.Equal(d[32:64], d[64:]))
				if wantOK != strings.HasPrefix(impl, "ok") {
					mon = "UnmarshalEd25519PrivateKey: accepted ⇎ (64 bytes, or 96 bytes with matching redundant public key)"
				} else if wantOK && impl != "ok "+lib.Hex(d[:64]) {
					mon = "UnmarshalEd25519PrivateKey returns different key bytes"
				}
			}
			e.rep.Compare(op, model, canonPanic(impl), "unmarshalEdPriv."+head(model), "config.unmarshalEdPriv", mon)
		}

		// --- public key / peer ID of the private key ---
		op = "config.idFromPriv k=" + lib.Hex(k.priv)
		id, err := peer.IDFromPrivateKey(sk)
		mon = ""
		if err != nil || !bytes.Equal([]byte(id), k.id) {
			mon = "IDFromPrivateKey is not the identity multihash of the public key"
		}
		e.rep.Compare(op, e.m.Query(op), "ok "+lib.Hex([]byte(id)), "idFromPriv.ok", "config.idFromPriv", mon)
		op = "config.getPublic k=" + lib.Hex(k.priv)
		e.rep.Compare(op, e.m.Query(op), "ok "+lib.Hex(pubRaw(sk.GetPublic())), "getPublic", "config.getPublic", "")

		// --- PEM ---
		privPem, err := keypem.MarshalPrivKeyPem(sk)
		if err != nil {
			panic(err)
		}
		op = "config.marshalPrivPem k=" + lib.Hex(k.priv)
		mon = ""
		if !bytes.Equal(privPem, pem.EncodeToMemory(&pem.Block{Type: "LIBP2P PRIVATE KEY", Bytes: keyMsg(1, k.priv)})) {
			mon = "MarshalPrivKeyPem is not the LIBP2P PRIVATE KEY block of the key"
		}
		e.rep.Compare(op, e.m.Query(op), blockOf(privPem), "marshalPrivPem", "config.marshalPrivPem", mon)
		pubPem, err := keypem.MarshalPubKeyPem(pk)
		if err != nil {
			panic(err)
		}
		op = "config.marshalPubPem p=" + lib.Hex(k.pub)
		mon = ""
		if !bytes.Equal(pubPem, pem.EncodeToMemory(&pem.Block{Type: "LIBP2P PUBLIC KEY", Bytes: pubMsg(k.pub)})) {
			mon = "MarshalPubKeyPem is not the LIBP2P PUBLIC KEY block of the key"
		}
		e.rep.Compare(op, e.m.Query(op), blockOf(pubPem), "marshalPubPem", "config.marshalPubPem", mon)
		if c, _ := confparse.MarshalPrivateKeyPEM(sk); !bytes.Equal(c, privPem) {
			e.rep.Disagree(lib.Disagreement{Op: "confparse.MarshalPrivateKeyPEM", Monitor: "confirmed", What: "confparse.MarshalPrivateKeyPEM differs from keypem.MarshalPrivKeyPem", Key: "config.marshalPrivPem"})
		}
		if c, _ := confparse.MarshalPublicKeyPEM(pk); !bytes.Equal(c, pubPem) {
			e.rep.Disagree(lib.Disagreement{Op: "confparse.MarshalPublicKeyPEM", Monitor: "confirmed", What: "confparse.MarshalPublicKeyPEM differs from keypem.MarshalPubKeyPem", Key: "config.marshalPubPem"})
		}
		// the law assumed of encoding/pem, checked on the library itself
		for _, blk := range [][]byte{privPem, pubPem} {
			for _, d := range [][]byte{blk, []byte(strings.TrimSpace(string(blk)))} {
				b, rest := pem.Decode(d)
				if b == nil || len(rest) != 0 || !bytes.HasPrefix(d, []byte("-----BEGIN")) || !bytes.Equal(pem.EncodeToMemory(b), blk) {
					e.rep.Disagree(lib.Disagreement{Op: "pem law " + lib.Hex(d), Monitor: "confirmed", What: "encoding/pem does not satisfy the round-trip law the theorems assume", Key: "config.pemLaw"})
				}
			}
		}
		e.pemCase(privPem, "honest-priv", k.priv, k.pub, false)
		e.pemCase(pubPem, "honest-pub", nil, k.pub, false)

		// --- config strings ---
		txt, err := confparse.MarshalPrivateKey(sk)
		if err != nil {
			panic(err)
		}
		op = "config.confMarshalPriv k=" + lib.Hex(k.priv)
		mon = ""
		if txt != b58.Encode(keyMsg(1, k.priv)) {
			mon = "confparse.MarshalPrivateKey is not the base58 text of the PrivateKey message"
		}
		e.rep.Compare(op, e.m.Query(op), "ok "+lib.Hex([]byte(txt)), "confMarshalPriv", "config.confMarshalPriv", mon)
		ptxt, err := confparse.MarshalPublicKey(pk)
		if err != nil {
			panic(err)
		}
		op = "config.confMarshalPub p=" + lib.Hex(k.pub)
		mon = ""
		if ptxt != b58.Encode(pubMsg(k.pub)) {
			mon = "confparse.MarshalPublicKey is not the base58 text of the PublicKey message"
		}
		e.rep.Compare(op, e.m.Query(op), "ok "+lib.Hex([]byte(ptxt)), "confMarshalPub", "config.confMarshalPub", mon)
		e.confCase(txt, "b58-priv", k.priv, nil, false, false)
		e.confCase(e.ws()+txt+e.ws(), "b58-priv", k.priv, nil, false, false)
		e.confCase(ptxt, "b58-pub", nil, k.pub, false, false)
		e.confCase(e.ws()+ptxt+e.ws(), "b58-pub", nil, k.pub, false, false)
		e.confCase(string(privPem), "pem-priv", k.priv, k.pub, false, false)
		e.confCase(e.ws()+string(privPem)+e.ws(), "pem-priv", k.priv, k.pub, false, false)
		e.confCase(string(pubPem), "pem-pub", nil, k.pub, false, false)
		e.confCase(e.ws()+string(pubPem)+e.ws(), "pem-pub", nil, k.pub, false, false)
		// a near-miss of white space stays part of the string: not base58, not PEM
		ns := nearSpaces[e.rng.Intn(len(nearSpaces))]
		e.confCase(ns+txt, "non-b58", nil, nil, true, true)
		e.confCase(string(privPem)+ns, "pem-priv", k.priv, k.pub, false, false) // trailing data after the END line is ignored by pem.Decode
		e.confCase(ns+string(privPem), "non-b58", nil, nil, true, true)
		// 96-byte form inside every wrapper
		redMsg := keyMsg(1, red)
		e.confCase(b58.Encode(redMsg), "b58-priv", k.priv, nil, false, false)
		e.pemCase(pem.EncodeToMemory(&pem.Block{Type: "LIBP2P PRIVATE KEY", Bytes: redMsg}), "honest-priv", k.priv, k.pub, false)
		e.confCase(b58.Encode(keyMsg(1, bad)), "b58-bad-key", nil, nil, true, true)
		e.pemCase(pem.EncodeToMemory(&pem.Block{Type: "LIBP2P PRIVATE KEY", Bytes: keyMsg(1, bad)}), "bad-body", nil, nil, true)

		// --- confparse.ParsePeer: the same identity from each of the three forms ---
		idTxt := b58.Encode(k.id)
		other := keys[e.rng.Intn(len(keys))]
		otherPub := b58.Encode(pubMsg(other.pub))
		e.peerCase(txt, "", "", "priv", k.priv, k.pub, false)
		e.peerCase(e.ws()+string(privPem), otherPub, b58.Encode(other.id), "priv", k.priv, k.pub, false) // the private key wins
		e.peerCase("", ptxt, b58.Encode(other.id), "pub", nil, k.pub, false)                             // then the public key
		e.peerCase(" ", string(pubPem), "", "pub", nil, k.pub, false)
		e.peerCase("", string(privPem), "", "pub", nil, k.pub, false) // public key taken from a private PEM
		e.peerCase("", "", idTxt, "id", nil, k.pub, false)
		e.peerCase("", " \n", idTxt, "id", nil, k.pub, false)
		e.peerCase("", "", "", "nothing", nil, nil, true)
		e.peerCase("", "", " "+idTxt, "bad-id", nil, nil, true)      // the peer-id field is not trimmed
		e.peerCase(txt[1:], ptxt, idTxt, "bad-priv", nil, nil, true) // a malformed earlier field is an error, not skipped
		e.peerCase("", ptxt+"0", idTxt, "bad-pub", nil, nil, true)
		e.peerCase("", "", b58.Encode([]byte{0x12, 2, 0xaa, 0xbb}), "bad-id", nil, nil, true) // well-formed multihash without a key
		e.peerCase(string(pubPem), "", "", "bad-priv", nil, nil, true)                        // public PEM in the private field
		// an ID whose embedded PublicKey message is not canonical (unknown field): the key is
		// extracted and the peer gets the canonical ID of that key
		nc := append(pubMsg(k.pub), 0x18, 0x01)
		e.peerCase("", "", b58.Encode(append([]byte{0x00, byte(len(nc))}, nc...)), "id", nil, k.pub, false)
		e.validatePubCase(ptxt, k.id, "match", "ok 1")
		e.validatePubCase(string(pubPem), nil, "no-id", "ok 1")
		e.validatePubCase(ptxt, other.id, "other-id", map[bool]string{true: "ok 1", false: "ok 0"}[bytes.Equal(other.id, k.id)])
		e.validatePubCase("", k.id, "empty", "ok 0")
		e.validatePubCase(ptxt[:len(ptxt)-2], k.id, "bad-pub", "ok 0")

		// --- standard-library key conversion ---
		std, err := crypto.PrivKeyToStdKey(sk)
		if sp, ok := std.(*ed25519.PrivateKey); err != nil || !ok || !bytes.Equal(*sp, k.priv) {
			e.rep.Disagree(lib.Disagreement{Op: "PrivKeyToStdKey", Monitor: "confirmed", What: "PrivKeyToStdKey is not the key's ed25519.PrivateKey", Key: "config.stdKey"})
		}
		if sp, err := crypto.PubKeyToStdKey(pk); err != nil || !bytes.Equal(sp.(ed25519.PublicKey), k.pub) {
			e.rep.Disagree(lib.Disagreement{Op: "PubKeyToStdKey", Monitor: "confirmed", What: "PubKeyToStdKey is not the key's ed25519.PublicKey", Key: "config.stdKey"})
		}
	}

	e.runC11Extra(keys)
	e.runC11History(keys)
	e.runC11Trunc(keys)

	// malformed protobuf wrappers
	nm := 300 * e.a.Scale
	for i := 0; i < nm; i++ {
		k := keys[e.rng.Intn(len(keys))]
		var b []byte
		gen, want := "", ""
		pubValid := false
		switch i % 10 {
		case 0:
			gen, want = "length", "err"
			l := []int{0, 1, 31, 32, 33, 63, 65, 95, 97, 128, 160}[e.rng.Intn(11)]
			b = keyMsg(1, e.rng.Bytes(l))
			pubValid = l == 32 // 32 bytes of data are a well-formed *public* key message
		case 1:
			gen, want = "keytype", "err"
			t := []uint64{0, 2, 3, 4, 1 << 32, 1<<32 + 2, 1<<64 - 1, 1 << 31, 129}[e.rng.Intn(9)]
			b = keyMsg(t, k.priv)
		case 2:
			gen, want = "truncated", "err"
			full := keyMsg(1, k.priv)
			b = full[:1+e.rng.Intn(len(full)-1)]
			if len(b) == 2 { // "08 01": a complete message without data
				gen = "length"
			}
		case 3:
			// duplicate fields: last one wins
			gen = "dup"
			k2 := keys[e.rng.Intn(len(keys))]
			b = append(keyMsg(uint64(e.rng.Intn(3)), e.rng.Bytes(e.rng.Intn(70))), keyMsg(1, k2.priv)...)
			want = "ok"
			k = k2
		case 4:
			// key type 1 + 2^32 truncates to 1 (int32 conversion of the enum)
			gen, want = "keytype-wrap", "ok"
			b = keyMsg(1<<32+1, k.priv)
		case 5:
			gen = "unknown-field"
			b = append(keyMsg(1, k.priv), 0x18, byte(e.rng.Intn(128)))
			b = append(b, 0x22, 0x02, 0xaa, 0xbb)
			want = "ok"
		case 6:
			gen = "random"
			b = e.rng.Bytes(e.rng.Intn(80))
		case 7:
			gen = "bitflip"
			b = keyMsg(1, k.priv)
			b[e.rng.Intn(4)] ^= 1 << e.rng.Intn(8)
		case 8:
			gen, want = "wrong-wiretype", "err"
			b = append([]byte{0x0a, 0x01, 0x01}, keyMsg(0, k.priv)...)
		case 9:
			gen, want = "huge-len", "err"
			b = append([]byte{0x08, 0x01, 0x12}, pbl.AppendVarint(nil, 1<<63+uint64(e.rng.Intn(9)))...)
			b = append(b, k.priv...)
		}
		var wk []byte
		if want == "ok" {
			wk = k.priv
		}
		e.unmarshalPrivCase(b, gen, want, wk)
		// the same bytes as a public key message
		e.unmarshalPubCase(b, gen, "", nil)
		if i%10 == 0 {
			l := []int{0, 31, 33, 64}[e.rng.Intn(4)]
			e.unmarshalPubCase(keyMsg(1, e.rng.Bytes(l)), "length", "err", nil)
			e.unmarshalPubCase(keyMsg(uint64(2+e.rng.Intn(3)), k.pub), "keytype", "err", nil)
		}
		// … and inside the text wrappers
		if i%3 == 0 {
			rej := want == "err"
			var wp []byte
			if want == "ok" {
				wp = k.priv
			}
			if len(b) > 0 {
				g := "b58-" + gen
				if want == "ok" {
					g = "b58-priv"
				}
				if want == "ok" || rej {
					e.confCase(b58.Encode(b), g, wp, nil, rej, rej && !pubValid)
				}
			}
			g := "bad-body"
			var wpub []byte
			if want == "ok" {
				g, wpub = "honest-priv", k.pub
			}
			if want == "ok" || rej {
				e.pemCase(pem.EncodeToMemory(&pem.Block{Type: "LIBP2P PRIVATE KEY", Bytes: b}), g, wp, wpub, rej)
			}
		}
	}

	// malformed PEM
	np := 180 * e.a.Scale
	for i := 0; i < np; i++ {
		k := keys[e.rng.Intn(len(keys))]
		good := pem.EncodeToMemory(&pem.Block{Type: "LIBP2P PRIVATE KEY", Bytes: keyMsg(1, k.priv)})
		goodPub := pem.EncodeToMemory(&pem.Block{Type: "LIBP2P PUBLIC KEY", Bytes: pubMsg(k.pub)})
		switch i % 12 {
		case 0:
			// (labels other than the two exact ones are enumerated below)
			e.pemCase(pem.EncodeToMemory(&pem.Block{Type: "PRIVATE KEY", Bytes: keyMsg(1, k.priv)}), "wrong-type", nil, nil, true)
		case 1:
			// a public key under the private label and vice versa
			e.pemCase(pem.EncodeToMemory(&pem.Block{Type: "LIBP2P PRIVATE KEY", Bytes: pubMsg(k.pub)}), "bad-body", nil, nil, true)
			e.pemCase(pem.EncodeToMemory(&pem.Block{Type: "LIBP2P PUBLIC KEY", Bytes: keyMsg(1, k.priv)}), "bad-body", nil, nil, true)
		case 2:
			// headers are permitted by encoding/pem and ignored by bifrost
			e.pemCase(pem.EncodeToMemory(&pem.Block{Type: "LIBP2P PRIVATE KEY", Headers: map[string]string{"Proc-Type": "4,ENCRYPTED", "X": "y"}, Bytes: keyMsg(1, k.priv)}), "honest-priv", k.priv, k.pub, false)
		case 3:
			// leading text is skipped by pem.Decode
			e.pemCase(append([]byte("some text\n\n"), good...), "honest-priv", k.priv, k.pub, false)
			e.confCase("x"+string(good), "non-b58", nil, nil, true, true)
		case 4:
			// two blocks: only the first counts
			e.pemCase(append(append([]byte(nil), goodPub...), good...), "honest-pub", nil, k.pub, false)
			e.pemCase(append(append([]byte(nil), good...), goodPub...), "honest-priv", k.priv, k.pub, false)
		case 5:
			// first block of a wrong type hides the key behind it
			e.pemCase(append(pem.EncodeToMemory(&pem.Block{Type: "CERTIFICATE", Bytes: []byte{1, 2, 3}}), good...), "wrong-type", nil, nil, true)
		case 6:
			e.pemCase(good[:e.rng.Intn(len(good)-1)], "no-block", nil, nil, true)
		case 7:
			// corrupt one base64 character: pem.Decode skips the damaged block
			c := append([]byte(nil), good...)
			c[30+e.rng.Intn(40)] = "!*\x00\xff"[e.rng.Intn(4)]
			e.pemCase(c, "no-block", nil, nil, true)
		case 8:
			e.pemCase(e.rng.Bytes(e.rng.Intn(60)), "no-block", nil, nil, true)
			e.pemCase(nil, "empty", nil, nil, true)
		case 9:
			// CRLF line endings and trailing data are tolerated by pem.Decode
			e.pemCase(bytes.ReplaceAll(good, []byte("\n"), []byte("\r\n")), "honest-priv", k.priv, k.pub, false)
			e.pemCase(append(append([]byte(nil), good...), e.rng.Bytes(9)...), "honest-priv", k.priv, k.pub, false)
		case 10:
			e.pemCase([]byte("-----BEGIN LIBP2P PRIVATE KEY-----\n-----END LIBP2P PRIVATE KEY-----\n"), "bad-body", nil, nil, true)
			e.pemCase([]byte("-----BEGIN LIBP2P PRIVATE KEY-----\n"), "no-block", nil, nil, true)
		case 11:
			e.pemCase([]byte("-----BEGIN"), "no-block", nil, nil, true)
			e.pemCase(pem.EncodeToMemory(&pem.Block{Type: "LIBP2P PUBLIC KEY", Bytes: e.rng.Bytes(e.rng.Intn(50))}), "bad-body", nil, nil, true)
		}
	}

	// any other label — however close — never yields a key, whichever body it carries
	for _, t := range []string{"RSA PRIVATE KEY", "PRIVATE KEY", "PUBLIC KEY", "LIBP2P PRIVATE KEY ", "LIBP2P PUBLIC KEY ", " LIBP2P PUBLIC KEY", "libp2p private key", "libp2p public key", "LIBP2P PRIVATE  KEY", "LIBP2P", "", "LIBP2P PUBLIC KEYS", "LIBP2P PRIVATE KEYS", "CERTIFICATE", "ED25519 PRIVATE KEY", "OPENSSH PRIVATE KEY", "LIBP2P KEY", "LIBP2P PUBLIC", "P2P PUBLIC KEY", "LIBP2P PRIVATE KEY\x00", "LIBP2P-PUBLIC-KEY"} {
		k := keys[e.rng.Intn(len(keys))]
		e.pemCase(pem.EncodeToMemory(&pem.Block{Type: t, Bytes: keyMsg(1, k.priv)}), "wrong-type", nil, nil, true)
		e.pemCase(pem.EncodeToMemory(&pem.Block{Type: t, Bytes: pubMsg(k.pub)}), "wrong-type", nil, nil, true)
	}

	// config strings that are neither
	nc := 160 * e.a.Scale
	for i := 0; i < nc; i++ {
		k := keys[e.rng.Intn(len(keys))]
		txt := b58.Encode(keyMsg(1, k.priv))
		switch i % 8 {
		case 0:
			e.confCase(e.ws()+e.ws(), "blank", nil, nil, true, true)
			e.confCase("", "blank", nil, nil, true, true)
		case 1:
			c := []byte(txt)
			c[e.rng.Intn(len(c))] = "0OIl+/_-= \x80\xff"[e.rng.Intn(12)]
			e.confCase(string(c), "non-b58", nil, nil, true, true)
		case 2:
			e.confCase("-----BEGIN"+string(e.rng.Bytes(e.rng.Intn(30))), "pem-garbage", nil, nil, true, true)
			e.confCase(e.ws()+"-----BEGIN LIBP2P PRIVATE KEY-----", "pem-garbage", nil, nil, true, true)
		case 3:
			e.confCase("-----BEGI"+txt, "non-b58", nil, nil, true, true)
			e.confCase("----BEGIN", "non-b58", nil, nil, true, true)
		case 4:
			e.confCase(txt[:1+e.rng.Intn(len(txt)-1)]+" "+txt, "non-b58", nil, nil, true, true)
		case 5:
			e.confCase(string(e.rng.Bytes(1+e.rng.Intn(20))), "random", nil, nil, false, false)
		case 6:
			// valid base58 of something that is not a key
			e.confCase(b58.Encode(e.rng.Bytes(1+e.rng.Intn(40))), "b58-random", nil, nil, false, false)
		case 7:
			e.confCase(b58.Encode(pubMsg(k.pub)), "b58-pub", nil, k.pub, false, false)
			e.confCase(txt[:len(txt)-1], "b58-random", nil, nil, false, false)
		}
	}

	// strings.TrimSpace against the model
	nt := 800 * e.a.Scale
	atoms := append(append([]string{"a", "-", "1", "é", "\xff", "x y"}, spaces...), nearSpaces...)
	for i := 0; i < nt; i++ {
		s := ""
		for j := e.rng.Intn(6); j > 0; j-- {
			s += atoms[e.rng.Intn(len(atoms))]
		}
		e.trimCase(s)
		if i%5 == 0 {
			e.trimCase(string(e.rng.Bytes(e.rng.Intn(8))))
		}
	}

	// absent keys and the base64 helpers of crypto.go (plain encoding/base64 wrappers; no model)
	if t, err := confparse.MarshalPrivateKey(nil); t != "" || err != nil {
		e.rep.Disagree(lib.Disagreement{Op: "confparse.MarshalPrivateKey(nil)", Monitor: "confirmed", What: "the absent private key is not the empty string", Key: "config.confMarshalPriv:nil"})
	}
	if t, err := confparse.MarshalPublicKey(nil); t != "" || err != nil {
		e.rep.Disagree(lib.Disagreement{Op: "confparse.MarshalPublicKey(nil)", Monitor: "confirmed", What: "the absent public key is not the empty string", Key: "config.confMarshalPub:nil"})
	}
	for i := 0; i < 40*e.a.Scale; i++ {
		b := e.rng.Bytes(e.rng.Intn(100))
		txt := crypto.ConfigEncodeKey(b)
		if i%4 == 3 {
			txt = string(e.rng.Bytes(e.rng.Intn(12)))
		}
		res := lib.Recover(func() string {
			back, err := crypto.ConfigDecodeKey(txt)
			if err != nil {
				return "err"
			}
			return "ok " + lib.Hex(back)
		})
		mon := panicMon(res, "ConfigDecodeKey")
		if mon == "" && i%4 != 3 && res != "ok "+lib.Hex(b) {
			mon = "ConfigDecodeKey(ConfigEncodeKey(b)) != b"
		}
		e.rep.Case("crypto.ConfigDecodeKey "+lib.Hex([]byte(txt)), res, res, "b64."+head(res), true)
		if mon != "" {
			e.rep.Disagree(lib.Disagreement{Op: "crypto.ConfigDecodeKey " + lib.Hex([]byte(txt)), Impl: res, Monitor: "confirmed", What: mon, Key: "config.b64"})
		}
	}

	// KeyPairFromStdKey on byte slices of any length (ed25519.PrivateKey is just []byte)
	for i := 0; i < 20*e.a.Scale; i++ {
		l := []int{0, 1, 31, 32, 33, 40, 63, 64, 65, 96}[i%10]
		b := e.rng.Bytes(l)
		op := "config.stdKey k=" + lib.Hex(b)
		model := e.m.Query(op)
		impl := lib.Recover(func() string {
			var sk crypto.PrivKey
			var pk crypto.PubKey
			var err error
			if i%2 == 0 {
				sk, pk, err = crypto.KeyPairFromStdKey(ed25519.PrivateKey(b))
			} else {
				p := ed25519.PrivateKey(b)
				sk, pk, err = crypto.KeyPairFromStdKey(&p)
			}
			if err != nil {
				return "err"
			}
			std, err := crypto.PrivKeyToStdKey(sk)
			if err != nil {
				return "err"
			}
			return fmt.Sprintf("ok priv=%s pub=%s std=%s", lib.Hex(privRaw(sk)), lib.Hex(pubRaw(pk)), lib.Hex(*std.(*ed25519.PrivateKey)))
		})
		mon := ""
		switch {
		case l == 64 && strings.HasPrefix(impl, "panic"):
			mon = "KeyPairFromStdKey panics on a well-formed key"
		case l >= 32 && impl != fmt.Sprintf("ok priv=%s pub=%s std=%s", lib.Hex(b), lib.Hex(stdPublic(b)), lib.Hex(b)):
			// stated without the model: the pair wraps exactly the given key — private key = the
			// slice, public key = the 32 bytes from offset 32 (what ed25519.PrivateKey.Public copies
			// out), and PrivKeyToStdKey gives the same slice back
			mon = "KeyPairFromStdKey: the pair is not (the given key, its 32 bytes from offset 32) / PrivKeyToStdKey does not give the key back"
		case l < 32 && strings.HasPrefix(impl, "ok"):
			mon = "KeyPairFromStdKey builds a key pair from fewer than 32 bytes"
		}
		e.rep.Compare(op, model, canonPanic(impl), "stdKey."+head(model), "config.stdKey", mon)
	}
	if _, _, err := crypto.KeyPairFromStdKey(nil); err == nil {
		e.rep.Disagree(lib.Disagreement{Op: "KeyPairFromStdKey(nil)", Monitor: "confirmed", What: "KeyPairFromStdKey(nil) returns no error", Key: "config.stdKey"})
	}
	if _, _, err := crypto.KeyPairFromStdKey([]byte{1}); err == nil {
		e.rep.Disagree(lib.Disagreement{Op: "KeyPairFromStdKey([]byte)", Monitor: "confirmed", What: "KeyPairFromStdKey accepts an unsupported key type", Key: "config.stdKey"})
	}
}
