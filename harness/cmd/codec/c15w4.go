package main

import (
	"bytes"
	"fmt"
	"runtime"
	"sync"

	"github.com/aperturerobotics/bifrost/hash"
	b58 "github.com/mr-tron/base58/base58"

	"verif/harness/lib"
)

// Wave 4 (C15): RETAINED VALUES. Every function of the hash package that returns bytes or an object
// (hash.Sum, HashType.Sum, the digest VerifyData returns, BuildHasher().Sum, Clone / CloneVT, MarshalVT /
// MarshalDigest / MarshalString, ParseFromB58 / UnmarshalVT) returns a value of its own: it stays what it
// was while the package is used for OTHER data, other hash types, on the same goroutine (GOMAXPROCS(1):
// a pooled / cached buffer is handed out again at once) and concurrently. A hash that is still held keeps
// verifying exactly its own data: VerifyData(other data) on a retained Sum result fails, CompareHash with
// the hash of a different message is false, its string form does not change.
//
// Also the other direction (a result is a function of the CURRENT contents of its argument): the later
// calls hash ONE buffer that is overwritten in place between calls, and each result must be the digest of
// what the buffer holds at that moment.
//
// Expected values are computed with crypto/sha256, crypto/sha1, zeebo/blake3 and mr-tron/base58 called
// directly (stdSum); nothing here uses bifrost code as the oracle.

type heldValue struct {
	name string
	read func() string // re-reads the retained value
	want string        // what it must be (stdlib)
}

func wireHash(t int32, d []byte) []byte {
	// canonical protobuf form of Hash{hash_type = t, hash = d} for t in 1..3 and a non-empty d < 128 bytes
	return append([]byte{0x08, byte(t), 0x12, byte(len(d))}, d...)
}

// holdAll calls every producer once for (t, data) and returns the values to keep.
func holdAll(t int32, data []byte) ([]heldValue, *hash.Hash, string) {
	d, _ := stdSum(t, data)
	hd := lib.Hex(d)
	wire := wireHash(t, d)
	str := b58.Encode(wire)
	shown := fmt.Sprintf("ok t=%d d=%s", t, hd)
	var hv []heldValue
	hs, err := hash.Sum(hash.HashType(t), data)
	if err != nil || hs == nil {
		return nil, nil, "hash.Sum fails for a known algorithm"
	}
	hv = append(hv, heldValue{"hash.Sum result", func() string { return showHash(hs) }, shown})
	raw, err := hash.HashType(t).Sum(data)
	if err != nil {
		return nil, nil, "HashType.Sum fails for a known algorithm"
	}
	hv = append(hv, heldValue{"HashType.Sum result", func() string { return lib.Hex(raw) }, hd})
	ver, err := (&hash.Hash{HashType: hash.HashType(t), Hash: append([]byte(nil), d...)}).VerifyData(data)
	if err != nil {
		return nil, nil, "VerifyData rejects the data of the digest"
	}
	hv = append(hv, heldValue{"digest returned by VerifyData", func() string { return lib.Hex(ver) }, hd})
	if hb, err := hash.HashType(t).BuildHasher(); err == nil {
		_, _ = hb.Write(data)
		sum := hb.Sum(nil)
		hv = append(hv, heldValue{"BuildHasher().Sum result", func() string { return lib.Hex(sum) }, hd})
	} else {
		return nil, nil, "BuildHasher fails for a known algorithm"
	}
	cl, clv := hs.Clone(), hs.CloneVT()
	hv = append(hv, heldValue{"Clone of the Sum result", func() string { return showHash(cl) }, shown})
	hv = append(hv, heldValue{"CloneVT of the Sum result", func() string { return showHash(clv) }, shown})
	mv, _ := hs.MarshalVT()
	md := hs.MarshalDigest()
	ms := hs.MarshalString()
	hv = append(hv, heldValue{"MarshalVT bytes", func() string { return lib.Hex(mv) }, lib.Hex(wire)})
	hv = append(hv, heldValue{"MarshalDigest bytes", func() string { return lib.Hex(md) }, lib.Hex(wire)})
	hv = append(hv, heldValue{"MarshalString text", func() string { return ms }, str})
	hv = append(hv, heldValue{"MarshalString of the held hash, taken again", func() string { return hs.MarshalString() }, str})
	pb, uv := &hash.Hash{}, &hash.Hash{}
	if err := pb.ParseFromB58(str); err != nil {
		return nil, nil, "ParseFromB58 rejects the base58 form of a valid hash"
	}
	if err := uv.UnmarshalVT(append([]byte(nil), wire...)); err != nil {
		return nil, nil, "UnmarshalVT rejects the binary form of a valid hash"
	}
	hv = append(hv, heldValue{"hash parsed by ParseFromB58", func() string { return showHash(pb) }, shown})
	hv = append(hv, heldValue{"hash decoded by UnmarshalVT", func() string { return showHash(uv) }, shown})
	return hv, hs, ""
}

// churn uses the package for other data: every hash type, every entry point, one buffer overwritten in
// place between calls. Returns a description of the first result that is not the digest of the buffer's
// current contents ("" = all fine).
func churn(seed int64, rounds int, types []int32) string {
	r := lib.NewRng(seed)
	buf := make([]byte, 1+r.Intn(200))
	bad := ""
	note := func(s string) {
		if bad == "" {
			bad = s
		}
	}
	for i := 0; i < rounds; i++ {
		for _, u := range types {
			copy(buf, r.Bytes(len(buf))) // same backing array, new contents
			want, known := stdSum(u, buf)
			h, err := hash.Sum(hash.HashType(u), buf)
			if known != (err == nil) || (known && !bytes.Equal(h.GetHash(), want)) {
				note(fmt.Sprintf("hash.Sum(type %d) of a buffer that was overwritten in place is not the digest of its current contents", u))
			}
			if !known {
				continue
			}
			buf[r.Intn(len(buf))] ^= 1 << r.Intn(8)
			want2, _ := stdSum(u, buf)
			raw, _ := hash.HashType(u).Sum(buf)
			if !bytes.Equal(raw, want2) {
				note(fmt.Sprintf("HashType(%d).Sum of a buffer with one bit changed in place is not the digest of its current contents", u))
			}
			if _, err := h.VerifyData(buf); err == nil {
				note(fmt.Sprintf("a type-%d hash verifies its data with one bit changed in place", u))
			}
			got, err := (&hash.Hash{HashType: hash.HashType(u), Hash: want2}).VerifyData(buf)
			if err != nil || !bytes.Equal(got, want2) {
				note(fmt.Sprintf("VerifyData(type %d) rejects the data of the digest", u))
			}
			_ = h.Clone().MarshalString()
			_ = (&hash.Hash{}).ParseFromB58(h.MarshalString())
			if hb, err := hash.HashType(u).BuildHasher(); err == nil {
				_, _ = hb.Write(buf)
				_ = hb.Sum(nil)
			}
		}
	}
	return bad
}

func (e *engine) runC15Retained() {
	e.rep.Require("retained.seq.t1", "retained.seq.t2", "retained.seq.t3", "retained.conc.t1", "retained.conc.t2", "retained.conc.t3",
		"retained.verify-other.seq.0", "retained.verify-other.conc.0", "retained.verify-own.seq.1", "retained.verify-own.conc.1", "retained.compare.seq", "retained.compare.conc")
	all := []int32{3, 1, 2, 0, 4}
	for _, mode := range []string{"seq", "conc"} {
		prev := 0
		if mode == "seq" {
			prev = runtime.GOMAXPROCS(1) // one P: what a pool / cache hands back is what was just put there
		}
		for i := 0; i < 4*e.a.Scale; i++ {
			for _, t := range []int32{1, 2, 3} {
				dataA := e.rng.Bytes(e.rng.Intn(120))
				dataB := append(append([]byte(nil), dataA...), byte(i)) // a different message
				dA, _ := stdSum(t, dataA)
				dB, _ := stdSum(t, dataB)
				held, hA, bad := holdAll(t, dataA)
				before := make([]string, len(held))
				for j, v := range held {
					before[j] = v.read()
				}
				// ---- the package is used for other things ----
				churnSeed := int64(e.rng.Intn(1 << 30))
				if bad == "" {
					// same type first (the direct successor of call 1), then every type
					if mode == "seq" {
						bad = churn(churnSeed, 1, []int32{t})
						if b := churn(churnSeed+1, 2, all); bad == "" {
							bad = b
						}
						if i%2 == 1 {
							runtime.GC()
							if b := churn(churnSeed+2, 1, all); bad == "" {
								bad = b
							}
						}
					} else {
						var wg sync.WaitGroup
						res := make([]string, 4)
						for g := range res {
							wg.Add(1)
							go func(g int) {
								defer wg.Done()
								res[g] = churn(churnSeed+int64(g), 6, all)
							}(g)
						}
						own := churn(churnSeed+9, 3, []int32{t})
						wg.Wait()
						for _, b := range append(res, own) {
							if bad == "" {
								bad = b
							}
						}
					}
				}
				// the hash of the other message, made AFTER hA and while hA is held
				hB, _ := hash.Sum(hash.HashType(t), dataB)
				// ---- re-read what was kept ----
				mon := bad
				for j, v := range held {
					now := v.read()
					if mon == "" && (before[j] != v.want || now != v.want) {
						mon = fmt.Sprintf("retained value changed or wrong: the %s for type %d, data %s was %s right after the call and is %s after the package hashed / verified / encoded OTHER data (%s); the digest of the data is %s", v.name, t, lib.Hex(dataA), before[j], now, mode, lib.Hex(dA))
					}
				}
				op := fmt.Sprintf("hash.retained t=%d data=%s mode=%s churn=%d", t, lib.Hex(dataA), mode, churnSeed)
				e.rep.Compare(op, "ok", map[bool]string{true: "ok", false: "changed"}[mon == ""], fmt.Sprintf("retained.%s.t%d", mode, t), "codec.retain:hashValues-"+mode, mon)
				if hA == nil || hB == nil {
					continue
				}
				// the held hash still verifies exactly its own data (model: codec.hashVerify on the digest it was made with)
				for _, c := range []struct {
					data []byte
					name string
				}{{dataB, "other"}, {dataA, "own"}, {dataB, "other"}} {
					s, _ := stdSum(t, c.data)
					vop := fmt.Sprintf("codec.hashVerify t=%d d=%s data=%s sum=%s", t, lib.Hex(dA), lib.Hex(c.data), lib.Hex(s))
					model := e.m.Query(vop)
					impl := canonPanic(lib.Recover(func() string {
						if _, err := hA.VerifyData(c.data); err != nil {
							return "ok 0"
						}
						return "ok 1"
					}))
					mon := ""
					exp := bytes.Equal(s, dA)
					switch {
					case impl == "panic":
						mon = "VerifyData panics"
					case (impl == "ok 1") != exp && !exp:
						mon = fmt.Sprintf("a hash made by hash.Sum(type %d) of data %s and still held VERIFIES OTHER DATA %s after further use of the package (%s): VerifyData returns nil; digest of the held hash's data %s, of the other data %s, the held hash now reads %s", t, lib.Hex(dataA), lib.Hex(c.data), mode, lib.Hex(dA), lib.Hex(s), showHash(hA))
					case (impl == "ok 1") != exp:
						mon = fmt.Sprintf("a hash made by hash.Sum(type %d) and still held no longer verifies its own data %s (%s); it now reads %s", t, lib.Hex(dataA), mode, showHash(hA))
					}
					e.rep.Compare(vop+" held="+mode, model, impl, "retained.verify-"+c.name+"."+mode+"."+model[3:], "codec.hashVerify:retained-"+mode, mon)
				}
				cmon := ""
				switch {
				case bytes.Equal(dA, dB):
				case hA.CompareHash(hB) || hB.CompareHash(hA):
					cmon = fmt.Sprintf("CompareHash reports the hashes of two different messages (%s, %s; type %d) as equal: the first hash was held while the second was computed (%s); they read %s and %s, digests %s and %s", lib.Hex(dataA), lib.Hex(dataB), t, mode, showHash(hA), showHash(hB), lib.Hex(dA), lib.Hex(dB))
				case !hA.CompareHash(hA.Clone()) || hA.MarshalString() == hB.MarshalString():
					cmon = "a held hash differs from its own clone, or two different hashes have one string form"
				}
				e.rep.Compare(fmt.Sprintf("hash.compareHeld t=%d a=%s b=%s mode=%s", t, lib.Hex(dataA), lib.Hex(dataB), mode), "ok", map[bool]string{true: "ok", false: "bad"}[cmon == ""], "retained.compare."+mode, "codec.hashCompare:retained-"+mode, cmon)
			}
		}
		if mode == "seq" {
			runtime.GOMAXPROCS(prev)
		}
	}
}
