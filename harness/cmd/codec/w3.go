package main

import (
	"bytes"
	"crypto/ed25519"
	"encoding/binary"
	"fmt"
	"runtime"
	"sort"
	"strings"

	"github.com/aperturerobotics/bifrost/crypto"
	"github.com/aperturerobotics/bifrost/hash"
	"github.com/aperturerobotics/bifrost/peer"
	b58 "github.com/mr-tron/base58/base58"

	"verif/harness/lib"
)

// ---- memory layouts of a truncated input (same class as in the config engine) ----
//
// A parser sees len(b) bytes; the slice may have more memory behind it. Every proper prefix E[:n] of
// a canonical encoding E is offered in three layouts: `exact` (cap = n: reading past the end
// panics), `rest` (the rest of the valid encoding behind it: reading past the end yields the valid
// value), `poison` (0xee behind it). Clauses: no panic, the same outcome in all layouts, nothing
// written to the buffer, and a proper prefix never decodes to the value of the full encoding.

type layout struct {
	name          string
	in, buf, orig []byte
}

func layoutsOf(enc []byte, n int) []*layout {
	exact := make([]byte, n)
	copy(exact, enc[:n])
	rest := append([]byte(nil), enc...)
	poison := bytes.Repeat([]byte{0xee}, n+160)
	copy(poison, enc[:n])
	ls := []*layout{{name: "exact", in: exact, buf: exact}, {name: "rest", in: rest[:n], buf: rest}, {name: "poison", in: poison[:n], buf: poison}}
	for _, l := range ls {
		l.orig = append([]byte(nil), l.buf...)
	}
	return ls
}

func canonPanic(s string) string {
	if strings.HasPrefix(s, "panic") {
		return "panic"
	}
	return s
}

// truncCase: parser on every layout of enc[:n]. full = canonical outcome of the full encoding (a
// proper prefix must not reach it); modelOp = model op for the exact layout ("" = none).
func (e *engine) truncCase(parser string, enc []byte, n int, full string, modelOp func(in []byte) string, f func(in []byte) string) {
	first := ""
	for i, l := range layoutsOf(enc, n) {
		got := canonPanic(lib.Recover(func() string { return f(l.in) }))
		mon := ""
		switch {
		case got == "panic":
			mon = parser + " panics on a truncated encoding"
		case !bytes.Equal(l.buf, l.orig):
			mon = parser + " wrote to its input buffer or to the memory behind it"
		case i > 0 && got != first:
			mon = fmt.Sprintf("%s: the outcome for the same %d input bytes depends on the memory behind the slice (exact allocation: %s, layout %s: %s)", parser, n, lib.Trunc(first), l.name, lib.Trunc(got))
		case n < len(enc) && got == full:
			mon = parser + " decodes a proper prefix of an encoding to the value of the whole encoding"
		}
		if i == 0 {
			first = got
		}
		op := fmt.Sprintf("trunc %s %s n=%d/%d enc=%s", parser, l.name, n, len(enc), lib.Hex(enc))
		model := got
		if i == 0 && modelOp != nil {
			op = modelOp(l.in)
			model = e.m.Query(op)
			op += " trunc=" + parser
		}
		e.rep.Compare(op, model, got, "trunc."+parser+"."+l.name, "codec.trunc:"+parser+"/"+l.name, mon)
	}
}

// ---- C15 ----

func showHash(h *hash.Hash) string {
	return fmt.Sprintf("ok t=%d d=%s", int32(h.GetHashType()), lib.Hex(h.GetHash()))
}

// b58RoundTripCase: "hashes survive the base58 encoding unchanged", for EVERY hash — the all-default
// hash included (its text is the empty string, which ParseFromB58 rejects: known finding
// hash-b58-all-default, replayed on every run) — and into receivers that already hold a hash.
func (e *engine) b58RoundTripCase(t int32, d []byte) {
	h := &hash.Hash{HashType: hash.HashType(t), Hash: d}
	txt := h.MarshalString()
	op := fmt.Sprintf("codec.hashB58RoundTrip t=%d d=%s", t, lib.Hex(d))
	model := e.m.Query(op)
	impl := canonPanic(lib.Recover(func() string {
		back := &hash.Hash{}
		if err := back.ParseFromB58(txt); err != nil || int32(back.HashType) != t || !bytes.Equal(back.Hash, d) {
			return "ok 0"
		}
		return "ok 1"
	}))
	mon, key, br := "", "codec.hashB58", "hashB58.survives"
	if t == 0 && len(d) == 0 {
		key, br = "codec.hashB58:all-default", "hashB58.all-default"
	}
	if impl != "ok 1" {
		mon = fmt.Sprintf("hash {type %d, %d digest bytes} does not survive the base58 encoding (text %q): %s", t, len(d), txt, impl)
	}
	e.rep.Compare(op, model, impl, br, key, mon)

	// the same text into receivers that already hold a hash
	for _, recv := range []*hash.Hash{{HashType: 2, Hash: []byte{9, 9}}, {HashType: hash.HashType(3), Hash: e.rng.Bytes(32)}, {HashType: hash.HashType(-1)}, {Hash: []byte{}}} {
		rt, rd := int32(recv.HashType), append([]byte(nil), recv.Hash...)
		op := fmt.Sprintf("codec.hashParseB58Into rt=%d rd=%s s=%s", rt, lib.Hex(rd), lib.Hex([]byte(txt)))
		model := e.m.Query(op)
		impl := canonPanic(lib.Recover(func() string {
			if err := recv.ParseFromB58(txt); err != nil {
				return "err"
			}
			return showHash(recv)
		}))
		mon := ""
		switch {
		case impl == "panic":
			mon = "Hash.ParseFromB58 panics on a used receiver"
		case len(txt) != 0 && impl != fmt.Sprintf("ok t=%d d=%s", t, lib.Hex(d)):
			mon = fmt.Sprintf("hash {type %d, digest %s} parsed from its base58 text into a receiver holding {type %d, digest %s} is not the encoded hash: %s", t, lib.Hex(d), rt, lib.Hex(rd), impl)
		}
		e.rep.Compare(op, model, impl, "hashParseB58Into."+head(model), "codec.hashParseB58Into", mon)

		// the generated binary decoder merges into a used receiver (its contract): model only
		recv2 := &hash.Hash{HashType: hash.HashType(rt), Hash: append([]byte(nil), rd...)}
		dat, _ := h.MarshalVT()
		op = fmt.Sprintf("codec.hashUnmarshalInto rt=%d rd=%s b=%s", rt, lib.Hex(rd), lib.Hex(dat))
		model = e.m.Query(op)
		impl = canonPanic(lib.Recover(func() string {
			if err := recv2.UnmarshalVT(dat); err != nil {
				return "err"
			}
			return showHash(recv2)
		}))
		mon = ""
		if impl == "panic" {
			mon = "Hash.UnmarshalVT panics on a used receiver"
		}
		e.rep.Compare(op, model, impl, "hashUnmarshalInto."+head(model), "codec.hashUnmarshalInto", mon)
	}
}

func head(s string) string { return strings.SplitN(s, " ", 2)[0] }

// verifySequence: VerifyData is a function of (hash, data) — not of what the hash object verified
// before. On ONE hash object (and on its Clone / CloneVT) the data, the data with one flipped bit,
// nil, longer data and the data again are verified in a row; each answer must be digest equality.
func (e *engine) verifySequence(t int32, d, data []byte, want bool) {
	flip := append([]byte(nil), data...)
	if len(flip) == 0 {
		flip = []byte{0}
	} else {
		flip[e.rng.Intn(len(flip))] ^= 1 << e.rng.Intn(8)
	}
	seq := [][]byte{data, flip, nil, append(append([]byte(nil), data...), 0), data}
	orig := &hash.Hash{HashType: hash.HashType(t), Hash: append([]byte(nil), d...)}
	for _, o := range []struct {
		name string
		h    *hash.Hash
	}{{"same", orig}, {"clone", orig.Clone()}, {"cloneVT", orig.CloneVT()}} {
		for i, x := range seq {
			sumArg := "none"
			s, known := stdSum(t, x)
			if known {
				sumArg = lib.Hex(s)
			}
			op := fmt.Sprintf("codec.hashVerify t=%d d=%s data=%s sum=%s", t, lib.Hex(d), lib.Hex(x), sumArg)
			model := e.m.Query(op)
			var ret []byte
			impl := canonPanic(lib.Recover(func() string {
				r, err := o.h.VerifyData(x)
				ret = r
				if err != nil {
					return "ok 0"
				}
				return "ok 1"
			}))
			exp := known && bytes.Equal(s, d)
			mon := ""
			switch {
			case impl == "panic":
				mon = "VerifyData panics"
			case (impl == "ok 1") != exp:
				mon = fmt.Sprintf("VerifyData (%s hash object, call %d of a sequence) differs from digest equality: %s for data %s", o.name, i+1, impl, lib.Hex(x))
			case known && !bytes.Equal(ret, s):
				mon = "VerifyData does not return the digest of the data"
			case !bytes.Equal(o.h.Hash, d) || int32(o.h.HashType) != t:
				mon = "VerifyData modified the hash it verifies against"
			}
			e.rep.Compare(op+" seq="+o.name, model, impl, "verifySeq."+o.name+"."+model[3:], "codec.hashVerify:sequence-"+o.name, mon)
		}
	}
	_ = want
}

func (e *engine) runC15Extra() {
	e.rep.Require("hashB58.survives", "hashB58.all-default", "hashParseB58Into.ok", "hashParseB58Into.err", "hashUnmarshalInto.ok",
		"verifySeq.same.1", "verifySeq.same.0", "verifySeq.clone.1", "verifySeq.clone.0", "verifySeq.cloneVT.1",
		"hasher.known", "hasher.unknown", "clone", "json", "trunc.hashUnmarshal.exact", "trunc.hashUnmarshal.rest", "trunc.hashUnmarshal.poison", "retain.hashUnmarshal")

	types := []int32{-1, 0, 1, 2, 3, 4, 2147483647}
	for i := 0; i < 12*e.a.Scale; i++ {
		for _, t := range types {
			data := e.rng.Bytes(e.rng.Intn(300))
			s, known := stdSum(t, data)

			// BuildHasher: known exactly for the three algorithms, and it IS that algorithm
			hs, err := hash.HashType(t).BuildHasher()
			impl := "err"
			mon := ""
			if err == nil {
				cut := e.rng.Intn(len(data) + 1)
				hs.Write(data[:cut])
				hs.Write(data[cut:])
				impl = "ok " + lib.Hex(hs.Sum(nil))
			}
			want := "err"
			if known {
				want = "ok " + lib.Hex(s)
			}
			if impl != want {
				mon = fmt.Sprintf("HashType(%d).BuildHasher is not the digest function of that algorithm (or exists for an unknown one)", t)
			}
			br := "hasher.unknown"
			if known {
				br = "hasher.known"
			}
			e.rep.Compare(fmt.Sprintf("hash.BuildHasher t=%d data=%s", t, lib.Hex(data)), want, impl, br, "codec.hasher", mon)

			// hash.Sum / HashType.Sum / NewHash agree with it, and the result verifies and validates
			sh, err := hash.Sum(hash.HashType(t), data)
			mon = ""
			switch {
			case known != (err == nil):
				mon = "hash.Sum succeeds ⇎ the algorithm is known"
			case known && (int32(sh.HashType) != t || !bytes.Equal(sh.Hash, s)):
				mon = "hash.Sum is not {type, digest of the data}"
			case known && sh.Validate() != nil:
				mon = "hash.Sum produces a hash that does not validate"
			case known:
				if _, err := sh.VerifyData(data); err != nil {
					mon = "hash.Sum produces a hash that does not verify its own data"
				}
			}
			if mon != "" {
				e.rep.Disagree(lib.Disagreement{Op: fmt.Sprintf("hash.Sum t=%d data=%s", t, lib.Hex(data)), Monitor: "confirmed", What: mon, Key: "codec.hashSum"})
			}

			// Clone / CloneVT: equal and independent
			d := e.rng.Bytes([]int{0, 1, 20, 32}[e.rng.Intn(4)])
			h := &hash.Hash{HashType: hash.HashType(t), Hash: append([]byte(nil), d...)}
			mon = ""
			for _, c := range []*hash.Hash{h.Clone(), h.CloneVT()} {
				if c == nil || c == h || int32(c.HashType) != t || !bytes.Equal(c.Hash, d) {
					mon = "Clone is not an equal, distinct hash"
					break
				}
				if len(c.Hash) > 0 {
					c.Hash[0] ^= 0xff
					c.HashType++
					if !bytes.Equal(h.Hash, d) || int32(h.HashType) != t {
						mon = "Clone shares its digest bytes with the original"
					}
				}
			}
			if (*hash.Hash)(nil).Clone() != nil || (*hash.Hash)(nil).CloneVT() != nil {
				mon = "Clone of the nil hash is not nil"
			}
			e.rep.Compare(fmt.Sprintf("hash.Clone t=%d d=%s", t, lib.Hex(d)), "ok", map[bool]string{true: "ok", false: "bad"}[mon == ""], "clone", "codec.hashClone", mon)

			// JSON form (known enum values): survives unchanged
			if t >= 0 && t <= 3 {
				mon = ""
				impl := canonPanic(lib.Recover(func() string {
					js, err := h.MarshalJSON()
					if err != nil {
						return "err"
					}
					back, err := hash.UnmarshalHashJSON(js)
					if err != nil {
						return "err"
					}
					return showHash(back)
				}))
				if impl != fmt.Sprintf("ok t=%d d=%s", t, lib.Hex(d)) {
					mon = "hash does not survive the JSON encoding: " + impl
				}
				e.rep.Compare(fmt.Sprintf("hash.JSON t=%d d=%s", t, lib.Hex(d)), fmt.Sprintf("ok t=%d d=%s", t, lib.Hex(d)), impl, "json", "codec.hashJSON", mon)
			}
		}
	}

	// truncations of canonical encodings, every length, every layout; and retained values
	prev := runtime.GOMAXPROCS(1)
	defer runtime.GOMAXPROCS(prev)
	for rep := 0; rep < e.a.Scale && rep < 3; rep++ {
		for _, t := range []int32{0, 1, 2, 3, 4, -1} {
			d := e.rng.Bytes([]int{20, 32, 32, 20, 32, 32, 5}[e.rng.Intn(7)])
			h := &hash.Hash{HashType: hash.HashType(t), Hash: d}
			enc, _ := h.MarshalVT()
			full := fmt.Sprintf("ok t=%d d=%s", t, lib.Hex(d))
			for n := 0; n <= len(enc); n++ {
				e.truncCase("hashUnmarshal", enc, n, full, hexOp("hashUnmarshal", "b"), func(in []byte) string {
					out := &hash.Hash{}
					if err := out.UnmarshalVT(in); err != nil {
						return "err"
					}
					return showHash(out)
				})
			}
			// retained: the decoded hash is a value of its own
			in := append([]byte(nil), enc...)
			out := &hash.Hash{}
			_ = out.UnmarshalVT(in)
			before := showHash(out)
			for i := range in {
				in[i] ^= 0xa5
			}
			other := &hash.Hash{}
			_ = other.UnmarshalVT(e.rng.Bytes(10))
			_ = other.UnmarshalVT(enc[:len(enc)-1])
			runtime.GC()
			_ = (&hash.Hash{}).UnmarshalVT(append([]byte{0x08, 0x02, 0x12, 0x03}, 1, 2, 3))
			after := showHash(out)
			mon := ""
			if before != after || before != full {
				mon = "a decoded hash changed after its input buffer was overwritten and the decoder handled other input"
			}
			e.rep.Compare("retain hashUnmarshal "+lib.Hex(enc), before, after, "retain.hashUnmarshal", "codec.retain:hashUnmarshal", mon)
		}
	}
}

// ---- C10 ----

func pubMsgOf(pub []byte) []byte { return append([]byte{0x08, 0x01, 0x12, 0x20}, pub...) }

func mh(code uint64, d []byte) []byte {
	b := binary.AppendUvarint(nil, code)
	b = binary.AppendUvarint(b, uint64(len(d)))
	return append(b, d...)
}

func (e *engine) runC10Extra() {
	e.rep.Require("extract.err.nonidentity-key", "matchesPriv.1", "matchesPriv.0", "idB58Encode", "idSlice",
		"trunc.idFromBytes.exact", "trunc.idFromBytes.rest", "trunc.idFromBytes.poison", "trunc.extract.exact", "retain.extract", "retain.unmarshalPub", "retain.idFromBytes")
	prev := runtime.GOMAXPROCS(1)
	defer runtime.GOMAXPROCS(prev)
	n := 8 * e.a.Scale
	type kp struct {
		priv ed25519.PrivateKey
		pub  []byte
		id   []byte
	}
	var ks []kp
	for i := 0; i < n; i++ {
		priv := ed25519.NewKeyFromSeed(e.rng.Bytes(32))
		pub := []byte(priv.Public().(ed25519.PublicKey))
		ks = append(ks, kp{priv, pub, mh(0, pubMsgOf(pub))})
	}
	for i, k := range ks {
		// a VALID key message under a multihash code that is not IDENTITY: "only identity
		// multihashes" — ExtractPublicKey must refuse although the digest parses as a key
		for _, code := range []uint64{0x12, 0x01, 0x80, 0x7f, 0xb220, 1 << 40} {
			e.idBytesCase(mh(code, pubMsgOf(k.pub)), "nonidentity-key", true)
		}

		// MatchesPrivateKey ⇔ the ID is the identity multihash of the key's public half
		o := ks[(i+1+e.rng.Intn(len(ks)-1))%len(ks)]
		for _, c := range []struct {
			id   []byte
			want bool
		}{{k.id, true}, {o.id, false}, {mh(0x12, pubMsgOf(k.pub)), false}, {append([]byte{0x00, 0xa4, 0x00}, pubMsgOf(k.pub)...), false}, {nil, false}} {
			sk, err := crypto.UnmarshalEd25519PrivateKey(append([]byte(nil), k.priv...))
			if err != nil {
				panic(err)
			}
			op := fmt.Sprintf("codec.matches id=%s pk=%s", lib.Hex(c.id), lib.Hex(k.pub))
			model := e.m.Query(op)
			impl := canonPanic(lib.Recover(func() string {
				if peer.ID(c.id).MatchesPrivateKey(sk) {
					return "ok 1"
				}
				return "ok 0"
			}))
			mon := ""
			if impl == "panic" {
				mon = "MatchesPrivateKey panics"
			} else if (impl == "ok 1") != c.want {
				mon = "MatchesPrivateKey ⇎ the ID is the identity multihash of the key's public key"
			}
			e.rep.Compare(op+" via=priv", model, impl, "matchesPriv."+model[3:], "codec.matchesPriv", mon)
		}

		// IDB58Encode / String / IDsToString: the base58 text of the bytes
		id := peer.ID(k.id)
		want := b58.Encode(k.id)
		mon := ""
		if peer.IDB58Encode(id) != want || id.String() != want || peer.IDsToString([]peer.ID{id})[0] != want {
			mon = "IDB58Encode / String / IDsToString are not the base58 text of the ID"
		} else if back, err := peer.IDB58Decode(peer.IDB58Encode(id)); err != nil || back != id {
			mon = "IDB58Decode(IDB58Encode(id)) != id"
		}
		ope := "codec.b58enc b=" + lib.Hex(k.id)
		e.rep.Compare(ope+" via=IDB58Encode", e.m.Query(ope), "ok "+lib.Hex([]byte(peer.IDB58Encode(id))), "idB58Encode", "codec.idB58Encode", mon)

		// every proper prefix of the ID in every layout
		full := "ok " + lib.Hex(k.id)
		if i < 2 {
			for m := 0; m <= len(k.id); m++ {
				e.truncCase("idFromBytes", k.id, m, full, hexOp("idFromBytes", "b"), func(in []byte) string {
					got, err := peer.IDFromBytes(in)
					if err != nil {
						return "err"
					}
					return "ok " + lib.Hex([]byte(got))
				})
				e.truncCase("extract", k.id, m, "ok "+lib.Hex(k.pub), hexOp("extract", "id"), func(in []byte) string {
					pk, err := peer.ID(in).ExtractPublicKey()
					if err != nil {
						return "err"
					}
					r, _ := pk.Raw()
					return "ok " + lib.Hex(r)
				})
			}
		}

		// retained values: the extracted key / the ID stay what they were when the input buffer is
		// overwritten and the decoders handle other inputs (valid, malformed, rejected late)
		poisons := [][]byte{o.id, k.id[:len(k.id)-1], mh(0, append(pubMsgOf(o.pub), 0x1a, 0x05, 0x01)), mh(0, []byte{0x08, 0x01}), mh(0x12, e.rng.Bytes(32)), nil}
		for _, p := range poisons {
			in := append([]byte(nil), k.id...)
			pk, err := peer.ID(in).ExtractPublicKey()
			msg := append([]byte(nil), pubMsgOf(k.pub)...)
			pk2, err2 := crypto.UnmarshalPublicKey(msg)
			idv, err3 := peer.IDFromBytes(in)
			if err != nil || err2 != nil || err3 != nil {
				panic("honest ID rejected")
			}
			render := func() string {
				r1, _ := pk.Raw()
				r2, _ := pk2.Raw()
				m1, _ := crypto.MarshalPublicKey(pk)
				i1, _ := peer.IDFromPublicKey(pk)
				return fmt.Sprintf("extract=%s unmarshal=%s id=%s msg=%s idOfKey=%s matches=%v", lib.Hex(r1), lib.Hex(r2), lib.Hex([]byte(idv)), lib.Hex(m1), lib.Hex([]byte(i1)), idv.MatchesPublicKey(pk2))
			}
			before := render()
			for j := range in {
				in[j] ^= 0xa5
			}
			for j := range msg {
				msg[j] ^= 0xa5
			}
			pc := append([]byte(nil), p...)
			for r := 0; r < 2; r++ {
				lib.Recover(func() string {
					peer.ID(pc).ExtractPublicKey()
					peer.IDFromBytes(pc)
					if len(pc) > 2 {
						crypto.UnmarshalPublicKey(pc[2:])
					}
					return ""
				})
				runtime.GC()
			}
			after := render()
			want := fmt.Sprintf("extract=%s unmarshal=%s id=%s msg=%s idOfKey=%s matches=true", lib.Hex(k.pub), lib.Hex(k.pub), lib.Hex(k.id), lib.Hex(pubMsgOf(k.pub)), lib.Hex(k.id))
			mon := ""
			switch {
			case before != want:
				mon = "the key extracted from an honest ID is not the key it was made from"
			case after != before:
				mon = "a decoded key / ID changed after its input buffer was overwritten and the decoder handled another input (not a value of its own)"
			}
			for _, b := range []string{"retain.extract", "retain.unmarshalPub", "retain.idFromBytes"} {
				e.rep.Case("retain "+lib.Hex(k.id)+" then="+lib.Hex(p), before, after, b, false)
			}
			if mon != "" {
				e.rep.Disagree(lib.Disagreement{Op: "retain id=" + lib.Hex(k.id) + " then=" + lib.Hex(p), Model: lib.Trunc(before), Impl: lib.Trunc(after), Monitor: "confirmed", What: mon, Key: "codec.retain", Branch: "retain.extract"})
			}
		}
	}

	// IDSlice: sort.Sort orders by the bytes of the IDs; String joins the base58 texts
	for i := 0; i < 10*e.a.Scale; i++ {
		var sl peer.IDSlice
		var raw [][]byte
		for j := e.rng.Intn(6); j >= 0; j-- {
			b := ks[e.rng.Intn(len(ks))].id
			if e.rng.Intn(3) == 0 {
				b = e.rng.Bytes(e.rng.Intn(4))
			}
			sl = append(sl, peer.ID(b))
			raw = append(raw, b)
		}
		sort.Sort(sl)
		sort.Slice(raw, func(a, b int) bool { return bytes.Compare(raw[a], raw[b]) < 0 })
		var got, want, txt []string
		for j := range sl {
			got = append(got, lib.Hex([]byte(sl[j])))
			want = append(want, lib.Hex(raw[j]))
			txt = append(txt, b58.Encode(raw[j]))
		}
		mon := ""
		if strings.Join(got, ",") != strings.Join(want, ",") {
			mon = "IDSlice does not sort by the bytes of the IDs"
		} else if sl.String() != strings.Join(txt, ", ") {
			mon = "IDSlice.String is not the list of base58 texts"
		}
		e.rep.Compare("peer.IDSlice "+strings.Join(want, ","), strings.Join(want, ","), strings.Join(got, ","), "idSlice", "codec.idSlice", mon)
	}
}
