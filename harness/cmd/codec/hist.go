package main

import (
	"encoding/binary"
	"fmt"
	"runtime"
	"strings"

	"github.com/aperturerobotics/bifrost/crypto"
	"github.com/aperturerobotics/bifrost/hash"
	"github.com/aperturerobotics/bifrost/peer"
	b58 "github.com/mr-tron/base58/base58"

	"verif/harness/lib"
)

// History independence (same phase as in the config engine): every parser / validator must be a
// function of its input. Under GOMAXPROCS(1) (sync.Pool's per-P slot is deterministic), for every
// ordered pair (p, x) of a parser's input set — absent fields, empty inputs, every error class,
// inputs rejected late, inputs with all fields set, valid values — p is evaluated and then x; every
// evaluation of x must give the same canonical outcome. When two differ, x is evaluated once more
// after two garbage collections (which empty every sync.Pool) to name the outcome it has alone.
// A difference is a confirmed violation naming p and x.

type histParser struct {
	name string
	op   func(x []byte) string // model op line ("" = none)
	f    func(x []byte) string
}

func (e *engine) historyPhase(parsers []histParser, inputs map[string][][]byte) {
	prev := runtime.GOMAXPROCS(1)
	defer runtime.GOMAXPROCS(prev)
	for _, p := range parsers {
		xs := inputs[p.name]
		run := func(x []byte) string {
			r := lib.Recover(func() string { return p.f(x) })
			if strings.HasPrefix(r, "panic") {
				return "panic"
			}
			return r
		}
		runtime.GC()
		runtime.GC()
		for _, x := range xs {
			alone := run(x)
			mon := ""
			for _, poison := range xs {
				run(poison)
				if got := run(x); got != alone && mon == "" {
					runtime.GC()
					runtime.GC()
					clean := run(x)
					other := got
					if other == clean {
						other = alone
					}
					mon = fmt.Sprintf("%s: the outcome depends on the previous input: %s alone gives %s, but after %s it gives %s",
						p.name, lib.Hex(x), lib.Trunc(clean), lib.Hex(poison), lib.Trunc(other))
					alone = clean
				}
			}
			model := alone
			op := "history " + p.name + " x=" + lib.Hex(x)
			if p.op != nil {
				op = p.op(x)
				model = e.m.Query(op)
				op += " history=" + p.name
			}
			key := "codec.history:" + p.name
			if mon == "" && model != alone && strings.HasPrefix(alone, "ok") && p.name == "idFromBytes" {
				// known finding F5 (non-identity multihash accepted) is not a history effect
				if code, n := binary.Uvarint(x); n > 0 && code != 0 {
					key = "codec.idFromBytes:code!=0"
				}
			}
			e.rep.Compare(op, model, alone, "history."+p.name, key, mon)
		}
	}
}

func hexOp(op, arg string) func([]byte) string {
	return func(x []byte) string { return "codec." + op + " " + arg + "=" + lib.Hex(x) }
}

func (e *engine) sampleIDs() (ids [][]byte, pubMsgs [][]byte) {
	for i := 0; i < 3; i++ {
		pub, pk := e.newKey()
		id, err := peer.IDFromPublicKey(pk)
		if err != nil {
			panic(err)
		}
		ids = append(ids, []byte(id))
		pubMsgs = append(pubMsgs, append([]byte{0x08, 0x01, 0x12, 0x20}, pub...))
	}
	return
}

func (e *engine) runC10History() {
	ids, msgs := e.sampleIDs()
	mh := func(code uint64, d []byte) []byte {
		b := binary.AppendUvarint(nil, code)
		b = binary.AppendUvarint(b, uint64(len(d)))
		return append(b, d...)
	}
	raw := [][]byte{
		nil, ids[0], ids[1], ids[2],
		ids[0][:len(ids[0])-1],                    // truncated
		append(append([]byte(nil), ids[0]...), 0), // extended
		mh(0, nil),                // identity multihash of the empty digest: no key inside
		mh(0, []byte{0x08, 0x01}), // key message with type only, data ABSENT
		mh(0, []byte{0x12, 0x00}), // empty data
		mh(0, append(append([]byte(nil), msgs[1]...), 0x1a, 0x05, 0x01)), // valid key message + truncated trailing field: rejected late
		mh(0, append([]byte{0x08, 0x02, 0x12, 0x20}, msgs[1][4:]...)),    // all fields set, unsupported key type
		mh(0x12, e.rng.Bytes(32)),                                        // sha2-256 multihash (no key)
		mh(0x12, msgs[2]),                                                // NON-identity code around a valid key message
		mh(0x80, msgs[0]),
		{0x00}, {0x00, 0x05, 0x01},
		e.rng.Bytes(1 + e.rng.Intn(20)),
	}
	var texts [][]byte
	for _, r := range raw {
		if len(r) > 0 {
			texts = append(texts, []byte(b58.Encode(r)))
		}
	}
	texts = append(texts, nil, []byte("0"), []byte("l"), []byte(" "))
	var bodies [][]byte
	bodies = append(bodies, nil, []byte{0x08, 0x01}, []byte{0x12, 0x00}, msgs[0], msgs[1],
		append(append([]byte(nil), msgs[1]...), 0x1a, 0x05, 0x01), append([]byte{0x08, 0x02, 0x12, 0x20}, msgs[2][4:]...), msgs[0][:20], []byte{0x18, 0x01})
	parsers := []histParser{
		{"idFromBytes", hexOp("idFromBytes", "b"), func(x []byte) string {
			id, err := peer.IDFromBytes(x)
			if err != nil {
				return "err"
			}
			return "ok " + lib.Hex([]byte(id))
		}},
		{"extract", hexOp("extract", "id"), func(x []byte) string {
			pk, err := peer.ID(x).ExtractPublicKey()
			if err != nil {
				return "err"
			}
			r, _ := pk.Raw()
			return "ok " + lib.Hex(r)
		}},
		{"idB58Decode", hexOp("idB58Decode", "s"), func(x []byte) string {
			id, err := peer.IDB58Decode(string(x))
			if err != nil {
				return "err"
			}
			return "ok " + lib.Hex([]byte(id))
		}},
		{"unmarshalPub", hexOp("unmarshalPub", "b"), func(x []byte) string {
			pk, err := crypto.UnmarshalPublicKey(x)
			if err != nil {
				return "err"
			}
			r, _ := pk.Raw()
			return "ok " + lib.Hex(r)
		}},
	}
	e.rep.Require("history.idFromBytes", "history.extract", "history.idB58Decode", "history.unmarshalPub")
	e.historyPhase(parsers, map[string][][]byte{"idFromBytes": raw, "extract": raw, "idB58Decode": texts, "unmarshalPub": bodies})
}

func (e *engine) runC15History() {
	hm := func(t int32, d []byte) []byte {
		b, err := (&hash.Hash{HashType: hash.HashType(t), Hash: d}).MarshalVT()
		if err != nil {
			panic(err)
		}
		return b
	}
	d32, d20 := e.rng.Bytes(32), e.rng.Bytes(20)
	full := hm(1, d32)
	bodies := [][]byte{
		nil,                                                   // all fields absent
		{0x08, 0x01},                                          // type only, digest ABSENT
		{0x08, 0x03},                                          // another type, digest absent
		{0x12, 0x00},                                          // empty digest
		hm(0, d32),                                            // digest only, type absent
		full, hm(2, d20), hm(3, d32), hm(4, d32), hm(-1, d20), // all fields set: known and unknown types
		append(append([]byte(nil), full...), 0x1a, 0x05, 0x01), // valid hash + truncated trailing field: rejected late
		append(append([]byte(nil), full...), 0x08),             // truncated varint after all fields
		full[:len(full)-1], // truncated digest
		{0x18, 0x01},       // unknown field only
		e.rng.Bytes(1 + e.rng.Intn(20)),
	}
	var texts [][]byte
	for _, b := range bodies {
		if len(b) > 0 {
			texts = append(texts, []byte(b58.Encode(b)))
		}
	}
	texts = append(texts, nil, []byte("0OIl"))
	showHash := func(h *hash.Hash) string {
		return fmt.Sprintf("ok t=%d d=%s", int32(h.GetHashType()), lib.Hex(h.GetHash()))
	}
	parsers := []histParser{
		{"hashUnmarshal", hexOp("hashUnmarshal", "b"), func(x []byte) string {
			h := &hash.Hash{}
			if err := h.UnmarshalVT(x); err != nil {
				return "err"
			}
			return showHash(h)
		}},
		{"hashParseB58", hexOp("hashParseB58", "s"), func(x []byte) string {
			h := &hash.Hash{}
			if err := h.ParseFromB58(string(x)); err != nil {
				return "err"
			}
			return showHash(h)
		}},
		{"hashValidateOfBytes", nil, func(x []byte) string {
			h := &hash.Hash{}
			if err := h.UnmarshalVT(x); err != nil {
				return "err"
			}
			v := "valid"
			if h.Validate() != nil {
				v = "invalid"
			}
			_, verr := h.VerifyData([]byte("data"))
			return fmt.Sprintf("%s %s verify=%v same=%v", showHash(h), v, verr == nil, h.CompareHash(h.CloneVT()))
		}},
	}
	e.rep.Require("history.hashUnmarshal", "history.hashParseB58", "history.hashValidateOfBytes")
	e.historyPhase(parsers, map[string][][]byte{"hashUnmarshal": bodies, "hashParseB58": texts, "hashValidateOfBytes": bodies})
}
