// Command codec is the correspondence engine for C10 (peer IDs) and C15 (content hashes).
package main

import (
	"bytes"
	"crypto/ed25519"
	"crypto/sha1"
	"crypto/sha256"
	"encoding/binary"
	"fmt"
	"strings"

	"github.com/aperturerobotics/bifrost/crypto"
	"github.com/aperturerobotics/bifrost/hash"
	"github.com/aperturerobotics/bifrost/peer"
	"github.com/aperturerobotics/bifrost/util/confparse"
	pbl "github.com/aperturerobotics/protobuf-go-lite"
	b58 "github.com/mr-tron/base58/base58"
	"github.com/zeebo/blake3"

	"verif/harness/lib"
)

type engine struct {
	a   *lib.Args
	rng *lib.Rng
	m   *lib.Model
	rep *lib.Report
}

func okHex(b []byte, err error) string {
	if err != nil {
		return "err"
	}
	return "ok " + lib.Hex(b)
}

func (e *engine) newKey() (ed25519.PublicKey, crypto.PubKey) {
	seed := e.rng.Bytes(32)
	priv := ed25519.NewKeyFromSeed(seed)
	pub := priv.Public().(ed25519.PublicKey)
	pk, err := crypto.UnmarshalEd25519PublicKey(pub)
	if err != nil {
		panic(err)
	}
	return pub, pk
}

// ---- C10 ----

// keyDataField reads a protobuf message field by field (varint and length-delimited fields only,
// the two wire types of the key message) and returns the contents of the last field 2 (key data).
func keyDataField(msg []byte) ([]byte, bool) {
	var data []byte
	found := false
	for len(msg) > 0 {
		tag, n := binary.Uvarint(msg)
		if n <= 0 {
			return nil, false
		}
		msg = msg[n:]
		switch tag & 7 {
		case 0:
			_, k := binary.Uvarint(msg)
			if k <= 0 {
				return nil, false
			}
			msg = msg[k:]
		case 2:
			l, k := binary.Uvarint(msg)
			if k <= 0 || uint64(len(msg[k:])) < l {
				return nil, false
			}
			if tag>>3 == 2 {
				data, found = msg[k:k+int(l)], true
			}
			msg = msg[k+int(l):]
		default:
			return nil, false
		}
	}
	return data, found
}

func (e *engine) idBytesCase(b []byte, gen string, wantReject bool) {
	op := "codec.idFromBytes b=" + lib.Hex(b)
	model := e.m.Query(op)
	impl := lib.Recover(func() string {
		id, err := peer.IDFromBytes(b)
		if err != nil {
			return "err"
		}
		return "ok " + lib.Hex([]byte(id))
	})
	mon := ""
	if strings.HasPrefix(impl, "panic") {
		mon = "IDFromBytes panics (" + gen + ")"
	}
	key := "codec.idFromBytes:" + gen
	if strings.HasPrefix(impl, "ok") {
		// model-independent statement of "accepts only well-formed identity multihashes"
		code, n := binary.Uvarint(b)
		wf := false
		if n > 0 {
			dl, m := binary.Uvarint(b[n:])
			if m > 0 && uint64(len(b[n+m:])) == dl {
				wf = true
			}
		}
		if !wf {
			mon = "IDFromBytes accepts a malformed multihash (" + gen + ") " + lib.Hex(b)
		} else if code != 0 {
			mon = "IDFromBytes accepts a non-identity multihash (code " + fmt.Sprint(code) + ")"
			key = "codec.idFromBytes:code!=0"
		}
	} else if wantReject == false && gen == "honest" {
		mon = "IDFromBytes rejects an honest peer ID"
	}
	br := "idFromBytes." + strings.SplitN(model, " ", 2)[0]
	if strings.HasPrefix(model, "ok") && len(b) > 0 && b[0] != 0 {
		br = "idFromBytes.ok.nonidentity"
	}
	e.rep.Compare(op, model, impl, br, key, mon)

	// ExtractPublicKey on the same bytes
	op2 := "codec.extract id=" + lib.Hex(b)
	model2 := e.m.Query(op2)
	impl2 := lib.Recover(func() string {
		pk, err := peer.ID(b).ExtractPublicKey()
		if err != nil {
			return "err"
		}
		raw, _ := pk.Raw()
		return "ok " + lib.Hex(raw)
	})
	mon2 := ""
	if strings.HasPrefix(impl2, "panic") {
		mon2 = "ExtractPublicKey panics (" + gen + ")"
	} else if strings.HasPrefix(impl2, "ok") {
		// "only identity multihashes", stated on the bytes: a key comes out only of a well-formed
		// multihash whose first varint (the hash code) is 0 and whose digest carries that key
		code, n := binary.Uvarint(b)
		if n <= 0 || code != 0 {
			mon2 = "ExtractPublicKey returns a key from a multihash whose hash code is not IDENTITY (" + gen + ") " + lib.Hex(b)
		} else if !bytes.Contains(b[n:], lib.Unhex(impl2[3:])) {
			mon2 = "ExtractPublicKey returns a key that is not in the ID (" + gen + ")"
		} else if dl, m := binary.Uvarint(b[n:]); m > 0 && uint64(len(b[n+m:])) == dl {
			// "decodes to exactly that key", stated on the bytes: the key that comes out is the
			// WHOLE key-data field of the embedded key message (read here field by field), not a
			// prefix or a padded copy of it
			if data, ok := keyDataField(b[n+m:]); ok && !bytes.Equal(data, lib.Unhex(impl2[3:])) {
				mon2 = fmt.Sprintf("ExtractPublicKey returns a %d-byte key from an ID whose key message carries %d bytes of key data (%s): the ID does not decode to exactly the key it carries", len(impl2[3:])/2, len(data), gen)
			}
		}
	}
	br2 := "extract." + strings.SplitN(model2, " ", 2)[0]
	if gen == "nonidentity-key" {
		br2 += "." + gen
	}
	e.rep.Compare(op2, model2, impl2, br2, "codec.extract:"+gen, mon2)
}

func (e *engine) runC10() {
	e.rep.Rule = "peer IDs: random Ed25519 keys through IDFromPublicKey/ExtractPublicKey/MatchesPublicKey/base58 text; malformed multihashes (truncated and 9/10/11-byte varints, length ±1, non-identity codes, non-minimal varints), random and non-base58 text; distinct = distinct op line"
	e.rep.Require("idFromPub", "extract.ok", "extract.err", "idFromBytes.ok", "idFromBytes.err", "idFromBytes.ok.nonidentity", "b58dec.ok", "b58dec.err", "matches.1", "matches.0", "idB58Decode.ok", "idB58Decode.err", "alias.extracted")
	n := 60 * e.a.Scale
	var ids [][]byte
	var pubs []ed25519.PublicKey
	for i := 0; i < n; i++ {
		pub, pk := e.newKey()
		id, err := peer.IDFromPublicKey(pk)
		if err != nil {
			panic(err)
		}
		ids = append(ids, []byte(id))
		pubs = append(pubs, pub)
		op := "codec.idFromPub pk=" + lib.Hex(pub)
		model := e.m.Query(op)
		impl := "ok " + lib.Hex([]byte(id))
		mon := ""
		// property: decodes back to exactly that key
		back, err := id.ExtractPublicKey()
		if err != nil {
			mon = "ExtractPublicKey fails on IDFromPublicKey output"
		} else if raw, _ := back.Raw(); !bytes.Equal(raw, pub) {
			mon = "ExtractPublicKey(IDFromPublicKey(k)) != k"
		}
		// text form round trip
		txt := id.String()
		id2, err := peer.IDB58Decode(txt)
		if err != nil || id2 != id {
			mon = "peer ID text form does not round-trip"
		}
		if !id.MatchesPublicKey(pk) {
			mon = "ID does not match the key it was derived from"
		}
		e.rep.Compare(op, model, impl, "idFromPub", "codec.idFromPub", mon)
		e.idBytesCase([]byte(id), "honest", false)
		// b58 text
		opb := "codec.b58enc b=" + lib.Hex([]byte(id))
		e.rep.Compare(opb, e.m.Query(opb), "ok "+lib.Hex([]byte(txt)), "b58enc", "codec.b58enc", "")
		opd := "codec.idB58Decode s=" + lib.Hex([]byte(txt))
		e.rep.Compare(opd, e.m.Query(opd), "ok "+lib.Hex([]byte(id)), "idB58Decode.ok", "codec.idB58Decode", "")
		// confparse wrapper
		if pid, err := confparse.ParsePeerID(txt); err != nil || pid != id {
			e.rep.Disagree(lib.Disagreement{Op: "confparse.ParsePeerID " + txt, Monitor: "confirmed", What: "confparse.ParsePeerID does not round-trip the text form", Key: "codec.confparse"})
		}
	}
	// matches matrix: two different keys never share an ID
	for i := 0; i < len(ids); i++ {
		j := e.rng.Intn(len(ids))
		if i%4 == 0 {
			j = i // the key's own ID must match
		}
		pk, _ := crypto.UnmarshalEd25519PublicKey(pubs[j])
		got := peer.ID(ids[i]).MatchesPublicKey(pk)
		op := fmt.Sprintf("codec.matches id=%s pk=%s", lib.Hex(ids[i]), lib.Hex(pubs[j]))
		impl := "ok 0"
		if got {
			impl = "ok 1"
		}
		mon := ""
		if got != bytes.Equal(pubs[i], pubs[j]) {
			mon = "MatchesPublicKey disagrees with key equality"
		}
		model := e.m.Query(op)
		e.rep.Compare(op, model, impl, "matches."+model[3:], "codec.matches", mon)
		// near miss: flip one bit of the key
		p2 := append([]byte(nil), pubs[i]...)
		p2[e.rng.Intn(32)] ^= 1 << e.rng.Intn(8)
		pk2, _ := crypto.UnmarshalEd25519PublicKey(p2)
		op = fmt.Sprintf("codec.matches id=%s pk=%s", lib.Hex(ids[i]), lib.Hex(p2))
		impl = "ok 0"
		mon = ""
		if peer.ID(ids[i]).MatchesPublicKey(pk2) {
			impl = "ok 1"
			mon = "ID matches a different key"
		}
		model = e.m.Query(op)
		e.rep.Compare(op, model, impl, "matches."+model[3:], "codec.matches", mon)
	}
	// alias IDs: non-canonical encodings that still decode to the same key. Such an ID was NOT
	// derived from the key, so it must not match it (one key must not own many IDs).
	for i := 0; i < len(ids) && i < 20*e.a.Scale; i++ {
		k := pubs[i]
		inner := map[string][]byte{
			"fields-swapped":  append(append([]byte{0x12, 0x20}, k...), 0x08, 0x01),
			"unknown-field":   append(append([]byte{0x08, 0x01, 0x12, 0x20}, k...), 0x18, 0x00),
			"duplicate-field": append([]byte{0x08, 0x01, 0x08, 0x01, 0x12, 0x20}, k...),
			"canonical":       append([]byte{0x08, 0x01, 0x12, 0x20}, k...),
		}
		for name, in := range inner {
			alias := append([]byte{0x00, byte(len(in))}, in...)
			if name == "canonical" {
				alias = append([]byte{0x00, 0x80 | byte(len(in)), 0x00}, in...) // non-minimal length varint
				name = "nonminimal-len"
			}
			pk, _ := crypto.UnmarshalEd25519PublicKey(k)
			got := peer.ID(alias).MatchesPublicKey(pk)
			op := fmt.Sprintf("codec.matches id=%s pk=%s", lib.Hex(alias), lib.Hex(k))
			impl := "ok 0"
			mon := ""
			if got {
				impl = "ok 1"
				mon = "an ID that was not derived from the key (non-canonical encoding: " + name + ") matches the key"
			}
			model := e.m.Query(op)
			e.rep.Compare(op, model, impl, "matches."+model[3:], "codec.matches:alias-"+name, mon)
			// the key object that comes OUT of the alias ID is the same key: its ID is the ID of
			// the key (a function of the key, not of where the key object came from), and the
			// alias still does not match it
			if xk, err := peer.ID(alias).ExtractPublicKey(); err == nil {
				e.rep.Branches["alias.extracted"]++
				canon, _ := peer.IDFromPublicKey(pk)
				if raw, _ := xk.Raw(); bytes.Equal(raw, k) {
					xid, xerr := peer.IDFromPublicKey(xk)
					what := ""
					switch {
					case xerr != nil:
						what = "IDFromPublicKey fails on a key extracted from an ID: " + xerr.Error()
					case xid != canon:
						what = fmt.Sprintf("one key has two peer IDs: the key object extracted from the %s encoding derives ID %s, the same key unmarshalled from its raw bytes derives %s", name, lib.Hex([]byte(xid)), lib.Hex([]byte(canon)))
					case peer.ID(alias).MatchesPublicKey(xk):
						what = "an ID that was not derived from the key (non-canonical encoding: " + name + ") matches the key object extracted from it"
					case !canon.MatchesPublicKey(xk):
						what = "the ID derived from a key does not match the equal key object extracted from its " + name + " encoding"
					}
					if what != "" {
						e.rep.Disagree(lib.Disagreement{Op: "codec.aliasKey id=" + lib.Hex(alias), Monitor: "confirmed", What: what, Key: "codec.aliasKey:" + name, Branch: "alias.extracted"})
					}
				}
			}
		}
	}
	// malformed multihashes
	nb := 240 * e.a.Scale
	for i := 0; i < nb; i++ {
		base := ids[e.rng.Intn(len(ids))]
		var b []byte
		gen := ""
		switch i % 12 {
		case 0:
			gen = "truncated"
			b = base[:e.rng.Intn(len(base))]
		case 1:
			gen = "extended"
			b = append(append([]byte(nil), base...), e.rng.Bytes(1+e.rng.Intn(3))...)
		case 2:
			gen = "len-minus-1"
			b = append([]byte(nil), base...)
			b[1]--
		case 3:
			gen = "len-plus-1"
			b = append([]byte(nil), base...)
			b[1]++
		case 4:
			gen = "non-identity"
			code := []uint64{0x12, 0x11, 0x1e, 0xb220, 1, 0x7f, 0x80}[e.rng.Intn(7)]
			d := e.rng.Bytes(e.rng.Intn(40))
			b = binary.AppendUvarint(nil, code)
			b = binary.AppendUvarint(b, uint64(len(d)))
			b = append(b, d...)
		case 5:
			gen = "varint-9-10-11"
			k := 9 + e.rng.Intn(3)
			for j := 0; j < k-1; j++ {
				b = append(b, 0x80|byte(e.rng.Intn(128)))
			}
			b = append(b, byte(e.rng.Intn(4)))
			b = append(b, base[1:]...)
		case 6:
			gen = "nonminimal-code"
			b = append([]byte{0x80, 0x00}, base[1:]...)
		case 7:
			gen = "nonminimal-len"
			b = append([]byte{0x00, 0x80 | base[1], 0x00}, base[2:]...)
		case 8:
			gen = "random"
			b = e.rng.Bytes(e.rng.Intn(50))
		case 9:
			gen = "bad-inner-key"
			inner := []byte{0x08, byte(e.rng.Intn(4)), 0x12, byte(31 + e.rng.Intn(3))}
			inner = append(inner, e.rng.Bytes(int(inner[3]))...)
			b = append([]byte{0x00, byte(len(inner))}, inner...)
		case 10:
			gen = "inner-garbage"
			inner := e.rng.Bytes(1 + e.rng.Intn(40))
			b = append([]byte{0x00, byte(len(inner))}, inner...)
		case 11:
			gen = "huge-len"
			b = append([]byte{0x00}, binary.AppendUvarint(nil, 1<<63+uint64(e.rng.Intn(100)))...)
			b = append(b, e.rng.Bytes(5)...)
		}
		e.idBytesCase(b, gen, true)
	}
	// base58 text
	nt := 200 * e.a.Scale
	for i := 0; i < nt; i++ {
		var s []byte
		switch i % 5 {
		case 0:
			s = []byte(b58.Encode(e.rng.Bytes(e.rng.Intn(40))))
		case 1:
			raw := e.rng.Bytes(1 + e.rng.Intn(30))
			for j := 0; j < e.rng.Intn(4); j++ {
				raw[j%len(raw)] = 0
			}
			copy(raw, make([]byte, e.rng.Intn(3)))
			s = []byte(b58.Encode(raw))
		case 2:
			s = []byte(b58.Encode(e.rng.Bytes(10)))
			if len(s) > 0 {
				s[e.rng.Intn(len(s))] = []byte("0OIl+/ _\x80\xff")[e.rng.Intn(10)]
			}
		case 3:
			s = e.rng.Bytes(e.rng.Intn(12))
		case 4:
			s = []byte(strings.Repeat("1", e.rng.Intn(5)) + b58.Encode(e.rng.Bytes(e.rng.Intn(4))))
		}
		op := "codec.b58dec s=" + lib.Hex(s)
		model := e.m.Query(op)
		impl := lib.Recover(func() string { return okHex(b58.Decode(string(s))) })
		mon := ""
		if strings.HasPrefix(impl, "ok") {
			// round trip of what was accepted
			if b58.Encode(lib.Unhex(impl[3:])) != string(s) {
				mon = "base58 text accepted but does not re-encode to itself"
			}
		}
		e.rep.Compare(op, model, impl, "b58dec."+strings.SplitN(model, " ", 2)[0], "codec.b58dec", mon)
		opd := "codec.idB58Decode s=" + lib.Hex(s)
		modeld := e.m.Query(opd)
		impld := lib.Recover(func() string {
			id, err := peer.IDB58Decode(string(s))
			if err != nil {
				return "err"
			}
			return "ok " + lib.Hex([]byte(id))
		})
		mon = ""
		if strings.HasPrefix(impld, "panic") {
			mon = "IDB58Decode panics"
		}
		kd := "codec.idB58Decode"
		if strings.HasPrefix(impld, "ok") {
			idb := lib.Unhex(impld[3:])
			if len(idb) > 0 && idb[0] != 0 {
				kd = "codec.idFromBytes:code!=0"
				mon = "IDFromBytes accepts a non-identity multihash (via IDB58Decode)"
			}
		}
		e.rep.Compare(opd, modeld, impld, "idB58Decode."+strings.SplitN(modeld, " ", 2)[0], kd, mon)
		// encode agrees on arbitrary bytes
		raw := e.rng.Bytes(e.rng.Intn(20))
		if i%3 == 0 && len(raw) > 2 {
			raw[0], raw[1] = 0, 0
		}
		ope := "codec.b58enc b=" + lib.Hex(raw)
		e.rep.Compare(ope, e.m.Query(ope), "ok "+lib.Hex([]byte(b58.Encode(raw))), "b58enc", "codec.b58enc", "")
	}
}

// ---- C15 ----

func stdSum(t int32, data []byte) ([]byte, bool) {
	switch t {
	case 1:
		h := sha256.Sum256(data)
		return h[:], true
	case 2:
		h := sha1.Sum(data)
		return h[:], true
	case 3:
		h := blake3.Sum256(data)
		return h[:], true
	}
	return nil, false
}

func (e *engine) runC15() {
	e.rep.Rule = "content hashes: types -2..6 and int32 extremes × digest lengths 0/19/20/21/31/32/33 for Validate; VerifyData with correct, bit-flipped, truncated, wrong-type digests; binary and base58 encodings incl. arbitrary bytes; distinct = distinct op line"
	e.rep.Require("validate.ok", "validate.err", "verify.1", "verify.0", "unmarshal.ok", "unmarshal.err", "marshal", "parseB58.ok", "parseB58.err")
	e.runC15Compare()
	types := []int32{-2, -1, 0, 1, 2, 3, 4, 5, 6, 2147483647, -2147483648, 128, 300}
	lens := []int{0, 1, 19, 20, 21, 31, 32, 33, 64}
	for rep := 0; rep < e.a.Scale; rep++ {
		for _, t := range types {
			for _, l := range lens {
				d := e.rng.Bytes(l)
				h := &hash.Hash{HashType: hash.HashType(t), Hash: d}
				op := fmt.Sprintf("codec.hashValidate t=%d d=%s", t, lib.Hex(d))
				model := e.m.Query(op)
				impl := "ok"
				if h.Validate() != nil {
					impl = "err"
				}
				mon := ""
				key := "codec.hashValidate"
				if impl == "ok" {
					// property: valid only if algorithm known and digest has its length
					_, known := stdSum(t, nil)
					if !known {
						mon = fmt.Sprintf("Hash.Validate accepts a hash with unknown algorithm (type %d, %d digest bytes)", t, l)
						key = fmt.Sprintf("codec.hashValidate:unknown-type-%d", t)
					} else if s, _ := stdSum(t, nil); len(s) != l {
						mon = "Hash.Validate accepts a digest of the wrong length"
					}
				} else {
					if s, known := stdSum(t, nil); known && len(s) == l {
						mon = "Hash.Validate rejects a well-formed hash"
					}
				}
				e.rep.Compare(op, model, impl, "validate."+model, key, mon)

				// binary encoding round trip for every (type, digest)
				dat, err := h.MarshalVT()
				if err != nil {
					panic(err)
				}
				opm := fmt.Sprintf("codec.hashMarshal t=%d d=%s", t, lib.Hex(d))
				mon = ""
				h2 := &hash.Hash{}
				if err := h2.UnmarshalVT(dat); err != nil || h2.GetHashType() != h.GetHashType() || !bytes.Equal(h2.GetHash(), h.GetHash()) {
					mon = "hash does not survive the binary encoding"
				}
				e.rep.Compare(opm, e.m.Query(opm), "ok "+lib.Hex(dat), "marshal", "codec.hashMarshal", mon)
				e.b58RoundTripCase(t, d)
				opl := fmt.Sprintf("codec.hashLen t=%d", t)
				v, s := 0, 0
				if hash.HashType(t).Validate() == nil {
					v = 1
				}
				if _, err := hash.HashType(t).Sum(nil); err == nil {
					s = 1
				}
				e.rep.Compare(opl, e.m.Query(opl), fmt.Sprintf("ok %d %d %d", hash.HashType(t).GetHashLen(), v, s), "hashLen", "codec.hashLen", "")
			}
		}
	}
	// VerifyData
	nv := 150 * e.a.Scale
	for i := 0; i < nv; i++ {
		t := int32(1 + e.rng.Intn(3))
		data := e.rng.Bytes(e.rng.Intn(200))
		good, _ := stdSum(t, data)
		d := append([]byte(nil), good...)
		switch i % 6 {
		case 1:
			d[e.rng.Intn(len(d))] ^= 1 << e.rng.Intn(8)
		case 2:
			d = d[:len(d)-1]
		case 3:
			d = append(d, 0)
		case 4:
			t2 := int32(1 + e.rng.Intn(3))
			d, _ = stdSum(t2, data)
		case 5:
			t = []int32{0, 4, -1, 9}[e.rng.Intn(4)]
		}
		h := &hash.Hash{HashType: hash.HashType(t), Hash: d}
		sumArg := "none"
		if s, ok := stdSum(t, data); ok {
			sumArg = lib.Hex(s)
		}
		op := fmt.Sprintf("codec.hashVerify t=%d d=%s data=%s sum=%s", t, lib.Hex(d), lib.Hex(data), sumArg)
		model := e.m.Query(op)
		ret, err := h.VerifyData(data)
		impl := "ok 1"
		if err != nil {
			impl = "ok 0"
		}
		mon := ""
		s, ok := stdSum(t, data)
		want := ok && bytes.Equal(s, d)
		switch {
		case (err == nil) != want:
			mon = "VerifyData result differs from digest equality"
		case ok && !bytes.Equal(ret, s):
			mon = "VerifyData does not return the digest of the data under the hash's algorithm"
		case !ok && ret != nil:
			mon = "VerifyData returns a digest for an unknown algorithm"
		case !bytes.Equal(h.Hash, d) || int32(h.HashType) != t:
			mon = "VerifyData modified the hash it verifies against"
		}
		e.rep.Compare(op, model, impl, "verify."+model[3:], "codec.hashVerify", mon)
		e.verifySequence(t, d, data, want)
	}
	// arbitrary encodings
	nu := 200 * e.a.Scale
	for i := 0; i < nu; i++ {
		var b []byte
		switch i % 5 {
		case 0:
			b = e.rng.Bytes(e.rng.Intn(30))
		case 1:
			h := &hash.Hash{HashType: hash.HashType(e.rng.Intn(5)), Hash: e.rng.Bytes(e.rng.Intn(40))}
			b, _ = h.MarshalVT()
			if len(b) > 0 {
				b[e.rng.Intn(len(b))] ^= 1 << e.rng.Intn(8)
			}
		case 2:
			// duplicate fields, unknown fields, negative enum
			b = pbl.AppendVarint([]byte{0x08}, uint64(e.rng.Intn(5)))
			b = append(b, 0x08)
			b = pbl.AppendVarint(b, uint64(int64(int32(e.rng.Intn(7)-3))))
			d := e.rng.Bytes(e.rng.Intn(5))
			b = append(b, 0x12, byte(len(d)))
			b = append(b, d...)
			b = append(b, 0x18, 0x01)
		case 3:
			h := &hash.Hash{HashType: hash.HashType(e.rng.Intn(5)), Hash: e.rng.Bytes(e.rng.Intn(40))}
			b, _ = h.MarshalVT()
			if len(b) > 0 {
				b = b[:e.rng.Intn(len(b))]
			}
		case 4:
			b = pbl.AppendVarint([]byte{0x08}, 1<<32+uint64(e.rng.Intn(4)))
		}
		op := "codec.hashUnmarshal b=" + lib.Hex(b)
		model := e.m.Query(op)
		impl := lib.Recover(func() string {
			h := &hash.Hash{}
			if err := h.UnmarshalVT(b); err != nil {
				return "err"
			}
			return fmt.Sprintf("ok t=%d d=%s", int32(h.GetHashType()), lib.Hex(h.GetHash()))
		})
		mon := ""
		if strings.HasPrefix(impl, "panic") {
			mon = "Hash.UnmarshalVT panics"
		}
		e.rep.Compare(op, model, impl, "unmarshal."+strings.SplitN(model, " ", 2)[0], "codec.hashUnmarshal", mon)
		s := []byte(b58.Encode(b))
		if i%7 == 0 {
			s = e.rng.Bytes(e.rng.Intn(10))
		}
		op = "codec.hashParseB58 s=" + lib.Hex(s)
		model = e.m.Query(op)
		impl = lib.Recover(func() string {
			h := &hash.Hash{}
			if err := h.ParseFromB58(string(s)); err != nil {
				return "err"
			}
			return fmt.Sprintf("ok t=%d d=%s", int32(h.GetHashType()), lib.Hex(h.GetHash()))
		})
		mon = ""
		if strings.HasPrefix(impl, "panic") {
			mon = "Hash.ParseFromB58 panics"
		}
		e.rep.Compare(op, model, impl, "parseB58."+strings.SplitN(model, " ", 2)[0], "codec.hashParseB58", mon)
	}
}

// hashArg renders a (possibly nil) hash for the model: "nil" or "<type>:<hex digest>".
func hashArg(h *hash.Hash) string {
	if h == nil {
		return "nil"
	}
	return fmt.Sprintf("%d:%s", int32(h.HashType), lib.Hex(h.Hash))
}

// runC15Compare drives hash.CompareHash with pairs that must compare UNEQUAL (other type, other
// length, one flipped bit, nil on either side) next to the equal ones (same value in distinct
// allocations, nil/nil, nil digest vs empty digest). Monitor (stdlib only): the result must be
// "both nil, or both non-nil with the same type and bytes.Equal digests".
func (e *engine) runC15Compare() {
	e.rep.Require("compare.equal.1", "compare.nil-nil.1", "compare.type.0", "compare.shorter.0", "compare.longer.0",
		"compare.bit.0", "compare.nil-left.0", "compare.nil-right.0", "compare.nil-vs-empty.0", "compare.empty-digests.1", "compare.random")
	types := []int32{0, 1, 2, 3, 4, -1, 2147483647}
	n := 40 * e.a.Scale
	for i := 0; i < n; i++ {
		t := types[e.rng.Intn(len(types))]
		l := []int{1, 20, 32, 33, 64}[e.rng.Intn(5)]
		d := e.rng.Bytes(l)
		a := &hash.Hash{HashType: hash.HashType(t), Hash: d}
		cp := func() *hash.Hash { return &hash.Hash{HashType: a.HashType, Hash: append([]byte(nil), d...)} }
		type pair struct {
			class string
			x, y  *hash.Hash
		}
		var ps []pair
		ps = append(ps, pair{"equal", a, cp()})
		ps = append(ps, pair{"nil-nil", nil, nil})
		ot := cp()
		for ot.HashType == a.HashType {
			ot.HashType = hash.HashType(types[e.rng.Intn(len(types))])
		}
		ps = append(ps, pair{"type", a, ot})
		sh := cp()
		sh.Hash = sh.Hash[:len(sh.Hash)-1]
		ps = append(ps, pair{"shorter", a, sh})
		lo := cp()
		lo.Hash = append(lo.Hash, []byte{0, byte(e.rng.Intn(256))}[e.rng.Intn(2)])
		ps = append(ps, pair{"longer", a, lo})
		// one flipped bit, dense on the first and the last byte
		bit := cp()
		pos := e.rng.Intn(l)
		switch i % 3 {
		case 0:
			pos = 0
		case 1:
			pos = l - 1
		}
		bit.Hash[pos] ^= 1 << e.rng.Intn(8)
		ps = append(ps, pair{"bit", a, bit})
		ps = append(ps, pair{"nil-left", nil, a})
		ps = append(ps, pair{"nil-right", a, nil})
		ps = append(ps, pair{"nil-vs-empty", nil, &hash.Hash{}})
		ps = append(ps, pair{"nil-vs-empty", &hash.Hash{HashType: a.HashType}, nil})
		ps = append(ps, pair{"empty-digests", &hash.Hash{HashType: a.HashType, Hash: nil}, &hash.Hash{HashType: a.HashType, Hash: []byte{}}})
		// random pair over a tiny universe (hits equal and unequal)
		rh := func() *hash.Hash {
			if e.rng.Intn(6) == 0 {
				return nil
			}
			return &hash.Hash{HashType: hash.HashType(e.rng.Intn(3)), Hash: e.rng.Bytes(e.rng.Intn(3))[:]}
		}
		for k := range 3 {
			_ = k
			x, y := rh(), rh()
			if x != nil {
				for j := range x.Hash {
					x.Hash[j] &= 1
				}
			}
			if y != nil {
				for j := range y.Hash {
					y.Hash[j] &= 1
				}
			}
			ps = append(ps, pair{"random", x, y})
		}
		for _, p := range ps {
			for dir := 0; dir < 2; dir++ {
				x, y := p.x, p.y
				if dir == 1 {
					x, y = y, x
				}
				op := fmt.Sprintf("codec.hashCompare a=%s b=%s", hashArg(x), hashArg(y))
				model := e.m.Query(op)
				impl := lib.Recover(func() string {
					if x.CompareHash(y) {
						return "ok 1"
					}
					return "ok 0"
				})
				var want bool
				if x == nil || y == nil {
					want = x == nil && y == nil
				} else {
					want = x.HashType == y.HashType && bytes.Equal(x.Hash, y.Hash)
				}
				mon := ""
				switch {
				case strings.HasPrefix(impl, "panic"):
					mon = "CompareHash panics (" + p.class + ")"
				case impl == "ok 1" && !want:
					mon = "CompareHash reports two different hashes as equal (" + p.class + ": " + hashArg(x) + " vs " + hashArg(y) + ")"
				case impl == "ok 0" && want:
					mon = "CompareHash reports equal hashes as different (" + p.class + ": " + hashArg(x) + " vs " + hashArg(y) + ")"
				}
				br := "compare." + p.class
				if p.class != "random" {
					br += "." + model[3:]
				}
				e.rep.Compare(op, model, impl, br, "codec.hashCompare:"+p.class, mon)
			}
		}
	}
}

func main() {
	a := lib.ParseArgs()
	e := &engine{a: a, rng: lib.NewRng(a.Seed), m: lib.NewModel(a.Driver)}
	e.rep = lib.NewReport("codec", a)
	switch a.Prop {
	case "C10":
		e.runC10()
		e.runC10History()
		e.runC10Extra()
	case "C15":
		e.runC15()
		e.runC15History()
		e.runC15Extra()
		e.runC15Retained() // wave 4: retained results of every producer (c15w4.go)
	default:
		fmt.Println("unknown property", a.Prop)
		return
	}
	e.m.Close()
	e.rep.Write(a.Out)
}
