package main

import (
	"context"
	"fmt"
	"sort"
	"strconv"
	"strings"
	"sync"
	"sync/atomic"
	"time"

	"github.com/aperturerobotics/bifrost/crypto"
	"github.com/aperturerobotics/bifrost/link"
	"github.com/aperturerobotics/bifrost/peer"
	"github.com/aperturerobotics/bifrost/pubsub"
	pubsub_controller "github.com/aperturerobotics/bifrost/pubsub/controller"
	"github.com/aperturerobotics/bifrost/pubsub/floodsub"
	"github.com/aperturerobotics/controllerbus/controller"
	"github.com/blang/semver/v4"
	"github.com/sirupsen/logrus"

	"verif/harness/lib"
)

func (e *engine) runC29() {
	e.rep.Rule = "opener rule: the REAL trackedLink.trackLink run in both directions over fake mounted links for pairs of real key IDs and adversarial IDs (shared prefixes, one a byte-prefix of the other, leading zero bytes, different lengths, equal); subscription handle: random deterministic schedules of add-handler / remove-handler / release / publish / run-one-delivery-goroutine on a real subscription (delivery goroutines held at the gate hook) plus a concurrent release-while-publishing stress; Execute announcements: random batches of subscribe / release / new peer / peer end applied at the loop top, in the hold-break and after the sweep of a gate-stepped real Execute loop, beliefs of fake peers compared after every sweep; distinct = distinct op line"
	e.rep.Require("opens.1", "opens.0", "opens.equal", "sub.calls", "sub.nocalls", "sub.release-pending", "sub.stress", "exec.step", "exec.release-before-announce", "exec.release-in-hold-break", "exec.parked",
		"ctl.multi-identity", "ctl.history", "slow.release", "slow.subscribe", "sendq.below", "sendq.full", "sendq.beyond", "recv.step", "recv.reconnect", "recv.replace-live", "recv.close", "hist.release", "mesh.unsubscribe-received", "ctl.blocked-open", "sub.release-during-callback")
	e.c29Opens()
	e.c29Sub()
	e.c29SubStress()
	e.c29ReleaseDuringCallback()
	e.c29Exec()
	e.c29Ctl()
	e.c29CtlBlockedOpen()
	e.c29Slow()
	e.c29Recv()
	e.rep.Require("replace.release-lost")
	e.replacedLiveRelease()
	// the belief monitor on meshes of real routers (every neighbour, incl. late ones, incl. a
	// tuple that comes up again after a release made while it was down; releases RECEIVED by real routers)
	e.runHistory("c29-late-link", 3, []string{"connect:0:1", "settle", "sub:1:c1", "sub:0:c1", "settle", "sub:2:c1", "connect:1:2", "settle", "rel:1:c1", "settle", "rel:0:c1", "rel:2:c1", "settle"}, 0, "hist.release")
	e.runHistory("c29-reconnect-after-release", 3, []string{"sub:0:c1", "sub:1:c1", "sub:2:c1", "connect:0:1", "connect:1:2", "settle", "close:0", "waitclosed:0", "rel:0:c1", "waitswept:0:c1", "reopen:0", "settle"}, 0, "hist.release")
	for h := 0; h < 2*e.a.Scale; h++ {
		e.runHistory(fmt.Sprintf("c29-rand-h%d", h), 3+e.rng.Intn(3), nil, 10+e.rng.Intn(8), "hist.release")
	}
}

// ---- opener rule ----

type fakePS struct {
	mu    sync.Mutex
	added []string
}

func (f *fakePS) Execute(ctx context.Context) error { <-ctx.Done(); return nil }
func (f *fakePS) AddPeerStream(tpl pubsub.PeerLinkTuple, initiator bool, ms link.MountedStream) {
	f.mu.Lock()
	f.added = append(f.added, fmt.Sprintf("%s/%d/%v", lib.Hex([]byte(tpl.PeerID)), tpl.LinkID, initiator))
	f.mu.Unlock()
}
func (f *fakePS) AddSubscription(ctx context.Context, privKey crypto.PrivKey, channelID string) (pubsub.Subscription, error) {
	return nil, context.Canceled
}
func (f *fakePS) Close() {}

// trackOpens runs the real link tracker for a link local->remote; reports whether it opened a stream.
func (e *engine) trackOpens(local, remote peer.ID) (bool, string) {
	ps := &fakePS{}
	c := pubsub_controller.NewController(quietLog, nil, controller.NewInfo("verif/pubsub", semver.MustParse("0.0.1"), "verif"), "", floodsub.FloodSubID,
		func(ctx context.Context, le2 *logrus.Entry, p peer.Peer, h pubsub.PubSubHandler) (pubsub.PubSub, error) {
			return ps, nil
		})
	c.VerifSetPubSub(ps)
	lnk := &fakeMLink{uuid: 77, local: local, remote: remote}
	ctx, cancel := context.WithTimeout(context.Background(), 5*time.Second)
	defer cancel()
	if err := c.VerifTrackLink(ctx, lnk); err != nil {
		return false, "err " + err.Error()
	}
	lnk.mu.Lock()
	opened := lnk.opened
	lnk.mu.Unlock()
	ps.mu.Lock()
	added := append([]string(nil), ps.added...)
	ps.mu.Unlock()
	if opened == 0 && len(added) == 0 {
		return false, ""
	}
	want := fmt.Sprintf("%s/%d/true", lib.Hex([]byte(remote)), 77)
	if opened != 1 || len(added) != 1 || added[0] != want {
		return true, fmt.Sprintf("opened=%d added=%v", opened, added)
	}
	return true, ""
}

func (e *engine) c29Opens() {
	rng := e.rng
	n := 120 * e.a.Scale
	for i := 0; i < n; i++ {
		var a, b []byte
		switch i % 8 {
		case 0, 1:
			a, b = []byte(newKey(rng).id), []byte(newKey(rng).id)
		case 2: // differ in the last byte only
			a = []byte(newKey(rng).id)
			b = append([]byte(nil), a...)
			b[len(b)-1] ^= byte(1 + rng.Intn(255))
		case 3: // one is a byte-prefix of the other
			a = rng.Bytes(1 + rng.Intn(20))
			b = append(append([]byte(nil), a...), rng.Bytes(1+rng.Intn(3))...)
		case 4: // leading zero bytes (base58 '1' digits)
			a = append(make([]byte, rng.Intn(4)), rng.Bytes(1+rng.Intn(6))...)
			b = append(make([]byte, rng.Intn(4)), rng.Bytes(1+rng.Intn(6))...)
		case 5: // different lengths, random
			a, b = rng.Bytes(1+rng.Intn(40)), rng.Bytes(1+rng.Intn(40))
		case 6: // equal
			a = []byte(newKey(rng).id)
			b = append([]byte(nil), a...)
		case 7: // differ in the first byte / high bytes
			a = rng.Bytes(8)
			b = append([]byte(nil), a...)
			b[0] ^= 0x80
		}
		if rng.Intn(2) == 0 {
			a, b = b, a
		}
		op := fmt.Sprintf("pubsub.opens a=%s b=%s", lib.Hex(a), lib.Hex(b))
		opR := fmt.Sprintf("pubsub.opens a=%s b=%s", lib.Hex(b), lib.Hex(a))
		m1, m2 := e.m.Query(op), e.m.Query(opR)
		var o1, o2 bool
		var bad1, bad2 string
		impl1 := lib.Recover(func() string {
			o1, bad1 = e.trackOpens(peer.ID(a), peer.ID(b))
			return "ok " + map[bool]string{true: "1", false: "0"}[o1]
		})
		impl2 := lib.Recover(func() string {
			o2, bad2 = e.trackOpens(peer.ID(b), peer.ID(a))
			return "ok " + map[bool]string{true: "1", false: "0"}[o2]
		})
		mon := ""
		if string(a) != string(b) && o1 == o2 {
			mon = fmt.Sprintf("for two distinct peers the number of sides that open the pubsub stream is %d, not 1", map[bool]int{true: 2, false: 0}[o1])
		}
		if bad1 != "" || bad2 != "" {
			mon = "the opening side did not open exactly one stream / hand exactly that stream to the router: " + bad1 + bad2
		}
		if strings.HasPrefix(impl1, "panic") || strings.HasPrefix(impl2, "panic") {
			mon = "trackLink panics"
		}
		br := "opens." + strings.TrimPrefix(m1, "ok ")
		if string(a) == string(b) {
			br = "opens.equal"
		}
		e.rep.Compare(op, m1, impl1, br, "pubsub.opens", mon)
		e.rep.Compare(opR, m2, impl2, "opens."+strings.TrimPrefix(m2, "ok "), "pubsub.opens", "")
	}
}

// ---- subscription handle ----

type arrival struct {
	sub  pubsub.Subscription
	data string
	rel  chan struct{}
}

// subRig runs one router whose delivery goroutines stop at the gate.
type subRig struct {
	x        *node
	mu       sync.Mutex
	arrived  []*arrival
	finished map[string]bool // sub-index/data of delivery goroutines that ran to the end
	subs     []pubsub.Subscription
	hold     atomic.Bool
}

func (r *subRig) subIdx(s any) int {
	for i, x := range r.subs {
		if any(x) == s {
			return i
		}
	}
	return -1
}

func (r *subRig) gate(point string, fs *floodsub.FloodSub, objs ...any) {
	if fs != r.x.fs {
		return
	}
	switch point {
	case "floodsub.deliver":
		if !r.hold.Load() {
			return
		}
		a := &arrival{sub: objs[0].(pubsub.Subscription), data: string(objs[1].(pubsub.Message).GetData()), rel: make(chan struct{})}
		r.mu.Lock()
		r.arrived = append(r.arrived, a)
		r.mu.Unlock()
		<-a.rel
	case "floodsub.delivered":
		k := fmt.Sprintf("%d/%s", r.subIdx(objs[0]), string(objs[1].(pubsub.Message).GetData()))
		r.mu.Lock()
		r.finished[k] = true
		r.mu.Unlock()
	}
}

func (r *subRig) findArrival(sub pubsub.Subscription, data string) *arrival {
	r.mu.Lock()
	defer r.mu.Unlock()
	for _, a := range r.arrived {
		if any(a.sub) == any(sub) && a.data == data {
			return a
		}
	}
	return nil
}

func (e *engine) c29Sub() {
	rng := e.rng
	nsc := 12 * e.a.Scale
	for sc := 0; sc < nsc; sc++ {
		rig := &subRig{x: newNode(0, newKey(rng)), finished: map[string]bool{}}
		rig.hold.Store(true)
		floodsub.VerifSetGate(rig.gate)
		nsub := 1 + sc%2
		for i := 0; i < nsub; i++ {
			s, err := rig.x.fs.AddSubscription(rig.x.ctx, rig.x.key.sk, "c1")
			if err != nil {
				panic(err)
			}
			rig.subs = append(rig.subs, s)
		}
		rig.x.start()
		// per subscription: model event list, live handlers, pending messages
		evs := make([][]string, nsub)
		pending := make([][]string, nsub)
		removers := make([]map[int]func(), nsub)
		released := make([]bool, nsub)
		relReturned := make([]atomic.Bool, nsub)
		addedAfter := make([]map[int]bool, nsub)
		removedH := make([]map[int]bool, nsub)
		var cmu sync.Mutex
		calls := make([][]string, nsub)
		monViol := ""
		for i := range removers {
			removers[i] = map[int]func(){}
			addedAfter[i] = map[int]bool{}
			removedH[i] = map[int]bool{}
		}
		nextH, nextM := 1, 1
		hadPendingAtRelease := false
		steps := 14 + rng.Intn(14)
		// two scripted schedules guarantee the interesting branches: release with delivery goroutines
		// pending (then a handler added to the released handle), and a handle that never has a handler
		var script []int
		if sc == 0 {
			script = []int{0, 4, 4, 9, 7, 0, 4, 7}
		} else if sc == 1 {
			script = []int{4, 9, 7, 4, 9, 7}
			steps = len(script)
		}
		for st := 0; st < steps; st++ {
			si := rng.Intn(nsub)
			kk := rng.Intn(10)
			if st < len(script) {
				kk = script[st]
				si = st % nsub
			}
			switch k := kk; {
			case k < 3: // add handler
				h := nextH
				nextH++
				si, hh := si, h
				after := relReturned[si].Load()
				rm := rig.subs[si].AddHandler(func(m pubsub.Message) {
					cmu.Lock()
					calls[si] = append(calls[si], fmt.Sprintf("%d/%s", hh, strings.TrimPrefix(string(m.GetData()), "m")))
					if relReturned[si].Load() && !addedAfter[si][hh] {
						monViol = fmt.Sprintf("handler %d of subscription %d was invoked after Release returned", hh, si)
					}
					if removedH[si][hh] {
						monViol = fmt.Sprintf("handler %d of subscription %d was invoked after its remove function returned", hh, si)
					}
					cmu.Unlock()
				})
				cmu.Lock()
				addedAfter[si][h] = after
				cmu.Unlock()
				removers[si][h] = rm
				evs[si] = append(evs[si], fmt.Sprintf("add:%d", h))
			case k < 4: // remove a handler
				for h, rm := range removers[si] {
					rm()
					cmu.Lock()
					removedH[si][h] = true
					cmu.Unlock()
					delete(removers[si], h)
					evs[si] = append(evs[si], fmt.Sprintf("remove:%d", h))
					break
				}
			case k < 7: // publish: one delivery goroutine per subscription still in the channel
				mid := nextM
				nextM++
				data := fmt.Sprintf("m%d", mid)
				if err := rig.x.fs.Publish(rig.x.ctx, "c1", rig.x.key.sk, []byte(data)); err != nil {
					panic(err)
				}
				for j := 0; j < nsub; j++ {
					evs[j] = append(evs[j], fmt.Sprintf("spawn:%d", mid))
					if !released[j] {
						pending[j] = append(pending[j], data)
						if !waitFor(5*time.Second, func() bool { return rig.findArrival(rig.subs[j], data) != nil }) {
							monViol = "a live subscription got no delivery goroutine for a published message"
						}
					}
				}
			case k < 9: // run one pending delivery goroutine
				if len(pending[si]) == 0 {
					continue
				}
				idx := rng.Intn(len(pending[si]))
				data := pending[si][idx]
				pending[si] = append(pending[si][:idx:idx], pending[si][idx+1:]...)
				a := rig.findArrival(rig.subs[si], data)
				if a == nil {
					panic("pending delivery not at the gate")
				}
				close(a.rel)
				key := fmt.Sprintf("%d/%s", si, data)
				if !waitFor(5*time.Second, func() bool { rig.mu.Lock(); defer rig.mu.Unlock(); return rig.finished[key] }) {
					panic("delivery goroutine did not finish")
				}
				evs[si] = append(evs[si], fmt.Sprintf("run:%d", idx))
			default: // release
				if len(pending[si]) != 0 && !released[si] {
					hadPendingAtRelease = true
				}
				rig.subs[si].Release()
				relReturned[si].Store(true)
				released[si] = true
				evs[si] = append(evs[si], "relA", "relB")
			}
		}
		// drain what is still pending, then compare per subscription
		for si := 0; si < nsub; si++ {
			for len(pending[si]) > 0 {
				data := pending[si][0]
				pending[si] = pending[si][1:]
				a := rig.findArrival(rig.subs[si], data)
				close(a.rel)
				key := fmt.Sprintf("%d/%s", si, data)
				waitFor(5*time.Second, func() bool { rig.mu.Lock(); defer rig.mu.Unlock(); return rig.finished[key] })
				evs[si] = append(evs[si], "run:0")
			}
		}
		time.Sleep(2 * time.Millisecond)
		rig.mu.Lock()
		extra := 0
		for _, a := range rig.arrived {
			select {
			case <-a.rel:
			default:
				extra++
				close(a.rel)
			}
		}
		rig.mu.Unlock()
		for si := 0; si < nsub; si++ {
			evl := "_"
			if len(evs[si]) != 0 {
				evl = strings.Join(evs[si], ",")
			}
			op := "pubsub.sub evs=" + evl
			model := e.m.Query(op)
			mc := strings.Split(lib.KV(model, "calls"), ",")
			if lib.KV(model, "calls") == "_" {
				mc = nil
			}
			sort.Strings(mc)
			cmu.Lock()
			ic := append([]string(nil), calls[si]...)
			cmu.Unlock()
			sort.Strings(ic)
			br := "sub.calls"
			if len(mc) == 0 {
				br = "sub.nocalls"
			}
			mon := monViol
			if extra != 0 {
				mon = fmt.Sprintf("%d delivery goroutine(s) were started for a released subscription", extra)
			}
			e.rep.Compare(op, "calls="+strings.Join(mc, ","), "calls="+strings.Join(ic, ","), br, "pubsub.sub", mon)
		}
		if hadPendingAtRelease {
			e.rep.Case("pubsub.sub #release-with-pending-delivery sc="+strconv.Itoa(sc), "x", "x", "sub.release-pending", false)
		}
		floodsub.VerifSetGate(nil)
		rig.x.stop()
	}
}

// c29SubStress: Release races with publishers; no gate.
func (e *engine) c29SubStress() {
	rng := e.rng
	rounds := 30 * e.a.Scale
	viol := ""
	total := 0
	for r := 0; r < rounds; r++ {
		x := newNode(0, newKey(rng))
		s, _ := x.fs.AddSubscription(x.ctx, x.key.sk, "c1")
		var released atomic.Bool
		var late atomic.Int32
		var count atomic.Int32
		s.AddHandler(func(m pubsub.Message) {
			count.Add(1)
			if released.Load() {
				late.Add(1)
			}
		})
		x.start()
		var wg sync.WaitGroup
		stop := make(chan struct{})
		for g := 0; g < 4; g++ {
			wg.Add(1)
			g := g
			go func() {
				defer wg.Done()
				for i := 0; ; i++ {
					select {
					case <-stop:
						return
					default:
					}
					_ = x.fs.Publish(x.ctx, "c1", x.key.sk, []byte(fmt.Sprintf("s%d-%d-%d", r, g, i)))
				}
			}()
		}
		time.Sleep(time.Duration(200+rng.Intn(800)) * time.Microsecond)
		s.Release()
		released.Store(true)
		time.Sleep(300 * time.Microsecond)
		close(stop)
		wg.Wait()
		time.Sleep(500 * time.Microsecond)
		total += int(count.Load())
		if late.Load() != 0 {
			viol = fmt.Sprintf("%d handler invocation(s) after Release returned (round %d)", late.Load(), r)
		}
		x.stop()
	}
	e.rep.Compare(fmt.Sprintf("pubsub.sub #stress rounds=%d", rounds), "late=0", map[bool]string{true: "late=0", false: "late>0"}[viol == ""], "sub.stress", "pubsub.sub:stress", viol)
	e.rep.Notes = append(e.rep.Notes, fmt.Sprintf("release stress: %d callbacks before release over %d rounds", total, rounds))
}

// ---- Execute announcements ----

type execCtl struct {
	fs      *floodsub.FloodSub
	arrive  chan string
	proceed chan struct{}
	free    atomic.Bool
}

func (c *execCtl) gate(point string, fs *floodsub.FloodSub, objs ...any) {
	if fs != c.fs || c.free.Load() {
		return
	}
	switch point {
	case "floodsub.execTop", "floodsub.holdBreak", "floodsub.execSent":
		c.arrive <- point
		<-c.proceed
	}
}

func (c *execCtl) wait(point string, d time.Duration) bool {
	select {
	case p := <-c.arrive:
		if p != point {
			panic("Execute reached " + p + " instead of " + point)
		}
		return true
	case <-time.After(d):
		return false
	}
}

func (c *execCtl) release() { c.proceed <- struct{}{} }

type execScenario struct {
	name    string
	batches [][]string // ops applied at: top, hold-break, after sweep, top, hold-break, ...
	branch  string
}

func (e *engine) c29Exec() {
	rng := e.rng
	scs := []execScenario{
		{name: "release-before-announce", batches: [][]string{{"addSub:7", "release:7", "addPeer:1"}, {}, {}}, branch: "exec.release-before-announce"},
		{name: "release-in-hold-break", batches: [][]string{{"addSub:7", "addPeer:1"}, {"release:7"}, {}}, branch: "exec.release-in-hold-break"},
		{name: "release-announced", batches: [][]string{{"addSub:7", "addSub:8", "addPeer:1"}, {}, {"release:7"}, {"addPeer:2"}, {}, {}}, branch: "exec.step"},
		{name: "parked-no-wake", batches: [][]string{{"addSub:7", "addSub:7", "addPeer:1"}, {}, {}, {}, {}, {"release:7"}}, branch: "exec.step"},
	}
	nrand := 8 * e.a.Scale
	for i := 0; i < nrand; i++ {
		sc := execScenario{name: fmt.Sprintf("rand%d", i), branch: "exec.step"}
		live := map[int]int{}
		peerN := 0
		iters := 2 + rng.Intn(2)
		for b := 0; b < iters*3; b++ {
			var ops []string
			n := rng.Intn(4)
			if b == 0 {
				n = 1 + rng.Intn(4)
			}
			for k := 0; k < n; k++ {
				switch r := rng.Intn(10); {
				case r < 4:
					ch := 7 + rng.Intn(3)
					live[ch]++
					ops = append(ops, fmt.Sprintf("addSub:%d", ch))
				case r < 7:
					var cands []int
					for ch, c := range live {
						if c > 0 {
							cands = append(cands, ch)
						}
					}
					if len(cands) == 0 {
						continue
					}
					sort.Ints(cands)
					ch := cands[rng.Intn(len(cands))]
					live[ch]--
					ops = append(ops, fmt.Sprintf("release:%d", ch))
				case r < 9:
					if peerN >= 4 {
						continue
					}
					peerN++
					ops = append(ops, fmt.Sprintf("addPeer:%d", peerN))
				default:
					if peerN == 0 {
						continue
					}
					ops = append(ops, fmt.Sprintf("endPeer:%d", 1+rng.Intn(peerN)))
				}
			}
			sc.batches = append(sc.batches, ops)
		}
		scs = append(scs, sc)
	}
	for _, sc := range scs {
		e.execScenario(sc)
	}
}

func (e *engine) execScenario(sc execScenario) {
	rng := e.rng
	x := newNode(0, newKey(rng))
	ctl := &execCtl{fs: x.fs, arrive: make(chan string), proceed: make(chan struct{})}
	floodsub.VerifSetGate(ctl.gate)
	defer func() {
		ctl.free.Store(true)
		select {
		case ctl.proceed <- struct{}{}:
		default:
		}
		x.stop()
		// unblock a gate call that raced with free
		go func() {
			for {
				select {
				case <-ctl.arrive:
					ctl.proceed <- struct{}{}
				case <-time.After(300 * time.Millisecond):
					return
				}
			}
		}()
		time.Sleep(time.Millisecond)
		floodsub.VerifSetGate(nil)
	}()
	x.start()
	if !ctl.wait("floodsub.execTop", 5*time.Second) {
		panic("Execute did not start")
	}
	liveSubs := map[int][]pubsub.Subscription{}
	peers := map[int]*fakePeer{}
	ended := map[int]bool{}
	running := map[int]bool{} // initialised by a region1 that has run
	pendingPeers := []int{}
	var evs []string
	applyOp := func(op string) {
		parts := strings.Split(op, ":")
		n, _ := strconv.Atoi(parts[1])
		switch parts[0] {
		case "addSub":
			s, err := x.fs.AddSubscription(x.ctx, x.key.sk, fmt.Sprintf("ch%d", n))
			if err != nil {
				panic(err)
			}
			liveSubs[n] = append(liveSubs[n], s)
		case "release":
			l := liveSubs[n]
			if len(l) == 0 {
				return
			}
			l[len(l)-1].Release()
			liveSubs[n] = l[:len(l)-1]
		case "addPeer":
			if peers[n] != nil {
				return
			}
			peers[n] = attachFake(x, newKey(rng), uint64(500+n))
			pendingPeers = append(pendingPeers, n)
		case "endPeer":
			p := peers[n]
			if p == nil || ended[n] || !running[n] {
				return
			}
			p.sess.Close()
			ended[n] = true
			if !waitFor(5*time.Second, func() bool { _, ok := x.fs.VerifSnapshot().Peers[p.tpl]; return !ok }) {
				panic("session did not leave the peers map")
			}
		}
		evs = append(evs, op)
	}
	beliefOf := func(p *fakePeer) (map[int]bool, int) {
		_, subs, _ := p.snapshot()
		b := map[int]bool{}
		for _, s := range subs {
			ch, _ := strconv.Atoi(strings.TrimPrefix(s.GetChannelId(), "ch"))
			if s.GetSubscribe() {
				b[ch] = true
			} else {
				delete(b, ch)
			}
		}
		return b, len(subs)
	}
	showSet := func(m map[int]bool) string {
		var l []int
		for k, v := range m {
			if v {
				l = append(l, k)
			}
		}
		sort.Ints(l)
		if len(l) == 0 {
			return "_"
		}
		s := make([]string, len(l))
		for i := range l {
			s[i] = strconv.Itoa(l[i])
		}
		return strings.Join(s, "+")
	}
	query := func() string {
		evl := "_"
		if len(evs) != 0 {
			evl = strings.Join(evs, ",")
		}
		return e.m.Query("pubsub.exec evs=" + evl)
	}
	// expected number of SubscriptionOpts entries queued to each peer so far (from the model's beliefs
	// we cannot tell; count them independently: initial set size + changes), so wait by polling until stable
	settle := func() {
		last := -1
		for i := 0; i < 400; i++ {
			tot := 0
			for _, p := range peers {
				n, _, _ := p.snapshot()
				tot += n
			}
			if tot == last && i > 3 {
				return
			}
			last = tot
			time.Sleep(500 * time.Microsecond)
		}
	}
	phase := 0 // 0 = at execTop, 1 = at holdBreak, 2 = at execSent
	for _, batch := range sc.batches {
		for _, op := range batch {
			applyOp(op)
		}
		switch phase {
		case 0:
			ctl.release()
			if !ctl.wait("floodsub.holdBreak", 5*time.Second) {
				panic("Execute did not reach the hold-break")
			}
			evs = append(evs, "region1")
			for _, n := range pendingPeers {
				running[n] = true
			}
			pendingPeers = nil
			phase = 1
		case 1:
			ctl.release()
			if !ctl.wait("floodsub.execSent", 5*time.Second) {
				panic("Execute did not finish the sweep")
			}
			evs = append(evs, "region2")
			phase = 2
			// compare right after the sweep
			model := query()
			for _, ent := range strings.Split(lib.KV(model, "ntold"), ",") {
				kv := strings.SplitN(ent, ":", 2)
				if len(kv) != 2 {
					continue
				}
				pn, _ := strconv.Atoi(kv[0])
				want, _ := strconv.Atoi(kv[1])
				if p := peers[pn]; p != nil && !ended[pn] {
					waitFor(3*time.Second, func() bool { _, subs, _ := p.snapshot(); return len(subs) >= want })
				}
			}
			settle()
			var bl []string
			var ids []int
			for n := range peers {
				ids = append(ids, n)
			}
			sort.Ints(ids)
			mon := ""
			for _, n := range ids {
				b, _ := beliefOf(peers[n])
				if !ended[n] {
					bl = append(bl, fmt.Sprintf("%d:%s", n, showSet(b)))
				}
				if running[n] && !ended[n] {
					truth := map[int]bool{}
					for ch, l := range liveSubs {
						if len(l) > 0 {
							truth[ch] = true
						}
					}
					if showSet(b) != showSet(truth) {
						for ch := range b {
							if !truth[ch] {
								mon = fmt.Sprintf("after the sweep following the last release of channel ch%d, peer %d was never told Subscribe=false (it was told %s, the node subscribes to %s)", ch, n, showSet(b), showSet(truth))
							}
						}
						if mon == "" {
							mon = fmt.Sprintf("after a sweep peer %d believes %s but the node subscribes to %s", n, showSet(b), showSet(truth))
						}
					}
				}
			}
			st := x.fs.VerifSnapshot()
			var chl []string
			for ch, c := range st.Channels {
				chl = append(chl, fmt.Sprintf("%s:%d", strings.TrimPrefix(ch, "ch"), c))
			}
			sort.Strings(chl)
			chs := "_"
			if len(chl) != 0 {
				chs = strings.Join(chl, ",")
			}
			impl := fmt.Sprintf("chans=%s beliefs=%s", chs, dropEmptyBeliefs(strings.Join(bl, ",")))
			var mbl []string
			for _, ent := range strings.Split(lib.KV(model, "beliefs"), ",") {
				pn, _ := strconv.Atoi(strings.SplitN(ent, ":", 2)[0])
				if !ended[pn] { // what a closed stream received before it closed is not observable
					mbl = append(mbl, ent)
				}
			}
			mdl := fmt.Sprintf("chans=%s beliefs=%s", lib.KV(model, "chans"), dropEmptyBeliefs(strings.Join(mbl, ",")))
			op := "pubsub.exec evs=" + strings.Join(evs, ",")
			e.rep.Compare(op, mdl, impl, sc.branch, "pubsub.exec:"+sc.name, mon)
		case 2:
			// parked: the loop continues only if the wake token is set
			model := query()
			wake := lib.KV(model, "wake") == "1"
			ctl.release()
			if wake {
				if !ctl.wait("floodsub.execTop", 5*time.Second) {
					e.rep.Compare("pubsub.exec evs="+strings.Join(evs, ",")+" #wake", "wake=1", "parked", "exec.parked", "pubsub.exec:wake", "")
					return
				}
				evs = append(evs, "wakeup")
				phase = 0
			} else {
				got := ctl.wait("floodsub.execTop", 250*time.Millisecond)
				impl := "parked"
				if got {
					impl = "woke"
				}
				e.rep.Compare("pubsub.exec evs="+strings.Join(evs, ",")+" #wake", "parked", impl, "exec.parked", "pubsub.exec:wake", "")
				return
			}
		}
	}
}

// dropEmptyBeliefs removes peers that believe nothing (a peer never told anything is not listed by the model).
func dropEmptyBeliefs(s string) string {
	var out []string
	for _, ent := range strings.Split(s, ",") {
		if ent == "" || ent == "_" || strings.HasSuffix(ent, ":_") {
			continue
		}
		out = append(out, ent)
	}
	if len(out) == 0 {
		return "_"
	}
	return strings.Join(out, ",")
}

// c29ReleaseDuringCallback: a subscription with three handlers; a delivery goroutine is inside the
// FIRST handler it calls (the handler blocks) when Release() is called concurrently; a second
// message's delivery goroutine is pending too. Then the handler returns. Stated directly: no
// handler STARTS after Release() has returned, and Release() does not return while the delivery
// that was in progress can still start further handlers (it waits for the subscription's lock).
func (e *engine) c29ReleaseDuringCallback() {
	rng := e.rng
	for sc := 0; sc < 4*e.a.Scale; sc++ {
		x := newNode(0, newKey(rng))
		s, err := x.fs.AddSubscription(x.ctx, x.key.sk, "c1")
		if err != nil {
			panic(err)
		}
		var mu sync.Mutex
		var relReturned atomic.Bool
		started := 0
		lateStarts := 0
		var order []string
		entered := make(chan int, 8)
		unblock := make(chan struct{})
		for h := 1; h <= 3; h++ {
			h := h
			s.AddHandler(func(m pubsub.Message) {
				mu.Lock()
				started++
				first := started == 1
				if relReturned.Load() {
					lateStarts++
				}
				order = append(order, fmt.Sprintf("%d/%s", h, string(m.GetData())))
				mu.Unlock()
				if first {
					entered <- h
					<-unblock
				}
			})
		}
		x.start()
		if err := x.fs.Publish(x.ctx, "c1", x.key.sk, []byte("a")); err != nil {
			panic(err)
		}
		select {
		case <-entered:
		case <-time.After(10 * time.Second):
			panic("no handler was called")
		}
		second := sc%2 == 1
		if second {
			if err := x.fs.Publish(x.ctx, "c1", x.key.sk, []byte("b")); err != nil {
				panic(err)
			}
		}
		relDone := make(chan struct{})
		go func() {
			s.Release()
			relReturned.Store(true)
			close(relDone)
		}()
		// Release cannot return while a delivery holds the subscription's lock
		early := false
		select {
		case <-relDone:
			early = true
		case <-time.After(20 * time.Millisecond):
		}
		mu.Lock()
		startedAtRelease := started
		mu.Unlock()
		close(unblock)
		select {
		case <-relDone:
		case <-time.After(10 * time.Second):
			panic("Release did not return")
		}
		time.Sleep(3 * time.Millisecond)
		waitFor(time.Second, func() bool { mu.Lock(); defer mu.Unlock(); return started >= 3 })
		time.Sleep(2 * time.Millisecond)
		mu.Lock()
		late, tot := lateStarts, started
		mu.Unlock()
		mon := ""
		if late != 0 {
			mon = fmt.Sprintf("%d handler(s) of a subscription were STARTED after Release() of that subscription had returned (Release ran while a delivery was inside its first handler; %d handler calls in total, %d before Release was called)", late, tot, startedAtRelease)
		}
		// model: the delivery in progress is one atomic run (it holds the subscription's lock), Release follows it
		evs := "add:1,add:2,add:3,spawn:1,run:0,relA,relB"
		if second {
			evs = "add:1,add:2,add:3,spawn:1,spawn:2,run:0,relA,relB,run:0"
		}
		ncalls := func(evs string) (string, int) {
			op := fmt.Sprintf("pubsub.sub evs=%s #release-during-callback sc=%d", evs, sc)
			nm := 0
			if c := lib.KV(e.m.Query(op), "calls"); c != "_" {
				nm = len(strings.Split(c, ","))
			}
			return op, nm
		}
		op, nm := ncalls(evs)
		if second {
			// the pending delivery and Release() both wait for the subscription's lock: either may get it first
			if op2, nm2 := ncalls("add:1,add:2,add:3,spawn:1,spawn:2,run:0,run:0,relA,relB"); nm2 == tot {
				op, nm = op2, nm2
			}
		}
		impl := fmt.Sprintf("calls=%d early=%v", tot, early)
		e.rep.Compare(op, fmt.Sprintf("calls=%d early=false", nm), impl, "sub.release-during-callback", "pubsub.sub:release-during-callback", mon)
		x.stop()
	}
}
