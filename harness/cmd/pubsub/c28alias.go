package main

// C28, "any change to the claimed sender": a message of the round is presented again to a router
// with its sender id re-encoded (another byte string naming the same key; the signature still
// verifies under that key). Whatever the router did with the original, the copy must be dropped:
// nobody is handed the message a second time, it is not forwarded, and in particular it is not
// sent back to its publisher.

import (
	"fmt"
	"sort"
	"strings"
	"time"

	"github.com/aperturerobotics/bifrost/peer"
	"github.com/aperturerobotics/bifrost/pubsub/floodsub"
	"github.com/mr-tron/base58/base58"

	"verif/harness/lib"
)

// inject writes one packet into the stream of link l towards node `to`, as if the other end had sent it.
func (m *mesh) inject(l *mlink, to int, pkt *floodsub.Packet) {
	b, err := pkt.MarshalVT()
	if err != nil {
		panic(err)
	}
	frame := make([]byte, 4, 4+len(b))
	frame[0], frame[1], frame[2], frame[3] = byte(len(b)), byte(len(b)>>8), byte(len(b)>>16), byte(len(b)>>24)
	frame = append(frame, b...)
	end := l.ends[0] // a's end writes towards b
	if to == l.a {
		end = l.ends[1]
	}
	if _, err := end.w.write(frame); err != nil {
		panic(err)
	}
}

func (e *engine) aliasReplay(m *mesh, opHead string, pubs []meshPub) {
	rng := e.rng
	var cands []*meshPub
	m.mu.Lock()
	for k := range pubs {
		if !pubs[k].foreign && m.raw[pubs[k].data] != nil {
			cands = append(cands, &pubs[k])
		}
	}
	m.mu.Unlock()
	if len(cands) == 0 {
		return
	}
	p := cands[rng.Intn(len(cands))]
	type dir struct {
		l    *mlink
		from int
		to   int
	}
	var dirs []dir
	for _, l := range m.links {
		if !l.alive {
			continue
		}
		for _, to := range []int{l.a, l.b} {
			if m.subscribed(to, p.ch) && to != p.node {
				dirs = append(dirs, dir{l, l.other(to), to})
			}
		}
	}
	if len(dirs) == 0 {
		return
	}
	dr := dirs[rng.Intn(len(dirs))]
	b := dr.to
	m.mu.Lock()
	orig := m.raw[p.data]
	wire0, del0 := len(m.wires), len(m.dels)
	m.mu.Unlock()
	al := aliasIDs(m.nodes[p.node].key)
	alias := orig.CloneVT()
	alias.FromPeerId = base58.Encode(al[rng.Intn(len(al))])
	// the router's tables as the model sees them
	st := m.nodes[b].fs.VerifSnapshot()
	var chl []string
	for ch, c := range st.Channels {
		chl = append(chl, fmt.Sprintf("%s:%d", lib.Hex([]byte(ch)), c))
	}
	sort.Strings(chl)
	_, _, _, pcArg, peersArg := m.tables(b)
	sig := alias.GetSignature()
	op := fmt.Sprintf("pubsub.handle chans=%s pc=%s peers=%s seen=_ prev=%s from=%s spk=%s ht=%d sig=%s data=%s", strings.Join(chl, ","), pcArg, peersArg,
		lib.Hex([]byte(m.nodes[dr.from].key.id)), lib.Hex([]byte(alias.GetFromPeerId())), lib.Hex(sig.GetPubKey()), int32(sig.GetHashType()), lib.Hex(sig.GetSigData()), lib.Hex(alias.GetData()))
	model, _ := e.oracleQuery(op)
	// a fresh honest message behind it: once it was delivered and served at b, the copy was handled
	mk := newKey(rng)
	mdata := fmt.Sprintf("alias-marker-%d-%s", m.nextMsg, lib.Hex(rng.Bytes(4)))
	marker := rawSigned(mk, pubCtxPrefix+p.ch, 1, innerBytes([]byte(mdata), p.ch, nil))
	m.inject(dr.l, b, &floodsub.Packet{Publish: []*peer.SignedMsg{alias}})
	m.inject(dr.l, b, &floodsub.Packet{Publish: []*peer.SignedMsg{marker}})
	nsub := len(m.liveSubs(b, p.ch))
	waitFor(5*time.Second, func() bool {
		m.mu.Lock()
		defer m.mu.Unlock()
		c := 0
		for _, d := range m.dels[del0:] {
			if d.node == b && d.data == mdata {
				c++
			}
		}
		return c >= nsub && m.published[b][mdata] >= 1
	})
	m.quiesce()
	m.mu.Lock()
	dels := append([]meshDel(nil), m.dels[del0:]...)
	wires := append([]wireRec(nil), m.wires[wire0:]...)
	m.mu.Unlock()
	mon := ""
	nd, nf := 0, 0
	echoed := false
	for _, d := range dels {
		if d.data != p.data {
			continue
		}
		if d.node == b {
			nd++
		}
		mon = fmt.Sprintf("message %d was presented again to node %d with its sender id re-encoded (same key, other bytes; same signature): node %d handed it to a subscriber (reported sender %s, not the id of any key) although the claimed sender was changed", p.id, b, d.node, d.from.String())
	}
	for _, w := range wires {
		if w.isSub || w.data != p.data {
			continue
		}
		if w.from == b {
			nf++
		}
		if !echoed {
			mon = fmt.Sprintf("message %d was presented again to node %d with its sender id re-encoded (same key, other bytes; same signature): node %d forwarded the copy to node %d", p.id, b, w.from, w.to)
		}
		if w.to == p.node && !echoed {
			mon += fmt.Sprintf(": sent back to its original publisher node %d", p.node)
			echoed = true
		}
	}
	impl := "drop"
	if nd != 0 || nf != 0 {
		impl = fmt.Sprintf("ok nsubs=%d nfwd=%d", nd, nf)
	}
	mdl := "drop"
	if strings.HasPrefix(model, "ok ") {
		k := 0
		if f := lib.KV(model, "fwd"); f != "_" {
			k = len(strings.Split(f, ","))
		}
		mdl = fmt.Sprintf("ok nsubs=%d nfwd=%d", nsub, k)
		if lib.KV(model, "nsubs") != fmt.Sprint(len(m.liveSubs(b, p.ch))) {
			mdl += " (model nsubs=" + lib.KV(model, "nsubs") + ")"
		}
	}
	e.compareCapped(op+" #alias-replay "+strings.TrimPrefix(opHead, "pubsub.flood "), mdl, impl, "alias.replay", "pubsub.mesh:alias-sender", mon)
}
