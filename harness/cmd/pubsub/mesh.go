package main

// A dynamic mesh of REAL FloodSub routers wired by in-memory streams: any number of links per
// pair of nodes (parallel links), links that are closed and connected again with the same
// (peer, link id) tuple, a tuple connected again while its old session is still alive (session
// replace path of AddPeerStream), subscriptions added and released while the mesh runs, links
// whose receiving side stops reading (stall gate), and a wire tap on every directed link.
//
// Ground truth (who subscribes to what, which links are alive, who published what with which
// key) is kept by the harness; every monitor below is stated on that ground truth and on what
// the routers were observed to do (callbacks, frames written to the streams, table snapshots).

import (
	"crypto/ed25519"
	"fmt"
	"sort"
	"strconv"
	"strings"
	"sync"
	"sync/atomic"
	"time"

	"github.com/aperturerobotics/bifrost/hash"
	"github.com/aperturerobotics/bifrost/peer"
	"github.com/aperturerobotics/bifrost/pubsub"
	"github.com/aperturerobotics/bifrost/pubsub/floodsub"
	"github.com/mr-tron/base58/base58"

	"verif/harness/lib"
)

var chanNum = map[string]int{"c1": 1, "c2": 2, "c3": 3}
var meshChans = []string{"c1", "c2", "c3"}

type msub struct {
	id       int
	node     int
	ch       string
	s        pubsub.Subscription
	released atomic.Bool // Release() has returned
}

type meshDel struct {
	node int
	sub  *msub
	data string
	from peer.ID
	late bool // the handler ran although Release() of its subscription had returned
}

// wireRec is one entry of a packet written to a stream (one directed link).
type wireRec struct {
	seq      int
	from, to int
	link     uint64
	isSub    bool
	// publish entry
	data string // data field of the inner message (unique per published message)
	auth bool   // the entry verifies under crypto/ed25519 for its claimed sender and signed channel
	ch   string // signed channel (publish) / announced channel (subscription entry)
	on   bool   // subscription entry: Subscribe flag
}

type mlink struct {
	id       uint64
	a, b     int
	alive    bool
	ends     [2]*memStream
	gate     [2]*stallGate // gate[0]: writes a->b block, gate[1]: writes b->a block
	sessions int           // how many times the tuple was connected
	// replacedLive: the current session of the tuple was opened while the previous one was alive
	replacedLive bool
}

func (l *mlink) other(i int) int {
	if l.a == i {
		return l.b
	}
	return l.a
}

type mesh struct {
	e        *engine
	nodes    []*node
	links    []*mlink
	subs     [][]*msub // per node: live subscriptions, in creation order
	nextSub  int
	nextLink uint64
	nextMsg  int

	mu       sync.Mutex
	seq      int
	dels     []meshDel
	wires    []wireRec
	firstHop []map[string]peer.ID // node -> message data -> previous hop of the accepted copy
	// published: node -> message data -> number of execPublish calls completed (verif hook)
	published []map[string]int
	byFS      map[*floodsub.FloodSub]int
	// everKnown: "observer/tuple/channel" seen in a table snapshot at a settle point
	everKnown map[string]bool
	// raw: message data -> the signed message as first seen on a wire
	raw map[string]*peer.SignedMsg
	// ended: node -> number of sessions that ended and ran their tear-down (verif hook)
	ended []int
	// afterPublish, if set, runs in meshRound right after the round's messages were published
	// (before quiescence is awaited): scenarios with a slow link lift the delay here
	afterPublish func(pubs []meshPub)
}

// drained: no byte written to any live stream is still waiting to be read by the far end.
func (m *mesh) drained() bool {
	for _, l := range m.links {
		if !l.alive {
			continue
		}
		for _, end := range l.ends {
			end.w.mu.Lock()
			n := len(end.w.buf)
			end.w.mu.Unlock()
			if n != 0 {
				return false
			}
		}
	}
	return true
}

var meshHashTypes = []hash.HashType{hash.HashType_HashType_UNKNOWN, hash.HashType_HashType_SHA256, hash.HashType_HashType_SHA1, hash.HashType_HashType_BLAKE3}

func newMesh(e *engine, n int) *mesh {
	m := &mesh{e: e, byFS: map[*floodsub.FloodSub]int{}, nextLink: 1000, everKnown: map[string]bool{}, raw: map[string]*peer.SignedMsg{}}
	for i := 0; i < n; i++ {
		// the hash type used by Publish is a per-router setting: every value, incl. "unset"
		nd := newNodeCfg(i, newKey(e.rng), &floodsub.Config{PublishHashType: meshHashTypes[e.rng.Intn(len(meshHashTypes))]})
		m.nodes = append(m.nodes, nd)
		m.byFS[nd.fs] = i
		m.firstHop = append(m.firstHop, map[string]peer.ID{})
		m.published = append(m.published, map[string]int{})
		m.subs = append(m.subs, nil)
		m.ended = append(m.ended, 0)
	}
	return m
}

func (m *mesh) subscribe(i int, ch string) *msub { return m.subscribeKey(i, ch, m.nodes[i].key) }

// subscribeKey adds a subscription of node i to ch held under key k (the API takes a private key
// per subscription: it need not be the identity the node's links are made with).
func (m *mesh) subscribeKey(i int, ch string, k *key) *msub {
	nd := m.nodes[i]
	s, err := nd.fs.AddSubscription(nd.ctx, k.sk, ch)
	if err != nil {
		panic(err)
	}
	m.nextSub++
	ms := &msub{id: m.nextSub, node: i, ch: ch, s: s}
	s.AddHandler(func(msg pubsub.Message) {
		late := ms.released.Load()
		m.mu.Lock()
		m.dels = append(m.dels, meshDel{node: i, sub: ms, data: string(msg.GetData()), from: msg.GetFrom(), late: late})
		m.mu.Unlock()
	})
	m.subs[i] = append(m.subs[i], ms)
	return ms
}

// release releases the most recent live subscription of node i to ch.
func (m *mesh) release(i int, ch string) bool {
	l := m.subs[i]
	for k := len(l) - 1; k >= 0; k-- {
		if l[k].ch == ch {
			l[k].s.Release()
			l[k].released.Store(true)
			m.subs[i] = append(l[:k:k], l[k+1:]...)
			return true
		}
	}
	return false
}

func (m *mesh) subscribed(i int, ch string) bool {
	for _, s := range m.subs[i] {
		if s.ch == ch {
			return true
		}
	}
	return false
}

func (m *mesh) liveSubs(i int, ch string) []*msub {
	var out []*msub
	for _, s := range m.subs[i] {
		if s.ch == ch {
			out = append(out, s)
		}
	}
	return out
}

// gate records the accepted copy of every message at every node (verif hook floodsub.seen).
func (m *mesh) gate(point string, fs *floodsub.FloodSub, objs ...any) {
	if point != "floodsub.seen" && point != "floodsub.published" && point != "floodsub.sessionEnded" {
		return
	}
	i, ok := m.byFS[fs]
	if !ok {
		return
	}
	if point == "floodsub.sessionEnded" {
		m.mu.Lock()
		m.ended[i]++
		m.mu.Unlock()
		return
	}
	if point == "floodsub.published" {
		d := string(d0(objs[0].(*peer.SignedMsg)))
		m.mu.Lock()
		m.published[i][d]++
		m.mu.Unlock()
		return
	}
	prev := objs[0].(peer.ID)
	pkt := objs[1].(*peer.SignedMsg)
	d := string(d0(pkt))
	m.mu.Lock()
	if _, dup := m.firstHop[i][d]; dup {
		m.firstHop[i][d+"#dup"] = prev
	} else {
		m.firstHop[i][d] = prev
	}
	m.mu.Unlock()
}

func (m *mesh) tap(from, to int, link uint64) func([]byte) {
	return func(frame []byte) {
		p, ok := framePayload(frame)
		if !ok {
			return
		}
		pkt := &floodsub.Packet{}
		if err := pkt.UnmarshalVT(p); err != nil {
			return
		}
		m.mu.Lock()
		defer m.mu.Unlock()
		for _, so := range pkt.GetSubscriptions() {
			m.seq++
			m.wires = append(m.wires, wireRec{seq: m.seq, from: from, to: to, link: link, isSub: true, ch: so.GetChannelId(), on: so.GetSubscribe()})
		}
		for _, pm := range pkt.GetPublish() {
			ch, _, auth := stdAuthentic(pm)
			if _, ok := m.raw[string(d0(pm))]; !ok {
				m.raw[string(d0(pm))] = pm.CloneVT()
			}
			m.seq++
			m.wires = append(m.wires, wireRec{seq: m.seq, from: from, to: to, link: link, data: string(d0(pm)), auth: auth, ch: ch})
		}
	}
}

// connect adds a new link (a new link id) between i and j; several links per pair are allowed.
func (m *mesh) connect(i, j int) *mlink {
	m.nextLink++
	l := &mlink{id: m.nextLink, a: i, b: j, gate: [2]*stallGate{newStallGate(), newStallGate()}}
	m.links = append(m.links, l)
	m.open(l)
	return l
}

// open connects the tuple of l with a fresh stream: the first time, again after close, or
// while the previous session is still alive (both routers then replace the session).
func (m *mesh) open(l *mlink) {
	ea, eb := newPipe()
	ea.tap = m.tap(l.a, l.b, l.id)
	eb.tap = m.tap(l.b, l.a, l.id)
	ea.gate, eb.gate = l.gate[0], l.gate[1]
	l.ends = [2]*memStream{ea, eb}
	l.replacedLive = l.alive
	l.alive = true
	l.sessions++
	ida, idb := m.nodes[l.a].key.id, m.nodes[l.b].key.id
	ini := ida.String() <= idb.String()
	if m.e.rng.Intn(2) == 0 {
		m.nodes[l.a].attach(idb, l.id, ea, ini)
		m.nodes[l.b].attach(ida, l.id, eb, !ini)
	} else {
		m.nodes[l.b].attach(ida, l.id, eb, !ini)
		m.nodes[l.a].attach(idb, l.id, ea, ini)
	}
}

func (m *mesh) closeLink(l *mlink) {
	l.alive = false
	l.gate[0].set(false)
	l.gate[1].set(false)
	l.ends[0].Close()
	l.ends[1].Close()
}

// stall makes node `to` of link l stop reading: writes towards it block.
func (m *mesh) stall(l *mlink, to int, on bool) {
	if l.b == to {
		l.gate[0].set(on)
	} else {
		l.gate[1].set(on)
	}
}

func (m *mesh) liveLinksOf(i int) []*mlink {
	var out []*mlink
	for _, l := range m.links {
		if l.alive && (l.a == i || l.b == i) {
			out = append(out, l)
		}
	}
	return out
}

func (m *mesh) neighbours(i int) []int {
	seen := map[int]bool{}
	var out []int
	for _, l := range m.liveLinksOf(i) {
		j := l.other(i)
		if !seen[j] {
			seen[j] = true
			out = append(out, j)
		}
	}
	sort.Ints(out)
	return out
}

func (m *mesh) idxOf(id peer.ID) int {
	for i, n := range m.nodes {
		if n.key.id == id {
			return i
		}
	}
	return -1
}

func (m *mesh) tplOf(l *mlink, remote int) pubsub.PeerLinkTuple {
	return pubsub.PeerLinkTuple{PeerID: m.nodes[remote].key.id, LinkID: l.id}
}

func hasTpl(l []pubsub.PeerLinkTuple, t pubsub.PeerLinkTuple) bool {
	for _, x := range l {
		if x == t {
			return true
		}
	}
	return false
}

// beliefProblem is the model-independent monitor "every neighbour's belief about my
// subscriptions = my actual subscriptions": for every router and every LIVE link, the router has
// exactly one initialised session for the link's tuple and lists the far end under a channel iff
// the far end has a live local subscription to it (ground truth kept by the harness). It returns
// ("", "") when all tables are exact, else (finding class, description).
func (m *mesh) beliefProblem() (string, string) {
	for i, n := range m.nodes {
		st := n.fs.VerifSnapshot()
		live := map[pubsub.PeerLinkTuple]*mlink{}
		for _, l := range m.liveLinksOf(i) {
			live[m.tplOf(l, l.other(i))] = l
		}
		if st.IncSessions != 0 {
			return "sessions", fmt.Sprintf("node %d has %d session(s) that were never initialised by Execute", i, st.IncSessions)
		}
		for ch, c := range st.Channels {
			// a released channel stays a key of m.channels until Execute sweeps it (transitional state,
			// exercised by C27's released-key case): not settled yet
			if c == 0 || !m.subscribed(i, ch) {
				return "sweep", fmt.Sprintf("node %d: channel %s has no live subscription but Execute never swept its key", i, ch)
			}
		}
		for tpl, inited := range st.Peers {
			if _, ok := live[tpl]; !ok {
				return "sessions", fmt.Sprintf("node %d still holds a session for link %d to node %d although the link is closed", i, tpl.LinkID, m.idxOf(tpl.PeerID))
			}
			if !inited {
				return "sessions", fmt.Sprintf("node %d: session for link %d not initialised", i, tpl.LinkID)
			}
		}
		for tpl, l := range live {
			if _, ok := st.Peers[tpl]; !ok {
				return "sessions", fmt.Sprintf("node %d has no session for the live link %d to node %d", i, l.id, l.other(i))
			}
			j := l.other(i)
			var bel, truth []string
			for _, ch := range meshChans {
				if hasTpl(st.PeerChannels[ch], tpl) {
					bel = append(bel, ch)
				}
				if m.subscribed(j, ch) {
					truth = append(truth, ch)
				}
			}
			if strings.Join(bel, "+") != strings.Join(truth, "+") {
				class := "belief"
				if l.sessions > 1 {
					class = "belief-reconnected"
				}
				if l.replacedLive {
					// a tuple connected again over its LIVE session keeps its table entry: what was announced
					// to the replaced session only is lost (known finding floodsub-replaced-session-stale)
					class = "belief-replaced-live"
				}
				return class, fmt.Sprintf("node %d believes that node %d (link %d, session %d of that tuple) subscribes to {%s} but node %d subscribes to {%s}",
					i, j, l.id, l.sessions, strings.Join(bel, ","), j, strings.Join(truth, ","))
			}
		}
	}
	return "", ""
}

// settle waits until the tables are exact; returns the problem that remains at the timeout.
func (m *mesh) settle(timeout time.Duration) (string, string) {
	var class, what string
	waitFor(timeout, func() bool {
		class, what = m.beliefProblem()
		return class == ""
	})
	if class == "" {
		// remember what every router knew (for the "an unsubscribe was received" branch)
		for i, n := range m.nodes {
			st := n.fs.VerifSnapshot()
			for ch, l := range st.PeerChannels {
				for _, tpl := range l {
					m.everKnown[fmt.Sprintf("%d/%s/%s", i, tplStr(tpl), ch)] = true
				}
			}
		}
	}
	return class, what
}

// tables renders router i's REAL tables: node-level (model Net: link ids dropped, only live
// sessions count) and tuple-level (model Router).
func (m *mesh) tables(i int) (subs, know, peers []string, pcArg, peersArg string) {
	st := m.nodes[i].fs.VerifSnapshot()
	ks, ps := map[string]bool{}, map[string]bool{}
	for ch := range st.Channels {
		subs = append(subs, strconv.Itoa(chanNum[ch]))
	}
	var pcl, pl []string
	chs := make([]string, 0, len(st.PeerChannels))
	for ch := range st.PeerChannels {
		chs = append(chs, ch)
	}
	sort.Strings(chs)
	for _, ch := range chs {
		var tl []string
		for _, tpl := range st.PeerChannels[ch] {
			tl = append(tl, tplStr(tpl))
			if _, liveSess := st.Peers[tpl]; liveSess {
				ks[fmt.Sprintf("%d/%d", chanNum[ch], m.idxOf(tpl.PeerID))] = true
			}
		}
		if len(tl) != 0 {
			pcl = append(pcl, lib.Hex([]byte(ch))+":"+strings.Join(tl, "+"))
		}
	}
	for tpl := range st.Peers {
		ps[strconv.Itoa(m.idxOf(tpl.PeerID))] = true
		pl = append(pl, tplStr(tpl))
	}
	for k := range ks {
		know = append(know, k)
	}
	for k := range ps {
		peers = append(peers, k)
	}
	sort.Strings(subs)
	sort.Strings(know)
	sort.Strings(peers)
	sort.Strings(pl)
	pcArg, peersArg = "_", "_"
	if len(pcl) != 0 {
		pcArg = strings.Join(pcl, ",")
	}
	if len(pl) != 0 {
		peersArg = strings.Join(pl, ",")
	}
	return
}

func plusOr(l []string) string {
	if len(l) == 0 {
		return "_"
	}
	return strings.Join(l, "+")
}

func (m *mesh) modelNodes() string {
	var parts []string
	for i := range m.nodes {
		subs, know, peers, _, _ := m.tables(i)
		parts = append(parts, plusOr(subs)+"|"+plusOr(know)+"|"+plusOr(peers))
	}
	return strings.Join(parts, ";")
}

func (m *mesh) stop() {
	for _, l := range m.links {
		l.gate[0].set(false)
		l.gate[1].set(false)
	}
	for _, n := range m.nodes {
		n.stop()
	}
}

type meshPub struct {
	node   int
	ch     string
	id     int
	origin int // model peer number of the signing identity
	data   string
	// foreign: signed with an identity that is not the publishing node's
	foreign bool
	signer  peer.ID
	// fkey: the foreign identity to sign with (nil: a fresh identity per round)
	fkey *key
	// via: publish through this subscription handle (its own key, which may differ from the node identity)
	via *msub
}

// reachSub: nodes reachable from src through live links whose far end subscribes to ch
// (independent restatement of "connected through subscribers").
func (m *mesh) reachSub(src int, ch string) map[int]bool {
	seen := map[int]bool{src: true}
	q := []int{src}
	for len(q) > 0 {
		a := q[0]
		q = q[1:]
		for _, b := range m.neighbours(a) {
			if !seen[b] && m.subscribed(b, ch) {
				seen[b] = true
				q = append(q, b)
			}
		}
	}
	return seen
}

func (m *mesh) reachAny(src int) map[int]bool {
	seen := map[int]bool{src: true}
	q := []int{src}
	for len(q) > 0 {
		a := q[0]
		q = q[1:]
		for _, b := range m.neighbours(a) {
			if !seen[b] {
				seen[b] = true
				q = append(q, b)
			}
		}
	}
	return seen
}

// ---- stdlib restatement of "authentic for the claimed sender and the signed channel" ----

// pbFields walks a protobuf message; returns the last length-delimited occurrence of fields 1
// and 2. ok=false when the bytes are not a well-formed message or field 1/2 has another wire type.
func innerFields(b []byte) (data []byte, ch string, ok bool) {
	for len(b) > 0 {
		tag, n := uvarint(b)
		if n <= 0 {
			return nil, "", false
		}
		b = b[n:]
		field, wt := tag>>3, tag&7
		if field == 0 {
			return nil, "", false
		}
		switch wt {
		case 0:
			_, n := uvarint(b)
			if n <= 0 {
				return nil, "", false
			}
			if field == 1 || field == 2 || field == 3 {
				return nil, "", false
			}
			b = b[n:]
		case 1:
			if len(b) < 8 || field <= 3 {
				return nil, "", false
			}
			b = b[8:]
		case 5:
			if len(b) < 4 || field <= 3 {
				return nil, "", false
			}
			b = b[4:]
		case 2:
			l, n := uvarint(b)
			if n <= 0 || uint64(len(b)-n) < l {
				return nil, "", false
			}
			v := b[n : n+int(l)]
			b = b[n+int(l):]
			if field == 1 {
				data = v
			}
			if field == 2 {
				ch = string(v)
			}
		default:
			return nil, "", false
		}
	}
	return data, ch, true
}

func uvarint(b []byte) (uint64, int) {
	var x uint64
	var s uint
	for i, c := range b {
		if i == 10 {
			return 0, -1
		}
		if c < 0x80 {
			if i == 9 && c > 1 {
				return 0, -1
			}
			return x | uint64(c)<<s, i + 1
		}
		x |= uint64(c&0x7f) << s
		s += 7
	}
	return 0, 0
}

// stdAuthentic: the message names a non-empty channel ch in its inner bytes and its signature
// verifies, with crypto/ed25519, under the key embedded in the CLAIMED sender id over the body
// prescribed for the context prefix+ch. Uses mr-tron/base58, crypto/ed25519, crypto/sha*, blake3.
func stdAuthentic(msg *peer.SignedMsg) (ch string, data []byte, ok bool) {
	data, ch, ok = innerFields(msg.GetData())
	if !ok || ch == "" {
		return ch, data, false
	}
	raw, err := base58.Decode(msg.GetFromPeerId())
	if err != nil {
		return ch, data, false
	}
	pk := pkOfID(raw)
	ht := int(msg.GetSignature().GetHashType())
	if pk == nil || ht < 1 || ht > 3 {
		return ch, data, false
	}
	return ch, data, ed25519.Verify(ed25519.PublicKey(pk), signBodyStd(pubCtxPrefix+ch, ht, msg.GetData()), msg.GetSignature().GetSigData())
}

// ---- one publish round on a settled mesh ----

// meshRound publishes pubs on a mesh whose tables are exact, waits for quiescence, compares
// with the model (deliveries per node: Net; forwarding targets per accepted copy: Net at node
// level and Router at (peer, link) level) and evaluates the monitors.
func (e *engine) meshRound(m *mesh, opHead string, pubs []meshPub, branch string) {
	n := len(m.nodes)
	nodesArg := m.modelNodes()
	extra := newKey(e.rng) // a publishing identity that is not a node
	var pl []string
	for k := range pubs {
		p := &pubs[k]
		m.nextMsg++
		p.id = m.nextMsg
		p.data = fmt.Sprintf("%s-m%d-%s", strings.SplitN(strings.TrimPrefix(opHead, "pubsub.flood scenario="), " ", 2)[0], p.id, lib.Hex(e.rng.Bytes(4)))
		p.origin = p.node
		p.signer = m.nodes[p.node].key.id
		if p.foreign {
			p.origin = 100 + p.node
			p.signer = extra.id
			if p.fkey != nil {
				p.signer = p.fkey.id
			}
		}
		pl = append(pl, fmt.Sprintf("%d/%d/%d/%d", p.node, p.id, p.origin, chanNum[p.ch]))
	}
	op := fmt.Sprintf("%s nodes=%s pubs=%s", opHead, nodesArg, strings.Join(pl, ","))
	model := e.m.Query(op)
	wantDel := map[int]map[int]bool{}
	for _, ent := range strings.Split(lib.KV(model, "del"), ",") {
		kv := strings.SplitN(ent, ":", 2)
		i, _ := strconv.Atoi(kv[0])
		wantDel[i] = map[int]bool{}
		if kv[1] != "_" {
			for _, s := range strings.Split(kv[1], "+") {
				id, _ := strconv.Atoi(s)
				wantDel[i][id] = true
			}
		}
	}
	m.mu.Lock()
	wire0, del0 := len(m.wires), len(m.dels)
	m.mu.Unlock()
	byID := map[int]*meshPub{}
	dataID := map[string]int{}
	for k := range pubs {
		p := &pubs[k]
		byID[p.id] = p
		dataID[p.data] = p.id
		sk := m.nodes[p.node].key.sk
		if p.foreign {
			sk = extra.sk
			if p.fkey != nil {
				sk = p.fkey.sk
			}
		}
		// the application's way to publish is the subscription handle (Subscription.Publish: the
		// handle's own channel, key and context); taken whenever the publisher holds one, on a coin flip
		if p.via != nil {
			if err := p.via.s.Publish([]byte(p.data)); err != nil {
				panic(err)
			}
			e.rep.Case(opHead+" #publish-through-handle", "x", "x", "publish.handle", false)
		} else if ls := m.liveSubs(p.node, p.ch); !p.foreign && len(ls) != 0 && e.rng.Intn(2) == 0 {
			if err := ls[e.rng.Intn(len(ls))].s.Publish([]byte(p.data)); err != nil {
				panic(err)
			}
			e.rep.Case(opHead+" #publish-through-handle", "x", "x", "publish.handle", false)
		} else if err := m.nodes[p.node].fs.Publish(m.nodes[p.node].ctx, p.ch, sk, []byte(p.data)); err != nil {
			panic(err)
		}
		if e.rng.Intn(2) == 0 {
			time.Sleep(time.Duration(e.rng.Intn(500)) * time.Microsecond)
		}
	}
	if m.afterPublish != nil {
		m.afterPublish(pubs)
	}
	// quiescence: all predicted deliveries arrived, then the wire stays silent
	expected := 0
	for i, ids := range wantDel {
		for id := range ids {
			if p := byID[id]; p != nil {
				expected += len(m.liveSubs(i, p.ch))
			}
		}
	}
	waitFor(5*time.Second, func() bool { m.mu.Lock(); defer m.mu.Unlock(); return len(m.dels)-del0 >= expected })
	// every node the model says accepts a message has accepted it, and every accepted copy went
	// through execPublish (so nothing of this round is still queued in a router)
	wantSeen := map[int][]string{}
	for _, ent := range strings.Split(lib.KV(model, "seen"), ",") {
		kv := strings.SplitN(ent, ":", 2)
		i, _ := strconv.Atoi(kv[0])
		if len(kv) == 2 && kv[1] != "_" {
			for _, s := range strings.Split(kv[1], "+") {
				id, _ := strconv.Atoi(s)
				if p := byID[id]; p != nil {
					wantSeen[i] = append(wantSeen[i], p.data)
				}
			}
		}
	}
	waitFor(5*time.Second, func() bool {
		m.mu.Lock()
		defer m.mu.Unlock()
		for i, l := range wantSeen {
			for _, d := range l {
				if _, ok := m.firstHop[i][d]; !ok {
					return false
				}
			}
		}
		for i := range m.nodes {
			for k := range pubs {
				if _, ok := m.firstHop[i][pubs[k].data]; ok && m.published[i][pubs[k].data] == 0 {
					return false
				}
			}
		}
		return true
	})
	last := -1
	for i := 0; i < 200; i++ {
		time.Sleep(4 * time.Millisecond)
		m.mu.Lock()
		cur := len(m.dels) + len(m.wires)
		m.mu.Unlock()
		if cur == last && i >= 4 && m.drained() {
			break
		}
		last = cur
	}
	m.mu.Lock()
	dels := append([]meshDel(nil), m.dels[del0:]...)
	var wires []wireRec
	for _, w := range m.wires[wire0:] {
		if !w.isSub {
			wires = append(wires, w)
		}
	}
	m.mu.Unlock()

	// implementation outcome in the model's format
	cnt := map[[2]int]int{} // subscription id, message id
	for _, d := range dels {
		cnt[[2]int{d.sub.id, dataID[d.data]}]++
	}
	var implParts []string
	mon := ""
	key := "pubsub.mesh:" + branch
	for i := 0; i < n; i++ {
		var ids []string
		for k := range pubs {
			p := &pubs[k]
			tot, bad := 0, false
			for _, s := range m.subs[i] {
				c := cnt[[2]int{s.id, p.id}]
				if s.ch != p.ch {
					if c != 0 {
						bad = true
						mon = fmt.Sprintf("node %d: subscription of channel %s was handed a message of channel %s", i, s.ch, p.ch)
					}
					continue
				}
				tot += c
				if c > 1 {
					bad = true
					mon = fmt.Sprintf("node %d: message %d handed %d times to one subscription (at most once violated)", i, p.id, c)
					key = "pubsub.mesh:duplicate-delivery"
				}
				if c == 0 {
					bad = tot != 0 || bad
				}
			}
			if tot > 0 {
				s := strconv.Itoa(p.id)
				if bad {
					s += "!"
				}
				ids = append(ids, s)
			}
		}
		if len(ids) == 0 {
			implParts = append(implParts, fmt.Sprintf("%d:_", i))
		} else {
			implParts = append(implParts, fmt.Sprintf("%d:%s", i, strings.Join(ids, "+")))
		}
	}
	impl := "ok del=" + strings.Join(implParts, ",")
	mdl := "ok del=" + lib.KV(model, "del")

	// ---- monitors restating the property (no model involved) ----
	for _, d := range dels {
		id, ok := dataID[d.data]
		if !ok {
			mon = fmt.Sprintf("node %d: a subscriber of %s was handed data nobody published in this round (%q)", d.node, d.sub.ch, d.data)
			continue
		}
		if d.late {
			mon = fmt.Sprintf("node %d: a handler of a subscription to %s was invoked after Release() of that subscription had returned", d.node, d.sub.ch)
			key = "pubsub.mesh:callback-after-release"
		}
		// the reported sender is the identity whose key signed the message
		if d.from != byID[id].signer {
			mon = fmt.Sprintf("node %d: message %d was handed to a subscriber with reported sender %s but it was signed and published by %s", d.node, id, d.from.String(), byID[id].signer.String())
			key = "pubsub.mesh:wrong-sender"
		}
	}
	// no re-flood: a router writes a given message at most once to a given (peer, link) stream
	// (it serves each message once: a copy that comes back, also to its publisher, is dropped)
	type wkey struct {
		from, to int
		link     uint64
		data     string
	}
	written := map[wkey]int{}
	for _, w := range wires {
		written[wkey{w.from, w.to, w.link, w.data}]++
	}
	reflood := ""
	for _, w := range wires { // first offender in wire order (deterministic)
		if c := written[wkey{w.from, w.to, w.link, w.data}]; c > 1 && dataID[w.data] != 0 && reflood == "" {
			reflood = fmt.Sprintf("node %d wrote message %d %d times to node %d on link %d: the message was flooded again", w.from, dataID[w.data], c, w.to, w.link)
		}
	}
	if reflood != "" {
		e.rep.Compare(op+" #re-flood", "once", "again", branch, "pubsub.mesh:re-flood", reflood)
	}
	for _, w := range wires {
		id := dataID[w.data]
		if id == 0 {
			mon = fmt.Sprintf("a packet carrying an unknown message (%q) was sent by node %d to node %d", w.data, w.from, w.to)
			continue
		}
		p := byID[id]
		if !w.auth || w.ch != p.ch {
			mon = fmt.Sprintf("node %d wrote a publish entry for message %d to node %d that does not verify (crypto/ed25519) for its claimed sender and channel %s", w.from, id, w.to, p.ch)
			key = "pubsub.mesh:unauthentic-on-wire"
		}
		if p.origin < 100 && w.to == p.origin {
			mon = fmt.Sprintf("message %d sent back to its original publisher (node %d -> node %d on link %d)", id, w.from, w.to, w.link)
			key = "pubsub.mesh:echo-origin"
		}
		// previous hop as recorded by the router when it accepted the copy (verif hook)
		m.mu.Lock()
		prev, ok := m.firstHop[w.from][w.data]
		m.mu.Unlock()
		if ok && m.idxOf(prev) == w.to {
			mon = fmt.Sprintf("message %d sent back to the peer it was received from (node %d -> node %d on link %d)", id, w.from, w.to, w.link)
			key = "pubsub.mesh:echo-prevhop"
		}
		// the same clause on the wire alone: every copy node `from` had been sent before it
		// wrote this one came from node `to`, so `to` is the peer it received the message from
		if w.from != p.node {
			inbound, allFromTo := 0, true
			for _, r := range wires {
				if r.to == w.from && r.data == w.data && r.seq < w.seq {
					inbound++
					if r.from != w.to {
						allFromTo = false
					}
				}
			}
			if inbound == 0 {
				mon = fmt.Sprintf("node %d wrote message %d to node %d before any copy of it had been sent to node %d", w.from, id, w.to, w.from)
				key = "pubsub.mesh:forward-before-receive"
			} else if allFromTo {
				mon = fmt.Sprintf("wire tap: node %d wrote message %d to node %d (link %d) although every copy it had been sent came from node %d: sent back to the peer it came from", w.from, id, w.to, w.link, w.to)
				key = "pubsub.mesh:echo-prevhop"
			}
		}
		if !m.subscribed(w.to, p.ch) {
			mon = fmt.Sprintf("message %d sent to node %d which has no subscription to %s (never announced, or withdrawn and the withdrawal was received)", id, w.to, p.ch)
			key = "pubsub.mesh:sent-to-unsubscribed"
		}
	}
	unsubRelay := ""
	for k := range pubs {
		p := &pubs[k]
		rs := m.reachSub(p.node, p.ch)
		ra := m.reachAny(p.node)
		for i := 0; i < n; i++ {
			if !m.subscribed(i, p.ch) {
				continue
			}
			got := true
			for _, s := range m.liveSubs(i, p.ch) {
				if cnt[[2]int{s.id, p.id}] == 0 {
					got = false
				}
			}
			if rs[i] && !got {
				mon = fmt.Sprintf("message %d did not reach (every subscription of) node %d although it is connected to the publisher through subscribers", p.id, i)
				key = "pubsub.mesh:lost"
			}
			if ra[i] && !rs[i] && !got {
				unsubRelay = fmt.Sprintf("message %d on %s published at node %d never reached subscriber node %d: every path between them passes through a node that is not subscribed to the channel, and such nodes do not relay", p.id, p.ch, p.node, i)
			}
		}
	}
	e.rep.Compare(op, mdl, impl, branch, key, mon)
	if lib.KV(model, "quiescent") != "1" {
		e.rep.Compare(op+" #quiescent", "quiescent=1", "quiescent="+lib.KV(model, "quiescent"), branch, "pubsub.mesh:model-not-quiescent", "")
	}
	if unsubRelay != "" && e.a.Prop == "C28" {
		// the full-strength clause ("reaches every subscriber of a connected mesh") fails by design
		// (reported as a finding a few times per run only: the report keeps at most 200 disagreements
		// and the known finding must not crowd out anything else)
		if e.unsubRelayShown < 4 {
			e.unsubRelayShown++
			e.rep.Compare(op+" #full-reach", mdl, impl, "mesh.unsubscribed-relay", "pubsub.mesh:unsubscribed-relay", unsubRelay)
		} else {
			e.rep.Case(op+" #full-reach", mdl, impl, "mesh.unsubscribed-relay", true)
		}
	}
	// branch: a router that had been told Subscribe=true and later Subscribe=false for a
	// neighbour accepted a message of that channel (and, by the wire monitor above, did not send it there)
	for k := range pubs {
		p := &pubs[k]
		for i := 0; i < n; i++ {
			m.mu.Lock()
			_, accepted := m.firstHop[i][p.data]
			m.mu.Unlock()
			if !accepted {
				continue
			}
			for _, l := range m.liveLinksOf(i) {
				j := l.other(i)
				if !m.subscribed(j, p.ch) && m.everKnown[fmt.Sprintf("%d/%s/%s", i, tplStr(m.tplOf(l, j)), p.ch)] {
					e.rep.Case(fmt.Sprintf("%s #unsubscribe-received node=%d from=%d ch=%s", opHead, i, j, p.ch), "x", "x", "mesh.unsubscribe-received", false)
				}
			}
		}
	}
	defer func() {
		if e.a.Prop == "C28" {
			e.aliasReplay(m, opHead, pubs)
		}
	}()
	// per node: forwarding targets of every accepted message vs the models' execPublish
	for i := 0; i < n; i++ {
		_, know, peers, pcArg, peersArg := m.tables(i)
		for k := range pubs {
			p := &pubs[k]
			m.mu.Lock()
			prev, ok := m.firstHop[i][p.data]
			_, dup := m.firstHop[i][p.data+"#dup"]
			m.mu.Unlock()
			if dup {
				e.rep.Compare(op+" #seen-twice", "once", "twice", branch, "pubsub.mesh:seen-twice", fmt.Sprintf("node %d passed the seen-message check twice for message %d", i, p.id))
			}
			if !ok {
				continue
			}
			prevN := m.idxOf(prev)
			if prevN < 0 {
				prevN = p.origin
			}
			// (1) node level (model Net.fwdTargets)
			fop := fmt.Sprintf("pubsub.fwd know=%s peers=%s origin=%d prev=%d ch=%d", plusOr(know), plusOr(peers), p.origin, prevN, chanNum[p.ch])
			fm := e.m.Query(fop)
			// (2) (peer, link) level (model Router / execPublishTargets): one write per announced tuple
			top := fmt.Sprintf("pubsub.targets chans=_ pc=%s peers=%s seen=_ ch=%s from=%s prev=%s", pcArg, peersArg,
				lib.Hex([]byte(p.ch)), lib.Hex([]byte(p.signer.String())), lib.Hex([]byte(prev)))
			tm := e.m.Query(top)
			observed := func() (string, string) {
				m.mu.Lock()
				defer m.mu.Unlock()
				tos := map[int]bool{}
				var tpls []string
				for _, w := range m.wires[wire0:] {
					if !w.isSub && w.from == i && w.data == p.data {
						tos[w.to] = true
						tpls = append(tpls, tplStr(pubsub.PeerLinkTuple{PeerID: m.nodes[w.to].key.id, LinkID: w.link}))
					}
				}
				var tl []int
				for t := range tos {
					tl = append(tl, t)
				}
				sort.Ints(tl)
				sort.Strings(tpls)
				s := make([]string, len(tl))
				for k := range tl {
					s[k] = strconv.Itoa(tl[k])
				}
				a, b := "ok _", "ok _"
				if len(s) != 0 {
					a = "ok " + strings.Join(s, "+")
				}
				if len(tpls) != 0 {
					b = "ok " + strings.Join(tpls, ",")
				}
				return a, b
			}
			// the writes of an accepted copy may still be queued in the sessions: wait for the predicted set
			waitFor(3*time.Second, func() bool { a, b := observed(); return a == fm && b == tm })
			fi, ti := observed()
			fb := "fwd.some"
			if fm == "ok _" {
				fb = "fwd.none"
			}
			e.rep.Compare(fop, fm, fi, fb, "pubsub.fwd", "")
			tb := "targets.one-link"
			if tm == "ok _" {
				tb = "targets.none"
			} else if strings.Count(tm, ",")+1 > len(strings.Split(strings.TrimPrefix(fm, "ok "), "+")) {
				tb = "targets.parallel-links"
			}
			e.rep.Compare(top, tm, ti, tb, "pubsub.targets", "")
		}
	}
}
