package main

import (
	"bytes"
	"crypto/ed25519"
	"crypto/sha1"
	"crypto/sha256"
	"fmt"
	"sort"
	"strconv"
	"strings"
	"sync"
	"time"

	"github.com/aperturerobotics/bifrost/hash"
	"github.com/aperturerobotics/bifrost/peer"
	"github.com/aperturerobotics/bifrost/pubsub"
	"github.com/aperturerobotics/bifrost/pubsub/floodsub"
	"github.com/aperturerobotics/bifrost/pubsub/util/pubmessage"
	stream_packet "github.com/aperturerobotics/bifrost/stream/packet"
	pbl "github.com/aperturerobotics/protobuf-go-lite"
	"github.com/mr-tron/base58/base58"
	"github.com/zeebo/blake3"

	"verif/harness/lib"
)

// The signing context of a pubsub message, restated from the specification text
// (pubsub/util/pubmessage/pubmessage.go): prefix followed by the channel id.
const pubCtxPrefix = "bifrost/pubsub/pubmessage 2024-06-05T02:38:47.55258Z channel/"
const signSep = " - SIGN - "

func stdSum(t int, data []byte) []byte {
	switch t {
	case 1:
		h := sha256.Sum256(data)
		return h[:]
	case 2:
		h := sha1.Sum(data)
		return h[:]
	case 3:
		h := blake3.Sum256(data)
		return h[:]
	}
	return nil
}

func signBodyStd(ctx string, ht int, data []byte) []byte {
	return bytes.Join([][]byte{[]byte(ctx), []byte(strconv.Itoa(ht)), stdSum(ht, data)}, []byte(signSep))
}

// rawSigned builds a signed message with crypto/ed25519 directly (no bifrost signing code).
func rawSigned(k *key, ctx string, ht int, data []byte) *peer.SignedMsg {
	sig := ed25519.Sign(k.priv, signBodyStd(ctx, ht, data))
	return &peer.SignedMsg{FromPeerId: k.id.String(), Signature: &peer.Signature{HashType: hash.HashType(ht), SigData: sig}, Data: data}
}

func pbBytes(field int, b []byte) []byte {
	out := pbl.AppendVarint(nil, uint64(field<<3|2))
	out = pbl.AppendVarint(out, uint64(len(b)))
	return append(out, b...)
}

func pbVarint(field int, v uint64) []byte {
	out := pbl.AppendVarint(nil, uint64(field<<3|0))
	return pbl.AppendVarint(out, v)
}

// innerBytes encodes PubMessageInner{data, channel} by hand (optionally with a timestamp).
func innerBytes(data []byte, channel string, ts []byte) []byte {
	var out []byte
	if len(data) != 0 {
		out = append(out, pbBytes(1, data)...)
	}
	if len(channel) != 0 {
		out = append(out, pbBytes(2, []byte(channel))...)
	}
	if ts != nil {
		out = append(out, pbBytes(3, ts)...)
	}
	return out
}

// pkOfID extracts the Ed25519 key embedded in an identity-multihash peer id, by hand.
func pkOfID(id []byte) []byte {
	pre := []byte{0x00, 0x24, 0x08, 0x01, 0x12, 0x20}
	if len(id) == len(pre)+32 && bytes.Equal(id[:len(pre)], pre) {
		return id[len(pre):]
	}
	return nil
}

// aliasIDs returns byte strings that are NOT the peer id of k (IDFromPublicKey: identity multihash
// with minimal varints around the canonical key message) but decode, as a multihash + key
// message, to the same Ed25519 key: non-minimal varints for the hash code / the digest length,
// the key message with an unknown field, with its two fields reordered, with a repeated field.
func aliasIDs(k *key) [][]byte {
	raw := []byte(k.id) // 00 24 | 08 01 12 20 <32 bytes>
	digest := raw[2:]
	mh := func(code, dlen, dg []byte) []byte {
		return append(append(append([]byte(nil), code...), dlen...), dg...)
	}
	withLen := func(dg []byte) []byte { return mh([]byte{0x00}, pbl.AppendVarint(nil, uint64(len(dg))), dg) }
	return [][]byte{
		mh([]byte{0x80, 0x00}, []byte{0x24}, digest),                        // hash code 0 as a two-byte varint
		mh([]byte{0x00}, []byte{0xa4, 0x00}, digest),                        // digest length 36 as a two-byte varint
		withLen(append(append([]byte(nil), digest...), pbVarint(15, 3)...)), // unknown field behind the key
		withLen(append(append([]byte(nil), digest[2:]...), digest[:2]...)),  // data field before the type field
		withLen(append(append([]byte(nil), digest[:2]...), digest...)),      // type field twice
		mh([]byte{0x80, 0x80, 0x00}, []byte{0xa4, 0x80, 0x00}, digest),      // three-byte varints
	}
}

// pkOfIDLoose extracts the Ed25519 key an id names under ANY encoding a tolerant decoder accepts
// (uvarint multihash header, key message fields in any order, last occurrence wins, unknown
// fields skipped); nil when the bytes do not carry a 32-byte key of type 1.
func pkOfIDLoose(id []byte) []byte {
	code, n := uvarint(id)
	if n <= 0 || code != 0 {
		return nil
	}
	id = id[n:]
	dl, n := uvarint(id)
	if n <= 0 || uint64(len(id)-n) != dl {
		return nil
	}
	b := id[n:]
	var typ uint64
	var key []byte
	for len(b) > 0 {
		tag, n := uvarint(b)
		if n <= 0 {
			return nil
		}
		b = b[n:]
		switch tag & 7 {
		case 0:
			v, n := uvarint(b)
			if n <= 0 {
				return nil
			}
			b = b[n:]
			if tag>>3 == 1 {
				typ = v
			}
		case 2:
			l, n := uvarint(b)
			if n <= 0 || uint64(len(b)-n) < l {
				return nil
			}
			if tag>>3 == 2 {
				key = b[n : n+int(l)]
			}
			b = b[n+int(l):]
		default:
			return nil
		}
	}
	if typ != 1 || len(key) != 32 {
		return nil
	}
	return key
}

// oracleQuery answers the model's hash / verify / mid requests with library primitives.
func (e *engine) oracleQuery(op string) (string, int) {
	line := op
	vbit := -1
	for i := 0; i < 5; i++ {
		ans := e.m.Query(line)
		switch {
		case strings.HasPrefix(ans, "hash "):
			ht, _ := strconv.Atoi(lib.KV(ans, "ht"))
			line += " hash=" + lib.Hex(stdSum(ht, lib.Unhex(lib.KV(ans, "data"))))
		case strings.HasPrefix(ans, "verify "):
			pk := lib.Unhex(lib.KV(ans, "pk"))
			ok := len(pk) == ed25519.PublicKeySize && ed25519.Verify(ed25519.PublicKey(pk), lib.Unhex(lib.KV(ans, "body")), lib.Unhex(lib.KV(ans, "sig")))
			vbit = 0
			if ok {
				vbit = 1
			}
			line += " vbit=" + strconv.Itoa(vbit)
		case strings.HasPrefix(ans, "mid "):
			h := blake3.Sum256(lib.Unhex(lib.KV(ans, "key")))
			line += " mid=" + lib.Hex(h[:])
		default:
			return ans, vbit
		}
	}
	panic("oracle protocol did not terminate: " + op)
}

// fakePeer is a remote peer played by the harness on the other end of a stream.
type fakePeer struct {
	key  *key
	tpl  pubsub.PeerLinkTuple
	sess *stream_packet.Session
	mu   sync.Mutex
	subs []*floodsub.SubscriptionOpts // announcements received from the router
	fwd  []string                     // marshalled SignedMsgs received in publish packets
	pkts int
}

func (p *fakePeer) readLoop() {
	for {
		pkt := &floodsub.Packet{}
		if err := p.sess.RecvMsg(pkt); err != nil {
			return
		}
		p.mu.Lock()
		p.pkts++
		p.subs = append(p.subs, pkt.GetSubscriptions()...)
		for _, m := range pkt.GetPublish() {
			b, _ := m.MarshalVT()
			p.fwd = append(p.fwd, string(b))
		}
		p.mu.Unlock()
	}
}

func (p *fakePeer) snapshot() (int, []*floodsub.SubscriptionOpts, []string) {
	p.mu.Lock()
	defer p.mu.Unlock()
	return p.pkts, append([]*floodsub.SubscriptionOpts(nil), p.subs...), append([]string(nil), p.fwd...)
}

func (p *fakePeer) announce(chs ...string) {
	var so []*floodsub.SubscriptionOpts
	for _, c := range chs {
		so = append(so, &floodsub.SubscriptionOpts{ChannelId: c, Subscribe: true})
	}
	if err := p.sess.SendMsg(&floodsub.Packet{Subscriptions: so}); err != nil {
		panic(err)
	}
}

func attachFake(n *node, k *key, linkID uint64) *fakePeer {
	a, b := newPipe()
	p := &fakePeer{key: k, sess: stream_packet.NewSession(b, 1<<22)}
	p.tpl = n.attach(k.id, linkID, a, false)
	go p.readLoop()
	return p
}

type delivery struct {
	sub   int
	subCh string
	from  peer.ID
	data  []byte
}

type c27case struct {
	gen     string
	msg     *peer.SignedMsg
	via     int    // index of the fake peer the packet is sent from
	expect  *bool  // ground truth known to the generator: must be delivered / must be dropped
	expCh   string // channel it must be delivered on
	dataKey []byte // inner data (nil = unknown, take it from the model)
	op      string
	model   string
	vbit    int
	after   *c27case // must be presented to the router after this case (replays, re-used signatures)
}

func tplStr(t pubsub.PeerLinkTuple) string {
	return lib.Hex([]byte(t.PeerID)) + "/" + strconv.FormatUint(t.LinkID, 10)
}

func tr(b bool) *bool { return &b }

// runC27 feeds forged and honest publish packets to a real router through real streams.
func (e *engine) runC27() {
	e.rep.Rule = "ONE history per router of publish packets (Packet.Publish lists of 1-4 entries mixing rejected and valid entries in random order, replays and re-used signatures always after their source) sent to a real FloodSub over in-memory streams from 3 remote peers: re-use of the authentic signature of an earlier message (dropped as unsubscribed / unknown channel, delivered, rejected before verification) with other data / another channel / another sender / another hash type / only the channel rewritten; honest (3 channels, 3 hash types, 2 publishers, with/without timestamp), replayed via the same and another peer, tampered data, re-targeted channel (stale signature / signature for another channel's context), foreign signer with claimed sender, wrong context, empty channel, bad timestamp, unsubscribed / unknown channel, malformed sender / signature / hash type, duplicate-field and unknown-field encodings, random bit flips re-signed; observed = handler callbacks and packets forwarded to the other peers; distinct = distinct op line"
	e.rep.Require("ok", "ok.released-key", "dup", "nosub", "batch.mixed", "hist.reuse-after-unsubscribed", "hist.reuse-after-unknown-channel", "hist.reuse-after-delivered", "hist.reuse-after-bad-timestamp", "rejected.decode", "rejected.invalidInner", "rejected.sign.badSignature",
		"rejected.sign.emptyPeerId", "rejected.sign.sigInvalid", "rejected.sign.badPeerId", "rejected.sign.noPubKey", "inner.ok", "inner.err", "alias.sender", "local.subscribed", "local.unsubscribed-again")
	batches := 3 * e.a.Scale
	for b := 0; b < batches; b++ {
		e.c27Batch(b)
	}
	for i := 0; i < e.a.Scale; i++ {
		e.c27ReleasedKey(i)
	}
	for i := 0; i < 3*e.a.Scale; i++ {
		e.c27LocalChanges(i)
	}
	e.c27Inner()
}

// c27Inner: differential test of the inner decoder / validator alone.
func (e *engine) c27Inner() {
	n := 150 * e.a.Scale
	for i := 0; i < n; i++ {
		var d []byte
		switch i % 6 {
		case 0:
			d = innerBytes(e.rng.Bytes(e.rng.Intn(20)), []string{"alpha", "", "b", "x - SIGN - y"}[e.rng.Intn(4)], nil)
		case 1:
			secs := []uint64{0, 1, 1700000000, 253402300799, 253402300800, uint64(1<<64 - 62135596800), uint64(1<<64 - 62135596801), 1 << 63}[e.rng.Intn(8)]
			nanos := []uint64{0, 1, 999999999, 1000000000, uint64(1<<64 - 1), 1 << 31}[e.rng.Intn(6)]
			var ts []byte
			if secs != 0 || e.rng.Intn(2) == 0 {
				ts = append(ts, pbVarint(1, secs)...)
			}
			ts = append(ts, pbVarint(2, nanos)...)
			d = innerBytes(e.rng.Bytes(3), "alpha", ts)
		case 2:
			d = innerBytes(e.rng.Bytes(5), "alpha", pbVarint(1, 5))
			d = append(d, pbBytes(3, pbVarint(2, uint64(e.rng.Intn(3))*999999999))...) // merged timestamp
			if e.rng.Intn(2) == 0 {
				d = append(d, pbBytes(2, []byte("beta"))...) // last channel wins
			}
		case 3:
			d = innerBytes(e.rng.Bytes(5), "alpha", nil)
			d[e.rng.Intn(len(d))] ^= 1 << e.rng.Intn(8)
		case 4:
			d = e.rng.Bytes(e.rng.Intn(24))
		case 5:
			d = innerBytes(e.rng.Bytes(4), "alpha", nil)
			d = append(d, pbBytes(3, e.rng.Bytes(1+e.rng.Intn(6)))...) // garbage timestamp
			d = append(d, pbVarint(9, 7)...)                           // unknown field
		}
		op := "pubsub.inner data=" + lib.Hex(d)
		model := e.m.Query(op)
		impl := lib.Recover(func() string {
			in := &pubmessage.PubMessageInner{}
			if err := in.UnmarshalVT(d); err != nil {
				return "err"
			}
			v := 1
			if in.Validate() != nil {
				v = 0
			}
			return fmt.Sprintf("ok data=%s ch=%s secs=%d nanos=%d valid=%d", lib.Hex(in.GetData()), lib.Hex([]byte(in.GetChannel())), in.GetTimestamp().GetSeconds(), in.GetTimestamp().GetNanos(), v)
		})
		mon := ""
		if strings.HasPrefix(impl, "panic") {
			mon = "PubMessageInner decoder panics"
		}
		if strings.Contains(impl, " ch=- ") && strings.HasSuffix(impl, "valid=1") {
			mon = "Validate accepts an empty channel"
		}
		br := "inner.ok"
		if model == "err" {
			br = "inner.err"
		}
		e.rep.Compare(op, model, impl, br, "pubsub.inner", mon)
	}
}

func (e *engine) c27Batch(b int) {
	rng := e.rng
	x := newNode(0, newKey(rng))
	defer x.stop()
	var mu sync.Mutex
	var dels []delivery
	syncCh := make(chan string, 4096)
	// local subscriptions: alpha ×2, beta ×1, sync ×1
	subChans := []string{"alpha", "alpha", "beta"}
	subKey := newKey(rng)
	for i, ch := range subChans {
		s, err := x.fs.AddSubscription(x.ctx, subKey.sk, ch)
		if err != nil {
			panic(err)
		}
		i, ch := i, ch
		s.AddHandler(func(m pubsub.Message) {
			mu.Lock()
			dels = append(dels, delivery{sub: i, subCh: ch, from: m.GetFrom(), data: append([]byte(nil), m.GetData()...)})
			mu.Unlock()
		})
	}
	ss, _ := x.fs.AddSubscription(x.ctx, subKey.sk, "sync")
	ss.AddHandler(func(m pubsub.Message) { syncCh <- string(m.GetData()) })

	peers := []*fakePeer{attachFake(x, newKey(rng), 11), attachFake(x, newKey(rng), 12), attachFake(x, newKey(rng), 13)}
	// a second link to the first peer: same peer id, other link id
	peers = append(peers, attachFake(x, peers[0].key, 14))
	x.start()
	// every session is initialised once its initial subscription set arrived
	for _, p := range peers {
		if !waitFor(5*time.Second, func() bool { n, _, _ := p.snapshot(); return n >= 1 }) {
			panic("router did not initialise the session")
		}
	}
	announced := [][]string{{"alpha", "sync"}, {"alpha", "beta", "sync"}, {"alpha", "gamma", "sync"}, {"alpha", "sync"}}
	for i, p := range peers {
		p.announce(announced[i]...)
	}
	if !waitFor(5*time.Second, func() bool {
		st := x.fs.VerifSnapshot()
		return len(st.PeerChannels["alpha"]) == 4 && len(st.PeerChannels["beta"]) == 1 && len(st.PeerChannels["gamma"]) == 1 && len(st.PeerChannels["sync"]) == 4
	}) {
		panic("router did not record the peers' subscriptions")
	}
	// router tables as the model sees them
	chans := "chans=" + lib.Hex([]byte("alpha")) + ":2," + lib.Hex([]byte("beta")) + ":1," + lib.Hex([]byte("sync")) + ":1"
	pcOf := func(ch string, idx ...int) string {
		var l []string
		for _, i := range idx {
			l = append(l, tplStr(peers[i].tpl))
		}
		return lib.Hex([]byte(ch)) + ":" + strings.Join(l, "+")
	}
	pc := "pc=" + strings.Join([]string{pcOf("alpha", 0, 1, 2, 3), pcOf("beta", 1), pcOf("gamma", 2), pcOf("sync", 0, 1, 2, 3)}, ",")
	pl := "peers=" + strings.Join([]string{tplStr(peers[0].tpl), tplStr(peers[1].tpl), tplStr(peers[2].tpl), tplStr(peers[3].tpl)}, ",")

	pubs := []*key{newKey(rng), newKey(rng)}
	other := newKey(rng)
	markerKey := newKey(rng)
	seq := 0
	tag := func() []byte {
		seq++
		return append([]byte(fmt.Sprintf("b%d-c%d-", b, seq)), rng.Bytes(1+rng.Intn(12))...)
	}
	var cases []*c27case
	add := func(gen string, msg *peer.SignedMsg, via int, expect *bool, expCh string, dataKey []byte) *c27case {
		c := &c27case{gen: gen, msg: msg, via: via, expect: expect, expCh: expCh, dataKey: dataKey}
		cases = append(cases, c)
		return c
	}
	honest := func(k *key, ch string, ht int, data []byte, ts []byte) *peer.SignedMsg {
		return rawSigned(k, pubCtxPrefix+ch, ht, innerBytes(data, ch, ts))
	}
	nRounds := 4
	for r := 0; r < nRounds; r++ {
		k := pubs[r%2]
		ht := 1 + (r+b)%3
		via := r % 4
		ch := []string{"alpha", "beta"}[r%2]
		// honest, built by hand
		d := tag()
		h1 := honest(k, ch, ht, d, nil)
		ch1 := add("honest", h1, via, tr(true), ch, d)
		// honest, built by the library (with a timestamp)
		d = tag()
		lm, _, err := pubmessage.NewPubMessage(ch, k.sk, hash.HashType(ht), d)
		if err != nil {
			panic(err)
		}
		add("honest-lib", lm, (via+1)%3, tr(true), ch, d)
		// the publisher is one of the connected peers: never forwarded back to it
		d = tag()
		add("honest-origin-is-peer", honest(peers[(via+1)%3].key, "alpha", ht, d, nil), via, tr(true), "alpha", d)
		d = tag()
		add("honest-sent-by-origin", honest(peers[via].key, "alpha", ht, d, nil), via, tr(true), "alpha", d)
		// replays
		add("replay-same-peer", h1.CloneVT(), via, tr(false), "", d0(h1)).after = ch1
		add("replay-other-peer", h1.CloneVT(), (via+2)%3, tr(false), "", d0(h1)).after = ch1
		rp := h1.CloneVT()
		rp.Signature.PubKey = []byte{} // same id: the embedded key is not part of the id
		add("replay-reencoded", rp, (via+1)%3, tr(false), "", d0(h1)).after = ch1
		// the claimed sender changed to another ENCODING of the same key (the signature still
		// verifies under the key the alias names): a changed sender must be rejected. Fresh message,
		// replay of a delivered message (same signature: must not be handed out a second time), and
		// a publisher that is a connected peer (must not be sent back to it)
		al := aliasIDs(k)
		d = tag()
		t0 := honest(k, ch, ht, d, nil)
		t0.FromPeerId = base58.Encode(al[(r+b)%len(al)])
		add("alias-sender/fresh", t0, via, tr(false), "", d)
		rp = h1.CloneVT()
		rp.FromPeerId = base58.Encode(al[(r+b+1)%len(al)])
		add("alias-sender/replay", rp, (via+1)%3, tr(false), "", d0(h1)).after = ch1
		rp = h1.CloneVT()
		rp.FromPeerId = base58.Encode(al[(r+b+2)%len(al)])
		add("alias-sender/replay", rp, via, tr(false), "", d0(h1)).after = ch1
		d = tag()
		t0 = honest(peers[(via+1)%3].key, "alpha", ht, d, nil)
		t0.FromPeerId = base58.Encode(aliasIDs(peers[(via+1)%3].key)[(r+b+3)%len(al)])
		add("alias-sender/origin-is-peer", t0, via, tr(false), "", d)
		// channels the router does not subscribe to
		d = tag()
		add("unsubscribed-channel", honest(k, "gamma", ht, d, nil), via, tr(false), "", d)
		d = tag()
		add("unknown-channel", honest(k, []string{"zeta", "alph", "alpha/", "alphaa", "Alpha", "alpha\x00"}[rng.Intn(6)], ht, d, nil), via, tr(false), "", d)
		// tampered body under the old signature
		d = tag()
		t := honest(k, ch, ht, d, nil)
		d2 := append(append([]byte(nil), d...), 'X')
		t.Data = innerBytes(d2, ch, nil)
		add("tamper-data", t, via, tr(false), "", d2)
		// re-targeted: channel rewritten, stale signature
		d = tag()
		t = honest(k, "gamma", ht, d, nil)
		t.Data = innerBytes(d, "alpha", nil)
		add("retarget-stale-signature", t, via, tr(false), "", d)
		// re-targeted: signature is over the new bytes but made for the other channel's context
		d = tag()
		add("retarget-other-context", rawSigned(k, pubCtxPrefix+"gamma", ht, innerBytes(d, "alpha", nil)), via, tr(false), "", d)
		d = tag()
		add("retarget-subscribed-pair", rawSigned(k, pubCtxPrefix+"beta", ht, innerBytes(d, "alpha", nil)), via, tr(false), "", d)
		// wrong signing context altogether
		d = tag()
		wctx := []string{"", pubCtxPrefix, "alpha", pubCtxPrefix + "alpha ", "bifrost/pubsub/pubmessage", pubCtxPrefix + "alpha" + signSep + strconv.Itoa(ht)}[rng.Intn(6)]
		add("wrong-context", rawSigned(k, wctx, ht, innerBytes(d, "alpha", nil)), via, tr(false), "", d)
		// foreign signer, claimed sender
		d = tag()
		t = honest(other, ch, ht, d, nil)
		t.FromPeerId = k.id.String()
		add("foreign-signature", t, via, tr(false), "", d)
		// sender swapped to the signer of another valid message
		d = tag()
		t = honest(k, ch, ht, d, nil)
		t.FromPeerId = other.id.String()
		add("other-sender", t, via, tr(false), "", d)
		// empty channel (signed for the empty channel)
		d = tag()
		add("empty-channel", rawSigned(k, pubCtxPrefix, ht, innerBytes(d, "", nil)), via, tr(false), "", d)
		// timestamps
		d = tag()
		add("bad-timestamp", honest(k, ch, ht, d, append(pbVarint(1, []uint64{253402300800, 1 << 63, uint64(1<<64 - 62135596801)}[rng.Intn(3)]), pbVarint(2, 5)...)), via, tr(false), "", d)
		d = tag()
		add("bad-nanos", honest(k, ch, ht, d, append(pbVarint(1, 1700000000), pbVarint(2, []uint64{1000000000, uint64(1<<64 - 1)}[rng.Intn(2)])...)), via, tr(false), "", d)
		d = tag()
		add("zero-seconds-odd-nanos", honest(k, ch, ht, d, pbVarint(2, 1000000000)), via, tr(true), ch, d) // Validate only checks when seconds != 0
		d = tag()
		add("good-timestamp", honest(k, ch, ht, d, append(pbVarint(1, 1700000000), pbVarint(2, 999999999)...)), via, tr(true), ch, d)
		// encodings: last channel occurrence wins; unknown fields retained
		d = tag()
		dup := append(innerBytes(d, "beta", nil), pbBytes(2, []byte("alpha"))...)
		add("dup-channel-signed-for-last", rawSigned(k, pubCtxPrefix+"alpha", ht, dup), via, tr(true), "alpha", d)
		d = tag()
		dup = append(innerBytes(d, "beta", nil), pbBytes(2, []byte("alpha"))...)
		add("dup-channel-signed-for-first", rawSigned(k, pubCtxPrefix+"beta", ht, dup), via, tr(false), "", d)
		d = tag()
		add("unknown-field", rawSigned(k, pubCtxPrefix+ch, ht, append(innerBytes(d, ch, nil), pbVarint(15, 3)...)), via, tr(true), ch, d)
		// structural
		d = tag()
		t = honest(k, ch, ht, d, nil)
		t.Signature.HashType = hash.HashType([]int32{0, 4, -1, 1 + int32(ht%3)}[rng.Intn(4)])
		add("other-hashtype", t, via, tr(false), "", d)
		d = tag()
		t = honest(k, ch, ht, d, nil)
		t.Signature.SigData[rng.Intn(64)] ^= 1 << rng.Intn(8)
		add("tamper-signature", t, via, tr(false), "", d)
		d = tag()
		t = honest(k, ch, ht, d, nil)
		switch (r + b) % 4 {
		case 0:
			t.Signature = nil
		case 1:
			t.Signature.SigData = nil
		case 2:
			t.Signature.SigData = t.Signature.SigData[:63]
		case 3:
			t.Signature.PubKey = rng.Bytes(1 + rng.Intn(8))
		}
		add("broken-signature", t, via, tr(false), "", d)
		d = tag()
		t = honest(k, ch, ht, d, nil)
		t.FromPeerId = []string{"", "0OIl", "1", "zzzz", peer.ID([]byte{0x12, 0x02, 0xaa, 0xbb}).String(), peer.ID(append([]byte{0x00, 0x23, 0x08, 0x01, 0x12, 0x1f}, k.pub[:31]...)).String()}[(r+b)%6]
		add("bad-sender", t, via, tr(false), "", d)
		t = honest(k, ch, ht, tag(), nil)
		t.Data = nil
		add("empty-body", t, via, tr(false), "", nil)
		// an AUTHENTIC signature seen earlier (whatever became of its message: dropped as
		// unsubscribed / unknown channel, delivered, rejected before verification, replayed) is
		// re-used with other data, another channel, another sender text, another hash type
		type src struct {
			c  *c27case
			ch string
		}
		var srcs []src
		mkSrc := func(gen, sch string, exp *bool, ts []byte) src {
			sd := tag()
			return src{c: add(gen, honest(k, sch, ht, sd, ts), via, exp, sch, sd), ch: sch}
		}
		srcs = append(srcs, mkSrc("reuse-source-unsubscribed", "gamma", tr(false), nil))
		srcs = append(srcs, mkSrc("reuse-source-unsubscribed", "gamma", tr(false), nil))
		srcs = append(srcs, mkSrc("reuse-source-unknown-channel", "zeta", tr(false), nil))
		srcs = append(srcs, mkSrc("reuse-source-delivered", "alpha", tr(true), nil))
		srcs = append(srcs, mkSrc("reuse-source-delivered", "beta", tr(true), nil))
		srcs = append(srcs, mkSrc("reuse-source-bad-timestamp", "alpha", tr(false), append(pbVarint(1, 253402300800), pbVarint(2, 5)...)))
		for si, sc := range srcs {
			base := sc.c.msg
			otherCh := []string{"alpha", "beta"}[(si+r)%2]
			if otherCh == sc.ch {
				otherCh = []string{"beta", "alpha"}[(si+r)%2]
			}
			reuse := func(gen string, mut func(t *peer.SignedMsg, nd []byte)) {
				nd := tag()
				t := base.CloneVT()
				mut(t, nd)
				add(gen, t, (via+rng.Intn(3))%3, tr(false), "", nd).after = sc.c
			}
			reuse("reuse-signature-other-channel", func(t *peer.SignedMsg, nd []byte) { t.Data = innerBytes(nd, otherCh, nil) })
			switch (si + r + b) % 4 {
			case 0:
				reuse("reuse-signature-other-data", func(t *peer.SignedMsg, nd []byte) { t.Data = innerBytes(nd, sc.ch, nil) })
			case 1:
				reuse("reuse-signature-other-sender", func(t *peer.SignedMsg, nd []byte) {
					t.FromPeerId = other.id.String()
					t.Data = innerBytes(nd, otherCh, nil)
				})
			case 2:
				reuse("reuse-signature-other-hashtype", func(t *peer.SignedMsg, nd []byte) {
					t.Signature.HashType = hash.HashType(1 + ht%3)
					t.Data = innerBytes(nd, otherCh, nil)
				})
			case 3:
				// the pure re-target: same data bytes, only the channel rewritten (source never delivered)
				if sc.ch == "gamma" || sc.ch == "zeta" {
					t := base.CloneVT()
					t.Data = innerBytes(sc.c.dataKey, otherCh, nil)
					add("reuse-signature-retarget", t, (via+1)%3, tr(false), "", sc.c.dataKey).after = sc.c
				}
			}
		}
		// random bit flip in the inner bytes, re-signed for alpha: accepted iff it still decodes to alpha
		d = tag()
		ib := innerBytes(d, "alpha", nil)
		ib[rng.Intn(len(ib))] ^= 1 << rng.Intn(8)
		add("bitflip-resigned", rawSigned(k, pubCtxPrefix+"alpha", ht, ib), via, nil, "", nil)
		add("truncated-inner-signed", rawSigned(k, pubCtxPrefix+"alpha", ht, []byte{0x0a, 0x05, 0x01}), via, tr(false), "", nil)
		add("garbage-inner-signed", rawSigned(k, pubCtxPrefix+"alpha", ht, rng.Bytes(1+rng.Intn(30))), via, nil, "", nil)
	}

	// The cases form ONE history for this router: a random order that keeps every replay / re-used
	// signature after its source, cut into packets of 1-4 publish entries (rejected and valid
	// entries mixed in every order inside one Packet), each packet closed by a marker entry.
	{
		placed := map[*c27case]bool{}
		var order []*c27case
		rest := append([]*c27case(nil), cases...)
		for len(rest) > 0 {
			var ready []int
			for i, c := range rest {
				if c.after == nil || placed[c.after] {
					ready = append(ready, i)
				}
			}
			// mostly keep generation order locally (window of 12) so related classes stay near each other
			w := len(ready)
			if w > 12 {
				w = 12
			}
			i := ready[rng.Intn(w)]
			placed[rest[i]] = true
			order = append(order, rest[i])
			rest = append(rest[:i:i], rest[i+1:]...)
		}
		cases = order
	}
	var seen []string
	markers := map[string]bool{}
	sentVia := make([]int, len(peers))
	total := 0
	aborted := false
	for ci := 0; ci < len(cases) && !aborted; {
		gsz := 1
		if rng.Intn(5) >= 2 {
			gsz = 2 + rng.Intn(3)
		}
		if ci+gsz > len(cases) {
			gsz = len(cases) - ci
		}
		group := cases[ci : ci+gsz]
		via := group[0].via
		var entries []*peer.SignedMsg
		var gens []string
		for _, c := range group {
			c.via = via
			sig := c.msg.GetSignature()
			seenArg := "_"
			if len(seen) != 0 {
				seenArg = strings.Join(seen, ",")
			}
			c.op = fmt.Sprintf("pubsub.handle %s %s %s seen=%s prev=%s from=%s spk=%s ht=%d sig=%s data=%s", chans, pc, pl, seenArg,
				lib.Hex([]byte(peers[c.via].key.id)), lib.Hex([]byte(c.msg.GetFromPeerId())), lib.Hex(sig.GetPubKey()), int32(sig.GetHashType()), lib.Hex(sig.GetSigData()), lib.Hex(c.msg.GetData()))
			c.model, c.vbit = e.oracleQuery(c.op)
			if strings.HasPrefix(c.model, "ok ") {
				seen = append(seen, lib.KV(c.model, "id"))
			}
			entries = append(entries, c.msg)
			gens = append(gens, c.gen)
			if c.after != nil && strings.HasPrefix(c.gen, "reuse-signature") {
				// which fate of the source message precedes the re-use of its signature in this history
				e.rep.Case(fmt.Sprintf("pubsub.handle #history b=%d %s after %s", b, c.gen, c.after.gen), "x", "x",
					"hist.reuse-after-"+strings.TrimPrefix(c.after.gen, "reuse-source-"), false)
			}
		}
		if gsz > 1 {
			e.rep.Case(fmt.Sprintf("pubsub.handle #batch b=%d at=%d gens=%s", b, ci, strings.Join(gens, ",")), "x", "x", "batch.mixed", false)
		}
		mdata := []byte(fmt.Sprintf("marker-%d-%d", b, ci))
		mk := rawSigned(markerKey, pubCtxPrefix+"sync", 1, innerBytes(mdata, "sync", nil))
		mb, _ := mk.MarshalVT()
		markers[string(mb)] = true
		total++
		for i, p := range peers {
			if p.key.id == peers[via].key.id { // execPublish skips every link of the previous hop
				sentVia[i]++
			}
		}
		if err := peers[via].sess.SendMsg(&floodsub.Packet{Publish: append(entries, mk)}); err != nil {
			panic(err)
		}
		select {
		case got := <-syncCh:
			if got != string(mdata) {
				panic("marker out of order")
			}
		case <-time.After(5 * time.Second):
			e.rep.Compare(group[gsz-1].op+" #marker", "marker delivered", "marker not delivered", "ok", "pubsub.handle:marker-lost",
				"an authentic message on a subscribed channel (the sync marker closing the packet ["+strings.Join(gens, ",")+"]) was not handed to its subscriber within 5 s")
			// judge what was observed up to and including this packet
			aborted = true
			cases = cases[:ci+gsz]
		}
		ci += gsz
	}
	// drain: every peer must have received every marker not sent through itself
	for i, p := range peers {
		want := total - sentVia[i]
		if aborted {
			time.Sleep(20 * time.Millisecond)
			break
		}
		if !waitFor(10*time.Second, func() bool {
			_, _, fw := p.snapshot()
			n := 0
			for _, f := range fw {
				if markers[f] {
					n++
				}
			}
			return n >= want
		}) {
			panic("forwarded markers missing")
		}
	}
	// every predicted delivery must have happened (the callbacks run in their own goroutines)
	wantDels := 0
	for _, c := range cases {
		if strings.HasPrefix(c.model, "ok ") {
			n, _ := strconv.Atoi(lib.KV(c.model, "nsubs"))
			wantDels += n
		}
	}
	waitFor(5*time.Second, func() bool { mu.Lock(); defer mu.Unlock(); return len(dels) >= wantDels })
	time.Sleep(5 * time.Millisecond)

	// attribute the observations to the cases
	mu.Lock()
	allDels := dels
	mu.Unlock()
	usedDel := make([]bool, len(allDels))
	fwdBy := make([]map[string]int, len(peers))
	for i, p := range peers {
		fwdBy[i] = map[string]int{}
		_, _, fw := p.snapshot()
		for _, f := range fw {
			if !markers[f] {
				fwdBy[i][f]++
			}
		}
	}
	for _, c := range cases {
		dkey := c.dataKey
		if dkey == nil && strings.HasPrefix(c.model, "ok ") {
			dkey = lib.Unhex(lib.KV(c.model, "data"))
			if dkey == nil {
				dkey = []byte{} // accepted with empty data
			}
		}
		var mine []delivery
		// a delivery belongs to the case whose data it carries and whose claimed sender (as bytes) it reports
		rawFrom, errFrom := base58.Decode(c.msg.GetFromPeerId())
		if dkey != nil {
			for i, d := range allDels {
				if !usedDel[i] && bytes.Equal(d.data, dkey) && (errFrom != nil || string(d.from) == string(rawFrom)) {
					usedDel[i] = true
					mine = append(mine, d)
				}
			}
		}
		mb, _ := c.msg.MarshalVT()
		var fwd []string
		for i, p := range peers {
			if n := fwdBy[i][string(mb)]; n > 0 {
				for j := 0; j < n; j++ {
					fwd = append(fwd, tplStr(p.tpl))
				}
				fwdBy[i][string(mb)] = 0
			}
		}
		sort.Strings(fwd)
		impl := "drop"
		if len(mine) != 0 || len(fwd) != 0 {
			chs := map[string]bool{}
			snd := map[string]bool{}
			for _, d := range mine {
				chs[lib.Hex([]byte(d.subCh))] = true
				snd[lib.Hex([]byte(d.from))] = true
			}
			fs := "_"
			if len(fwd) != 0 {
				fs = strings.Join(fwd, ",")
			}
			impl = fmt.Sprintf("ok ch=%s sender=%s data=%s nsubs=%d fwd=%s", joinKeys(chs), joinKeys(snd), lib.Hex(dkey), len(mine), fs)
		}
		model := "drop"
		br := strings.ReplaceAll(c.model, " ", ".")
		if strings.HasPrefix(c.model, "ok ") {
			model = strings.SplitN(c.model, " id=", 2)[0]
			br = "ok"
		} else if strings.HasPrefix(c.model, "nosub") {
			br = "nosub"
		}
		// model-independent monitors
		mon := ""
		for _, d := range mine {
			// the signature verifies for the reported sender over the context of the RECEIVING subscription's channel
			pk := pkOfID([]byte(d.from))
			ht := int(c.msg.GetSignature().GetHashType())
			if pk == nil || !ed25519.Verify(ed25519.PublicKey(pk), signBodyStd(pubCtxPrefix+d.subCh, ht, c.msg.GetData()), c.msg.GetSignature().GetSigData()) {
				mon = "subscriber of channel " + d.subCh + " was handed a message whose signature does not verify for the reported sender and that channel (" + c.gen + ")"
			}
		}
		if c.expect != nil {
			if !*c.expect && len(mine) != 0 {
				mon = "a message that must be dropped was handed to a subscriber (" + c.gen + ")"
			}
			if !*c.expect && len(fwd) != 0 {
				mon = "a message that must be dropped was forwarded to other peers (" + c.gen + ")"
			}
			if *c.expect {
				want := 0
				for _, sc := range subChans {
					if sc == c.expCh {
						want++
					}
				}
				ok := len(mine) == want
				for _, d := range mine {
					if d.subCh != c.expCh {
						ok = false
					}
				}
				if !ok {
					mon = "an authentic message for a subscribed channel was not handed exactly once to each subscription of that channel (" + c.gen + ")"
				}
			}
		}
		for _, f := range fwd {
			for _, p := range peers {
				if f == tplStr(p.tpl) && p.key.id == peers[c.via].key.id {
					mon = "message sent back to the peer it came from (" + c.gen + ")"
				}
			}
			for _, p := range peers {
				if f == tplStr(p.tpl) && p.key.id.String() == c.msg.GetFromPeerId() {
					mon = "message sent back to its original publisher (" + c.gen + ")"
				}
				// the publisher is the holder of the key the claimed sender names, however the id is encoded
				if f == tplStr(p.tpl) && errFrom == nil && bytes.Equal(pkOfIDLoose(rawFrom), p.key.pub) {
					mon = "message sent back to the peer whose key its claimed sender names: its original publisher (" + c.gen + ")"
				}
			}
		}
		if strings.HasPrefix(c.gen, "alias-sender/") {
			e.rep.Case("pubsub.handle #alias-sender "+c.gen, "x", "x", "alias.sender", false)
		}
		e.compareCapped(c.op, model, impl, br, "pubsub.handle:"+c.gen, mon)
	}
	// stated on the observations alone (no case attribution, no model): whatever the router handed to
	// a subscriber or wrote to another peer is authentic for its claimed sender and for a channel the
	// router subscribes to, and a delivery carries the sender / channel / data of such a message
	type authKey struct{ from, ch, data string }
	authSent := map[authKey]bool{}
	for _, c := range cases {
		if ch, data, ok := stdAuthentic(c.msg); ok {
			if raw, err := base58.Decode(c.msg.GetFromPeerId()); err == nil {
				authSent[authKey{string(raw), ch, string(data)}] = true
			}
		}
	}
	for _, d := range allDels {
		if !authSent[authKey{string(d.from), d.subCh, string(d.data)}] {
			okey := "pubsub.handle:delivered-unauthentic"
			if pkOfID([]byte(d.from)) == nil && pkOfIDLoose([]byte(d.from)) != nil {
				okey = "pubsub.handle:alias-sender/delivered" // the reported sender is not the id of any key, only another encoding of one
			}
			e.compareCapped("pubsub.handle:delivered-unauthentic data="+lib.Hex(d.data), "none", "delivery", "ok", okey,
				fmt.Sprintf("a subscriber of %s was handed (sender %s, data %q) but no packet sent to the router carries that data with a signature that verifies (crypto/ed25519) for that sender and that channel", d.subCh, d.from.String(), d.data))
		}
	}
	for _, p := range peers {
		_, _, fw := p.snapshot()
		for _, f := range fw {
			if markers[f] {
				continue
			}
			fm := &peer.SignedMsg{}
			ch, _, ok := "", []byte(nil), false
			if err := fm.UnmarshalVT([]byte(f)); err == nil {
				ch, _, ok = stdAuthentic(fm)
			}
			if !ok || (ch != "alpha" && ch != "beta") {
				okey := "pubsub.handle:forwarded-unauthentic"
				if raw, err := base58.Decode(fm.GetFromPeerId()); err == nil && pkOfID(raw) == nil && pkOfIDLoose(raw) != nil {
					okey = "pubsub.handle:alias-sender/forwarded"
				}
				e.compareCapped("pubsub.handle:forwarded-unauthentic msg="+lib.Hex([]byte(f)), "none", "forward", "ok", okey,
					fmt.Sprintf("the router wrote a publish entry (claimed sender %q, channel %q) to another peer that does not verify (crypto/ed25519) for its claimed sender and channel, or names a channel the router does not subscribe to", fm.GetFromPeerId(), ch))
			}
		}
	}
	// anything left over was delivered / forwarded without a case accounting for it
	for i, d := range allDels {
		if !usedDel[i] {
			e.rep.Compare("pubsub.handle:unattributed", "none", "delivery data="+lib.Hex(d.data), "ok", "pubsub.handle:unattributed", "a subscriber was handed data that no accepted message carries")
		}
	}
	for i := range peers {
		for f, n := range fwdBy[i] {
			if n > 0 {
				e.rep.Compare("pubsub.handle:unattributed-forward", "none", "forward "+lib.Hex([]byte(f)), "ok", "pubsub.handle:unattributed", "a packet was forwarded that no accepted message accounts for")
			}
		}
	}
}

// d0 returns the data field of the hand-built inner message of m (field 1 of the inner bytes).
func d0(m *peer.SignedMsg) []byte {
	b := m.GetData()
	if len(b) < 2 || b[0] != 0x0a {
		return nil
	}
	n := int(b[1])
	if n >= 0x80 || len(b) < 2+n {
		return nil
	}
	return b[2 : 2+n]
}

func joinKeys(m map[string]bool) string {
	var l []string
	for k := range m {
		l = append(l, k)
	}
	sort.Strings(l)
	if len(l) == 0 {
		return "-"
	}
	return strings.Join(l, "|")
}

// c27ReleasedKey: a channel whose last subscription was released but which Execute has not
// swept yet is still a key of m.channels: a message for it is accepted (nobody is handed it)
// and forwarded. Execute is held in the hold-break through the gate to keep that state.
func (e *engine) c27ReleasedKey(i int) {
	rng := e.rng
	x := newNode(0, newKey(rng))
	ctl := &execCtl{fs: x.fs, arrive: make(chan string), proceed: make(chan struct{})}
	floodsub.VerifSetGate(ctl.gate)
	defer func() {
		ctl.free.Store(true)
		select {
		case ctl.proceed <- struct{}{}:
		default:
		}
		x.stop()
		go func() {
			for {
				select {
				case <-ctl.arrive:
					ctl.proceed <- struct{}{}
				case <-time.After(300 * time.Millisecond):
					return
				}
			}
		}()
		time.Sleep(time.Millisecond)
		floodsub.VerifSetGate(nil)
	}()
	var mu sync.Mutex
	var got []string
	syncCh := make(chan struct{}, 4)
	sa, _ := x.fs.AddSubscription(x.ctx, x.key.sk, "alpha")
	sa.AddHandler(func(m pubsub.Message) {
		mu.Lock()
		got = append(got, "alpha:"+string(m.GetData()))
		mu.Unlock()
		syncCh <- struct{}{}
	})
	sd, _ := x.fs.AddSubscription(x.ctx, x.key.sk, "delta")
	sd.AddHandler(func(m pubsub.Message) {
		mu.Lock()
		got = append(got, "delta:"+string(m.GetData()))
		mu.Unlock()
	})
	sd.Release()
	p := attachFake(x, newKey(rng), 31)
	q := attachFake(x, newKey(rng), 32)
	x.start()
	if !ctl.wait("floodsub.execTop", 5*time.Second) {
		panic("Execute did not start")
	}
	ctl.release()
	if !ctl.wait("floodsub.holdBreak", 5*time.Second) {
		panic("Execute did not reach the hold-break")
	}
	for _, fp := range []*fakePeer{p, q} {
		if !waitFor(5*time.Second, func() bool { n, _, _ := fp.snapshot(); return n >= 1 }) {
			panic("session not initialised")
		}
	}
	p.announce("alpha", "delta")
	q.announce("alpha", "delta")
	if !waitFor(5*time.Second, func() bool {
		st := x.fs.VerifSnapshot()
		return len(st.PeerChannels["delta"]) == 2 && len(st.PeerChannels["alpha"]) == 2
	}) {
		panic("peer subscriptions not recorded")
	}
	st := x.fs.VerifSnapshot()
	pub := newKey(rng)
	data := append([]byte(fmt.Sprintf("released-key-%d-", i)), rng.Bytes(4)...)
	msg := rawSigned(pub, pubCtxPrefix+"delta", 1+i%3, innerBytes(data, "delta", nil))
	chans := fmt.Sprintf("chans=%s:%d,%s:%d", lib.Hex([]byte("alpha")), st.Channels["alpha"], lib.Hex([]byte("delta")), st.Channels["delta"])
	both := tplStr(p.tpl) + "+" + tplStr(q.tpl)
	op := fmt.Sprintf("pubsub.handle %s pc=%s:%s,%s:%s peers=%s,%s seen=_ prev=%s from=%s spk=- ht=%d sig=%s data=%s", chans,
		lib.Hex([]byte("alpha")), both, lib.Hex([]byte("delta")), both, tplStr(p.tpl), tplStr(q.tpl),
		lib.Hex([]byte(p.key.id)), lib.Hex([]byte(msg.GetFromPeerId())), int32(msg.GetSignature().GetHashType()), lib.Hex(msg.GetSignature().GetSigData()), lib.Hex(msg.GetData()))
	model, _ := e.oracleQuery(op)
	mk := rawSigned(pub, pubCtxPrefix+"alpha", 1, innerBytes([]byte("marker"), "alpha", nil))
	if err := p.sess.SendMsg(&floodsub.Packet{Publish: []*peer.SignedMsg{msg, mk}}); err != nil {
		panic(err)
	}
	select {
	case <-syncCh:
	case <-time.After(5 * time.Second):
		panic("marker not delivered")
	}
	// let the loop sweep and then serve the publish queue
	ctl.free.Store(true)
	ctl.release()
	mb, _ := msg.MarshalVT()
	waitFor(3*time.Second, func() bool {
		_, _, fw := q.snapshot()
		n := 0
		for _, f := range fw {
			n++
			_ = f
		}
		return n >= 2
	})
	time.Sleep(3 * time.Millisecond)
	var fwd []string
	for _, fp := range []*fakePeer{p, q} {
		_, _, fw := fp.snapshot()
		for _, f := range fw {
			if f == string(mb) {
				fwd = append(fwd, tplStr(fp.tpl))
			}
		}
	}
	sort.Strings(fwd)
	mu.Lock()
	nd := 0
	for _, g := range got {
		if strings.HasPrefix(g, "delta:") {
			nd++
		}
	}
	mu.Unlock()
	fs := "_"
	if len(fwd) != 0 {
		fs = strings.Join(fwd, ",")
	}
	impl := fmt.Sprintf("ok ch=%s nsubs=%d fwd=%s", lib.Hex([]byte("delta")), nd, fs)
	mdl := model
	if strings.HasPrefix(model, "ok ") {
		mdl = fmt.Sprintf("ok ch=%s nsubs=%s fwd=%s", lib.KV(model, "ch"), lib.KV(model, "nsubs"), lib.KV(model, "fwd"))
	}
	mon := ""
	if nd != 0 {
		mon = "a handler of a released subscription was invoked"
	}
	e.rep.Compare(op, mdl, impl, "ok.released-key", "pubsub.handle:released-key", mon)
}
