package main

// In-memory plumbing for the pubsub engine: unbounded duplex byte pipes with a frame tap,
// fake mounted links / streams, and a wrapper that runs one REAL floodsub.FloodSub.

import (
	"context"
	"crypto/ed25519"
	"encoding/binary"
	"fmt"
	"io"
	"sync"
	"sync/atomic"
	"time"

	"github.com/aperturerobotics/bifrost/crypto"
	"github.com/aperturerobotics/bifrost/link"
	"github.com/aperturerobotics/bifrost/peer"
	"github.com/aperturerobotics/bifrost/protocol"
	"github.com/aperturerobotics/bifrost/pubsub"
	"github.com/aperturerobotics/bifrost/pubsub/floodsub"
	"github.com/aperturerobotics/bifrost/stream"
	"github.com/sirupsen/logrus"

	"verif/harness/lib"
)

// half is one direction of a duplex pipe: an unbounded byte queue.
type half struct {
	mu     sync.Mutex
	cond   *sync.Cond
	buf    []byte
	closed bool
}

func newHalf() *half {
	h := &half{}
	h.cond = sync.NewCond(&h.mu)
	return h
}

func (h *half) write(b []byte) (int, error) {
	h.mu.Lock()
	defer h.mu.Unlock()
	if h.closed {
		return 0, io.ErrClosedPipe
	}
	h.buf = append(h.buf, b...)
	h.cond.Broadcast()
	return len(b), nil
}

func (h *half) read(b []byte) (int, error) {
	h.mu.Lock()
	defer h.mu.Unlock()
	for len(h.buf) == 0 && !h.closed {
		h.cond.Wait()
	}
	if len(h.buf) == 0 {
		return 0, io.EOF
	}
	n := copy(b, h.buf)
	h.buf = h.buf[n:]
	return n, nil
}

func (h *half) close() {
	h.mu.Lock()
	h.closed = true
	h.cond.Broadcast()
	h.mu.Unlock()
}

// stallGate models a receiver that stopped reading (a closed transport window): while the
// gate is stalled every Write on the stream blocks before a single byte is handed over.
type stallGate struct {
	mu      sync.Mutex
	cond    *sync.Cond
	stalled bool
	blocked int // writers currently parked at the gate
}

func newStallGate() *stallGate {
	g := &stallGate{}
	g.cond = sync.NewCond(&g.mu)
	return g
}

func (g *stallGate) set(stalled bool) {
	g.mu.Lock()
	g.stalled = stalled
	g.cond.Broadcast()
	g.mu.Unlock()
}

func (g *stallGate) wait() {
	g.mu.Lock()
	for g.stalled {
		g.blocked++
		g.cond.Wait()
		g.blocked--
	}
	g.mu.Unlock()
}

func (g *stallGate) parked() int {
	g.mu.Lock()
	defer g.mu.Unlock()
	return g.blocked
}

// memStream is one end of a duplex in-memory stream (implements stream.Stream).
type memStream struct {
	r, w *half
	// gate, if set, blocks Write while the far end is "not reading".
	gate *stallGate
	// tap observes every Write (stream_packet.Session writes one whole frame per Write).
	tap func(frame []byte)
}

func (s *memStream) Read(b []byte) (int, error) { return s.r.read(b) }
func (s *memStream) Write(b []byte) (int, error) {
	if s.gate != nil {
		s.gate.wait()
	}
	if s.tap != nil {
		s.tap(append([]byte(nil), b...))
	}
	return s.w.write(b)
}
func (s *memStream) SetReadDeadline(time.Time) error  { return nil }
func (s *memStream) SetWriteDeadline(time.Time) error { return nil }
func (s *memStream) SetDeadline(time.Time) error      { return nil }
func (s *memStream) Close() error {
	s.r.close()
	s.w.close()
	return nil
}

// newPipe returns the two ends of a duplex stream.
func newPipe() (*memStream, *memStream) {
	ab, ba := newHalf(), newHalf()
	return &memStream{r: ba, w: ab}, &memStream{r: ab, w: ba}
}

var _ stream.Stream = (*memStream)(nil)

// framePayload strips the 4-byte little-endian length prefix of a stream_packet frame.
func framePayload(frame []byte) ([]byte, bool) {
	if len(frame) < 4 {
		return nil, false
	}
	n := binary.LittleEndian.Uint32(frame)
	if int(n) != len(frame)-4 {
		return nil, false
	}
	return frame[4:], true
}

// fakeMLink is a link.MountedLink.
type fakeMLink struct {
	uuid          uint64
	local, remote peer.ID
	open          func() (link.MountedStream, error)
	opened        int
	mu            sync.Mutex
}

func (l *fakeMLink) GetLinkUUID() uint64            { return l.uuid }
func (l *fakeMLink) GetTransportUUID() uint64       { return 7 }
func (l *fakeMLink) GetRemoteTransportUUID() uint64 { return 8 }
func (l *fakeMLink) GetLocalPeer() peer.ID          { return l.local }
func (l *fakeMLink) GetRemotePeer() peer.ID         { return l.remote }
func (l *fakeMLink) OpenMountedStream(ctx context.Context, pid protocol.ID, _ stream.OpenOpts) (link.MountedStream, error) {
	l.mu.Lock()
	l.opened++
	l.mu.Unlock()
	if l.open != nil {
		return l.open()
	}
	a, _ := newPipe()
	return &fakeMStream{strm: a, remote: l.remote, lnk: l, proto: pid}, nil
}

// fakeMStream is a link.MountedStream.
type fakeMStream struct {
	strm   stream.Stream
	remote peer.ID
	lnk    link.MountedLink
	proto  protocol.ID
}

func (s *fakeMStream) GetStream() stream.Stream     { return s.strm }
func (s *fakeMStream) GetProtocolID() protocol.ID   { return s.proto }
func (s *fakeMStream) GetOpenOpts() stream.OpenOpts { return stream.OpenOpts{} }
func (s *fakeMStream) GetPeerID() peer.ID           { return s.remote }
func (s *fakeMStream) GetLink() link.MountedLink    { return s.lnk }

// key is an Ed25519 identity.
type key struct {
	priv ed25519.PrivateKey
	pub  ed25519.PublicKey
	sk   crypto.PrivKey
	id   peer.ID
}

func newKey(rng *lib.Rng) *key {
	priv := ed25519.NewKeyFromSeed(rng.Bytes(32))
	sk, err := crypto.UnmarshalEd25519PrivateKey(priv)
	if err != nil {
		panic(err)
	}
	id, err := peer.IDFromPublicKey(sk.GetPublic())
	if err != nil {
		panic(err)
	}
	return &key{priv: priv, pub: priv.Public().(ed25519.PublicKey), sk: sk, id: id}
}

// node is one real FloodSub router.
type node struct {
	idx    int
	key    *key
	fs     *floodsub.FloodSub
	ctx    context.Context
	cancel context.CancelFunc
	done   chan struct{}
	// panicked: the value Execute panicked with
	panicked atomic.Pointer[string]
}

var quietLog = func() *logrus.Entry {
	l := logrus.New()
	l.SetOutput(io.Discard)
	l.SetLevel(logrus.PanicLevel)
	return logrus.NewEntry(l)
}()

func newNode(idx int, k *key) *node { return newNodeCfg(idx, k, &floodsub.Config{}) }

// newNodeCfg builds a router with the given configuration (PublishHashType).
func newNodeCfg(idx int, k *key, cfg *floodsub.Config) *node {
	ctx, cancel := context.WithCancel(context.Background())
	ps, err := floodsub.NewFloodSub(ctx, quietLog, nil, cfg)
	if err != nil {
		panic(err)
	}
	return &node{idx: idx, key: k, fs: ps.(*floodsub.FloodSub), ctx: ctx, cancel: cancel, done: make(chan struct{})}
}

// start runs Execute. A panic inside Execute (the loop itself, execPublish) is an observation, not
// a crash of the engine: it is recorded and the router counts as dead (its mutex may be held).
func (n *node) start() {
	go func() {
		defer close(n.done)
		defer func() {
			if r := recover(); r != nil {
				s := fmt.Sprint(r)
				n.panicked.Store(&s)
			}
		}()
		_ = n.fs.Execute(n.ctx)
	}()
}

// dead reports the panic value of Execute ("" while it did not panic).
func (n *node) dead() string {
	if p := n.panicked.Load(); p != nil {
		return *p
	}
	return ""
}

func (n *node) stop() {
	n.cancel()
	if n.dead() != "" {
		return // the router's lock may be held by the goroutine that panicked
	}
	n.fs.Close()
}

// attach connects a pipe end to the node as a stream to the remote peer.
func (n *node) attach(remote peer.ID, linkID uint64, end stream.Stream, initiator bool) pubsub.PeerLinkTuple {
	lnk := &fakeMLink{uuid: linkID, local: n.key.id, remote: remote}
	tpl := pubsub.NewPeerLinkTuple(lnk)
	n.fs.AddPeerStream(tpl, initiator, &fakeMStream{strm: end, remote: remote, lnk: lnk, proto: floodsub.FloodSubID})
	return tpl
}

// waitFor polls cond until it holds or the timeout expires.
func waitFor(timeout time.Duration, cond func() bool) bool {
	dl := time.Now().Add(timeout)
	for {
		if cond() {
			return true
		}
		if time.Now().After(dl) {
			return false
		}
		time.Sleep(200 * time.Microsecond)
	}
}
