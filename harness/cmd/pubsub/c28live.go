package main

// C28 on schedules the settle-point histories cannot reach: a publish that is served by
// execPublish while the session of one of its targets is being REPLACED (AddPeerStream registered
// the new session, Execute has not started it yet), and bursts of more messages than the
// router's publish queue holds.

import (
	"fmt"
	"sort"
	"strings"
	"sync"
	"sync/atomic"
	"time"

	"github.com/aperturerobotics/bifrost/peer"
	"github.com/aperturerobotics/bifrost/pubsub"
	"github.com/aperturerobotics/bifrost/pubsub/floodsub"

	"verif/harness/lib"
)

// replaceDuringPublish: X(0) – Y(1), X – Z(2), everybody subscribed. The (Y, link) tuple of X is
// connected again over its live session; the goroutine calling X.AddPeerStream is held at the gate
// point floodsub.peerAdded (new session registered, not started, Execute not woken). Z publishes:
// X accepts the copy and its Execute loop serves it (execPublish) in exactly that state. Then the
// caller is released. Stated on the observations: X's Execute loop does not panic, and every
// subscription of Y is handed the message exactly once (the link to Y is up the whole time).
func (e *engine) replaceDuringPublish(r int) {
	for attempt := 0; attempt < 8; attempt++ {
		if e.replaceOnce(r, attempt) {
			return
		}
	}
}

func (e *engine) replaceOnce(r, attempt int) bool {
	m := newMesh(e, 3)
	defer m.stop()
	x, y, z := m.nodes[0], m.nodes[1], m.nodes[2]
	var armed, holdSent atomic.Bool
	arrived := make(chan struct{}, 4)
	rel := make(chan struct{})
	sentArrived := make(chan struct{}, 1)
	sentRel := make(chan struct{})
	data := fmt.Sprintf("replace-%d-%d-%s", r, attempt, lib.Hex(e.rng.Bytes(4)))
	var gmu sync.Mutex
	state := 0 // 1: execPublish of X served the message while the session was not started; 2: started
	var pcArg, peersArg string
	var tplY pubsub.PeerLinkTuple
	floodsub.VerifSetGate(func(point string, fs *floodsub.FloodSub, objs ...any) {
		m.gate(point, fs, objs...)
		if fs != x.fs {
			return
		}
		switch point {
		case "floodsub.peerAdded":
			if armed.Load() {
				arrived <- struct{}{}
				<-rel
			}
		case "floodsub.execSent":
			// hold the loop right before it waits for a wake token / an accepted message
			if holdSent.CompareAndSwap(true, false) {
				sentArrived <- struct{}{}
				<-sentRel
			}
		case "floodsub.published":
			if string(d0(objs[0].(*peer.SignedMsg))) != data {
				return
			}
			// m.mtx is free here and only this goroutine (Execute) can start a session
			inited := x.fs.VerifSnapshot().Peers[tplY]
			_, _, _, pc, pl := m.tables(0)
			gmu.Lock()
			pcArg, peersArg = pc, pl
			state = 1
			if inited {
				state = 2
			}
			gmu.Unlock()
		}
	})
	defer floodsub.VerifSetGate(nil)
	m.subscribe(0, "c1")
	m.subscribe(1, "c1")
	if e.rng.Intn(2) == 0 {
		m.subscribe(1, "c1")
	}
	m.subscribe(2, "c1")
	ly := m.connect(0, 1)
	m.connect(0, 2)
	for _, nd := range m.nodes {
		nd.start()
	}
	tplY = m.tplOf(ly, 1)
	opHead := fmt.Sprintf("pubsub.replace r=%d", r)
	if class, what := m.settle(8 * time.Second); class != "" {
		e.rep.Compare(opHead+" #setup", "converged", "not-converged", "replace.publish-uninit", "pubsub.replace:"+class, what)
		return true
	}
	// park the loop at a known point: it is held after its sweep, before the select that serves
	// accepted messages (a loop waiting for its 100 ms ticker would start the new session first)
	holdSent.Store(true)
	m.subscribe(0, "c3") // wakes the loop
	select {
	case <-sentArrived:
	case <-time.After(10 * time.Second):
		panic("Execute did not come round to floodsub.execSent")
	}
	// the same tuple again, over the live session
	ea, eb := newPipe()
	baseTap := m.tap(0, 1, ly.id)
	var omu sync.Mutex
	var ord []string // what X writes to the NEW stream: "1" the message, "0" subscription entries
	ea.tap = func(frame []byte) {
		if pl, ok := framePayload(frame); ok {
			pkt := &floodsub.Packet{}
			if pkt.UnmarshalVT(pl) == nil {
				omu.Lock()
				for _, pm := range pkt.GetPublish() {
					tok := "?"
					if string(d0(pm)) == data {
						tok = "1"
					}
					ord = append(ord, tok)
				}
				if len(pkt.GetSubscriptions()) != 0 && (len(ord) == 0 || ord[len(ord)-1] != "0") {
					ord = append(ord, "0")
				}
				omu.Unlock()
			}
		}
		baseTap(frame)
	}
	eb.tap = m.tap(1, 0, ly.id)
	ly.ends = [2]*memStream{ea, eb}
	ly.sessions++
	ini := x.key.id.String() <= y.key.id.String()
	// X first: its AddPeerStream replaces the registered session while the old one is alive (were Y
	// to go first, the old stream would close and X's old session could end, and be forgotten with
	// its announcements, before the new one is registered: a close / re-open history)
	armed.Store(true)
	attached := make(chan struct{})
	go func() {
		x.attach(y.key.id, ly.id, ea, ini)
		close(attached)
	}()
	select {
	case <-arrived:
	case <-time.After(10 * time.Second):
		panic("AddPeerStream did not reach the gate point floodsub.peerAdded")
	}
	armed.Store(false)
	y.attach(x.key.id, ly.id, eb, !ini)
	if err := z.fs.Publish(z.ctx, "c1", z.key.sk, []byte(data)); err != nil {
		panic(err)
	}
	// the copy was accepted by X and waits for its Execute loop
	if !waitFor(10*time.Second, func() bool { n, _ := x.fs.VerifPublishQueue(); return n >= 1 }) {
		panic("the message did not reach the publish queue of node 0")
	}
	close(sentRel)
	waitFor(10*time.Second, func() bool {
		gmu.Lock()
		defer gmu.Unlock()
		return state != 0 || x.dead() != ""
	})
	close(rel)
	<-attached
	gmu.Lock()
	st, pc, pl := state, pcArg, peersArg
	gmu.Unlock()
	if pv := x.dead(); pv != "" {
		op := fmt.Sprintf("%s #execPublish-with-unstarted-session", opHead)
		e.rep.Compare(op, "ok", "panic "+pv, "replace.publish-uninit", "pubsub.replace:nil-session",
			"the Execute loop of a router panicked ("+pv+") when it served an accepted message (execPublish) while the session of a neighbour that announced the channel had been registered by AddPeerStream over its live predecessor and not yet been started: the router is dead (its lock stays held), nothing is delivered or forwarded any more")
		return true
	}
	if st != 1 {
		return false // the loop had started the session before it served the message: not the schedule under test
	}
	// model: execPublish over the router's tables at that moment (the new session is registered)
	top := fmt.Sprintf("pubsub.targets chans=_ pc=%s peers=%s seen=_ ch=%s from=%s prev=%s", pc, pl,
		lib.Hex([]byte("c1")), lib.Hex([]byte(z.key.id.String())), lib.Hex([]byte(z.key.id)))
	tm := e.m.Query(top)
	class, what := m.settle(8 * time.Second)
	nsubY := len(m.liveSubs(1, "c1"))
	count := func() (int, map[int]int) {
		m.mu.Lock()
		defer m.mu.Unlock()
		per := map[int]int{}
		tot := 0
		for _, d := range m.dels {
			if d.node == 1 && d.data == data {
				per[d.sub.id]++
				tot++
			}
		}
		return tot, per
	}
	waitFor(5*time.Second, func() bool { t, _ := count(); return t >= nsubY })
	m.quiesce()
	tot, per := count()
	mon := ""
	if class != "" {
		mon = "after a tuple was connected again over its live session while a message was served: " + what
	}
	for _, s := range m.liveSubs(1, "c1") {
		if per[s.id] != 1 {
			mon = fmt.Sprintf("a message accepted by node 0 while its session to node 1 was being replaced (new session registered, not yet started; the link stayed up) was handed %d times to a subscription of node 1 (%d deliveries for %d subscriptions): not exactly once", per[s.id], tot, nsubY)
		}
	}
	var tpls []string
	m.mu.Lock()
	for _, w := range m.wires {
		if !w.isSub && w.from == 0 && w.data == data {
			tpls = append(tpls, tplStr(pubsub.PeerLinkTuple{PeerID: m.nodes[w.to].key.id, LinkID: w.link}))
		}
	}
	m.mu.Unlock()
	sort.Strings(tpls)
	ti := "ok _"
	if len(tpls) != 0 {
		ti = "ok " + strings.Join(tpls, ",")
	}
	e.rep.Compare(top+" #replace", tm, ti, "replace.publish-uninit", "pubsub.replace:publish-lost", mon)
	// model Replace: the message waits in the queue of the unstarted session in front of the
	// initial subscription set; observed = the order of what X wrote to the new stream
	_, scap, _ := x.fs.VerifSendQueue(tplY)
	rop := fmt.Sprintf("pubsub.replace cap=%d evs=add,start,announce:1,take,add,publish:1,start", scap)
	rm := e.m.Query(rop)
	omu.Lock()
	defer omu.Unlock()
	e.rep.Compare(rop, "panicked="+lib.KV(rm, "panicked")+" queue="+lib.KV(rm, "queue"), "panicked=0 queue="+plusOr(ord), "replace.model", "pubsub.replace:model", "")
	return true
}

// quiesce waits until deliveries and wire records stop growing.
func (m *mesh) quiesce() {
	last := -1
	for i := 0; i < 200; i++ {
		time.Sleep(4 * time.Millisecond)
		m.mu.Lock()
		cur := len(m.dels) + len(m.wires)
		m.mu.Unlock()
		if cur == last && i >= 4 {
			return
		}
		last = cur
	}
}

// burstScenario: more messages than the router's publish queue (publishCh) holds are accepted
// while its Execute loop cannot serve them: "stall" — neighbour Y(1) stops reading, so execPublish
// parks on Y's full session queue with the router's lock held and the publish queue fills behind
// it; "wake" — the loop is held at the top of its next pass (it left the serving loop for a wake
// token), the publish queue fills to its capacity and the next publisher blocks. remote: the
// burst is published by Z(2) and relayed by X(0), else X publishes it. Then the obstacle goes
// away. Stated on the observations: EVERY subscription of EVERY node (the stalled neighbour, the
// healthy neighbour, the relaying node itself) is handed every message exactly once.
func (e *engine) burstScenario(vi int, mode string, remote bool) {
	m := newMesh(e, 3)
	defer m.stop()
	x := m.nodes[0]
	var hold atomic.Bool
	arrived := make(chan struct{}, 1)
	rel := make(chan struct{})
	floodsub.VerifSetGate(func(point string, fs *floodsub.FloodSub, objs ...any) {
		m.gate(point, fs, objs...)
		if fs == x.fs && point == "floodsub.execTop" && hold.CompareAndSwap(true, false) {
			arrived <- struct{}{}
			<-rel
		}
	})
	defer floodsub.VerifSetGate(nil)
	for i := 0; i < 3; i++ {
		m.subscribe(i, "c1")
		if e.rng.Intn(3) == 0 {
			m.subscribe(i, "c1")
		}
	}
	ly := m.connect(0, 1)
	m.connect(0, 2)
	for _, nd := range m.nodes {
		nd.start()
	}
	name := fmt.Sprintf("burst-%d mode=%s remote=%v", vi, mode, remote)
	branch := "burst." + mode
	if class, what := m.settle(8 * time.Second); class != "" {
		e.rep.Compare("pubsub.burst "+name+" #setup", "converged", "not-converged", branch, "pubsub.burst:"+class, what)
		return
	}
	_, pcap := x.fs.VerifPublishQueue()
	_, scap, ok := x.fs.VerifSendQueue(m.tplOf(ly, 1))
	if !ok || pcap == 0 || scap == 0 {
		panic("no queues")
	}
	pubNode := 0
	if remote {
		pubNode = 2
	}
	var k int
	if mode == "stall" {
		// 1 in the blocked stream write + scap queued + 1 parked in execPublish + more than the publish queue holds
		k = 1 + scap + 1 + pcap + 1 + e.rng.Intn(6)
		m.stall(ly, 1, true)
	} else {
		k = pcap + 1 + e.rng.Intn(24)
		hold.Store(true)
		m.subscribe(0, "c3") // wake token: the loop leaves the serving loop and comes round to its top
		select {
		case <-arrived:
		case <-time.After(10 * time.Second):
			panic("Execute did not come round to floodsub.execTop")
		}
	}
	nodesArg := m.modelNodes()
	datas := make([]string, k)
	var pl []string
	for i := range datas {
		m.nextMsg++
		datas[i] = fmt.Sprintf("burst%d-%d-%s", vi, i, lib.Hex(e.rng.Bytes(3)))
		pl = append(pl, fmt.Sprintf("%d/%d/%d/1", pubNode, m.nextMsg, pubNode))
	}
	id0 := m.nextMsg - k + 1
	pn := m.nodes[pubNode]
	pubDone := make(chan struct{})
	go func() {
		defer close(pubDone)
		for i := 0; i < k; i++ {
			if err := pn.fs.Publish(pn.ctx, "c1", pn.key.sk, []byte(datas[i])); err != nil {
				panic(err)
			}
		}
	}()
	// the state under test: the publish queue of X is full and something is blocked behind it
	// (a relayed burst cannot fill the queue behind a parked execPublish: the read pump of the
	// publisher's session needs the router's lock, which the parked execPublish holds).
	// The state is recognised by a count that stops growing exactly there: the messages that passed
	// X's seen-set test (gate hook) = in the blocked stream write + in the session queue + held by
	// the parked execPublish + waiting in the publish queue + the one blocked behind the full queue.
	lockHeld := mode == "stall" // nothing fills the queue then: publishers and read pumps wait for the router's lock
	acceptedAtX := func() int {
		m.mu.Lock()
		defer m.mu.Unlock()
		c := 0
		for _, d := range datas {
			if _, ok := m.firstHop[0][d]; ok {
				c++
			}
		}
		return c
	}
	wantAcc := pcap + 1
	if mode == "stall" {
		wantAcc = 1 + scap + 1 // at least: whatever was accepted behind them before execPublish parked waits too
	}
	reached := waitFor(10*time.Second, func() bool { a := acceptedAtX(); return a == wantAcc || (lockHeld && a > wantAcc) })
	full := false
	if !lockHeld {
		full = reached && waitFor(5*time.Second, func() bool { n, _ := x.fs.VerifPublishQueue(); return n == pcap })
	}
	blocked := false
	if full && !remote {
		select {
		case <-pubDone:
		case <-time.After(20 * time.Millisecond):
			blocked = true // the publisher is parked in handleValidMessage on the full queue
		}
	}
	// model of the bounded blocking queue (SendQ instance with the capacity of publishCh): nothing
	// is taken while the loop is away, writes beyond the capacity block
	nw := pcap + 1
	sop := fmt.Sprintf("pubsub.sendq cap=%d evs=%s #publishCh %s", pcap, strings.TrimSuffix(strings.Repeat("write,", nw), ","), name)
	smodel := strings.SplitN(e.m.Query(sop), " accepted=", 2)[0]
	n, _ := x.fs.VerifPublishQueue()
	simpl := fmt.Sprintf("ok inflight=0 queue=%d blocked=1", n)
	if !full {
		simpl = fmt.Sprintf("not-full queue=%d", n)
	} else if !remote && !blocked {
		simpl = fmt.Sprintf("ok inflight=0 queue=%d blocked=0", n)
	}
	if !lockHeld {
		e.rep.Compare(sop, smodel, simpl, "burst.publish-queue-full", "pubsub.burst:publish-queue", "")
	}
	// the obstacle goes away
	if mode == "stall" {
		m.stall(ly, 1, false)
	} else {
		close(rel)
	}
	select {
	case <-pubDone:
	case <-time.After(20 * time.Second):
		e.rep.Compare("pubsub.burst "+name+" #publishers", "returned", "blocked", branch, "pubsub.burst:publisher-stuck",
			fmt.Sprintf("Publish of a burst of %d messages did not return within 20 s after the neighbour read again / the loop continued", k))
		return
	}
	class, what := m.settle(8 * time.Second)
	want := 0
	for i := 0; i < 3; i++ {
		want += k * len(m.liveSubs(i, "c1"))
	}
	count := func() map[[2]int]int { // (subscription id, message index) -> deliveries
		idx := map[string]int{}
		for i, d := range datas {
			idx[d] = i
		}
		m.mu.Lock()
		defer m.mu.Unlock()
		c := map[[2]int]int{}
		for _, d := range m.dels {
			if i, ok := idx[d.data]; ok {
				c[[2]int{d.sub.id, i}]++
			}
		}
		return c
	}
	waitFor(10*time.Second, func() bool {
		t := 0
		for _, v := range count() {
			t += v
		}
		return t >= want
	})
	m.quiesce()
	cnt := count()
	mon := ""
	if class != "" {
		mon = "after a burst: " + what
	}
	var implParts []string
	for i := 0; i < 3; i++ {
		var ids []string
		for j := range datas {
			bad := false
			tot := 0
			for _, s := range m.liveSubs(i, "c1") {
				c := cnt[[2]int{s.id, j}]
				tot += c
				if c != 1 {
					bad = true
					role := map[int]string{0: "the relaying node itself", 1: "the neighbour that had stopped reading", 2: "the healthy neighbour"}[i]
					if mode == "wake" {
						role = map[int]string{0: "the node whose loop was away", 1: "a neighbour", 2: "a neighbour"}[i]
					}
					mon = fmt.Sprintf("burst of %d messages (publish queue capacity %d, session queue capacity %d, %s): message #%d was handed %d times to a subscription of node %d (%s): not exactly once", k, pcap, scap, mode, j, c, i, role)
				}
			}
			if tot > 0 {
				s := fmt.Sprint(id0 + j)
				if bad {
					s += "!"
				}
				ids = append(ids, s)
			}
		}
		implParts = append(implParts, fmt.Sprintf("%d:%s", i, plusOr(ids)))
	}
	op := fmt.Sprintf("pubsub.flood scenario=%s nodes=%s pubs=%s", strings.ReplaceAll(name, " ", "/"), nodesArg, strings.Join(pl, ","))
	model := e.m.Query(op)
	e.rep.Compare(op, "ok del="+lib.KV(model, "del"), "ok del="+strings.Join(implParts, ","), branch, "pubsub.burst:not-exactly-once", mon)
}

// staleSessionExit: the pubsub stream of one link is opened twice before the routers' Execute loops
// start: both sessions of the tuple are started in the same pass, the first stays alive next to
// the registered second one (nothing cancels it) and hears the peer's announcements as well. Later
// the stale stream is closed. The end of a session that is NOT the registered one must leave
// the tuple's table alone: stated with the belief monitor (every neighbour lists the far end under
// exactly its live subscriptions) and a publish round (everybody is handed every message once).
func (e *engine) staleSessionExit(vi int) {
	n := 2 + vi%2
	m := newMesh(e, n)
	defer m.stop()
	floodsub.VerifSetGate(m.gate)
	defer floodsub.VerifSetGate(nil)
	for i := 0; i < n; i++ {
		m.subscribe(i, "c1")
	}
	if vi%2 == 1 {
		m.subscribe(1, "c2")
		m.subscribe(0, "c2")
	}
	l := m.connect(0, 1)
	stale := l.ends
	m.open(l) // the same tuple again: nothing runs yet, so the first session is not cancelled
	if n == 3 {
		m.connect(1, 2)
	}
	for _, nd := range m.nodes {
		nd.start()
	}
	opHead := fmt.Sprintf("pubsub.flood scenario=stale-exit-%d", vi)
	hist := "connect:0:1,reopen:0(before-start),start"
	if class, what := m.settle(8 * time.Second); class != "" {
		e.rep.Compare(opHead+" #setup", "converged", "not-converged", "stale.session-exit", "pubsub.mesh:"+class, "after the history "+hist+": "+what)
		return
	}
	e.meshRound(m, opHead+"-s0 hist="+hist, []meshPub{{node: 0, ch: "c1"}, {node: n - 1, ch: "c1"}}, "stale.session-exit")
	m.mu.Lock()
	e0, e1 := m.ended[0], m.ended[1]
	m.mu.Unlock()
	// a change announced while both sessions are up, then the stale stream goes away
	if vi%2 == 1 {
		m.release(1, "c2")
		m.settle(8 * time.Second)
	}
	stale[0].Close()
	stale[1].Close()
	if !waitFor(10*time.Second, func() bool { m.mu.Lock(); defer m.mu.Unlock(); return m.ended[0] > e0 && m.ended[1] > e1 }) {
		panic("the stale sessions did not end")
	}
	hist += ",close-stale-stream"
	if class, what := m.settle(4 * time.Second); class != "" {
		e.rep.Compare(opHead+"-s1 hist="+hist, "converged", "not-converged", "stale.session-exit", "pubsub.mesh:"+class+"-stale-exit",
			"after the history "+hist+" (the superseded session of a tuple ended, its live session stays up): "+what)
		return
	}
	e.meshRound(m, opHead+"-s1 hist="+hist, []meshPub{{node: 0, ch: "c1"}, {node: n - 1, ch: "c1"}, {node: 1, ch: "c1"}}, "stale.session-exit")
}

// replacedLiveRelease replays the witness of the known finding floodsub-replaced-session-stale on
// real routers: node 0 releases its last subscription to c1; its Execute loop is held between the
// new-session region and the sweep (gate floodsub.holdBreak) while the link to node 1 is connected
// again over its live session; the sweep then queues Subscribe=false to started sessions only — the
// new session is not started, the old one is cancelled — and the new session's initial set no
// longer lists c1: node 1 keeps believing in the subscription (its table entry of the tuple
// survives a replaced session).
func (e *engine) replacedLiveRelease() {
	m := newMesh(e, 2)
	defer m.stop()
	x := m.nodes[0]
	var hold atomic.Bool
	arrived := make(chan struct{}, 1)
	rel := make(chan struct{})
	floodsub.VerifSetGate(func(point string, fs *floodsub.FloodSub, objs ...any) {
		m.gate(point, fs, objs...)
		if fs == x.fs && point == "floodsub.holdBreak" && hold.CompareAndSwap(true, false) {
			arrived <- struct{}{}
			<-rel
		}
	})
	defer floodsub.VerifSetGate(nil)
	m.subscribe(0, "c1")
	m.subscribe(1, "c1")
	l := m.connect(0, 1)
	for _, nd := range m.nodes {
		nd.start()
	}
	op := "pubsub.flood scenario=replaced-live-release hist=sub:0:c1,sub:1:c1,connect:0:1,settle,rel:0:c1,[hold-break],reopen:0,[sweep],settle"
	if class, what := m.settle(8 * time.Second); class != "" {
		e.rep.Compare(op+" #setup", "converged", "not-converged", "replace.release-lost", "pubsub.mesh:"+class, what)
		return
	}
	hold.Store(true)
	m.release(0, "c1")
	select {
	case <-arrived:
	case <-time.After(10 * time.Second):
		panic("Execute did not reach the hold-break")
	}
	m.open(l)
	close(rel)
	class, what := m.settle(2500 * time.Millisecond)
	impl, mon := "converged", ""
	if class != "" {
		impl = "not-converged"
		mon = "node 0 released its last subscription to c1 while the link to node 1 was connected again over its live session (between the new-session region and the sweep of node 0's Execute pass): " + what + " — node 1 is never told"
	}
	e.rep.Compare(op, "converged", impl, "replace.release-lost", "pubsub.mesh:"+class, mon)
}
