// Command pubsub is the correspondence engine for C27 (authentic messages only), C28 (flooding:
// once, no echo, reachability) and C29 (opener rule, release, unsubscribe announcements).
// It drives REAL floodsub.FloodSub routers (and the real pubsub controller's link tracker)
// over in-memory streams; schedules that matter are forced through the verif gate hook.
// The Lean model (Bifrost.Pubsub) predicts every outcome; monitors restate the property on
// the observed callbacks / wire packets using only the Go standard library, x/crypto-free
// ed25519, sha256/sha1 and zeebo/blake3.
package main

import (
	"fmt"
	"os"
	"strings"
	"time"

	"verif/harness/lib"
)

type engine struct {
	a   *lib.Args
	rng *lib.Rng
	m   *lib.Model
	rep *lib.Report
	// unsubRelayShown counts how often the known finding pubsub.mesh:unsubscribed-relay was reported
	unsubRelayShown int
	// shown counts the reports per finding key of classes that repeat many times per run
	shown map[string]int
}

// compareCapped is rep.Compare, except that a finding of an alias-sender key is reported at most 3
// times per key and run (the report keeps 200 disagreements; one defect must not crowd out others).
func (e *engine) compareCapped(op, model, impl, branch, key, mon string) {
	if strings.Contains(key, ":alias-sender") && (model != impl || mon != "") {
		if e.shown == nil {
			e.shown = map[string]int{}
		}
		e.shown[key]++
		if e.shown[key] > 3 {
			e.rep.Case(op, model, impl, branch, true)
			return
		}
	}
	e.rep.Compare(op, model, impl, branch, key, mon)
}

func main() {
	a := lib.ParseArgs()
	e := &engine{a: a, rng: lib.NewRng(a.Seed), m: lib.NewModel(a.Driver)}
	e.rep = lib.NewReport("pubsub", a)
	// watchdog: a wedged router must not hang the check
	go func() {
		time.Sleep(20 * time.Minute)
		fmt.Fprintln(os.Stderr, "pubsub engine watchdog expired")
		os.Exit(4)
	}()
	switch a.Prop {
	case "C27":
		e.runC27()
	case "C28":
		e.runC28()
	case "C29":
		e.runC29()
	default:
		fmt.Println("unknown property", a.Prop)
		os.Exit(2)
	}
	e.m.Close()
	e.rep.Write(a.Out)
}
