package main

// The REAL pubsub controller (pubsub/controller): Controller.Execute with a recording fake
// PubSub; links are fed through the controller's own EstablishLinkWithPeer reference handler
// (HandleValueAdded / HandleValueRemoved), incoming streams through the resolver of a real
// HandleMountedStream directive and the MountedStreamHandler it yields. Two nodes are simulated,
// each with ONE controller and one or several local identities; a link has two ends (one
// MountedLink per node). The monitor states the clause directly: for every link that is up on
// both nodes exactly one end opened the pubsub stream.

import (
	"context"
	"fmt"
	"sort"
	"strings"
	"sync"
	"time"

	"github.com/aperturerobotics/bifrost/crypto"
	"github.com/aperturerobotics/bifrost/link"
	"github.com/aperturerobotics/bifrost/peer"
	"github.com/aperturerobotics/bifrost/protocol"
	"github.com/aperturerobotics/bifrost/pubsub"
	pubsub_controller "github.com/aperturerobotics/bifrost/pubsub/controller"
	"github.com/aperturerobotics/bifrost/pubsub/floodsub"
	"github.com/aperturerobotics/bifrost/stream"
	"github.com/aperturerobotics/controllerbus/controller"
	"github.com/aperturerobotics/controllerbus/directive"
	"github.com/blang/semver/v4"
	"github.com/sirupsen/logrus"

	"verif/harness/lib"
)

type psAdd struct {
	tpl       pubsub.PeerLinkTuple
	initiator bool
	ms        link.MountedStream
}

// recPS is a pubsub.PubSub that records AddPeerStream.
type recPS struct {
	mu    sync.Mutex
	added []psAdd
}

func (f *recPS) Execute(ctx context.Context) error { <-ctx.Done(); return nil }
func (f *recPS) AddPeerStream(tpl pubsub.PeerLinkTuple, initiator bool, ms link.MountedStream) {
	f.mu.Lock()
	f.added = append(f.added, psAdd{tpl, initiator, ms})
	f.mu.Unlock()
}
func (f *recPS) AddSubscription(ctx context.Context, privKey crypto.PrivKey, channelID string) (pubsub.Subscription, error) {
	return nil, context.Canceled
}
func (f *recPS) Close() {}

// ctlInst is a directive.Instance carrying a directive; it captures the reference handler.
type ctlInst struct {
	directive.Instance
	dir     directive.Directive
	handler directive.ReferenceHandler
}

func (f *ctlInst) GetDirective() directive.Directive { return f.dir }
func (f *ctlInst) GetDirectiveIdent() string         { return "verif" }
func (f *ctlInst) AddReference(cb directive.ReferenceHandler, weak bool) directive.Reference {
	f.handler = cb
	return ctlRef{}
}

type ctlRef struct{}

func (ctlRef) Release() {}

// ctlVals is a directive.ResolverHandler that collects the values.
type ctlVals struct {
	directive.ResolverHandler
	vals []directive.Value
}

func (h *ctlVals) AddValue(v directive.Value) (uint32, bool) {
	h.vals = append(h.vals, v)
	return uint32(len(h.vals)), true
}

type ctlNode struct {
	name   string
	ids    []peer.ID
	c      *pubsub_controller.Controller
	ps     *recPS
	estH   directive.ReferenceHandler
	ctx    context.Context
	cancel context.CancelFunc
	notes  []string
	mu     sync.Mutex
}

type openRec struct {
	proto protocol.ID
	local *fakeMStream // handed back to the opener
	far   *fakeMStream // handed to the other node's stream handler
}

// ctlEnd is one end of a link: the link.MountedLink of one node.
type ctlEnd struct {
	uuid          uint64
	node, peerN   *ctlNode
	local, remote peer.ID
	other         *ctlEnd
	mu            sync.Mutex
	opens         []openRec
	adds          int
	up            bool // last operation on this end was "added"
	// blockFirst: the first OpenMountedStream on this end blocks until its context is cancelled and
	// then until `unwind` is closed (a stream negotiation that returns late), then fails
	blockFirst bool
	calls      int
	inflight   chan struct{}
	unwind     chan struct{}
}

func (l *ctlEnd) GetLinkUUID() uint64            { return l.uuid }
func (l *ctlEnd) GetTransportUUID() uint64       { return 7 }
func (l *ctlEnd) GetRemoteTransportUUID() uint64 { return 8 }
func (l *ctlEnd) GetLocalPeer() peer.ID          { return l.local }
func (l *ctlEnd) GetRemotePeer() peer.ID         { return l.remote }

// OpenMountedStream opens a stream on the link: the far end is handed to the other node through
// the handler its controller yields for a HandleMountedStream directive.
func (l *ctlEnd) OpenMountedStream(ctx context.Context, pid protocol.ID, _ stream.OpenOpts) (link.MountedStream, error) {
	l.mu.Lock()
	l.calls++
	first := l.blockFirst && l.calls == 1
	l.mu.Unlock()
	if first {
		close(l.inflight)
		<-ctx.Done()
		<-l.unwind
		return nil, ctx.Err()
	}
	a, b := newPipe()
	mine := &fakeMStream{strm: a, remote: l.remote, lnk: l, proto: pid}
	far := &fakeMStream{strm: b, remote: l.local, lnk: l.other, proto: pid}
	l.mu.Lock()
	l.opens = append(l.opens, openRec{proto: pid, local: mine, far: far})
	l.mu.Unlock()
	l.peerN.accept(far, pid)
	return mine, nil
}

// accept resolves HandleMountedStream on the node's controller and calls the handler.
func (n *ctlNode) accept(ms *fakeMStream, pid protocol.ID) {
	end := ms.lnk.(*ctlEnd)
	di := &ctlInst{dir: link.NewHandleMountedStream(pid, end.local, end.remote)}
	res, err := n.c.HandleDirective(n.ctx, di)
	note := ""
	switch {
	case err != nil:
		note = "HandleDirective(HandleMountedStream) failed: " + err.Error()
	case len(res) != 1:
		note = fmt.Sprintf("HandleDirective(HandleMountedStream %s) returned %d resolvers", pid, len(res))
	default:
		vh := &ctlVals{}
		if err := res[0].Resolve(n.ctx, vh); err != nil {
			note = "resolver failed: " + err.Error()
		} else if len(vh.vals) != 1 {
			note = fmt.Sprintf("resolver yielded %d values", len(vh.vals))
		} else if h, ok := vh.vals[0].(link.MountedStreamHandler); !ok {
			note = "resolver value is not a MountedStreamHandler"
		} else if err := h.HandleMountedStream(n.ctx, ms); err != nil {
			note = "HandleMountedStream failed: " + err.Error()
		}
	}
	if note != "" {
		n.mu.Lock()
		n.notes = append(n.notes, note)
		n.mu.Unlock()
	}
}

func newCtlNode(name string, ids []peer.ID) *ctlNode {
	n := &ctlNode{name: name, ids: ids, ps: &recPS{}}
	n.ctx, n.cancel = context.WithCancel(context.Background())
	// like the floodsub factory: the controller is not bound to one peer id
	n.c = pubsub_controller.NewController(quietLog, nil, controller.NewInfo("verif/pubsub", semver.MustParse("0.0.1"), "verif"), "", floodsub.FloodSubID,
		func(ctx context.Context, le *logrus.Entry, p peer.Peer, h pubsub.PubSubHandler) (pubsub.PubSub, error) {
			return n.ps, nil
		})
	go func() { _ = n.c.Execute(n.ctx) }()
	di := &ctlInst{dir: link.NewEstablishLinkWithPeer("", "")}
	if _, err := n.c.HandleDirective(n.ctx, di); err != nil || di.handler == nil {
		panic("the controller did not reference the EstablishLinkWithPeer directive")
	}
	n.estH = di.handler
	return n
}

func (n *ctlNode) idle() bool {
	inc, tr := n.c.VerifLinkTable()
	return inc == 0 && tr == 0
}

func (n *ctlNode) stop() {
	n.cancel()
	_ = n.c.Close()
}

type ctlLink struct {
	uuid uint64
	x, y *ctlEnd
}

func (e *engine) c29Ctl() {
	rng := e.rng
	nsc := 10 * e.a.Scale
	for sc := 0; sc < nsc; sc++ {
		// 3-5 identities sorted by their text; X gets two or three of them, Y the rest
		nk := 3 + rng.Intn(3)
		var keys []peer.ID
		for i := 0; i < nk; i++ {
			keys = append(keys, newKey(rng).id)
		}
		sort.Slice(keys, func(i, j int) bool { return keys[i].String() < keys[j].String() })
		var xi, yi []int
		switch sc % 5 {
		case 0: // X = {lowest, highest}, Y in between
			xi, yi = []int{0, nk - 1}, []int{1}
		case 1: // X = {two lowest}, Y above
			xi, yi = []int{0, 1}, []int{nk - 1}
		case 2: // X = {two highest}, Y below
			xi, yi = []int{nk - 2, nk - 1}, []int{0}
		default:
			perm := rng.Perm(nk)
			nx := 2 + rng.Intn(nk-2)
			xi, yi = perm[:nx], perm[nx:]
		}
		pick := func(ix []int) []peer.ID {
			var l []peer.ID
			for _, i := range ix {
				l = append(l, keys[i])
			}
			return l
		}
		X, Y := newCtlNode("X", pick(xi)), newCtlNode("Y", pick(yi))
		// one link per (identity of X, identity of Y) pair, sometimes two
		var links []*ctlLink
		uuid := uint64(100 * (sc + 1))
		for _, a := range X.ids {
			for _, b := range Y.ids {
				for k := 0; k < 1+rng.Intn(4)/3; k++ {
					uuid++
					l := &ctlLink{uuid: uuid}
					l.x = &ctlEnd{uuid: uuid, node: X, peerN: Y, local: a, remote: b}
					l.y = &ctlEnd{uuid: uuid, node: Y, peerN: X, local: b, remote: a}
					l.x.other, l.y.other = l.y, l.x
					links = append(links, l)
				}
			}
		}
		rng.Shuffle(len(links), func(i, j int) { links[i], links[j] = links[j], links[i] })
		// history: every link is added on both nodes (either order); some are added twice, or
		// removed and added again; quiesced = wait for the controller after every operation (then the
		// model's schedule "added, loop, track" is the real one), else a burst
		quiesced := sc%2 == 0
		evs := map[*ctlNode][]string{}
		var hist []string
		vid := uint32(0)
		waitIdle := func(n *ctlNode) {
			if !waitFor(5*time.Second, n.idle) {
				panic("pubsub controller did not become idle")
			}
		}
		doAdd := func(end *ctlEnd) {
			vid++
			end.adds++
			end.up = true
			end.node.estH.HandleValueAdded(nil, directive.NewAttachedValue(vid, end))
			hist = append(hist, fmt.Sprintf("add:%s:%d", end.node.name, end.uuid))
			if quiesced {
				waitIdle(end.node)
				evs[end.node] = append(evs[end.node], fmt.Sprintf("added:%d:%s:%s", end.uuid, lib.Hex([]byte(end.local)), lib.Hex([]byte(end.remote))), "loop", "track:0")
			}
		}
		doRemove := func(end *ctlEnd) {
			end.up = false
			end.node.estH.HandleValueRemoved(nil, directive.NewAttachedValue(vid, end))
			hist = append(hist, fmt.Sprintf("remove:%s:%d", end.node.name, end.uuid))
			if quiesced {
				waitIdle(end.node)
				evs[end.node] = append(evs[end.node], fmt.Sprintf("removed:%d:%s:%s", end.uuid, lib.Hex([]byte(end.local)), lib.Hex([]byte(end.remote))))
			}
		}
		for _, l := range links {
			first, second := l.x, l.y
			if rng.Intn(2) == 0 {
				first, second = second, first
			}
			doAdd(first)
			switch rng.Intn(6) {
			case 0: // the same link value twice
				doAdd(first)
			case 1: // removed and added again
				doRemove(first)
				doAdd(first)
			case 2: // removed before the other node sees the link, added again afterwards
				doRemove(first)
				doAdd(second)
				doAdd(first)
				continue
			}
			doAdd(second)
		}
		waitIdle(X)
		waitIdle(Y)
		time.Sleep(2 * time.Millisecond)

		// ---- monitor: exactly one opener per link, the right protocol, the right streams ----
		histS := strings.Join(hist, ",")
		for _, l := range links {
			mon := ""
			l.x.mu.Lock()
			l.y.mu.Lock()
			ox, oy := len(l.x.opens), len(l.y.opens)
			if l.x.up && l.y.up && l.x.local != l.y.local {
				switch {
				case ox > 0 && oy > 0:
					mon = fmt.Sprintf("BOTH ends opened the pubsub stream on link %d (%s opened %d, %s opened %d)", l.uuid, l.x.local.String(), ox, l.y.local.String(), oy)
				case ox == 0 && oy == 0:
					mon = fmt.Sprintf("NEITHER end opened the pubsub stream on link %d between %s and %s although both nodes were handed the link", l.uuid, l.x.local.String(), l.y.local.String())
				}
			}
			for _, end := range []*ctlEnd{l.x, l.y} {
				if len(end.opens) > end.adds {
					mon = fmt.Sprintf("node %s opened %d streams on link %d which it was handed %d time(s)", end.node.name, len(end.opens), l.uuid, end.adds)
				}
				for _, o := range end.opens {
					if o.proto != floodsub.FloodSubID {
						mon = fmt.Sprintf("stream opened with protocol id %q, not %q", o.proto, floodsub.FloodSubID)
					}
					// the opener handed exactly the stream it opened to its router, as initiator
					if n := countAdds(end.node.ps, pubsub.PeerLinkTuple{PeerID: end.remote, LinkID: end.uuid}, true, o.local); n != 1 {
						mon = fmt.Sprintf("node %s: the stream opened on link %d was handed to AddPeerStream((remote, link), initiator=true) %d times, not once", end.node.name, l.uuid, n)
					}
					// the other node handed exactly the accepted stream to its router, not as initiator
					if n := countAdds(end.peerN.ps, pubsub.PeerLinkTuple{PeerID: end.local, LinkID: end.uuid}, false, o.far); n != 1 {
						mon = fmt.Sprintf("node %s: the stream accepted on link %d was handed to AddPeerStream((remote, link), initiator=false) %d times, not once", end.peerN.name, l.uuid, n)
					}
				}
			}
			l.y.mu.Unlock()
			l.x.mu.Unlock()
			// model: the opener rule for THIS link's own local identity, both ends
			opX := fmt.Sprintf("pubsub.opens a=%s b=%s", lib.Hex([]byte(l.x.local)), lib.Hex([]byte(l.x.remote)))
			opY := fmt.Sprintf("pubsub.opens a=%s b=%s", lib.Hex([]byte(l.y.local)), lib.Hex([]byte(l.y.remote)))
			b2s := map[bool]string{true: "ok 1", false: "ok 0"}
			mx, my := e.m.Query(opX), e.m.Query(opY)
			ix, iy := b2s[ox > 0], b2s[oy > 0]
			if !l.x.up {
				ix = mx // a removed end may or may not have opened before the removal
			}
			if !l.y.up {
				iy = my
			}
			br := "ctl.multi-identity"
			if len(X.ids) == 1 && len(Y.ids) == 1 {
				br = "ctl.single-identity"
			}
			e.rep.Compare(opX+" #ctl link="+fmt.Sprint(l.uuid)+" hist="+histS, mx+"/"+my, ix+"/"+iy, br, "pubsub.ctl:opener", mon)
		}
		for _, n := range []*ctlNode{X, Y} {
			n.mu.Lock()
			for _, note := range n.notes {
				e.rep.Compare("pubsub.ctl #accept hist="+histS, "handled", note, "ctl.multi-identity", "pubsub.ctl:accept", "an incoming pubsub stream was not handed to the router: "+note)
			}
			n.mu.Unlock()
			// every AddPeerStream must be accounted for by an open on one of the links
			n.ps.mu.Lock()
			for _, a := range n.ps.added {
				found := false
				for _, l := range links {
					for _, end := range []*ctlEnd{l.x, l.y} {
						for _, o := range end.opens {
							if a.ms == link.MountedStream(o.local) || a.ms == link.MountedStream(o.far) {
								found = true
							}
						}
					}
				}
				if !found {
					e.rep.Compare("pubsub.ctl #stray hist="+histS, "none", "stray AddPeerStream", "ctl.multi-identity", "pubsub.ctl:stray", "the router was handed a stream nobody opened")
				}
			}
			n.ps.mu.Unlock()
			if quiesced {
				// the controller's link table as a transition system: added / removed / loop / track
				op := "pubsub.ctl evs=" + strings.Join(evs[n], ",")
				model := e.m.Query(op)
				var got []string
				for _, l := range links {
					end := l.x
					if n == Y {
						end = l.y
					}
					for range end.opens {
						got = append(got, fmt.Sprint(end.uuid))
					}
				}
				sort.Strings(got)
				impl := "ok opened=" + plusOr(got) + " inc=0 tracked=0"
				e.rep.Compare(op, model, impl, "ctl.history", "pubsub.ctl:history", "")
			}
		}
		X.stop()
		Y.stop()
	}
}

func countAdds(ps *recPS, tpl pubsub.PeerLinkTuple, initiator bool, ms link.MountedStream) int {
	ps.mu.Lock()
	defer ps.mu.Unlock()
	n := 0
	for _, a := range ps.added {
		if a.ms == ms && a.tpl == tpl && a.initiator == initiator {
			n++
		}
	}
	return n
}

// c29CtlBlockedOpen: the opener's stream negotiation is in flight (OpenMountedStream blocked) when
// the link value is withdrawn and reported again; the cancelled negotiation returns late — before
// or after the controller has looked at the re-reported link. Stated directly: the link is up on
// both nodes at the end, so exactly one end has opened the pubsub stream and handed it to its router.
func (e *engine) c29CtlBlockedOpen() {
	rng := e.rng
	for sc := 0; sc < 3*e.a.Scale; sc++ {
		ka, kb := newKey(rng).id, newKey(rng).id
		if ka.String() > kb.String() {
			ka, kb = kb, ka
		}
		X, Y := newCtlNode("X", []peer.ID{ka}), newCtlNode("Y", []peer.ID{kb})
		uuid := uint64(9000 + sc)
		l := &ctlLink{uuid: uuid}
		l.x = &ctlEnd{uuid: uuid, node: X, peerN: Y, local: ka, remote: kb, blockFirst: true, inflight: make(chan struct{}), unwind: make(chan struct{})}
		l.y = &ctlEnd{uuid: uuid, node: Y, peerN: X, local: kb, remote: ka}
		l.x.other, l.y.other = l.y, l.x
		lateUnwind := sc%3 != 1  // the cancelled negotiation returns after the controller handled the re-report
		extraRemove := sc%3 == 2 // ... withdrawn and reported a second time
		var hist []string
		add := func(end *ctlEnd, vid uint32) {
			end.adds++
			end.up = true
			end.node.estH.HandleValueAdded(nil, directive.NewAttachedValue(vid, end))
			hist = append(hist, fmt.Sprintf("add:%s", end.node.name))
		}
		remove := func(end *ctlEnd, vid uint32) {
			end.up = false
			end.node.estH.HandleValueRemoved(nil, directive.NewAttachedValue(vid, end))
			hist = append(hist, fmt.Sprintf("remove:%s", end.node.name))
		}
		incEmpty := func(n *ctlNode) bool { inc, _ := n.c.VerifLinkTable(); return inc == 0 }
		add(l.y, 1)
		add(l.x, 2)
		select {
		case <-l.x.inflight:
		case <-time.After(10 * time.Second):
			panic("the opener did not call OpenMountedStream")
		}
		hist = append(hist, "open-in-flight")
		remove(l.x, 2)
		if !lateUnwind {
			close(l.x.unwind)
			hist = append(hist, "open-returned")
			waitFor(5*time.Second, X.idle)
		}
		add(l.x, 3)
		if !waitFor(5*time.Second, func() bool { return incEmpty(X) }) {
			panic("the controller did not look at the re-reported link")
		}
		if extraRemove {
			remove(l.x, 3)
			add(l.x, 4)
			waitFor(5*time.Second, func() bool { return incEmpty(X) })
		}
		if lateUnwind {
			close(l.x.unwind)
			hist = append(hist, "open-returned")
		}
		if !waitFor(5*time.Second, X.idle) || !waitFor(5*time.Second, Y.idle) {
			panic("pubsub controller did not become idle")
		}
		// a tracker started for the re-report has opened by the time the table is empty
		l.x.mu.Lock()
		ox := len(l.x.opens)
		var got []string
		for range l.x.opens {
			got = append(got, fmt.Sprint(uuid))
		}
		l.x.mu.Unlock()
		l.y.mu.Lock()
		oy := len(l.y.opens)
		l.y.mu.Unlock()
		mon := ""
		tplX := pubsub.PeerLinkTuple{PeerID: kb, LinkID: uuid}
		nAdd := 0
		X.ps.mu.Lock()
		for _, a := range X.ps.added {
			if a.tpl == tplX && a.initiator {
				nAdd++
			}
		}
		X.ps.mu.Unlock()
		switch {
		case ox == 0 && oy == 0:
			mon = fmt.Sprintf("NEITHER end opened the pubsub stream on link %d although both nodes hold the link (the opener's first stream negotiation was in flight when the link was withdrawn and reported again; history %s)", uuid, strings.Join(hist, ","))
		case ox > 0 && oy > 0:
			mon = fmt.Sprintf("BOTH ends opened the pubsub stream on link %d", uuid)
		case nAdd == 0:
			mon = fmt.Sprintf("the stream opened on link %d was never handed to the router", uuid)
		}
		ev := fmt.Sprintf("added:%d:%s:%s", uuid, lib.Hex([]byte(ka)), lib.Hex([]byte(kb)))
		rm := fmt.Sprintf("removed:%d:%s:%s", uuid, lib.Hex([]byte(ka)), lib.Hex([]byte(kb)))
		evs := []string{ev, "loop", rm, ev, "loop"}
		if extraRemove {
			evs = append(evs, rm, ev, "loop")
		}
		evs = append(evs, "track:0")
		op := "pubsub.ctl evs=" + strings.Join(evs, ",") + " #blocked-open " + strings.Join(hist, ",")
		model := e.m.Query(op)
		impl := "ok opened=" + plusOr(got) + " inc=0 tracked=0"
		if extraRemove && ox == 2 {
			// the tracker of the first re-report may or may not have opened before it was cancelled
			impl = "ok opened=" + fmt.Sprint(uuid) + " inc=0 tracked=0"
		}
		e.rep.Compare(op, model, impl, "ctl.blocked-open", "pubsub.ctl:blocked-open", mon)
		X.stop()
		Y.stop()
	}
}
