package main

// Wave 5 scenario classes for C28.
//
// (1) subControl: subscription-control packets from a peer in every relation to the hub's recorded
// set of remote subscribers — an unsubscribe from a peer that never subscribed, a second
// unsubscribe, an unsubscribe for another channel, a repeated subscribe — while 1, 2 or 3 OTHER
// peers are recorded, followed by publish rounds. The packets are produced by an unmodified router
// (its Execute loop held at floodsub.execTop while the application subscribes and releases: the
// sweep then announces Subscribe=false for a channel it never announced) and, for the relations
// a router of this version does not produce, written into the link as raw frames.
//
// (2) slowEdge: the publisher signs with a key that is NOT its node identity (a subscription held
// under its own key / Publish with another key), sits on a cycle, and its direct link to one
// neighbour is slow: the neighbour receives the message over the indirect path first and sends it
// on to the publishing node (which is neither the signer nor the previous hop for it).

import (
	"fmt"
	"sort"
	"strconv"
	"strings"
	"sync/atomic"
	"time"

	"github.com/aperturerobotics/bifrost/pubsub/floodsub"

	"verif/harness/lib"
)

// recordedSets compares, for every live (peer, link) tuple of node hub, the channels the REAL router
// lists the tuple under with the model Recv (handleSubscriptions for one tuple) run on the
// subscription entries that were written to the hub over that link, in wire order.
func (e *engine) recordedSets(m *mesh, hub int, opHead, branch string) {
	st := m.nodes[hub].fs.VerifSnapshot()
	for _, l := range m.liveLinksOf(hub) {
		j := l.other(hub)
		tpl := m.tplOf(l, j)
		evs := []string{"start"}
		m.mu.Lock()
		for _, w := range m.wires {
			if w.isSub && w.to == hub && w.from == j && w.link == l.id && chanNum[w.ch] != 0 {
				b := 0
				if w.on {
					b = 1
				}
				evs = append(evs, fmt.Sprintf("recv:0:%d:%d", chanNum[w.ch], b))
			}
		}
		m.mu.Unlock()
		op := "pubsub.recv evs=" + strings.Join(evs, ",")
		model := e.m.Query(op)
		var have []int
		for ch, tl := range st.PeerChannels {
			if hasTpl(tl, tpl) {
				have = append(have, chanNum[ch])
			}
		}
		sort.Ints(have)
		hs := make([]string, len(have))
		for i := range have {
			hs[i] = strconv.Itoa(have[i])
		}
		var truth []string
		for _, ch := range meshChans {
			if m.subscribed(j, ch) {
				truth = append(truth, strconv.Itoa(chanNum[ch]))
			}
		}
		mon := ""
		if plusOr(hs) != plusOr(truth) {
			mon = fmt.Sprintf("node %d records node %d (link %d) as subscriber of channels {%s} but node %d subscribes to {%s}: subscription packets of one peer changed what is recorded for another",
				hub, j, l.id, strings.Join(hs, ","), j, strings.Join(truth, ","))
		}
		e.rep.Compare(fmt.Sprintf("%s #%s node=%d", op, opHead, j), "know="+lib.KV(model, "know"), "know="+plusOr(hs), branch, "pubsub.subctl:recorded-set", mon)
	}
}

// subControl: hub Y(0), control peer X(1), k other subscribers Z(2..k+1) of channel cc, all linked
// to the hub only. rel: never | second-unsub | other-channel | sub-twice. injected: the control
// packet is a raw frame on X's link (else an unmodified router X produces it).
func (e *engine) subControl(vi, k int, rel string, injected bool) {
	rng := e.rng
	n := k + 2
	m := newMesh(e, n)
	defer m.stop()
	x := m.nodes[1]
	var hold atomic.Bool
	arrived := make(chan struct{}, 1)
	release := make(chan struct{}, 1)
	floodsub.VerifSetGate(func(point string, fs *floodsub.FloodSub, objs ...any) {
		m.gate(point, fs, objs...)
		if fs == x.fs && point == "floodsub.execTop" && hold.CompareAndSwap(true, false) {
			arrived <- struct{}{}
			<-release
		}
	})
	defer floodsub.VerifSetGate(nil)
	defer func() { // never leave X's loop parked
		select {
		case release <- struct{}{}:
		default:
		}
	}()
	cc, co := "c1", "c2"
	if rng.Intn(2) == 0 {
		cc, co = co, cc
	}
	m.subscribe(0, cc)
	m.subscribe(0, co)
	for z := 2; z < n; z++ {
		m.subscribe(z, cc)
		if rng.Intn(3) == 0 {
			m.subscribe(z, co)
		}
	}
	lx := m.connect(0, 1)
	for z := 2; z < n; z++ {
		m.connect(0, z)
	}
	for _, nd := range m.nodes {
		nd.start()
	}
	mode := "real"
	if injected {
		mode = "injected"
	}
	name := fmt.Sprintf("subctl-%d-%s-%s-k%d", vi, rel, mode, k)
	opHead := "pubsub.flood scenario=" + name
	branch := "subctl." + rel
	settle := func(stage string) bool {
		if class, what := m.settle(6 * time.Second); class != "" {
			e.rep.Compare(opHead+" #"+stage, "converged", "not-converged", branch, "pubsub.mesh:"+class,
				"after "+stage+" (all links idle): "+what)
			return false
		}
		return true
	}
	// X's relation to the recorded set before the control packet
	switch rel {
	case "second-unsub":
		m.subscribe(1, cc)
		if !settle("setup-subscribed") {
			return
		}
		m.release(1, cc)
	case "other-channel":
		m.subscribe(1, co)
	case "sub-twice":
		m.subscribe(1, cc)
	}
	if !settle("setup") {
		return
	}
	e.meshRound(m, opHead+"-before", []meshPub{{node: 0, ch: cc}, {node: 2, ch: cc}}, branch)

	// the control packet
	m.mu.Lock()
	seq0 := m.seq
	m.mu.Unlock()
	on := rel == "sub-twice"
	if injected {
		cnt := 1 + rng.Intn(2)
		pkt := &floodsub.Packet{}
		for i := 0; i < cnt; i++ {
			pkt.Subscriptions = append(pkt.Subscriptions, &floodsub.SubscriptionOpts{ChannelId: cc, Subscribe: on})
		}
		m.mu.Lock()
		for i := 0; i < cnt; i++ {
			m.seq++
			m.wires = append(m.wires, wireRec{seq: m.seq, from: 1, to: 0, link: lx.id, isSub: true, ch: cc, on: on})
		}
		m.mu.Unlock()
		m.inject(lx, 0, pkt)
	} else {
		// the application of X subscribes and releases within one evaluation period of X's Execute loop
		hold.Store(true)
		m.subscribe(1, cc) // wakes the loop: it comes round to its top at the next tick and is held there
		select {
		case <-arrived:
		case <-time.After(15 * time.Second):
			panic("Execute of X did not come round to floodsub.execTop")
		}
		m.release(1, cc)
		release <- struct{}{}
		sent := waitFor(10*time.Second, func() bool {
			m.mu.Lock()
			defer m.mu.Unlock()
			for i := len(m.wires) - 1; i >= 0 && m.wires[i].seq > seq0; i-- {
				w := m.wires[i]
				if w.isSub && w.from == 1 && w.to == 0 && w.ch == cc && !w.on {
					return true
				}
			}
			return false
		})
		if !sent {
			e.rep.Compare(opHead+" #control-sent", "sent", "not-sent", branch, "pubsub.subctl:harness", "")
			return
		}
	}
	// marker: a real subscription of X announced AFTER the control packet on the same stream; once the
	// hub lists it, the hub has processed the control packet
	m.subscribe(1, "c3")
	ok := settle("control-" + rel)
	e.recordedSets(m, 0, name, branch)
	pubs := []meshPub{{node: 0, ch: cc}, {node: 2, ch: cc}, {node: 1 + rng.Intn(n-1), ch: []string{cc, co}[rng.Intn(2)], foreign: rng.Intn(3) == 0}}
	e.meshRound(m, opHead+"-after", pubs, branch)
	if !ok {
		return
	}
	if rel == "sub-twice" {
		// one unsubscribe withdraws a subscription however often it was announced
		m.release(1, cc)
		if settle("release-after-sub-twice") {
			e.recordedSets(m, 0, name+"-released", branch)
			e.meshRound(m, opHead+"-released", []meshPub{{node: 0, ch: cc}, {node: 2, ch: cc}}, branch)
		}
	}
}

// slowEdge: publisher a on a cycle, its direct link(s) to neighbour c deliver nothing until c has
// received and served the copy that travelled the other way round. keyMode: sub-key (a's
// subscription is held under its own key and publishes through its handle) | foreign (Publish
// with another key) | node (the node identity: the copy never returns; delays only).
func (e *engine) slowEdge(vi int, shape, keyMode string) {
	rng := e.rng
	var n int
	var ed [][2]int
	switch shape {
	case "triangle":
		n, ed = 3, completeEdges(3)
	case "ring":
		n = 4 + rng.Intn(3)
		ed = ringEdges(n)
	default: // random connected graph with at least one cycle
		n = 4 + rng.Intn(3)
		ed = e.randomConnected(n)
	}
	// pick an edge (a, c) that is not a bridge; add one if the graph is a tree
	adjWithout := func(skip int) map[int][]int {
		adj := map[int][]int{}
		for i, x := range ed {
			if i != skip {
				adj[x[0]] = append(adj[x[0]], x[1])
				adj[x[1]] = append(adj[x[1]], x[0])
			}
		}
		return adj
	}
	connected := func(adj map[int][]int, a, c int) bool {
		seen := map[int]bool{a: true}
		q := []int{a}
		for len(q) > 0 {
			u := q[0]
			q = q[1:]
			for _, v := range adj[u] {
				if !seen[v] {
					seen[v] = true
					q = append(q, v)
				}
			}
		}
		return seen[c]
	}
	var cyc []int
	for i, x := range ed {
		if connected(adjWithout(i), x[0], x[1]) {
			cyc = append(cyc, i)
		}
	}
	if len(cyc) == 0 {
		// a tree: close a cycle between two nodes that are not adjacent
		for a := 0; a < n && len(cyc) == 0; a++ {
			for c := a + 1; c < n; c++ {
				adj := adjWithout(-1)
				direct := false
				for _, v := range adj[a] {
					direct = direct || v == c
				}
				if !direct {
					ed = append(ed, [2]int{a, c})
					cyc = []int{len(ed) - 1}
					break
				}
			}
		}
	}
	pick := ed[cyc[rng.Intn(len(cyc))]]
	a, c := pick[0], pick[1]
	if rng.Intn(2) == 0 {
		a, c = c, a
	}
	m := newMesh(e, n)
	defer m.stop()
	floodsub.VerifSetGate(m.gate)
	defer floodsub.VerifSetGate(nil)
	own := newKey(rng)
	var via *msub
	for i := 0; i < n; i++ {
		if i == a && keyMode == "sub-key" {
			via = m.subscribeKey(i, "c1", own)
		} else {
			m.subscribe(i, "c1")
		}
		if rng.Intn(4) == 0 {
			m.subscribe(i, "c1")
		}
	}
	var slow []*mlink
	for _, x := range ed {
		l := m.connect(x[0], x[1])
		if (x[0] == a && x[1] == c) || (x[0] == c && x[1] == a) {
			slow = append(slow, l)
		}
	}
	for _, nd := range m.nodes {
		nd.start()
	}
	name := fmt.Sprintf("slow-edge-%d-%s-%s", vi, shape, keyMode)
	var es []string
	for _, x := range ed {
		es = append(es, fmt.Sprintf("%d-%d", x[0], x[1]))
	}
	opHead := fmt.Sprintf("pubsub.flood scenario=%s topo=%s publisher=%d slow=%d-%d", name, strings.Join(es, "."), a, a, c)
	branch := "slow." + keyMode
	if class, what := m.settle(8 * time.Second); class != "" {
		e.rep.Compare(opHead, "converged", "not-converged", branch, "pubsub.mesh:"+class, what)
		return
	}
	np := 1 + rng.Intn(3)
	var pubs []meshPub
	for k := 0; k < np; k++ {
		p := meshPub{node: a, ch: "c1"}
		switch keyMode {
		case "sub-key":
			p.foreign, p.fkey, p.via = true, own, via
		case "foreign":
			p.foreign, p.fkey = true, own
		}
		pubs = append(pubs, p)
	}
	for _, l := range slow {
		m.stall(l, c, true)
	}
	m.afterPublish = func(pubs []meshPub) {
		// the slow link delivers only after c has accepted every message over the indirect path,
		// served it (execPublish done) and everything written since has been read and handled
		waitFor(10*time.Second, func() bool {
			m.mu.Lock()
			defer m.mu.Unlock()
			for k := range pubs {
				if m.published[c][pubs[k].data] == 0 {
					return false
				}
			}
			return true
		})
		last := -1
		for i := 0; i < 200; i++ {
			time.Sleep(4 * time.Millisecond)
			m.mu.Lock()
			cur := len(m.dels) + len(m.wires)
			m.mu.Unlock()
			if cur == last && i >= 4 && m.drained() {
				break
			}
			last = cur
		}
		for _, l := range slow {
			m.stall(l, c, false)
		}
		m.afterPublish = nil
	}
	e.meshRound(m, opHead, pubs, branch)
	// the indirect copy won at c: its accepted copy did not come from the publisher
	m.mu.Lock()
	indirect := true
	for k := range pubs {
		if prev, ok := m.firstHop[c][pubs[k].data]; !ok || m.idxOf(prev) == a || m.idxOf(prev) < 0 {
			indirect = false
		}
	}
	m.mu.Unlock()
	if indirect {
		e.rep.Case(opHead+" #indirect-first", "x", "x", "slow.indirect-first", false)
	}
}

func (e *engine) runC28Wave5() {
	e.rep.Require("subctl.never", "subctl.second-unsub", "subctl.other-channel", "subctl.sub-twice",
		"slow.sub-key", "slow.foreign", "slow.node", "slow.indirect-first")
	vi := 0
	for r := 0; r < e.a.Scale; r++ {
		for _, rel := range []string{"never", "second-unsub", "other-channel"} {
			e.subControl(vi, 1, rel, false) // produced by an unmodified router
			vi++
		}
		for _, rel := range []string{"never", "second-unsub", "other-channel", "sub-twice"} {
			e.subControl(vi, 1, rel, true)
			vi++
			e.subControl(vi, 2+e.rng.Intn(2), rel, e.rng.Intn(3) != 0 || rel == "sub-twice")
			vi++
		}
	}
	si := 0
	for r := 0; r < e.a.Scale; r++ {
		for _, shape := range []string{"triangle", "ring", "random"} {
			for _, km := range []string{"sub-key", "foreign"} {
				e.slowEdge(si, shape, km)
				si++
			}
		}
		e.slowEdge(si, []string{"triangle", "ring", "random"}[e.rng.Intn(3)], "node")
		si++
	}
}
