package main

// C29 on meshes of REAL routers: neighbours that stop reading for a while (the per-session send
// queue fills to and beyond its capacity), subscription changes made in that moment, and the
// receiver side of the subscription table across sessions of one (peer, link) tuple.

import (
	"fmt"
	"sort"
	"strconv"
	"strings"
	"time"

	"github.com/aperturerobotics/bifrost/pubsub"
	"github.com/aperturerobotics/bifrost/pubsub/floodsub"

	"verif/harness/lib"
)

// c29Slow: node 0 (x) has a slow neighbour 1 (y: stops reading) and a healthy neighbour 2 (z).
// x publishes k messages while y does not read: y's session holds one packet in the blocked stream
// write and up to `capacity` packets in its queue (capacity read from the router, not assumed). In
// that moment x releases its last subscription to a channel (or subscribes to a new one). Then y
// reads again. Monitor: at quiescence every neighbour believes exactly x's live subscriptions, and
// y was handed every message x published.
func (e *engine) c29Slow() {
	rng := e.rng
	type variant struct {
		off  int // publishes = capacity + 1 + off  (capacity+1 = exactly full: 1 in flight + capacity queued)
		dual bool
	}
	vars := []variant{{0, false}, {0, true}, {-1, false}, {1, false}, {-3, true}, {2, true}, {-33, false}}
	n := len(vars)
	if e.a.Scale > 1 {
		for i := 0; i < 3*e.a.Scale; i++ {
			vars = append(vars, variant{rng.Intn(8) - 4, rng.Intn(2) == 0})
		}
	} else {
		// quick: the two exactly-full cases, one below, one beyond, and the empty queue
		vars = vars[:n]
	}
	for vi, v := range vars {
		e.slowScenario(vi, v.off, v.dual)
	}
}

func (e *engine) slowScenario(vi, off int, dual bool) {
	m := newMesh(e, 3)
	defer m.stop()
	floodsub.VerifSetGate(m.gate)
	defer floodsub.VerifSetGate(nil)
	for _, nd := range m.nodes {
		nd.start()
	}
	x, y := m.nodes[0], m.nodes[1]
	m.subscribe(0, "c1")
	m.subscribe(1, "c1")
	m.subscribe(2, "c1")
	if e.rng.Intn(2) == 0 {
		m.subscribe(0, "c3")
	}
	ly := m.connect(0, 1)
	m.connect(0, 2)
	name := fmt.Sprintf("slow-%d off=%d dual=%v", vi, off, dual)
	br := "slow.release"
	if dual {
		br = "slow.subscribe"
	}
	if class, what := m.settle(6 * time.Second); class != "" {
		e.rep.Compare("pubsub.slow "+name+" #setup", "converged", "not-converged", br, "pubsub.slow:"+class, what)
		return
	}
	tplY := m.tplOf(ly, 1)
	_, capacity, ok := x.fs.VerifSendQueue(tplY)
	if !ok || capacity == 0 {
		panic("no send queue for the neighbour")
	}
	k := capacity + 1 + off
	if k < 0 {
		k = 0
	}
	// y stops reading
	m.stall(ly, 1, true)
	datas := make([]string, k)
	for i := range datas {
		datas[i] = fmt.Sprintf("slow%d-%d-%s", vi, i, lib.Hex(e.rng.Bytes(3)))
	}
	pubDone := make(chan struct{})
	go func() {
		for i := 0; i < k; i++ {
			if err := x.fs.Publish(x.ctx, "c1", x.key.sk, []byte(datas[i])); err != nil {
				panic(err)
			}
		}
		close(pubDone)
	}()
	wantQ := k - 1
	if wantQ > capacity {
		wantQ = capacity
	}
	if wantQ < 0 {
		wantQ = 0
	}
	beyond := k > capacity+1
	// wait for the stalled state the model predicts
	stalled := waitFor(5*time.Second, func() bool {
		if k == 0 {
			return true
		}
		if ly.gate[0].parked() != 1 {
			return false
		}
		if beyond {
			// one execPublish is parked in writePacket with m.mtx held
			done := make(chan bool, 1)
			go func() {
				nq, _, _ := x.fs.VerifSendQueue(tplY)
				done <- nq == capacity
			}()
			select {
			case <-done:
				return false // lock was free: not yet blocked
			case <-time.After(30 * time.Millisecond):
				go func() { <-done }()
				return true
			}
		}
		nq, _, _ := x.fs.VerifSendQueue(tplY)
		return nq == wantQ
	})
	// model of the send queue: k writes with an eager session goroutine and no flush
	var sq []string
	for i := 0; i < k; i++ {
		sq = append(sq, "write", "take")
	}
	sop := fmt.Sprintf("pubsub.sendq cap=%d evs=%s", capacity, plusOrComma(sq))
	smodel := e.m.Query(sop)
	simpl := "not-stalled"
	if stalled {
		infl := 0
		if k > 0 {
			infl = ly.gate[0].parked()
		}
		blocked := 0
		q := wantQ
		if beyond {
			blocked = 1
		} else {
			q, _, _ = x.fs.VerifSendQueue(tplY)
		}
		simpl = fmt.Sprintf("ok inflight=%d queue=%d blocked=%d", infl, q, blocked)
	}
	sbr := "sendq.below"
	if k == capacity+1 {
		sbr = "sendq.full"
	} else if beyond {
		sbr = "sendq.beyond"
	}
	e.rep.Compare(sop, strings.SplitN(smodel, " accepted=", 2)[0], simpl, sbr, "pubsub.sendq", "")
	if !beyond {
		<-pubDone
	}

	// the subscription change while the queue is in that state (blocks on the router's lock when beyond)
	chg := make(chan struct{})
	go func() {
		if dual {
			m.subscribe(0, "c2")
		} else {
			m.release(0, "c1")
		}
		close(chg)
	}()
	if !beyond {
		<-chg
		// the sweep has run once the released key is gone / the new key is present in x's tables and
		// Execute passed its announcement (poll the tables; the announcement to y is then queued,
		// blocked, or — if the code drops it — lost)
		if dual {
			// the healthy neighbour learns c2, or Execute is parked on the slow neighbour's full queue
			waitFor(400*time.Millisecond, func() bool {
				for _, t := range m.nodes[2].fs.VerifSnapshot().PeerChannels["c2"] {
					if t.PeerID == x.key.id {
						return true
					}
				}
				return false
			})
		} else {
			waitFor(3*time.Second, func() bool { _, has := x.fs.VerifSnapshot().Channels["c1"]; return !has })
		}
		time.Sleep(time.Duration(5+e.rng.Intn(10)) * time.Millisecond)
	} else {
		time.Sleep(30 * time.Millisecond)
	}
	// y reads again
	m.stall(ly, 1, false)
	<-chg
	<-pubDone
	class, what := m.settle(6 * time.Second)
	mon := ""
	if class != "" {
		if dual {
			mon = fmt.Sprintf("node 0 subscribed to c2 while the send queue of its neighbour node 1 held %d+1 of %d packets; after node 1 drained the queue: %s", wantQ, capacity, what)
		} else {
			mon = fmt.Sprintf("node 0 released its last subscription to c1 while the send queue of its neighbour node 1 held %d+1 of %d packets; after node 1 drained the queue (stream still open): %s", wantQ, capacity, what)
		}
	}
	// every published message reached the slow neighbour exactly once
	waitFor(3*time.Second, func() bool {
		m.mu.Lock()
		defer m.mu.Unlock()
		c := 0
		for _, d := range m.dels {
			if d.node == 1 {
				c++
			}
		}
		return c >= k
	})
	m.mu.Lock()
	got := map[string]int{}
	for _, d := range m.dels {
		if d.node == 1 {
			got[d.data]++
		}
	}
	m.mu.Unlock()
	lost := 0
	for _, d := range datas {
		if got[d] != 1 {
			lost++
		}
	}
	// the healthy neighbour, and the publishing node's own subscription (when it keeps it), got
	// every message exactly once too, whatever the slow neighbour did
	others := []int{2}
	if dual {
		others = append(others, 0)
	}
	for _, j := range others {
		nsj := len(m.liveSubs(j, "c1"))
		waitFor(3*time.Second, func() bool {
			m.mu.Lock()
			defer m.mu.Unlock()
			c := 0
			for _, d := range m.dels {
				if d.node == j {
					c++
				}
			}
			return c >= k*nsj
		})
		m.mu.Lock()
		gj := map[string]int{}
		for _, d := range m.dels {
			if d.node == j {
				gj[d.data]++
			}
		}
		m.mu.Unlock()
		for _, d := range datas {
			if gj[d] != nsj && mon == "" {
				mon = fmt.Sprintf("a message published while neighbour node 1 was not reading was handed %d times (not once per subscription: %d) to node %d, whose link was healthy", gj[d], nsj, j)
				class = "publish-lost-other"
			}
		}
	}
	key := "pubsub.slow:" + class
	if mon == "" && lost != 0 {
		mon = fmt.Sprintf("%d of %d messages published while the neighbour was not reading never reached it (or reached it twice) although its stream stayed open", lost, k)
		key = "pubsub.slow:publish-lost"
	}
	// model: the Execute announcements (sessions told through a reliable queue)
	evs := []string{"addSub:1", "addPeer:1", "addPeer:2", "region1", "region2", "wakeup", "region1", "region2"}
	if m.subscribed(0, "c3") {
		evs = append([]string{"addSub:3"}, evs...)
	}
	if dual {
		evs = append(evs, "addSub:2")
	} else {
		evs = append(evs, "release:1")
	}
	evs = append(evs, "wakeup", "region1", "region2")
	op := "pubsub.exec evs=" + strings.Join(evs, ",") + " #" + name
	model := e.m.Query(op)
	var bl []string
	for _, j := range []int{1, 2} {
		st := m.nodes[j].fs.VerifSnapshot()
		var l []int
		for ch, tl := range st.PeerChannels {
			for _, t := range tl {
				if t.PeerID == x.key.id {
					l = append(l, chanNum[ch])
				}
			}
		}
		sort.Ints(l)
		s := make([]string, len(l))
		for i := range l {
			s[i] = strconv.Itoa(l[i])
		}
		bl = append(bl, fmt.Sprintf("%d:%s", j, plusOr(s)))
	}
	e.rep.Compare(op, "beliefs="+dropEmptyBeliefs(lib.KV(model, "beliefs")), "beliefs="+dropEmptyBeliefs(strings.Join(bl, ",")), br, key, mon)
	_ = y
}

// c29Recv: the receiver side. One router, one remote (peer, link) tuple, several sessions of that
// tuple one after the other (closed and connected again) or one over the other (replaced while
// alive); the remote announces and withdraws channels. After every step the router's table for the
// tuple is compared with the model; monitor: in a session that started after the previous one had
// ended, the router lists the tuple under exactly the channels announced IN THAT SESSION.
func (e *engine) c29Recv() {
	rng := e.rng
	nsc := 4 * e.a.Scale
	for sc := 0; sc < nsc; sc++ {
		x := newNode(0, newKey(rng))
		x.start()
		rk := newKey(rng)
		var p *fakePeer
		var evs []string
		sess := -1
		live := false
		fresh := false // the current session started with no session registered
		heard := map[int]bool{}
		syncN := 0
		tplOf := func() pubsub.PeerLinkTuple { return pubsub.PeerLinkTuple{PeerID: rk.id, LinkID: 900} }
		know := func() []int {
			st := x.fs.VerifSnapshot()
			var l []int
			for ch, tl := range st.PeerChannels {
				if hasTpl(tl, tplOf()) {
					nch, _ := strconv.Atoi(strings.TrimPrefix(ch, "r"))
					l = append(l, nch)
				}
			}
			sort.Ints(l)
			return l
		}
		show := func(l []int) string {
			s := make([]string, len(l))
			for i := range l {
				s[i] = strconv.Itoa(l[i])
			}
			return plusOr(s)
		}
		steps := 10 + rng.Intn(8)
		script := []string{"open", "ann", "ann", "close", "open", "ann", "open", "ann", "close", "open"}
		for st := 0; st < steps; st++ {
			var kind string
			if sc == 0 && st < len(script) {
				kind = script[st]
			} else {
				kind = []string{"open", "ann", "ann", "ann", "close"}[rng.Intn(5)]
			}
			branch := "recv.step"
			switch kind {
			case "open":
				old := p
				fresh = !live
				p = attachFake(x, rk, 900)
				sess++
				evs = append(evs, "start")
				if !waitFor(5*time.Second, func() bool { n, _, _ := p.snapshot(); return n >= 1 }) {
					panic("session not initialised")
				}
				if live {
					// the replaced session is cancelled by the router and ends on its own
					waitFor(5*time.Second, func() bool { return old.sess.SendMsg(&floodsub.Packet{}) != nil })
					evs = append(evs, fmt.Sprintf("end:%d", sess-1))
					branch = "recv.replace-live"
				} else {
					heard = map[int]bool{}
					if sess > 0 {
						branch = "recv.reconnect"
					}
				}
				live = true
			case "ann":
				if !live {
					continue
				}
				ch, on := 1+rng.Intn(4), rng.Intn(3) != 0
				syncN++
				sch := 100 + syncN
				if err := p.sess.SendMsg(&floodsub.Packet{Subscriptions: []*floodsub.SubscriptionOpts{{ChannelId: fmt.Sprintf("r%d", ch), Subscribe: on}}}); err != nil {
					panic(err)
				}
				if err := p.sess.SendMsg(&floodsub.Packet{Subscriptions: []*floodsub.SubscriptionOpts{{ChannelId: fmt.Sprintf("r%d", sch), Subscribe: true}}}); err != nil {
					panic(err)
				}
				if !waitFor(5*time.Second, func() bool { return hasTpl(x.fs.VerifSnapshot().PeerChannels[fmt.Sprintf("r%d", sch)], tplOf()) }) {
					panic("announcement not processed")
				}
				b := 0
				if on {
					b = 1
					heard[ch] = true
				} else {
					delete(heard, ch)
				}
				heard[sch] = true
				evs = append(evs, fmt.Sprintf("recv:%d:%d:%d", sess, ch, b), fmt.Sprintf("recv:%d:%d:1", sess, sch))
			case "close":
				if !live {
					continue
				}
				p.sess.Close()
				if !waitFor(5*time.Second, func() bool { _, ok := x.fs.VerifSnapshot().Peers[tplOf()]; return !ok }) {
					panic("session did not end")
				}
				live = false
				evs = append(evs, fmt.Sprintf("end:%d", sess))
				branch = "recv.close"
			}
			op := "pubsub.recv evs=" + strings.Join(evs, ",")
			model := e.m.Query(op)
			got := know()
			mon := ""
			if live && fresh {
				var hl []int
				for c := range heard {
					hl = append(hl, c)
				}
				sort.Ints(hl)
				if show(hl) != show(got) {
					mon = fmt.Sprintf("session %d of the tuple started after the previous session had ended and announced {%s}, but the router lists the peer under {%s} (subscriptions of a closed session survive)", sess, show(hl), show(got))
				}
			}
			if !live && len(got) != 0 {
				mon = fmt.Sprintf("the session ended but the router still lists the peer under {%s}", show(got))
			}
			e.rep.Compare(op, lib.KV(model, "know"), show(got), branch, "pubsub.recv", mon)
		}
		x.stop()
	}
}

func plusOrComma(l []string) string {
	if len(l) == 0 {
		return "_"
	}
	return strings.Join(l, ",")
}
