package main

import (
	"fmt"
	"sort"
	"strconv"
	"strings"
	"sync"
	"time"

	"github.com/aperturerobotics/bifrost/peer"
	"github.com/aperturerobotics/bifrost/pubsub"
	"github.com/aperturerobotics/bifrost/pubsub/floodsub"
	"github.com/aperturerobotics/bifrost/pubsub/util/pubmessage"

	"verif/harness/lib"
)

// ---- a mesh of real FloodSub routers wired by in-memory streams ----

type meshDel struct {
	node, sub int
	ch, data  string
	from      peer.ID
}

type wireRec struct {
	from, to int
	data     string
}

type mesh struct {
	e      *engine
	nodes  []*node
	edges  [][2]int
	subsOf [][]string // per node: channel of each local subscription
	subs   [][]pubsub.Subscription

	mu       sync.Mutex
	dels     []meshDel
	wires    []wireRec
	firstHop []map[string]peer.ID // node -> message data -> previous hop of the accepted copy
	byFS     map[*floodsub.FloodSub]int
}

var chanNum = map[string]int{"c1": 1, "c2": 2, "c3": 3}

func newMesh(e *engine, n int, subsOf [][]string) *mesh {
	m := &mesh{e: e, subsOf: subsOf, byFS: map[*floodsub.FloodSub]int{}}
	for i := 0; i < n; i++ {
		nd := newNode(i, newKey(e.rng))
		m.nodes = append(m.nodes, nd)
		m.byFS[nd.fs] = i
		m.firstHop = append(m.firstHop, map[string]peer.ID{})
		var ss []pubsub.Subscription
		for si, ch := range subsOf[i] {
			s, err := nd.fs.AddSubscription(nd.ctx, nd.key.sk, ch)
			if err != nil {
				panic(err)
			}
			i, si, ch := i, si, ch
			s.AddHandler(func(msg pubsub.Message) {
				m.mu.Lock()
				m.dels = append(m.dels, meshDel{node: i, sub: si, ch: ch, data: string(msg.GetData()), from: msg.GetFrom()})
				m.mu.Unlock()
			})
			ss = append(ss, s)
		}
		m.subs = append(m.subs, ss)
	}
	return m
}

// gate records the accepted copy of every message at every node.
func (m *mesh) gate(point string, fs *floodsub.FloodSub, objs ...any) {
	if point != "floodsub.seen" {
		return
	}
	i, ok := m.byFS[fs]
	if !ok {
		return
	}
	prev := objs[0].(peer.ID)
	pkt := objs[1].(*peer.SignedMsg)
	d := string(d0(pkt))
	m.mu.Lock()
	if _, dup := m.firstHop[i][d]; dup {
		m.firstHop[i][d+"#dup"] = prev
	} else {
		m.firstHop[i][d] = prev
	}
	m.mu.Unlock()
}

func (m *mesh) tap(from, to int) func([]byte) {
	return func(frame []byte) {
		p, ok := framePayload(frame)
		if !ok {
			return
		}
		pkt := &floodsub.Packet{}
		if err := pkt.UnmarshalVT(p); err != nil {
			return
		}
		for _, pm := range pkt.GetPublish() {
			m.mu.Lock()
			m.wires = append(m.wires, wireRec{from: from, to: to, data: string(d0(pm))})
			m.mu.Unlock()
		}
	}
}

func (m *mesh) connect(i, j int) {
	a, b := newPipe()
	a.tap = m.tap(i, j)
	b.tap = m.tap(j, i)
	linkID := uint64(1000 + len(m.edges))
	m.edges = append(m.edges, [2]int{i, j})
	ini := m.nodes[i].key.id.String() <= m.nodes[j].key.id.String()
	m.nodes[i].attach(m.nodes[j].key.id, linkID, a, ini)
	m.nodes[j].attach(m.nodes[i].key.id, linkID, b, !ini)
}

func (m *mesh) neighbours(i int) []int {
	var l []int
	for _, e := range m.edges {
		if e[0] == i {
			l = append(l, e[1])
		}
		if e[1] == i {
			l = append(l, e[0])
		}
	}
	sort.Ints(l)
	return l
}

func (m *mesh) subscribed(i int, ch string) bool {
	for _, c := range m.subsOf[i] {
		if c == ch {
			return true
		}
	}
	return false
}

func (m *mesh) idxOf(id peer.ID) int {
	for i, n := range m.nodes {
		if n.key.id == id {
			return i
		}
	}
	return -1
}

// converged: every node knows exactly the true subscriptions of its neighbours.
func (m *mesh) converged() bool {
	for i, n := range m.nodes {
		st := n.fs.VerifSnapshot()
		if st.IncSessions != 0 || len(st.Peers) != len(m.neighbours(i)) {
			return false
		}
		for _, ok := range st.Peers {
			if !ok {
				return false
			}
		}
		for ch := range chanNum {
			want := 0
			for _, j := range m.neighbours(i) {
				if m.subscribed(j, ch) {
					want++
				}
			}
			if len(st.PeerChannels[ch]) != want {
				return false
			}
			for _, tpl := range st.PeerChannels[ch] {
				j := m.idxOf(tpl.PeerID)
				if j < 0 || !m.subscribed(j, ch) {
					return false
				}
			}
		}
	}
	return true
}

// modelNodes renders the routers' REAL tables for the model.
func (m *mesh) modelNodes() string {
	var parts []string
	for _, n := range m.nodes {
		st := n.fs.VerifSnapshot()
		var subs, know, peers []string
		for ch := range st.Channels {
			subs = append(subs, strconv.Itoa(chanNum[ch]))
		}
		for ch, l := range st.PeerChannels {
			for _, tpl := range l {
				know = append(know, fmt.Sprintf("%d/%d", chanNum[ch], m.idxOf(tpl.PeerID)))
			}
		}
		for tpl := range st.Peers {
			peers = append(peers, strconv.Itoa(m.idxOf(tpl.PeerID)))
		}
		sort.Strings(subs)
		sort.Strings(know)
		sort.Strings(peers)
		j := func(l []string) string {
			if len(l) == 0 {
				return "_"
			}
			return strings.Join(l, "+")
		}
		parts = append(parts, j(subs)+"|"+j(know)+"|"+j(peers))
	}
	return strings.Join(parts, ";")
}

func (m *mesh) stop() {
	for _, n := range m.nodes {
		n.stop()
	}
}

type meshPub struct {
	node   int
	ch     string
	id     int
	origin int // model peer number of the signing identity
	data   string
	// foreign: signed with an identity that is not the publishing node's
	foreign bool
}

// reachSub: nodes reachable from src through edges whose far end subscribes to ch
// (independent restatement of "connected through subscribers").
func (m *mesh) reachSub(src int, ch string) map[int]bool {
	seen := map[int]bool{src: true}
	q := []int{src}
	for len(q) > 0 {
		a := q[0]
		q = q[1:]
		for _, b := range m.neighbours(a) {
			if !seen[b] && m.subscribed(b, ch) {
				seen[b] = true
				q = append(q, b)
			}
		}
	}
	return seen
}

func (m *mesh) reachAny(src int) map[int]bool {
	seen := map[int]bool{src: true}
	q := []int{src}
	for len(q) > 0 {
		a := q[0]
		q = q[1:]
		for _, b := range m.neighbours(a) {
			if !seen[b] {
				seen[b] = true
				q = append(q, b)
			}
		}
	}
	return seen
}

// runMesh builds the mesh, publishes, waits for quiescence and compares with the model.
func (e *engine) runMesh(name string, n int, edges [][2]int, subsOf [][]string, pubs []meshPub, lateEdges int, branch string) {
	m := newMesh(e, n, subsOf)
	defer m.stop()
	floodsub.VerifSetGate(m.gate)
	defer floodsub.VerifSetGate(nil)
	early := edges[:len(edges)-lateEdges]
	for _, ed := range early {
		m.connect(ed[0], ed[1])
	}
	for _, nd := range m.nodes {
		nd.start()
	}
	for _, ed := range edges[len(early):] {
		time.Sleep(time.Duration(e.rng.Intn(3)) * time.Millisecond)
		m.connect(ed[0], ed[1])
	}
	opHead := fmt.Sprintf("pubsub.flood scenario=%s", name)
	if !waitFor(8*time.Second, m.converged) {
		e.rep.Compare(opHead, "converged", "not-converged", branch, "pubsub.mesh:converge", "subscription announcements did not converge to the neighbours' true subscriptions: "+m.modelNodes())
		return
	}
	nodesArg := m.modelNodes()
	extra := newKey(e.rng) // a publishing identity that is not a node
	var pl []string
	for k := range pubs {
		p := &pubs[k]
		p.id = k + 1
		p.data = fmt.Sprintf("%s-m%d-%s", name, p.id, lib.Hex(e.rng.Bytes(4)))
		p.origin = p.node
		if p.foreign {
			p.origin = 100 + p.node
		}
		pl = append(pl, fmt.Sprintf("%d/%d/%d/%d", p.node, p.id, p.origin, chanNum[p.ch]))
	}
	op := fmt.Sprintf("%s nodes=%s pubs=%s", opHead, nodesArg, strings.Join(pl, ","))
	model := e.m.Query(op)
	// expected deliveries per node according to the model
	wantDel := map[int]map[int]bool{}
	for _, ent := range strings.Split(lib.KV(model, "del"), ",") {
		kv := strings.SplitN(ent, ":", 2)
		i, _ := strconv.Atoi(kv[0])
		wantDel[i] = map[int]bool{}
		if kv[1] != "_" {
			for _, s := range strings.Split(kv[1], "+") {
				id, _ := strconv.Atoi(s)
				wantDel[i][id] = true
			}
		}
	}
	for k := range pubs {
		p := &pubs[k]
		sk := m.nodes[p.node].key.sk
		if p.foreign {
			sk = extra.sk
		}
		if err := m.nodes[p.node].fs.Publish(m.nodes[p.node].ctx, p.ch, sk, []byte(p.data)); err != nil {
			panic(err)
		}
		if e.rng.Intn(2) == 0 {
			time.Sleep(time.Duration(e.rng.Intn(500)) * time.Microsecond)
		}
	}
	dataID := map[string]int{}
	for _, p := range pubs {
		dataID[p.data] = p.id
	}
	// quiescence: all predicted deliveries arrived, then the wire stays silent
	expected := 0
	for i, ids := range wantDel {
		for id := range ids {
			for _, c := range subsOf[i] {
				if c == pubs[id-1].ch {
					expected++
				}
			}
		}
	}
	waitFor(5*time.Second, func() bool { m.mu.Lock(); defer m.mu.Unlock(); return len(m.dels) >= expected })
	last := -1
	for i := 0; i < 200; i++ {
		time.Sleep(4 * time.Millisecond)
		m.mu.Lock()
		cur := len(m.dels) + len(m.wires)
		m.mu.Unlock()
		if cur == last && i >= 4 {
			break
		}
		last = cur
	}
	m.mu.Lock()
	dels := append([]meshDel(nil), m.dels...)
	wires := append([]wireRec(nil), m.wires...)
	m.mu.Unlock()

	// implementation outcome in the model's format
	cnt := map[[3]int]int{} // node, sub, id
	for _, d := range dels {
		cnt[[3]int{d.node, d.sub, dataID[d.data]}]++
	}
	var implParts []string
	mon := ""
	key := "pubsub.mesh:" + branch
	for i := 0; i < n; i++ {
		var ids []string
		for _, p := range pubs {
			tot, bad := 0, false
			for si, c := range subsOf[i] {
				k := cnt[[3]int{i, si, p.id}]
				if c != p.ch {
					if k != 0 {
						bad = true
						mon = fmt.Sprintf("node %d: subscription of channel %s was handed a message of channel %s", i, c, p.ch)
					}
					continue
				}
				tot += k
				if k > 1 {
					bad = true
					mon = fmt.Sprintf("node %d: message %d handed %d times to one subscription (at most once violated)", i, p.id, k)
					key = "pubsub.mesh:duplicate-delivery"
				}
				if k == 0 {
					bad = tot != 0 || bad
				}
			}
			if tot > 0 {
				s := strconv.Itoa(p.id)
				if bad {
					s += "!"
				}
				ids = append(ids, s)
			}
		}
		if len(ids) == 0 {
			implParts = append(implParts, fmt.Sprintf("%d:_", i))
		} else {
			implParts = append(implParts, fmt.Sprintf("%d:%s", i, strings.Join(ids, "+")))
		}
	}
	impl := "ok del=" + strings.Join(implParts, ",")
	mdl := "ok del=" + lib.KV(model, "del")
	// monitors restating the property (no model involved)
	for _, d := range dels {
		if _, ok := dataID[d.data]; !ok {
			mon = "a subscriber was handed data nobody published"
		}
	}
	for _, w := range wires {
		id := dataID[w.data]
		if id == 0 {
			mon = "a packet carrying an unknown message was sent"
			continue
		}
		p := pubs[id-1]
		if p.origin < 100 && w.to == p.origin {
			mon = fmt.Sprintf("message %d sent back to its original publisher (node %d -> node %d)", id, w.from, w.to)
			key = "pubsub.mesh:echo-origin"
		}
		m.mu.Lock()
		prev, ok := m.firstHop[w.from][w.data]
		m.mu.Unlock()
		if ok && m.idxOf(prev) == w.to {
			mon = fmt.Sprintf("message %d sent back to the peer it was received from (node %d -> node %d)", id, w.from, w.to)
			key = "pubsub.mesh:echo-prevhop"
		}
		if !m.subscribed(w.to, p.ch) {
			mon = fmt.Sprintf("message %d sent to node %d which did not announce a subscription to %s", id, w.to, p.ch)
		}
	}
	unsubRelay := ""
	for _, p := range pubs {
		rs := m.reachSub(p.node, p.ch)
		ra := m.reachAny(p.node)
		for i := 0; i < n; i++ {
			if !m.subscribed(i, p.ch) {
				continue
			}
			got := false
			for si, c := range subsOf[i] {
				if c == p.ch && cnt[[3]int{i, si, p.id}] > 0 {
					got = true
				}
			}
			if rs[i] && !got {
				mon = fmt.Sprintf("message %d did not reach node %d although it is connected to the publisher through subscribers", p.id, i)
				key = "pubsub.mesh:lost"
			}
			if ra[i] && !rs[i] && !got {
				unsubRelay = fmt.Sprintf("message %d on %s published at node %d never reached subscriber node %d: every path between them passes through a node that is not subscribed to the channel, and such nodes do not relay", p.id, p.ch, p.node, i)
			}
		}
	}
	e.rep.Compare(op, mdl, impl, branch, key, mon)
	if lib.KV(model, "quiescent") != "1" {
		e.rep.Compare(op+" #quiescent", "quiescent=1", "quiescent="+lib.KV(model, "quiescent"), branch, "pubsub.mesh:model-not-quiescent", "")
	}
	if unsubRelay != "" {
		// the full-strength clause ("reaches every subscriber of a connected mesh") fails by design
		e.rep.Compare(op+" #full-reach", mdl, impl, "mesh.unsubscribed-relay", "pubsub.mesh:unsubscribed-relay", unsubRelay)
	}
	// per node: forwarding targets of every accepted message vs the model's execPublish
	for i := 0; i < n; i++ {
		st := m.nodes[i].fs.VerifSnapshot()
		var know, peers []string
		for ch, l := range st.PeerChannels {
			for _, tpl := range l {
				know = append(know, fmt.Sprintf("%d/%d", chanNum[ch], m.idxOf(tpl.PeerID)))
			}
		}
		for tpl := range st.Peers {
			peers = append(peers, strconv.Itoa(m.idxOf(tpl.PeerID)))
		}
		sort.Strings(know)
		sort.Strings(peers)
		for _, p := range pubs {
			m.mu.Lock()
			prev, ok := m.firstHop[i][p.data]
			_, dup := m.firstHop[i][p.data+"#dup"]
			m.mu.Unlock()
			if dup {
				e.rep.Compare(op+" #seen-twice", "once", "twice", branch, "pubsub.mesh:seen-twice", fmt.Sprintf("node %d passed the seen-message check twice for message %d", i, p.id))
			}
			if !ok {
				continue
			}
			prevN := m.idxOf(prev)
			if prevN < 0 {
				prevN = p.origin
			}
			kn, pe := "_", "_"
			if len(know) != 0 {
				kn = strings.Join(know, "+")
			}
			if len(peers) != 0 {
				pe = strings.Join(peers, "+")
			}
			fop := fmt.Sprintf("pubsub.fwd know=%s peers=%s origin=%d prev=%d ch=%d", kn, pe, p.origin, prevN, chanNum[p.ch])
			fm := e.m.Query(fop)
			observed := func() string {
				m.mu.Lock()
				defer m.mu.Unlock()
				var tos []int
				for _, w := range m.wires {
					if w.from == i && w.data == p.data {
						tos = append(tos, w.to)
					}
				}
				sort.Ints(tos)
				if len(tos) == 0 {
					return "ok _"
				}
				s := make([]string, len(tos))
				for k := range tos {
					s[k] = strconv.Itoa(tos[k])
				}
				return "ok " + strings.Join(s, "+")
			}
			// the writes of an accepted copy may still be queued in the sessions: wait for the predicted set
			waitFor(3*time.Second, func() bool { return observed() == fm })
			fi := observed()
			fb := "fwd.some"
			if fm == "ok _" {
				fb = "fwd.none"
			}
			e.rep.Compare(fop, fm, fi, fb, "pubsub.fwd", "")
		}
	}
}

func lineEdges(n int) [][2]int {
	var ed [][2]int
	for i := 0; i+1 < n; i++ {
		ed = append(ed, [2]int{i, i + 1})
	}
	return ed
}

func ringEdges(n int) [][2]int { return append(lineEdges(n), [2]int{n - 1, 0}) }

func starEdges(n int) [][2]int {
	var ed [][2]int
	for i := 1; i < n; i++ {
		ed = append(ed, [2]int{0, i})
	}
	return ed
}

func completeEdges(n int) [][2]int {
	var ed [][2]int
	for i := 0; i < n; i++ {
		for j := i + 1; j < n; j++ {
			ed = append(ed, [2]int{i, j})
		}
	}
	return ed
}

func (e *engine) randomConnected(n int) [][2]int {
	var ed [][2]int
	has := map[[2]int]bool{}
	for i := 1; i < n; i++ {
		j := e.rng.Intn(i)
		ed = append(ed, [2]int{j, i})
		has[[2]int{j, i}] = true
	}
	extra := e.rng.Intn(n)
	for k := 0; k < extra; k++ {
		a, b := e.rng.Intn(n), e.rng.Intn(n)
		if a > b {
			a, b = b, a
		}
		if a != b && !has[[2]int{a, b}] {
			has[[2]int{a, b}] = true
			ed = append(ed, [2]int{a, b})
		}
	}
	e.rng.Shuffle(len(ed), func(i, j int) { ed[i], ed[j] = ed[j], ed[i] })
	return ed
}

func (e *engine) runC28() {
	e.rep.Rule = "meshes of 3-5 REAL FloodSub routers wired by in-memory streams (line, ring, star, complete, random connected graphs; links established before and after the routers start, in random order), random subsets of subscribers on 2 channels (some nodes with two subscriptions to a channel), 1-4 publishes per mesh from subscribed and unsubscribed publishers and from a signing identity that is not a node; observed = handler callbacks per subscription, publish packets per directed link (stream tap), accepted copy per node (gate hook); the same message injected concurrently from two neighbours with the first copy held right after its seen-set test (gate); distinct = distinct scenario"
	e.rep.Require("mesh.line", "mesh.ring", "mesh.star", "mesh.complete", "mesh.random", "mesh.late-links", "mesh.unsubscribed-relay", "race.two-neighbours", "fwd.some", "fwd.none")
	// the refuted full-strength clause: 3-node line, unsubscribed middle (replayed every run)
	e.runMesh("witness-line3", 3, lineEdges(3), [][]string{{"c1"}, {}, {"c1"}}, []meshPub{{node: 0, ch: "c1"}}, 0, "mesh.line")
	rounds := 8 * e.a.Scale
	for r := 0; r < rounds; r++ {
		for _, shape := range []string{"line", "ring", "star", "complete", "random", "late-links"} {
			n := 3 + e.rng.Intn(3)
			var ed [][2]int
			late := 0
			switch shape {
			case "line":
				ed = lineEdges(n)
			case "ring":
				ed = ringEdges(n)
			case "star":
				ed = starEdges(n)
			case "complete":
				n = 3 + e.rng.Intn(2)
				ed = completeEdges(n)
			case "random":
				ed = e.randomConnected(n)
			case "late-links":
				ed = e.randomConnected(n)
				late = 1 + e.rng.Intn(len(ed))
			}
			subsOf := make([][]string, n)
			dense := e.rng.Intn(3) != 0
			for i := range subsOf {
				for _, ch := range []string{"c1", "c2"} {
					p := 2
					if dense {
						p = 5
					}
					if e.rng.Intn(6) < p {
						subsOf[i] = append(subsOf[i], ch)
						if e.rng.Intn(4) == 0 {
							subsOf[i] = append(subsOf[i], ch)
						}
					}
				}
			}
			np := 1 + e.rng.Intn(4)
			var pubs []meshPub
			for k := 0; k < np; k++ {
				p := meshPub{node: e.rng.Intn(n), ch: []string{"c1", "c2"}[e.rng.Intn(2)]}
				p.foreign = e.rng.Intn(6) == 0
				pubs = append(pubs, p)
			}
			e.runMesh(fmt.Sprintf("%s-r%d", shape, r), n, ed, subsOf, pubs, late, "mesh."+shape)
		}
		e.raceTwoNeighbours(r)
	}
}

// raceTwoNeighbours: the same message reaches a router from two neighbours concurrently; the
// first copy is held right after its seen-set test until the second copy has been processed.
func (e *engine) raceTwoNeighbours(r int) {
	rng := e.rng
	x := newNode(0, newKey(rng))
	defer x.stop()
	var mu sync.Mutex
	got := map[string]int{}
	syncCh := make(chan string, 16)
	nsubs := 1 + rng.Intn(2)
	for i := 0; i < nsubs; i++ {
		s, _ := x.fs.AddSubscription(x.ctx, x.key.sk, "c1")
		s.AddHandler(func(m pubsub.Message) {
			mu.Lock()
			got[string(m.GetData())]++
			mu.Unlock()
			if strings.HasPrefix(string(m.GetData()), "marker") {
				syncCh <- string(m.GetData())
			}
		})
	}
	p := attachFake(x, newKey(rng), 21)
	q := attachFake(x, newKey(rng), 22)
	pub := newKey(rng)
	data := fmt.Sprintf("race-%d-%s", r, lib.Hex(rng.Bytes(4)))
	msg, _, err := pubmessage.NewPubMessage("c1", pub.sk, 1, []byte(data))
	if err != nil {
		panic(err)
	}
	rel := make(chan struct{})
	arrived := make(chan struct{}, 8)
	var gmu sync.Mutex
	passes := 0
	floodsub.VerifSetGate(func(point string, fs *floodsub.FloodSub, objs ...any) {
		if point != "floodsub.seen" || fs != x.fs {
			return
		}
		if string(d0(objs[1].(*peer.SignedMsg))) != data {
			return
		}
		gmu.Lock()
		passes++
		first := passes == 1
		gmu.Unlock()
		arrived <- struct{}{}
		if first {
			<-rel
		}
	})
	defer floodsub.VerifSetGate(nil)
	x.start()
	for _, fp := range []*fakePeer{p, q} {
		if !waitFor(5*time.Second, func() bool { n, _, _ := fp.snapshot(); return n >= 1 }) {
			panic("session not initialised")
		}
	}
	p.sess.SendMsg(&floodsub.Packet{Publish: []*peer.SignedMsg{msg}})
	<-arrived // first copy holds right after the seen-set test
	marker := "marker-" + data
	mk, _, _ := pubmessage.NewPubMessage("c1", pub.sk, 1, []byte(marker))
	q.sess.SendMsg(&floodsub.Packet{Publish: []*peer.SignedMsg{msg.CloneVT(), mk}})
	// the second copy has been fully processed once the marker behind it was delivered
	for i := 0; i < nsubs; i++ {
		select {
		case <-syncCh:
		case <-time.After(10 * time.Second):
			panic("marker not delivered")
		}
	}
	close(rel)
	waitFor(2*time.Second, func() bool { mu.Lock(); defer mu.Unlock(); return got[data] >= nsubs })
	time.Sleep(3 * time.Millisecond)
	mu.Lock()
	k := got[data]
	mu.Unlock()
	gmu.Lock()
	np := passes
	gmu.Unlock()
	// model: diamond O(0) - P(1),Q(2) - X(3); everyone subscribed; X must deliver once
	op := "pubsub.flood scenario=race nodes=1|1/1+1/2|1+2;1|1/0+1/3|0+3;1|1/0+1/3|0+3;1|1/1+1/2|1+2 pubs=0/1/0/1"
	model := e.m.Query(op)
	md := "X:_"
	for _, ent := range strings.Split(lib.KV(model, "del"), ",") {
		if strings.HasPrefix(ent, "3:") {
			md = "X:" + ent[2:]
		}
	}
	impl := "X:_"
	if k == nsubs {
		impl = "X:1"
	} else if k != 0 {
		impl = fmt.Sprintf("X:1!%d/%d", k, nsubs)
	}
	mon := ""
	if k > nsubs {
		mon = fmt.Sprintf("the same message arriving from two neighbours concurrently was handed %d times to %d subscription(s) (%d copies passed the seen-message check)", k, nsubs, np)
	}
	e.rep.Compare(op+fmt.Sprintf(" #nsubs=%d", nsubs), md, impl, "race.two-neighbours", "pubsub.mesh:duplicate-delivery", mon)
}
