package main

import (
	"fmt"
	"strings"
	"sync"
	"time"

	"github.com/aperturerobotics/bifrost/peer"
	"github.com/aperturerobotics/bifrost/pubsub"
	"github.com/aperturerobotics/bifrost/pubsub/floodsub"
	"github.com/aperturerobotics/bifrost/pubsub/util/pubmessage"

	"verif/harness/lib"
)

// runMesh builds a static mesh (edges may repeat a pair: parallel links), publishes, waits for
// quiescence and compares with the model.
func (e *engine) runMesh(name string, n int, edges [][2]int, subsOf [][]string, pubs []meshPub, lateEdges int, branch string) {
	m := newMesh(e, n)
	defer m.stop()
	floodsub.VerifSetGate(m.gate)
	defer floodsub.VerifSetGate(nil)
	for i := range subsOf {
		for _, ch := range subsOf[i] {
			m.subscribe(i, ch)
		}
	}
	early := edges[:len(edges)-lateEdges]
	for _, ed := range early {
		m.connect(ed[0], ed[1])
	}
	for _, nd := range m.nodes {
		nd.start()
	}
	for _, ed := range edges[len(early):] {
		time.Sleep(time.Duration(e.rng.Intn(3)) * time.Millisecond)
		m.connect(ed[0], ed[1])
	}
	opHead := fmt.Sprintf("pubsub.flood scenario=%s", name)
	if class, what := m.settle(8 * time.Second); class != "" {
		e.rep.Compare(opHead, "converged", "not-converged", branch, "pubsub.mesh:"+class, "subscription announcements did not converge to the neighbours' true subscriptions: "+what)
		return
	}
	e.meshRound(m, opHead, pubs, branch)
}

// ---- dynamic histories ----

// runHistory runs an interleaved history of connect / parallel connect / subscribe / release /
// disconnect / reconnect (closed tuple again; live tuple replaced) with settle points; at every
// settle point the belief monitor must hold for EVERY live link (incl. links that came up after
// subscriptions were announced elsewhere) and a publish round is run and judged.
// script: explicit list of ops; nil = random.
func (e *engine) runHistory(name string, n int, script []string, steps int, branch string) {
	rng := e.rng
	m := newMesh(e, n)
	defer m.stop()
	floodsub.VerifSetGate(m.gate)
	defer floodsub.VerifSetGate(nil)
	for _, nd := range m.nodes {
		nd.start()
	}
	var hist []string
	rounds := 0
	doSettle := func() bool {
		opHead := fmt.Sprintf("pubsub.flood scenario=%s-s%d hist=%s", name, rounds, strings.Join(hist, ","))
		if class, what := m.settle(6 * time.Second); class != "" {
			e.rep.Compare(opHead, "converged", "not-converged", branch, "pubsub.mesh:"+class,
				"after the history "+strings.Join(hist, ",")+" (all links idle): "+what)
			return false
		}
		rounds++
		// publish on every channel somebody subscribes to, from 1-3 random nodes
		var pubs []meshPub
		np := 1 + rng.Intn(3)
		for k := 0; k < np; k++ {
			pubs = append(pubs, meshPub{node: rng.Intn(n), ch: meshChans[rng.Intn(2)], foreign: rng.Intn(8) == 0})
		}
		e.meshRound(m, opHead, pubs, branch)
		return true
	}
	apply := func(op string) bool {
		var a, b int
		var ch string
		switch {
		case sscan(op, "connect:%d:%d", &a, &b):
			m.connect(a, b)
		case sscan(op, "sub:%d:%s", &a, &ch):
			m.subscribe(a, ch)
		case sscan(op, "rel:%d:%s", &a, &ch):
			if !m.release(a, ch) {
				return true
			}
		case sscan(op, "close:%d", &a):
			if a >= len(m.links) || !m.links[a].alive {
				return true
			}
			m.closeLink(m.links[a])
		case sscan(op, "reopen:%d", &a): // the same (peer, link id) tuple again: after close, or replacing the live session
			if a >= len(m.links) {
				return true
			}
			m.open(m.links[a])
		case sscan(op, "waitclosed:%d", &a): // both routers dropped the session of the closed link
			l := m.links[a]
			waitFor(5*time.Second, func() bool {
				_, oka := m.nodes[l.a].fs.VerifSnapshot().Peers[m.tplOf(l, l.b)]
				_, okb := m.nodes[l.b].fs.VerifSnapshot().Peers[m.tplOf(l, l.a)]
				return !oka && !okb
			})
			return true
		case sscan(op, "waitswept:%d:%s", &a, &ch): // Execute of node a swept the released channel
			waitFor(5*time.Second, func() bool { _, ok := m.nodes[a].fs.VerifSnapshot().Channels[ch]; return !ok })
			return true
		case op == "settle":
			hist = append(hist, op)
			return doSettle()
		case op == "pause":
			time.Sleep(time.Duration(rng.Intn(3000)) * time.Microsecond)
			return true
		default:
			panic("bad history op " + op)
		}
		hist = append(hist, op)
		return true
	}
	if script != nil {
		for _, op := range script {
			if !apply(op) {
				return
			}
		}
		return
	}
	// random history: start from a spanning tree so that publishes travel
	for i := 1; i < n; i++ {
		if rng.Intn(4) != 0 {
			apply(fmt.Sprintf("connect:%d:%d", rng.Intn(i), i))
		}
	}
	for st := 0; st < steps; st++ {
		var op string
		switch r := rng.Intn(20); {
		case r < 4:
			op = fmt.Sprintf("sub:%d:%s", rng.Intn(n), meshChans[rng.Intn(2)])
		case r < 7:
			op = fmt.Sprintf("rel:%d:%s", rng.Intn(n), meshChans[rng.Intn(2)])
		case r < 10:
			a, b := rng.Intn(n), rng.Intn(n)
			if a == b {
				continue
			}
			op = fmt.Sprintf("connect:%d:%d", a, b) // may duplicate a pair: parallel link
		case r < 12:
			if len(m.links) == 0 {
				continue
			}
			op = fmt.Sprintf("close:%d", rng.Intn(len(m.links)))
		case r < 14:
			if len(m.links) == 0 {
				continue
			}
			op = fmt.Sprintf("reopen:%d", rng.Intn(len(m.links)))
		case r < 15:
			op = "pause"
		default:
			op = "settle"
		}
		if !apply(op) {
			return
		}
	}
	apply("settle")
}

// sscan is fmt.Sscanf on ':'-separated ops (all verbs must match and nothing may be left).
func sscan(op, format string, args ...any) bool {
	fp, op2 := strings.Split(format, ":"), strings.Split(op, ":")
	if len(fp) != len(op2) || fp[0] != op2[0] {
		return false
	}
	for i := 1; i < len(fp); i++ {
		if _, err := fmt.Sscanf(op2[i], fp[i], args[i-1]); err != nil {
			return false
		}
	}
	return true
}

func lineEdges(n int) [][2]int {
	var ed [][2]int
	for i := 0; i+1 < n; i++ {
		ed = append(ed, [2]int{i, i + 1})
	}
	return ed
}

func ringEdges(n int) [][2]int { return append(lineEdges(n), [2]int{n - 1, 0}) }

func starEdges(n int) [][2]int {
	var ed [][2]int
	for i := 1; i < n; i++ {
		ed = append(ed, [2]int{0, i})
	}
	return ed
}

func completeEdges(n int) [][2]int {
	var ed [][2]int
	for i := 0; i < n; i++ {
		for j := i + 1; j < n; j++ {
			ed = append(ed, [2]int{i, j})
		}
	}
	return ed
}

func (e *engine) randomConnected(n int) [][2]int {
	var ed [][2]int
	has := map[[2]int]bool{}
	for i := 1; i < n; i++ {
		j := e.rng.Intn(i)
		ed = append(ed, [2]int{j, i})
		has[[2]int{j, i}] = true
	}
	extra := e.rng.Intn(n)
	for k := 0; k < extra; k++ {
		a, b := e.rng.Intn(n), e.rng.Intn(n)
		if a > b {
			a, b = b, a
		}
		if a != b && !has[[2]int{a, b}] {
			has[[2]int{a, b}] = true
			ed = append(ed, [2]int{a, b})
		}
	}
	e.rng.Shuffle(len(ed), func(i, j int) { ed[i], ed[j] = ed[j], ed[i] })
	return ed
}

func (e *engine) runC28() {
	e.rep.Rule = "meshes of 3-6 REAL FloodSub routers (PublishHashType unset/SHA256/SHA1/BLAKE3 per router) wired by in-memory streams (line, ring, star, complete, random connected graphs, the same graphs with PARALLEL links between a pair; links established before and after the routers start, in random order), random subsets of subscribers on 2 channels (some nodes with two subscriptions to a channel), 1-4 publishes per mesh from subscribed and unsubscribed publishers and from a signing identity that is not a node; dynamic histories of connect / parallel connect / subscribe / release / close / re-open of the same (peer, link) tuple (after close and over a live session) with settle points, a publish round at every settle point; observed = handler callbacks per subscription with the reported sender, every publish and subscription entry per directed link and link id (stream tap), accepted copy per node (gate hook), router tables at the settle points; the same message injected concurrently from two neighbours with the first copy held right after its seen-set test (gate); distinct = distinct scenario"
	e.rep.Require("mesh.line", "mesh.ring", "mesh.star", "mesh.complete", "mesh.random", "mesh.late-links", "mesh.parallel", "mesh.unsubscribed-relay", "race.two-neighbours", "fwd.some", "fwd.none",
		"targets.one-link", "targets.parallel-links", "targets.none", "hist.scripted", "hist.random", "mesh.unsubscribe-received", "replace.publish-uninit", "alias.replay", "publish.handle", "replace.model")
	// bursts beyond the capacity of the publish queue: a neighbour that does not read / a loop that is away
	e.rep.Require("burst.stall", "burst.wake", "burst.publish-queue-full")
	bi := 0
	for r := 0; r < e.a.Scale; r++ {
		for _, mode := range []string{"stall", "wake"} {
			for _, remote := range []bool{false, true} {
				e.burstScenario(bi, mode, remote)
				bi++
			}
		}
	}
	// known finding: an unsubscribe announced while the tuple is being replaced over its live session is lost
	e.rep.Require("replace.release-lost")
	e.replacedLiveRelease()
	// two sessions of one tuple; the superseded one ends late
	e.rep.Require("stale.session-exit")
	for r := 0; r < 2*e.a.Scale; r++ {
		e.staleSessionExit(r)
	}
	// a message served by execPublish while the session of one of its targets is being replaced
	for r := 0; r < 2*e.a.Scale; r++ {
		e.replaceDuringPublish(r)
	}
	// the refuted full-strength clause: 3-node line, unsubscribed middle (replayed every run)
	e.runMesh("witness-line3", 3, lineEdges(3), [][]string{{"c1"}, {}, {"c1"}}, []meshPub{{node: 0, ch: "c1"}}, 0, "mesh.line")
	// relay over a pair joined by two links: W -1- X =2= Y, everybody subscribed, W and Y publish
	e.runMesh("parallel-relay", 3, [][2]int{{0, 1}, {1, 2}, {1, 2}}, [][]string{{"c1"}, {"c1"}, {"c1"}}, []meshPub{{node: 0, ch: "c1"}, {node: 2, ch: "c1"}}, 0, "mesh.parallel")
	// scripted histories: link first, subscribe later, settle (an evaluation round passes), a link
	// to another node later, traffic enters through the later node; release received by real routers;
	// a tuple connected again over its live session
	e.runHistory("late-link", 3, []string{"connect:0:1", "settle", "sub:1:c1", "sub:0:c1", "settle", "sub:2:c1", "connect:1:2", "settle", "rel:1:c1", "settle", "sub:1:c1", "settle"}, 0, "hist.scripted")
	e.runHistory("late-link-4", 4, []string{"sub:0:c2", "connect:0:1", "connect:1:2", "settle", "sub:1:c1", "sub:2:c1", "settle", "connect:2:3", "connect:0:3", "sub:3:c1", "sub:0:c1", "settle", "rel:2:c1", "settle"}, 0, "hist.scripted")
	e.runHistory("replace-live", 3, []string{"sub:0:c1", "sub:1:c1", "sub:2:c1", "connect:0:1", "connect:1:2", "settle", "reopen:0", "settle", "connect:0:1", "settle", "close:0", "settle"}, 0, "hist.scripted")
	// a link is closed, the last subscription is released while it is down, the same (peer, link)
	// tuple comes up again: the neighbour must not keep the subscription of the closed session
	e.runHistory("reconnect-after-release", 3, []string{"sub:0:c1", "sub:1:c1", "sub:2:c1", "connect:0:1", "connect:1:2", "settle", "close:0", "waitclosed:0", "rel:0:c1", "waitswept:0:c1", "reopen:0", "settle"}, 0, "hist.scripted")
	// wave 5: subscription-control packets in every relation to the recorded set; publisher key != node
	// identity on cycles with a slow direct edge
	e.runC28Wave5()
	rounds := 8 * e.a.Scale
	for r := 0; r < rounds; r++ {
		for _, shape := range []string{"line", "ring", "star", "complete", "random", "late-links", "parallel"} {
			n := 3 + e.rng.Intn(4)
			var ed [][2]int
			late := 0
			switch shape {
			case "line":
				ed = lineEdges(n)
			case "ring":
				ed = ringEdges(n)
			case "star":
				ed = starEdges(n)
			case "complete":
				n = 3 + e.rng.Intn(2)
				ed = completeEdges(n)
			case "random":
				ed = e.randomConnected(n)
			case "late-links":
				ed = e.randomConnected(n)
				late = 1 + e.rng.Intn(len(ed))
			case "parallel":
				// any of the shapes with 1-3 pairs joined by a second (or third) link
				switch e.rng.Intn(3) {
				case 0:
					ed = lineEdges(n)
				case 1:
					ed = ringEdges(n)
				default:
					ed = e.randomConnected(n)
				}
				for k := 1 + e.rng.Intn(3); k > 0; k-- {
					ed = append(ed, ed[e.rng.Intn(len(ed))])
				}
				e.rng.Shuffle(len(ed), func(i, j int) { ed[i], ed[j] = ed[j], ed[i] })
				late = e.rng.Intn(len(ed))
			}
			subsOf := make([][]string, n)
			dense := e.rng.Intn(3) != 0 || shape == "parallel"
			for i := range subsOf {
				for _, ch := range []string{"c1", "c2"} {
					p := 2
					if dense {
						p = 5
					}
					if e.rng.Intn(6) < p {
						subsOf[i] = append(subsOf[i], ch)
						if e.rng.Intn(4) == 0 {
							subsOf[i] = append(subsOf[i], ch)
						}
					}
				}
			}
			np := 1 + e.rng.Intn(4)
			var pubs []meshPub
			for k := 0; k < np; k++ {
				p := meshPub{node: e.rng.Intn(n), ch: []string{"c1", "c2"}[e.rng.Intn(2)]}
				p.foreign = e.rng.Intn(6) == 0
				pubs = append(pubs, p)
			}
			e.runMesh(fmt.Sprintf("%s-r%d", shape, r), n, ed, subsOf, pubs, late, "mesh."+shape)
		}
		e.raceTwoNeighbours(r)
	}
	nh := 5 * e.a.Scale
	for h := 0; h < nh; h++ {
		e.runHistory(fmt.Sprintf("rand-h%d", h), 3+e.rng.Intn(4), nil, 10+e.rng.Intn(10), "hist.random")
	}
}

// raceTwoNeighbours: the same message reaches a router from two neighbours concurrently; the
// first copy is held right after its seen-set test until the second copy has been processed.
func (e *engine) raceTwoNeighbours(r int) {
	rng := e.rng
	x := newNode(0, newKey(rng))
	defer x.stop()
	var mu sync.Mutex
	got := map[string]int{}
	syncCh := make(chan string, 16)
	nsubs := 1 + rng.Intn(2)
	for i := 0; i < nsubs; i++ {
		s, _ := x.fs.AddSubscription(x.ctx, x.key.sk, "c1")
		s.AddHandler(func(m pubsub.Message) {
			mu.Lock()
			got[string(m.GetData())]++
			mu.Unlock()
			if strings.HasPrefix(string(m.GetData()), "marker") {
				syncCh <- string(m.GetData())
			}
		})
	}
	p := attachFake(x, newKey(rng), 21)
	q := attachFake(x, newKey(rng), 22)
	pub := newKey(rng)
	data := fmt.Sprintf("race-%d-%s", r, lib.Hex(rng.Bytes(4)))
	msg, _, err := pubmessage.NewPubMessage("c1", pub.sk, 1, []byte(data))
	if err != nil {
		panic(err)
	}
	rel := make(chan struct{})
	arrived := make(chan struct{}, 8)
	var gmu sync.Mutex
	passes := 0
	floodsub.VerifSetGate(func(point string, fs *floodsub.FloodSub, objs ...any) {
		if point != "floodsub.seen" || fs != x.fs {
			return
		}
		if string(d0(objs[1].(*peer.SignedMsg))) != data {
			return
		}
		gmu.Lock()
		passes++
		first := passes == 1
		gmu.Unlock()
		arrived <- struct{}{}
		if first {
			<-rel
		}
	})
	defer floodsub.VerifSetGate(nil)
	x.start()
	for _, fp := range []*fakePeer{p, q} {
		if !waitFor(5*time.Second, func() bool { n, _, _ := fp.snapshot(); return n >= 1 }) {
			panic("session not initialised")
		}
	}
	p.sess.SendMsg(&floodsub.Packet{Publish: []*peer.SignedMsg{msg}})
	<-arrived // first copy holds right after the seen-set test
	marker := "marker-" + data
	mk, _, _ := pubmessage.NewPubMessage("c1", pub.sk, 1, []byte(marker))
	q.sess.SendMsg(&floodsub.Packet{Publish: []*peer.SignedMsg{msg.CloneVT(), mk}})
	// the second copy has been fully processed once the marker behind it was delivered
	for i := 0; i < nsubs; i++ {
		select {
		case <-syncCh:
		case <-time.After(10 * time.Second):
			panic("marker not delivered")
		}
	}
	close(rel)
	waitFor(2*time.Second, func() bool { mu.Lock(); defer mu.Unlock(); return got[data] >= nsubs })
	time.Sleep(3 * time.Millisecond)
	mu.Lock()
	k := got[data]
	mu.Unlock()
	gmu.Lock()
	np := passes
	gmu.Unlock()
	// model: diamond O(0) - P(1),Q(2) - X(3); everyone subscribed; X must deliver once
	op := "pubsub.flood scenario=race nodes=1|1/1+1/2|1+2;1|1/0+1/3|0+3;1|1/0+1/3|0+3;1|1/1+1/2|1+2 pubs=0/1/0/1"
	model := e.m.Query(op)
	md := "X:_"
	for _, ent := range strings.Split(lib.KV(model, "del"), ",") {
		if strings.HasPrefix(ent, "3:") {
			md = "X:" + ent[2:]
		}
	}
	impl := "X:_"
	if k == nsubs {
		impl = "X:1"
	} else if k != 0 {
		impl = fmt.Sprintf("X:1!%d/%d", k, nsubs)
	}
	mon := ""
	if k > nsubs {
		mon = fmt.Sprintf("the same message arriving from two neighbours concurrently was handed %d times to %d subscription(s) (%d copies passed the seen-message check)", k, nsubs, np)
	}
	e.rep.Compare(op+fmt.Sprintf(" #nsubs=%d", nsubs), md, impl, "race.two-neighbours", "pubsub.mesh:duplicate-delivery", mon)
}
