package main

// C27, "messages addressed to a channel the node does not subscribe to are dropped and not
// forwarded", over histories in which the node's OWN subscriptions change between the publishes
// arriving on ONE stream for the SAME channel (no other channel in between on that stream):
// subscribe / publish / release + sweep / publish / subscribe again / publish … A third peer that
// subscribes to the channel observes what is forwarded.

import (
	"fmt"
	"sort"
	"strings"
	"sync"
	"time"

	"github.com/aperturerobotics/bifrost/peer"
	"github.com/aperturerobotics/bifrost/pubsub"
	"github.com/aperturerobotics/bifrost/pubsub/floodsub"

	"verif/harness/lib"
)

func (e *engine) c27LocalChanges(sc int) {
	rng := e.rng
	x := newNode(0, newKey(rng))
	defer x.stop()
	var gmu sync.Mutex
	accepted := map[string]bool{}
	published := map[string]bool{}
	floodsub.VerifSetGate(func(point string, fs *floodsub.FloodSub, objs ...any) {
		if fs != x.fs {
			return
		}
		switch point {
		case "floodsub.seen":
			gmu.Lock()
			accepted[string(d0(objs[1].(*peer.SignedMsg)))] = true
			gmu.Unlock()
		case "floodsub.published":
			gmu.Lock()
			published[string(d0(objs[0].(*peer.SignedMsg)))] = true
			gmu.Unlock()
		}
	})
	defer floodsub.VerifSetGate(nil)
	var mu sync.Mutex
	var dels []delivery
	live := map[string][]pubsub.Subscription{}
	subscribe := func(ch string) {
		s, err := x.fs.AddSubscription(x.ctx, x.key.sk, ch)
		if err != nil {
			panic(err)
		}
		s.AddHandler(func(m pubsub.Message) {
			mu.Lock()
			dels = append(dels, delivery{subCh: ch, from: m.GetFrom(), data: append([]byte(nil), m.GetData()...)})
			mu.Unlock()
		})
		live[ch] = append(live[ch], s)
	}
	p := attachFake(x, newKey(rng), 41) // the stream the publishes arrive on
	q := attachFake(x, newKey(rng), 42) // a subscriber of every channel: sees what is forwarded
	x.start()
	for _, fp := range []*fakePeer{p, q} {
		if !waitFor(5*time.Second, func() bool { n, _, _ := fp.snapshot(); return n >= 1 }) {
			panic("session not initialised")
		}
		fp.announce("alpha", "beta")
	}
	if !waitFor(5*time.Second, func() bool {
		st := x.fs.VerifSnapshot()
		return len(st.PeerChannels["alpha"]) == 2 && len(st.PeerChannels["beta"]) == 2
	}) {
		panic("peer subscriptions not recorded")
	}
	pub := newKey(rng)
	var seen []string
	var hist []string
	syncN := 0
	// scripted prefix: the sequence of the class; then random
	script := []string{"sub:alpha", "pub:alpha", "rel:alpha", "pub:alpha", "pub:alpha", "sub:alpha", "pub:alpha", "sub:beta", "rel:alpha", "pub:alpha", "pub:beta", "rel:beta", "pub:beta"}
	steps := len(script) + 6 + rng.Intn(8)
	if sc%2 == 1 {
		script = nil
	}
	for st := 0; st < steps; st++ {
		var op string
		if st < len(script) {
			op = script[st]
		} else {
			ch := []string{"alpha", "beta"}[rng.Intn(2)]
			if sc%3 == 2 {
				ch = "alpha" // a single channel for the whole history
			}
			op = []string{"sub", "rel", "pub", "pub", "pub"}[rng.Intn(5)] + ":" + ch
		}
		kind, ch, _ := strings.Cut(op, ":")
		switch kind {
		case "sub":
			subscribe(ch)
			hist = append(hist, op)
			continue
		case "rel":
			l := live[ch]
			if len(l) == 0 {
				continue
			}
			l[len(l)-1].Release()
			live[ch] = l[:len(l)-1]
			if len(live[ch]) == 0 {
				// the sweep: the key leaves the router's channel table
				if !waitFor(5*time.Second, func() bool { _, has := x.fs.VerifSnapshot().Channels[ch]; return !has }) {
					panic("released channel not swept")
				}
			}
			hist = append(hist, op)
			continue
		}
		hist = append(hist, op)
		data := append([]byte(fmt.Sprintf("lc%d-%d-", sc, st)), rng.Bytes(3)...)
		msg := rawSigned(pub, pubCtxPrefix+ch, 1+st%3, innerBytes(data, ch, nil))
		snap := x.fs.VerifSnapshot()
		var chl []string
		for c, n := range snap.Channels {
			chl = append(chl, fmt.Sprintf("%s:%d", lib.Hex([]byte(c)), n))
		}
		sort.Strings(chl)
		both := tplStr(p.tpl) + "+" + tplStr(q.tpl)
		seenArg := "_"
		if len(seen) != 0 {
			seenArg = strings.Join(seen, ",")
		}
		chans := "_"
		if len(chl) != 0 {
			chans = strings.Join(chl, ",")
		}
		mop := fmt.Sprintf("pubsub.handle chans=%s pc=%s:%s,%s:%s peers=%s,%s seen=%s prev=%s from=%s spk=- ht=%d sig=%s data=%s", chans,
			lib.Hex([]byte("alpha")), both, lib.Hex([]byte("beta")), both, tplStr(p.tpl), tplStr(q.tpl), seenArg,
			lib.Hex([]byte(p.key.id)), lib.Hex([]byte(msg.GetFromPeerId())), int32(msg.GetSignature().GetHashType()), lib.Hex(msg.GetSignature().GetSigData()), lib.Hex(msg.GetData()))
		model, _ := e.oracleQuery(mop)
		if strings.HasPrefix(model, "ok ") {
			seen = append(seen, lib.KV(model, "id"))
		}
		mu.Lock()
		del0 := len(dels)
		mu.Unlock()
		_, _, fw0 := q.snapshot()
		if err := p.sess.SendMsg(&floodsub.Packet{Publish: []*peer.SignedMsg{msg}}); err != nil {
			panic(err)
		}
		// an announcement behind it on the same stream: once it is recorded the publish was handled
		syncN++
		sch := fmt.Sprintf("lsync%d", syncN)
		p.announce(sch)
		if !waitFor(5*time.Second, func() bool { return hasTpl(x.fs.VerifSnapshot().PeerChannels[sch], p.tpl) }) {
			panic("announcement not processed")
		}
		gmu.Lock()
		acc := accepted[string(data)]
		gmu.Unlock()
		want := len(live[ch])
		if acc {
			waitFor(5*time.Second, func() bool { gmu.Lock(); defer gmu.Unlock(); return published[string(data)] })
			waitFor(2*time.Second, func() bool { _, _, fw := q.snapshot(); return len(fw) > len(fw0) })
			waitFor(2*time.Second, func() bool { mu.Lock(); defer mu.Unlock(); return len(dels)-del0 >= want })
			time.Sleep(2 * time.Millisecond)
		}
		mu.Lock()
		nd := 0
		for _, d := range dels[del0:] {
			if string(d.data) == string(data) {
				nd++
			}
		}
		mu.Unlock()
		_, _, fw := q.snapshot()
		mb, _ := msg.MarshalVT()
		nf := 0
		for _, f := range fw[len(fw0):] {
			if f == string(mb) {
				nf++
			}
		}
		impl := "drop"
		if nd != 0 || nf != 0 {
			impl = fmt.Sprintf("ok nsubs=%d nfwd=%d", nd, nf)
		}
		mdl := "drop"
		if strings.HasPrefix(model, "ok ") {
			k := 0
			if f := lib.KV(model, "fwd"); f != "_" {
				k = len(strings.Split(f, ","))
			}
			mdl = fmt.Sprintf("ok nsubs=%s nfwd=%d", lib.KV(model, "nsubs"), k)
		}
		mon := ""
		hs := strings.Join(hist, ",")
		if want == 0 {
			if nd != 0 {
				mon = fmt.Sprintf("after the history %s the node has no subscription to %s, yet a message for %s arriving on the stream was handed to a subscriber", hs, ch, ch)
			}
			if nf != 0 {
				mon = fmt.Sprintf("after the history %s (last subscription to %s released and swept) a message for %s arriving on the same stream was forwarded to another peer: a message for a channel the node does not subscribe to must be dropped and not forwarded", hs, ch, ch)
			}
		} else if nd != want {
			mon = fmt.Sprintf("after the history %s the node has %d subscription(s) to %s but an authentic message for it was handed out %d times", hs, want, ch, nd)
		}
		br := "local.subscribed"
		if want == 0 {
			br = "local.unsubscribed-again"
		}
		e.rep.Compare(mop+" #hist="+hs, mdl, impl, br, "pubsub.handle:local-subscription-change", mon)
	}
}
