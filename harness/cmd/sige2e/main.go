// Command sige2e composes the REAL signaling clients of two peers with the REAL relay server
// through in-memory SRPC stream pairs and checks C21 / C23 end to end on what the applications
// observe, while the relay's critical sections are still replayed on the Lean model (so the
// composed run is a run of the proven server LTS). Faults: the receiving peer drops and
// re-acquires its session (re-attach => new epoch) while sends are in flight.
package main

import (
	"bytes"
	"context"
	"fmt"
	"io"
	"sort"
	"strings"
	"sync"
	"time"

	"github.com/aperturerobotics/bifrost/crypto"
	"github.com/aperturerobotics/bifrost/peer"
	signaling "github.com/aperturerobotics/bifrost/signaling/rpc"
	signaling_rpc_client "github.com/aperturerobotics/bifrost/signaling/rpc/client"
	signaling_rpc_server "github.com/aperturerobotics/bifrost/signaling/rpc/server"
	"github.com/aperturerobotics/starpc/srpc"
	"github.com/aperturerobotics/util/backoff"
	"github.com/sirupsen/logrus"

	"verif/harness/lib"
	"verif/harness/sigtrace"
)

type ctxKey struct{}

// pipe is one Session RPC: the client end and the server end of the same stream.
type pipe struct {
	w         *world
	id        int
	src       int
	ctx       context.Context // client side
	cancel    context.CancelFunc
	sctx      context.Context // server side: outlives the client side when the stream dies silently
	scancel   context.CancelFunc
	severed   chan struct{} // closed when the stream died silently (the relay has not noticed)
	severOnce sync.Once
	c2s       chan *signaling.SessionRequest
	s2c       chan *signaling.SessionResponse
	mtx       sync.Mutex
	sends     []sigtrace.Sub
}

// clientEnd implements signaling.SRPCSignaling_SessionClient.
type clientEnd struct{ p *pipe }

func (c *clientEnd) Context() context.Context { return c.p.ctx }
func (c *clientEnd) Send(m *signaling.SessionRequest) error {
	if b, ok := m.GetBody().(*signaling.SessionRequest_SendMsg); ok {
		c.p.mtx.Lock()
		c.p.sends = append(c.p.sends, sigtrace.Sub{Mid: c.p.src*100000 + int(b.SendMsg.GetSeqno()), Epoch: m.GetSessionSeqno(), Seqno: b.SendMsg.GetSeqno(), V: 1, Signer: c.p.src})
		c.p.mtx.Unlock()
	}
	select {
	case <-c.p.severed:
		return io.ErrUnexpectedEOF
	default:
	}
	select {
	case c.p.c2s <- m:
		return nil
	case <-c.p.severed:
		return io.ErrUnexpectedEOF
	case <-c.p.ctx.Done():
		return context.Canceled
	}
}
func (c *clientEnd) Recv() (*signaling.SessionResponse, error) {
	select {
	case <-c.p.severed:
		return nil, io.ErrUnexpectedEOF
	default:
	}
	select {
	case m := <-c.p.s2c:
		return m, nil
	case <-c.p.severed:
		return nil, io.ErrUnexpectedEOF
	case <-c.p.ctx.Done():
		return nil, context.Canceled
	}
}
func (c *clientEnd) RecvTo(m *signaling.SessionResponse) error {
	x, err := c.Recv()
	if err != nil {
		return err
	}
	*m = *x //nolint
	return nil
}
func (c *clientEnd) MsgSend(srpc.Message) error { return nil }
func (c *clientEnd) MsgRecv(srpc.Message) error { return io.EOF }
func (c *clientEnd) CloseSend() error           { return nil }
func (c *clientEnd) Close() error               { c.p.cancel(); return nil }

// serverEnd implements signaling.SRPCSignaling_SessionStream.
type serverEnd struct{ p *pipe }

func (s *serverEnd) Context() context.Context { return s.p.sctx }
func (s *serverEnd) Send(m *signaling.SessionResponse) error {
	s.p.w.logTx(s.p.id, m)
	if _, ok := m.GetBody().(*signaling.SessionResponse_RecvMsg); ok && s.p.w.takeSever(s.p.src) {
		// the stream dies silently with this message in flight: the client sees an error, the
		// relay keeps believing the stream is alive (its writes are buffered by the transport)
		s.p.severOnce.Do(func() { close(s.p.severed) })
	}
	select {
	case <-s.p.severed:
		return nil
	default:
	}
	select {
	case s.p.s2c <- m:
		return nil
	case <-s.p.severed:
		return nil
	case <-s.p.sctx.Done():
		return context.Canceled
	}
}
func (s *serverEnd) SendAndClose(m *signaling.SessionResponse) error { return s.Send(m) }
func (s *serverEnd) Recv() (*signaling.SessionRequest, error) {
	select {
	case <-s.p.severed:
		<-s.p.sctx.Done()
		return nil, context.Canceled
	default:
	}
	select {
	case m := <-s.p.c2s:
		return m, nil
	case <-s.p.severed:
		<-s.p.sctx.Done()
		return nil, context.Canceled
	case <-s.p.sctx.Done():
		return nil, context.Canceled
	}
}
func (s *serverEnd) RecvTo(m *signaling.SessionRequest) error {
	x, err := s.Recv()
	if err != nil {
		return err
	}
	*m = *x //nolint
	return nil
}
func (s *serverEnd) MsgSend(srpc.Message) error { return nil }
func (s *serverEnd) MsgRecv(srpc.Message) error { return io.EOF }
func (s *serverEnd) CloseSend() error           { return nil }
func (s *serverEnd) Close() error               { return nil }

// relayClient is the SRPCSignalingClient of one peer: every Session() starts the server handler.
type relayClient struct {
	w   *world
	src int
}

func (r *relayClient) SRPCClient() srpc.Client { return nil }
func (r *relayClient) Listen(ctx context.Context, in *signaling.ListenRequest) (signaling.SRPCSignaling_ListenClient, error) {
	return nil, io.EOF
}
func (r *relayClient) Session(ctx context.Context) (signaling.SRPCSignaling_SessionClient, error) {
	pctx, cancel := context.WithCancel(ctx)
	sctx, scancel := context.WithCancel(context.WithValue(r.w.ctx, ctxKey{}, r.w.e.pids[r.src]))
	p := &pipe{w: r.w, src: r.src, ctx: pctx, cancel: cancel, sctx: sctx, scancel: scancel, severed: make(chan struct{}), c2s: make(chan *signaling.SessionRequest, 16), s2c: make(chan *signaling.SessionResponse, 16)}
	se := &serverEnd{p: p}
	r.w.mtx.Lock()
	r.w.pipes = append(r.w.pipes, p)
	p.id = len(r.w.pipes)
	r.w.calls[fmt.Sprintf("%p", se)] = p.id
	r.w.mtx.Unlock()
	go func() {
		// the relay notices a client-side close unless the stream died silently
		select {
		case <-pctx.Done():
			select {
			case <-p.severed:
			default:
				scancel()
			}
		case <-sctx.Done():
		}
	}()
	go func() {
		if err := r.w.srv.Session(se); err == signaling.ErrUserpedSession {
			r.w.mtx.Lock()
			r.w.usurped++
			r.w.mtx.Unlock()
		}
		scancel()
		cancel()
	}()
	return &clientEnd{p: p}, nil
}

type engine struct {
	a     *lib.Args
	rng   *lib.Rng
	m     *lib.Model
	rep   *lib.Report
	le    *logrus.Entry
	keys  []crypto.PrivKey
	pids  []peer.ID
	pidIx map[string]int
}

type appEvent struct {
	kind string // "send-ok", "send-err", "recv"
	peer int
	data string
	at   int // global order
}

type world struct {
	ctx     context.Context // ends with the scenario
	usurped int
	foreign int // hook events of handlers of earlier scenarios (dropped)
	sever   map[int]int // peer -> number of relayed messages until its stream dies silently (0 = not armed)
	e       *engine
	srv     *signaling_rpc_server.Server
	mtx     sync.Mutex
	log     []string
	calls   map[string]int
	pipes   []*pipe
	app     []appEvent
}

// takeSever reports whether the stream of peer src dies with the relayed message being written now.
func (w *world) takeSever(src int) bool {
	w.mtx.Lock()
	defer w.mtx.Unlock()
	n := w.sever[src]
	if n == 0 {
		return false
	}
	w.sever[src] = n - 1
	return n == 1
}

func (w *world) sink(line string) {
	w.mtx.Lock()
	defer w.mtx.Unlock()
	// The hook sink is process-global: a relay handler of an EARLIER scenario that is still winding
	// down (machine under load) emits its last events into the current world's sink. Every call of
	// this world is registered in w.calls before its handler is started (relayClient.Session), and a
	// still-running older handler keeps its stream object alive (no pointer reuse), so an event for an
	// unregistered call belongs to an earlier world and is not part of this world's trace.
	if !strings.HasPrefix(line, "TX ") {
		if c := hookCall(line); c != "" {
			if _, ok := w.calls[c]; !ok {
				w.foreign++
				return
			}
		}
	}
	w.log = append(w.log, line)
}

// hookCall extracts the `call=` field of a relay hook line ("" if absent).
func hookCall(line string) string {
	for _, f := range strings.Fields(line) {
		if strings.HasPrefix(f, "call=") {
			return f[len("call="):]
		}
	}
	return ""
}

func (w *world) appLog(kind string, p int, data []byte) {
	w.mtx.Lock()
	w.app = append(w.app, appEvent{kind, p, string(data), len(w.app)})
	w.mtx.Unlock()
}

func (w *world) logTx(call int, m *signaling.SessionResponse) {
	switch b := m.GetBody().(type) {
	case *signaling.SessionResponse_Opened:
		w.sink(fmt.Sprintf("TX tx,c=%d,r=opened,v=%d", call, b.Opened))
	case *signaling.SessionResponse_Closed:
		w.sink(fmt.Sprintf("TX tx,c=%d,r=closed", call))
	case *signaling.SessionResponse_AckMsg:
		w.sink(fmt.Sprintf("TX tx,c=%d,r=ack,v=%d", call, b.AckMsg))
	case *signaling.SessionResponse_ClearMsg:
		w.sink(fmt.Sprintf("TX tx,c=%d,r=clear,v=%d", call, b.ClearMsg))
	case *signaling.SessionResponse_RecvMsg:
		id, _ := b.RecvMsg.GetSignedMsg().ParseFromPeerID()
		src := w.e.pidIx[id.String()]
		w.sink(fmt.Sprintf("TX tx,c=%d,r=recv,v=%d,m=%d", call, b.RecvMsg.GetSeqno(), src*100000+int(b.RecvMsg.GetSeqno())))
	}
}

func (w *world) quiesce(d time.Duration) {
	stable, last := 0, -1
	for i := 0; i < 4000 && stable < 3; i++ {
		time.Sleep(d)
		w.mtx.Lock()
		n := len(w.log)
		w.mtx.Unlock()
		if n == last {
			stable++
		} else {
			stable, last = 0, n
		}
	}
}

func (e *engine) scenario(kind string, nMsgs int) {
	wctx, wcancel := context.WithCancel(context.Background())
	defer wcancel()
	w := &world{e: e, calls: map[string]int{}, ctx: wctx, sever: map[int]int{}}
	if kind == "usurp" {
		// B's stream dies silently while the k-th relayed message is in flight to it
		w.sever[2] = 1 + e.rng.Intn(nMsgs)
	}
	w.srv = signaling_rpc_server.NewServerWithIdentify(e.le, func(ctx context.Context) (peer.ID, error) {
		return ctx.Value(ctxKey{}).(peer.ID), nil
	})
	signaling_rpc_server.VerifSetSink(w.sink)
	defer signaling_rpc_server.VerifSetSink(nil)
	bo := &backoff.Backoff{BackoffKind: backoff.BackoffKind_BackoffKind_CONSTANT, Constant: &backoff.Constant{Interval: 1}}
	ctx, cancel := context.WithCancel(context.Background())
	defer cancel()
	mk := func(i int) *signaling_rpc_client.Client {
		c, err := signaling_rpc_client.NewClient(e.le, &relayClient{w: w, src: i}, e.keys[i], bo)
		if err != nil {
			panic(err)
		}
		c.SetContext(ctx)
		return c
	}
	ca, cb := mk(1), mk(2)
	refA := ca.AddPeerRef(e.pids[2].String())
	refB := cb.AddPeerRef(e.pids[1].String())
	var refMtx sync.Mutex
	// B's application: receive forever (re-acquiring the ref when it is replaced)
	recvCtx, recvCancel := context.WithCancel(ctx)
	defer recvCancel()
	go func() {
		for recvCtx.Err() == nil {
			refMtx.Lock()
			r := refB
			refMtx.Unlock()
			rctx, rc := context.WithTimeout(recvCtx, 30*time.Millisecond)
			m, err := r.Recv(rctx)
			rc()
			if err == nil && m != nil {
				w.appLog("recv", 2, m.GetSignedMsg().GetData())
			}
		}
	}()
	// A's application: send nMsgs messages sequentially (each waits for its ack)
	var payloads [][]byte
	var wg sync.WaitGroup
	wg.Add(1)
	stuck := ""
	go func() {
		defer wg.Done()
		for i := 0; i < nMsgs; i++ {
			p := append([]byte{byte(i)}, e.rng.Bytes(5)...)
			w.mtx.Lock()
			payloads = append(payloads, p)
			w.mtx.Unlock()
			sctx, sc := context.WithTimeout(ctx, 4*time.Second)
			_, err := refA.Send(sctx, p)
			sc()
			if err != nil {
				w.appLog("send-err", 1, p)
				stuck = "a pending Send between two stably attached peers did not complete: " + err.Error()
				return
			}
			w.appLog("send-ok", 1, p)
		}
	}()
	var actions []string
	if kind == "reattach" {
		// while A sends, B drops and re-acquires its session a few times, then stays
		for i := 0; i < 3; i++ {
			time.Sleep(time.Duration(200+e.rng.Intn(1500)) * time.Microsecond)
			refMtx.Lock()
			refB.Release()
			refB = cb.AddPeerRef(e.pids[1].String())
			refMtx.Unlock()
			actions = append(actions, "B re-attaches")
		}
	}
	done := make(chan struct{})
	go func() { wg.Wait(); close(done) }()
	select {
	case <-done:
	case <-time.After(10 * time.Second):
		stuck = "sends did not finish within 10 s"
	}
	w.quiesce(2 * time.Millisecond)
	// ---- monitors (model independent) ----
	mon := ""
	key := "sige2e:" + kind
	w.mtx.Lock()
	app := append([]appEvent(nil), w.app...)
	w.mtx.Unlock()
	recvAt := map[string]int{}
	recvCount := map[string]int{}
	for _, a := range app {
		if a.kind == "recv" {
			if _, ok := recvAt[a.data]; !ok {
				recvAt[a.data] = a.at
			}
			recvCount[a.data]++
		}
	}
	known := map[string]bool{}
	for _, p := range payloads {
		known[string(p)] = true
	}
	for _, a := range app {
		switch a.kind {
		case "send-ok":
			at, ok := recvAt[a.data]
			if !ok || at > a.at {
				mon = "Send reported success before the partner's application had received the message"
				key = "sige2e.ack-before-delivery:" + kind
			}
		case "recv":
			if !known[a.data] {
				mon = "the partner's application received a payload that was never sent"
			}
		}
	}
	if stuck != "" && mon == "" {
		mon = stuck
		key = "sige2e.progress:" + kind
	}
	// relay trace validation
	w.mtx.Lock()
	lines := append([]string(nil), w.log...)
	w.mtx.Unlock()
	tr, _, cerr := sigtrace.Canonical(sigtrace.Input{Lines: lines, PidIx: e.pidIx, Calls: w.calls, SubOf: func(call, k int) (sigtrace.Sub, bool) {
		w.mtx.Lock()
		defer w.mtx.Unlock()
		for _, p := range w.pipes {
			if p.id == call {
				p.mtx.Lock()
				defer p.mtx.Unlock()
				if k < len(p.sends) {
					return p.sends[k], true
				}
			}
		}
		return sigtrace.Sub{}, false
	}})
	op := "sig.trace evs=" + tr
	model := "harness-error " + cerr
	if cerr == "" {
		model = e.m.Query(op)
	}
	impl := "ok"
	mshort := model
	if strings.HasPrefix(model, "ok ") {
		mshort = "ok"
	} else {
		impl = "trace-accepted-by-real-system"
	}
	br := "e2e." + kind
	e.rep.Case(fmt.Sprintf("sige2e[%s] msgs=%d %s", kind, nMsgs, strings.Join(actions, "; ")), mshort, impl, br, true)
	if mshort != impl || mon != "" {
		d := lib.Disagreement{Op: lib.Trunc(op), Model: lib.Trunc(model), Impl: impl, Branch: br, Key: key}
		if mon != "" {
			d.Monitor, d.What = "confirmed", mon
		} else {
			d.Monitor, d.What = "unconfirmed", "the composed run is not a run of the relay model: "+lib.Trunc(model)
		}
		e.rep.Disagree(d)
	}
	dups := 0
	for _, c := range recvCount {
		if c > 1 {
			dups++
		}
	}
	w.mtx.Lock()
	e.rep.Extra["usurped_streams"] = e.rep.Extra["usurped_streams"].(int) + w.usurped
	if kind == "usurp" && w.usurped > 0 {
		e.rep.Case("sige2e[usurp] relay replaced a silently dead stream", "ok", "ok", "e2e.usurp.replaced", true)
	}
	w.mtx.Unlock()
	e.rep.Extra["messages"] = e.rep.Extra["messages"].(int) + len(payloads)
	e.rep.Extra["redelivered_after_reattach"] = e.rep.Extra["redelivered_after_reattach"].(int) + dups
	e.rep.Extra["relay_events"] = e.rep.Extra["relay_events"].(int) + strings.Count(tr, ";") + 1
	recvCancel()
	refA.Release()
	refMtx.Lock()
	refB.Release()
	refMtx.Unlock()
	cancel()
	ca.ClearContext()
	cb.ClearContext()
	time.Sleep(2 * time.Millisecond)
	_ = bytes.Equal
}

func (e *engine) run() {
	e.rep.Rule = "two real signaling clients and the real relay composed through in-memory SRPC stream pairs: A sends 3–10 messages sequentially to B (each waits for its ack) while B's application receives; stable, with B dropping/re-acquiring its session mid-flight, and with B's stream dying silently while a relayed message is in flight (B reconnects while the relay still holds the old stream: the usurp path); monitors: Send success only after the partner application received the message, all sends complete; the relay's trace replayed on the Lean LTS; distinct = scenario"
	e.rep.Require("e2e.stable", "e2e.reattach", "e2e.usurp", "e2e.usurp.replaced")
	e.rep.Extra["messages"], e.rep.Extra["redelivered_after_reattach"], e.rep.Extra["relay_events"] = 0, 0, 0
	e.rep.Extra["usurped_streams"] = 0
	for i := 0; i < 4*e.a.Scale; i++ {
		e.scenario("stable", 3+e.rng.Intn(8))
		e.scenario("reattach", 3+e.rng.Intn(8))
		e.scenario("usurp", 3+e.rng.Intn(8))
	}
}

func main() {
	a := lib.ParseArgs()
	lg := logrus.New()
	lg.SetLevel(logrus.PanicLevel)
	lg.SetOutput(io.Discard)
	e := &engine{a: a, rng: lib.NewRng(a.Seed), m: lib.NewModel(a.Driver), le: logrus.NewEntry(lg), pidIx: map[string]int{}}
	e.rep = lib.NewReport("sige2e", a)
	type kp struct {
		k  crypto.PrivKey
		id peer.ID
	}
	var kps []kp
	for i := 0; i < 2; i++ {
		p, err := peer.NewPeer(nil)
		if err != nil {
			panic(err)
		}
		k, _ := p.GetPrivKey(context.Background())
		kps = append(kps, kp{k, p.GetPeerID()})
	}
	sort.Slice(kps, func(i, j int) bool { return kps[i].id.String() < kps[j].id.String() })
	e.keys = []crypto.PrivKey{nil}
	e.pids = []peer.ID{""}
	for i, x := range kps {
		e.keys = append(e.keys, x.k)
		e.pids = append(e.pids, x.id)
		e.pidIx[x.id.String()] = i + 1
	}
	switch a.Prop {
	case "C21", "C23":
		e.run()
	default:
		fmt.Println("unknown property", a.Prop)
		return
	}
	e.m.Close()
	e.rep.Write(a.Out)
}
