// Command sige2e composes the REAL signaling clients of two peers with the REAL relay server
// through in-memory SRPC stream pairs and checks C21 / C23 end to end on what the applications
// observe, while the relay's critical sections are still replayed on the Lean model (so the
// composed run is a run of the proven server LTS). Both peers send and receive. Faults: a peer
// drops and re-acquires its session (re-attach => new epoch) while sends are in flight; the stream
// of either peer dies silently with a relayed message in flight (reconnect while the relay still
// holds the old stream: the usurp path); callers give up on a Send after 1-3 ms.
//
// The receiving applications poll Recv with every kind of caller context (long-lived, already
// cancelled, past its deadline, cancelled a few microseconds after the call, deadlines of a few
// microseconds): only a Recv that RETURNS a message (nil error) hands it to the application, and
// that is what the C21 monitors count. A request of a chosen kind (send / ack / clear) of either
// peer can be held on the wire inside the pipe's Send (the client's main loop is between its
// critical section and the return of the write) while the partner re-attaches or its stream
// fails and re-connects; the write is released once the holder has processed the re-open (client
// hook event), the real relay drops the stale-epoch request, and every served Send must complete.
package main

import (
	"context"
	"fmt"
	"io"
	"sort"
	"strconv"
	"strings"
	"sync"
	"sync/atomic"
	"time"

	"github.com/aperturerobotics/bifrost/peer"
	signaling "github.com/aperturerobotics/bifrost/signaling/rpc"
	signaling_rpc_client "github.com/aperturerobotics/bifrost/signaling/rpc/client"
	signaling_rpc_server "github.com/aperturerobotics/bifrost/signaling/rpc/server"
	"github.com/aperturerobotics/starpc/srpc"
	"github.com/aperturerobotics/util/backoff"
	"github.com/sirupsen/logrus"

	"verif/harness/lib"
	"verif/harness/quiet"
	"verif/harness/sigoracle"
	"verif/harness/sigtrace"
)

type ctxKey struct{}

// pipe is one Session RPC: the client end and the server end of the same stream.
type pipe struct {
	w         *world
	id        int
	src       int
	ctx       context.Context // client side
	cancel    context.CancelFunc
	sctx      context.Context // server side: outlives the client side when the stream dies silently
	scancel   context.CancelFunc
	severed   chan struct{} // closed when the stream died silently (the relay has not noticed)
	severOnce sync.Once
	c2s       chan *signaling.SessionRequest
	s2c       chan *signaling.SessionResponse
	mtx       sync.Mutex
	sends     []sigtrace.Sub
	// late-exit scenarios: once armed, the relay's next write on this stream blocks (the connection
	// is dead but the relay has not noticed): the handler is parked inside strm.Send (stalled is
	// closed) until the connection is finally torn down (unstall is closed); the write then fails
	stallArm    atomic.Bool
	stalled     chan struct{}
	unstall     chan struct{}
	stallOnce   sync.Once
	unstallOnce sync.Once
}

// tearDown: the relay finally notices that the (stalled) connection is gone.
func (p *pipe) tearDown() { p.unstallOnce.Do(func() { close(p.unstall) }) }

// sever: the stream dies silently; the client sees an error, the relay does not notice.
func (p *pipe) sever() { p.severOnce.Do(func() { close(p.severed) }) }

// clientEnd implements signaling.SRPCSignaling_SessionClient.
type clientEnd struct{ p *pipe }

func (c *clientEnd) Context() context.Context { return c.p.ctx }
func (c *clientEnd) Send(m *signaling.SessionRequest) error {
	if b, ok := m.GetBody().(*signaling.SessionRequest_SendMsg); ok {
		// the harness's own (stdlib) verdict about what the client put on the wire
		v, claimed := sigoracle.Verdict(c.p.w.e.keys, b.SendMsg)
		c.p.mtx.Lock()
		c.p.sends = append(c.p.sends, sigtrace.Sub{Mid: c.p.src*100000 + int(b.SendMsg.GetSeqno()), Epoch: m.GetSessionSeqno(), Seqno: b.SendMsg.GetSeqno(), V: v, Signer: claimed})
		c.p.mtx.Unlock()
	}
	select {
	case <-c.p.severed:
		return io.ErrUnexpectedEOF
	default:
	}
	// a held write: the request is on the wire, the write has not returned (back-pressure); the
	// relay receives it when the gate opens
	if g := c.p.w.takeGate(c.p.src, m); g != nil {
		close(g.held)
		select {
		case <-g.release:
		case <-c.p.severed:
			return io.ErrUnexpectedEOF
		case <-c.p.ctx.Done():
			return context.Canceled
		}
	}
	c.p.w.noteReq(c.p, m)
	select {
	case c.p.c2s <- m:
		return nil
	case <-c.p.severed:
		return io.ErrUnexpectedEOF
	case <-c.p.ctx.Done():
		return context.Canceled
	}
}

// reqRec is one AckMsg / ClearMsg request a client put on the wire; `at` is the length of the
// relay's event log at that moment (whatever the relay does because of it is logged later).
type reqRec struct {
	src  int
	kind string
	k    uint64
	at   int
}

func (w *world) noteReq(p *pipe, m *signaling.SessionRequest) {
	var kind string
	var k uint64
	switch b := m.GetBody().(type) {
	case *signaling.SessionRequest_AckMsg:
		kind, k = "ack", b.AckMsg
	case *signaling.SessionRequest_ClearMsg:
		kind, k = "clear", b.ClearMsg
	default:
		return
	}
	w.mtx.Lock()
	w.reqs = append(w.reqs, reqRec{src: p.src, kind: kind, k: k, at: len(w.log)})
	w.mtx.Unlock()
}

// wgate holds the next request of one kind that peer src writes to the relay.
type wgate struct {
	src     int
	kind    string // send | ack | clear
	held    chan struct{}
	release chan struct{}
	relOnce sync.Once
	req     *signaling.SessionRequest
}

func (g *wgate) open() { g.relOnce.Do(func() { close(g.release) }) }

func (g *wgate) waitHeld(d time.Duration) bool {
	select {
	case <-g.held:
		return true
	case <-time.After(d):
		return false
	}
}

func reqKind(m *signaling.SessionRequest) string {
	switch m.GetBody().(type) {
	case *signaling.SessionRequest_SendMsg:
		return "send"
	case *signaling.SessionRequest_AckMsg:
		return "ack"
	case *signaling.SessionRequest_ClearMsg:
		return "clear"
	}
	return "other"
}

func (w *world) armGate(src int, kind string) *wgate {
	g := &wgate{src: src, kind: kind, held: make(chan struct{}), release: make(chan struct{})}
	w.mtx.Lock()
	w.gates = append(w.gates, g)
	w.mtx.Unlock()
	return g
}

func (w *world) takeGate(src int, m *signaling.SessionRequest) *wgate {
	kind := reqKind(m)
	w.mtx.Lock()
	defer w.mtx.Unlock()
	for i, g := range w.gates {
		if g.src == src && g.kind == kind {
			w.gates = append(w.gates[:i:i], w.gates[i+1:]...)
			g.req = m
			return g
		}
	}
	return nil
}

// disarm removes a gate nobody reached and opens it in any case.
func (w *world) disarm(g *wgate) {
	w.mtx.Lock()
	for i, x := range w.gates {
		if x == g {
			w.gates = append(w.gates[:i:i], w.gates[i+1:]...)
			break
		}
	}
	w.mtx.Unlock()
	g.open()
}

// armSGate holds the next response of one kind (recv / ack / other, or, finer, opened / closed /
// clear) the relay writes to peer src.
func (w *world) armSGate(src int, kind string) *wgate {
	g := &wgate{src: src, kind: kind, held: make(chan struct{}), release: make(chan struct{})}
	w.mtx.Lock()
	w.sgates = append(w.sgates, g)
	w.mtx.Unlock()
	return g
}

func (w *world) takeSGate(src int, kind, fine string) *wgate {
	w.mtx.Lock()
	defer w.mtx.Unlock()
	for i, g := range w.sgates {
		if g.src == src && (g.kind == kind || g.kind == fine) {
			w.sgates = append(w.sgates[:i:i], w.sgates[i+1:]...)
			return g
		}
	}
	return nil
}

// curPipe is the latest Session RPC of peer src.
func (w *world) curPipe(src int) *pipe {
	w.mtx.Lock()
	defer w.mtx.Unlock()
	var cur *pipe
	for _, p := range w.pipes {
		if p.src == src {
			cur = p
		}
	}
	return cur
}

// lastOpened is the epoch of the last Opened the trackers of peer src have processed.
func (w *world) lastOpened(src int) uint64 {
	w.mtx.Lock()
	defer w.mtx.Unlock()
	var ep uint64
	for _, l := range w.clog {
		if strings.HasPrefix(l, "ev=opened ") && w.tkrOf[lineKV(l, "tkr")] == src {
			ep, _ = strconv.ParseUint(lineKV(l, "a"), 10, 64)
		}
	}
	return ep
}

// rmark is the current length of the relay's event log.
func (w *world) rmark() int {
	w.mtx.Lock()
	defer w.mtx.Unlock()
	return len(w.log)
}

// waitRHook waits for a relay hook line of Session RPC `call` logged at or after `from`.
func (w *world) waitRHook(from, call int, d time.Duration, ev string) bool {
	deadline := time.Now().Add(d)
	for {
		w.mtx.Lock()
		for i := from; i < len(w.log); i++ {
			if strings.HasPrefix(w.log[i], "ev="+ev+" ") && w.calls[lineKV(w.log[i], "call")] == call {
				w.mtx.Unlock()
				return true
			}
		}
		from = len(w.log)
		w.mtx.Unlock()
		if time.Now().After(deadline) {
			return false
		}
		time.Sleep(50 * time.Microsecond)
	}
}

// waitRLine waits for a relay hook line logged at or after `from` that satisfies pred.
func (w *world) waitRLine(from int, d time.Duration, pred func(line string) bool) bool {
	deadline := time.Now().Add(d)
	for {
		w.mtx.Lock()
		for i := from; i < len(w.log); i++ {
			if pred(w.log[i]) {
				w.mtx.Unlock()
				return true
			}
		}
		from = len(w.log)
		w.mtx.Unlock()
		if time.Now().After(deadline) {
			return false
		}
		time.Sleep(50 * time.Microsecond)
	}
}

// failPipe breaks the current stream of peer src (both ends notice): its tracker re-connects.
func (w *world) failPipe(src int) {
	w.mtx.Lock()
	var cur *pipe
	for _, p := range w.pipes {
		if p.src == src {
			cur = p
		}
	}
	w.mtx.Unlock()
	if cur != nil {
		cur.cancel()
	}
}

// cmark is the current length of the client hook log.
func (w *world) cmark() int {
	w.mtx.Lock()
	defer w.mtx.Unlock()
	return len(w.clog)
}

// waitCHook waits for a client hook line logged at or after `from` by a tracker of peer `src`.
func (w *world) waitCHook(from, src int, d time.Duration, pred func(line string) bool) bool {
	deadline := time.Now().Add(d)
	for {
		w.mtx.Lock()
		for i := from; i < len(w.clog); i++ {
			if w.tkrOf[lineKV(w.clog[i], "tkr")] == src && pred(w.clog[i]) {
				w.mtx.Unlock()
				return true
			}
		}
		from = len(w.clog)
		w.mtx.Unlock()
		if time.Now().After(deadline) {
			return false
		}
		time.Sleep(50 * time.Microsecond)
	}
}
func (c *clientEnd) Recv() (*signaling.SessionResponse, error) {
	select {
	case <-c.p.severed:
		return nil, io.ErrUnexpectedEOF
	default:
	}
	select {
	case m := <-c.p.s2c:
		return m, nil
	case <-c.p.severed:
		return nil, io.ErrUnexpectedEOF
	case <-c.p.ctx.Done():
		return nil, context.Canceled
	}
}
func (c *clientEnd) RecvTo(m *signaling.SessionResponse) error {
	x, err := c.Recv()
	if err != nil {
		return err
	}
	*m = *x //nolint
	return nil
}
func (c *clientEnd) MsgSend(srpc.Message) error { return nil }
func (c *clientEnd) MsgRecv(srpc.Message) error { return io.EOF }
func (c *clientEnd) CloseSend() error           { return nil }
func (c *clientEnd) Close() error               { c.p.cancel(); return nil }

// serverEnd implements signaling.SRPCSignaling_SessionStream.
type serverEnd struct{ p *pipe }

func (s *serverEnd) Context() context.Context { return s.p.sctx }
func (s *serverEnd) Send(m *signaling.SessionResponse) error {
	if s.p.stallArm.Load() {
		// the write blocks on a dead connection and fails when the connection is torn down;
		// nothing of it is ever transmitted
		s.p.stallOnce.Do(func() { close(s.p.stalled) })
		select {
		case <-s.p.unstall:
		case <-s.p.sctx.Done():
		}
		return io.ErrClosedPipe
	}
	// a held response: the relay's handler is parked inside strm.Send (between two critical
	// sections) until the gate opens; the response is transmitted then
	if g := s.p.w.takeSGate(s.p.src, respKind(m), respFine(m)); g != nil {
		close(g.held)
		select {
		case <-g.release:
		case <-s.p.sctx.Done():
			return context.Canceled
		}
	}
	s.p.w.logTx(s.p.id, m)
	if s.p.w.severKind(s.p.src) == respKind(m) && s.p.w.takeSever(s.p.src) {
		// the stream dies silently with this message in flight: the client sees an error, the
		// relay keeps believing the stream is alive (its writes are buffered by the transport)
		s.p.severOnce.Do(func() { close(s.p.severed) })
	}
	select {
	case <-s.p.severed:
		return nil
	default:
	}
	select {
	case s.p.s2c <- m:
		return nil
	case <-s.p.severed:
		return nil
	case <-s.p.sctx.Done():
		return context.Canceled
	}
}
func (s *serverEnd) SendAndClose(m *signaling.SessionResponse) error { return s.Send(m) }
func (s *serverEnd) Recv() (*signaling.SessionRequest, error) {
	select {
	case <-s.p.severed:
		<-s.p.sctx.Done()
		return nil, context.Canceled
	default:
	}
	select {
	case m := <-s.p.c2s:
		return m, nil
	case <-s.p.severed:
		<-s.p.sctx.Done()
		return nil, context.Canceled
	case <-s.p.sctx.Done():
		return nil, context.Canceled
	}
}
func (s *serverEnd) RecvTo(m *signaling.SessionRequest) error {
	x, err := s.Recv()
	if err != nil {
		return err
	}
	*m = *x //nolint
	return nil
}
func (s *serverEnd) MsgSend(srpc.Message) error { return nil }
func (s *serverEnd) MsgRecv(srpc.Message) error { return io.EOF }
func (s *serverEnd) CloseSend() error           { return nil }
func (s *serverEnd) Close() error               { return nil }

// relayClient is the SRPCSignalingClient of one peer: every Session() starts the server handler.
type relayClient struct {
	w   *world
	src int
}

func (r *relayClient) SRPCClient() srpc.Client { return nil }
func (r *relayClient) Listen(ctx context.Context, in *signaling.ListenRequest) (signaling.SRPCSignaling_ListenClient, error) {
	return nil, io.EOF
}
func (r *relayClient) Session(ctx context.Context) (signaling.SRPCSignaling_SessionClient, error) {
	r.w.mtx.Lock()
	if r.w.failOpen[r.src] > 0 {
		r.w.failOpen[r.src]--
		r.w.openFailed++
		r.w.mtx.Unlock()
		return nil, io.ErrUnexpectedEOF
	}
	r.w.mtx.Unlock()
	pctx, cancel := context.WithCancel(ctx)
	sctx, scancel := context.WithCancel(context.WithValue(r.w.ctx, ctxKey{}, r.w.e.pids[r.src]))
	p := &pipe{w: r.w, src: r.src, ctx: pctx, cancel: cancel, sctx: sctx, scancel: scancel, severed: make(chan struct{}), stalled: make(chan struct{}), unstall: make(chan struct{}), c2s: make(chan *signaling.SessionRequest, 16), s2c: make(chan *signaling.SessionResponse, 16)}
	se := &serverEnd{p: p}
	// the call is registered before its handler can log anything
	r.w.mtx.Lock()
	r.w.pipes = append(r.w.pipes, p)
	p.id = len(r.w.pipes)
	r.w.calls[fmt.Sprintf("%p", se)] = p.id
	r.w.ends = append(r.w.ends, se)
	r.w.active += 2
	r.w.mtx.Unlock()
	doneOne := func() {
		r.w.mtx.Lock()
		r.w.active--
		r.w.mtx.Unlock()
	}
	go func() {
		defer doneOne()
		// the relay notices a client-side close unless the stream died silently
		select {
		case <-pctx.Done():
			select {
			case <-p.severed:
			default:
				scancel()
			}
		case <-sctx.Done():
		}
	}()
	go func() {
		defer doneOne()
		if err := r.w.srv.Session(se); err == signaling.ErrUserpedSession {
			r.w.mtx.Lock()
			r.w.usurped++
			r.w.mtx.Unlock()
		}
		scancel()
		cancel()
	}()
	return &clientEnd{p: p}, nil
}

type engine struct {
	a            *lib.Args
	rng          *lib.Rng
	m            *lib.Model
	rep          *lib.Report
	le           *logrus.Entry
	keys         []*sigoracle.Key
	pids         []peer.ID
	pidIx        map[string]int
	keep         []any // server stream ends of finished scenarios: their addresses are never reused
	usurps       int
	forcedCancel bool
	variant      string // which write is held and what disturbs the session (scenario reopen-during-write)
}

type appEvent struct {
	kind  string // "send-ok", "send-err", "send-cancelled", "recv"
	peer  int
	data  string
	seqno uint64
	tkr   string
}

type world struct {
	ctx        context.Context // ends with the scenario
	usurped    int
	sever      map[int]int // peer -> number of relayed messages until its stream dies silently (0 = not armed)
	e          *engine
	srv        *signaling_rpc_server.Server
	mtx        sync.Mutex
	log        []string // relay hook lines + TX lines
	clog       []string // client hook lines of both clients, in the order of their critical sections
	tkrOf      map[string]int
	calls      map[string]int
	pipes      []*pipe
	ends       []*serverEnd
	app        []appEvent
	active     int // goroutines started on behalf of Session RPCs that have not ended yet
	gates      []*wgate
	sgates     []*wgate // held relay responses (late-exit scenarios)
	reqs       []reqRec
	severOn    map[int]string // which relayed response kills the stream: "recv" (default) or "ack"
	failOpen   map[int]int    // peer -> number of Session RPC opens that still fail
	openFailed int
}

func respKind(m *signaling.SessionResponse) string {
	switch m.GetBody().(type) {
	case *signaling.SessionResponse_RecvMsg:
		return "recv"
	case *signaling.SessionResponse_AckMsg:
		return "ack"
	}
	return "other"
}

// respFine names the kinds respKind lumps together as "other".
func respFine(m *signaling.SessionResponse) string {
	switch m.GetBody().(type) {
	case *signaling.SessionResponse_Opened:
		return "opened"
	case *signaling.SessionResponse_Closed:
		return "closed"
	case *signaling.SessionResponse_ClearMsg:
		return "clear"
	}
	return respKind(m)
}

func (w *world) severKind(src int) string {
	w.mtx.Lock()
	defer w.mtx.Unlock()
	if k := w.severOn[src]; k != "" {
		return k
	}
	return "recv"
}

// takeSever reports whether the stream of peer src dies with the relayed message being written now.
func (w *world) takeSever(src int) bool {
	w.mtx.Lock()
	defer w.mtx.Unlock()
	n := w.sever[src]
	if n == 0 {
		return false
	}
	w.sever[src] = n - 1
	return n == 1
}

func lineKV(line, k string) string {
	i := strings.Index(line, " "+k+"=")
	if i < 0 {
		return ""
	}
	rest := line[i+len(k)+2:]
	if j := strings.IndexByte(rest, ' '); j >= 0 {
		rest = rest[:j]
	}
	return rest
}

// sink receives the relay's hook lines; lines of calls this scenario did not start (a handler
// of an earlier scenario finishing late) are not part of its trace.
func (w *world) sink(line string) {
	w.mtx.Lock()
	defer w.mtx.Unlock()
	if strings.HasPrefix(line, "ev=") {
		if _, ok := w.calls[lineKV(line, "call")]; !ok {
			return
		}
	}
	w.log = append(w.log, line)
}

// csink receives the clients' hook lines (one per tracker critical section, logged inside it).
func (w *world) csink(line string) {
	w.mtx.Lock()
	w.clog = append(w.clog, line)
	w.mtx.Unlock()
}

func (w *world) appLog(ev appEvent) {
	w.mtx.Lock()
	w.app = append(w.app, ev)
	w.mtx.Unlock()
}

func (w *world) logTx(call int, m *signaling.SessionResponse) {
	switch b := m.GetBody().(type) {
	case *signaling.SessionResponse_Opened:
		w.sink(fmt.Sprintf("TX tx,c=%d,r=opened,v=%d", call, b.Opened))
	case *signaling.SessionResponse_Closed:
		w.sink(fmt.Sprintf("TX tx,c=%d,r=closed", call))
	case *signaling.SessionResponse_AckMsg:
		w.sink(fmt.Sprintf("TX tx,c=%d,r=ack,v=%d", call, b.AckMsg))
	case *signaling.SessionResponse_ClearMsg:
		w.sink(fmt.Sprintf("TX tx,c=%d,r=clear,v=%d", call, b.ClearMsg))
	case *signaling.SessionResponse_RecvMsg:
		src := w.e.pidIx[sigoracle.From(b.RecvMsg)]
		w.sink(fmt.Sprintf("TX tx,c=%d,r=recv,v=%d,m=%d", call, b.RecvMsg.GetSeqno(), src*100000+int(b.RecvMsg.GetSeqno())))
	}
}

// quiesce: both logs stable and no goroutine of the process runnable (package quiet).
func (w *world) quiesce(d time.Duration) {
	quiet.Settle(func() int {
		w.mtx.Lock()
		defer w.mtx.Unlock()
		return len(w.log) + len(w.clog) + len(w.app)
	}, d, 3, 20*time.Second)
}

// side is one peer's application.
type side struct {
	ix   int
	cl   *signaling_rpc_client.Client
	mtx  sync.Mutex
	ref  *signaling_rpc_client.ClientPeerRef
	peer string // remote peer id string
}

func (s *side) cur() *signaling_rpc_client.ClientPeerRef {
	s.mtx.Lock()
	defer s.mtx.Unlock()
	return s.ref
}

func (e *engine) scenario(kind string, nMsgs int) {
	wctx, wcancel := context.WithCancel(context.Background())
	defer wcancel()
	w := &world{e: e, calls: map[string]int{}, ctx: wctx, sever: map[int]int{}, tkrOf: map[string]int{}, severOn: map[int]string{}, failOpen: map[int]int{}}
	if kind == "stable" && e.rng.Intn(2) == 0 {
		// C23 "client stream failure and retry", failure to OPEN: the first Session RPCs of the peers cannot be opened
		w.failOpen[1], w.failOpen[2] = e.rng.Intn(3), 1+e.rng.Intn(3)
	}
	nA, nB := nMsgs, 1+e.rng.Intn(nMsgs)
	if kind == "usurp" {
		// the stream of one peer dies silently while the k-th message relayed to it is in flight
		// (the first such scenario of a run: B's stream, with the first message)
		e.usurps++
		if e.usurps == 1 {
			w.sever[2] = 1
		} else if e.rng.Intn(2) == 0 {
			w.sever[2] = 1 + e.rng.Intn((nA+1)/2)
		} else {
			w.sever[1] = 1 + e.rng.Intn((nB+1)/2)
		}
		if e.usurps%2 == 0 {
			// the stream dies with an ACKNOWLEDGEMENT in flight to the sender instead
			for p := range w.sever {
				w.severOn[p] = "ack"
			}
		}
	}
	w.srv = signaling_rpc_server.NewServerWithIdentify(e.le, func(ctx context.Context) (peer.ID, error) {
		return ctx.Value(ctxKey{}).(peer.ID), nil
	})
	signaling_rpc_server.VerifSetSink(w.sink)
	defer signaling_rpc_server.VerifSetSink(nil)
	signaling_rpc_client.VerifSetSink(w.csink)
	defer signaling_rpc_client.VerifSetSink(nil)
	bo := &backoff.Backoff{BackoffKind: backoff.BackoffKind_BackoffKind_CONSTANT, Constant: &backoff.Constant{Interval: 1}}
	ctx, cancel := context.WithCancel(context.Background())
	defer cancel()
	mk := func(i int) *side {
		c, err := signaling_rpc_client.NewClient(e.le, &relayClient{w: w, src: i}, e.keys[i].SK, bo)
		if err != nil {
			panic(err)
		}
		s := &side{ix: i, cl: c, peer: e.pids[3-i].String()}
		s.ref = c.AddPeerRef(s.peer)
		w.mtx.Lock()
		w.tkrOf[s.ref.VerifTrackerID()] = i
		w.mtx.Unlock()
		c.SetContext(ctx)
		return s
	}
	sides := []*side{nil, mk(1), mk(2)}
	// both applications receive forever (re-acquiring the ref when it is replaced). The callers'
	// contexts are of every kind: long-lived (30 ms), already cancelled, past their deadline, a
	// deadline a few microseconds away, cancelled by a timer a few microseconds after the call. In
	// scenario recv-cancelled peer 2 polls ONLY with contexts that are already done. Only a call
	// that returns a message with a nil error hands it to the application (appEvent "recv").
	// While a verdict is taken the applications wait with long-lived contexts only (settling).
	recvCtx, recvCancel := context.WithCancel(ctx)
	defer recvCancel()
	var settling atomic.Bool
	var paused, parked [3]atomic.Bool // the application of peer i does not call Recv for the moment / has noticed
	var recvCalls, recvCanceled atomic.Int64
	var apps sync.WaitGroup
	for _, s := range sides[1:] {
		s := s
		prng := lib.NewRng(e.rng.Int63())
		doneOnly := kind == "recv-cancelled" && s.ix == 2
		apps.Add(1)
		go func() {
			defer apps.Done()
			for recvCtx.Err() == nil {
				if paused[s.ix].Load() {
					parked[s.ix].Store(true)
					time.Sleep(100 * time.Microsecond)
					continue
				}
				parked[s.ix].Store(false)
				r := s.cur()
				mode := 9
				if !settling.Load() {
					mode = prng.Intn(10)
					if doneOnly {
						mode = prng.Intn(2)
					}
				}
				var rctx context.Context
				var rc context.CancelFunc
				switch mode {
				case 0: // already cancelled
					rctx, rc = context.WithCancel(recvCtx)
					rc()
				case 1: // deadline in the past
					rctx, rc = context.WithDeadline(recvCtx, time.Now().Add(-time.Second))
				case 2: // a few microseconds
					rctx, rc = context.WithTimeout(recvCtx, time.Duration(1+prng.Intn(200))*time.Microsecond)
				case 3: // cancelled concurrently
					c, cc := context.WithCancel(recvCtx)
					t := time.AfterFunc(time.Duration(prng.Intn(200))*time.Microsecond, cc)
					rctx, rc = c, func() { t.Stop(); cc() }
				default:
					rctx, rc = context.WithTimeout(recvCtx, 30*time.Millisecond)
				}
				m, err := r.Recv(rctx)
				rc()
				recvCalls.Add(1)
				if err == nil && m != nil {
					w.appLog(appEvent{kind: "recv", peer: s.ix, data: string(m.GetSignedMsg().GetData()), seqno: m.GetSeqno(), tkr: r.VerifTrackerID()})
				} else {
					recvCanceled.Add(1)
					if mode <= 1 {
						// a polling application does not spin
						time.Sleep(time.Duration(20+prng.Intn(130)) * time.Microsecond)
					}
				}
			}
		}()
	}
	// the applications send their messages sequentially (each waits for its ack); now and then a
	// caller gives up after 1-3 ms, and the next Send must still complete
	known := map[string]bool{}
	var stuckMtx sync.Mutex
	stuck := ""
	var senders sync.WaitGroup
	startSender := func(s *side, n int, cancels bool) {
		// all random choices are drawn here, in the scenario's own goroutine
		type plan struct {
			payload []byte
			short   time.Duration
			forced  bool // the caller has already given up when it calls Send: repeated until a Send does fail
		}
		var plans []plan
		for i := 0; i < n; i++ {
			p := plan{payload: append([]byte{byte(s.ix), byte(i)}, e.rng.Bytes(5)...)}
			if cancels && i > 0 && e.rng.Intn(4) == 0 {
				p.short = time.Duration(1+e.rng.Intn(3)) * time.Millisecond
			}
			plans = append(plans, p)
			if cancels && i == 0 && !e.forcedCancel {
				// once per run: a Send whose caller is gone from the start (retried with fresh
				// payloads in the unlikely case that the ack wins the race)
				e.forcedCancel = true
				for k := 0; k < 40; k++ {
					plans = append(plans, plan{payload: append([]byte{byte(s.ix), 200, byte(k)}, e.rng.Bytes(4)...), short: time.Nanosecond, forced: true})
				}
			}
		}
		for _, p := range plans {
			w.mtx.Lock()
			known[string(p.payload)] = true
			w.mtx.Unlock()
		}
		senders.Add(1)
		go func() {
			defer senders.Done()
			forcedDone := false
			for _, p := range plans {
				if p.forced && forcedDone {
					continue
				}
				r := s.cur()
				d := 8 * time.Second
				if p.short != 0 {
					d = p.short
				}
				sctx, sc := context.WithTimeout(ctx, d)
				m, err := r.Send(sctx, p.payload)
				sc()
				switch {
				case err == nil:
					w.appLog(appEvent{kind: "send-ok", peer: s.ix, data: string(p.payload), seqno: m.GetSeqno(), tkr: r.VerifTrackerID()})
				case p.short != 0:
					forcedDone = forcedDone || p.forced
					w.appLog(appEvent{kind: "send-cancelled", peer: s.ix, data: string(p.payload)})
				default:
					w.appLog(appEvent{kind: "send-err", peer: s.ix, data: string(p.payload)})
					stuckMtx.Lock()
					stuck = fmt.Sprintf("a pending Send of peer %d between two stably attached peers did not complete: %v", s.ix, err)
					stuckMtx.Unlock()
					return
				}
			}
		}()
	}
	var actions []string
	total := nA
	harnessErr := ""
	// sendNow: one Send of peer s from the scenario's own schedule; must: the session is (or becomes)
	// stable, so it has to complete
	sendCtx := func(s *side, payload []byte, sctx context.Context, must bool) error {
		w.mtx.Lock()
		known[string(payload)] = true
		w.mtx.Unlock()
		r := s.cur()
		m, err := r.Send(sctx, payload)
		switch {
		case err == nil:
			w.appLog(appEvent{kind: "send-ok", peer: s.ix, data: string(payload), seqno: m.GetSeqno(), tkr: r.VerifTrackerID()})
		case !must:
			w.appLog(appEvent{kind: "send-cancelled", peer: s.ix, data: string(payload)})
		default:
			w.appLog(appEvent{kind: "send-err", peer: s.ix, data: string(payload)})
			stuckMtx.Lock()
			if stuck == "" {
				stuck = fmt.Sprintf("a pending Send of peer %d between two stably attached peers did not complete: %v", s.ix, err)
			}
			stuckMtx.Unlock()
		}
		return err
	}
	sendNow := func(s *side, payload []byte, d time.Duration, must bool) error {
		sctx, sc := context.WithTimeout(ctx, d)
		defer sc()
		return sendCtx(s, payload, sctx, must)
	}
	const gateWait = 15 * time.Second
	reattach := func(b *side) {
		b.mtx.Lock()
		b.ref.Release()
		b.ref = b.cl.AddPeerRef(b.peer)
		w.mtx.Lock()
		w.tkrOf[b.ref.VerifTrackerID()] = b.ix
		w.mtx.Unlock()
		b.mtx.Unlock()
	}
	// restart: the peer's process is restarted: its client (and every tracker) is gone, a NEW client
	// for the same peer id attaches
	restart := func(b *side) {
		b.mtx.Lock()
		b.ref.Release()
		b.cl.ClearContext()
		c, err := signaling_rpc_client.NewClient(e.le, &relayClient{w: w, src: b.ix}, e.keys[b.ix].SK, bo)
		if err != nil {
			panic(err)
		}
		b.cl = c
		b.ref = c.AddPeerRef(b.peer)
		w.mtx.Lock()
		w.tkrOf[b.ref.VerifTrackerID()] = b.ix
		w.mtx.Unlock()
		c.SetContext(ctx)
		b.mtx.Unlock()
	}
	if kind == "reopen-during-write" {
		// C23: a request of peer `holder` is held on the wire inside the pipe's Send while the session
		// is re-opened (the partner re-attaches, or the partner's stream fails and re-connects); it
		// is released once the holder's tracker has processed the re-open; the relay drops it (stale
		// epoch); the pending Send and all later ones must complete.
		total = 0
		parts := strings.SplitN(e.variant, "|", 2)
		hk, how := parts[0], parts[1]
		holder, partner := sides[1], sides[2]
		if hk == "ack" {
			holder, partner = sides[2], sides[1]
		}
		pay := func(tag byte) []byte { return append([]byte{9, tag}, e.rng.Bytes(5)...) }
		p0, p1, p2, p3 := pay(0), pay(1), pay(2), pay(3)
		total++
		if err := sendNow(sides[1], p0, 8*time.Second, true); err == nil {
			actions = append(actions, "warm-up exchange A->B (both attached, session open)")
			g := w.armGate(holder.ix, hk)
			var g2 *wgate
			pending := make(chan error, 1)
			switch hk {
			case "send", "ack":
				// A's Send: its SendMsg write is held (send), or B's ack for it is held (ack)
				total++
				go func() { pending <- sendNow(sides[1], p1, 8*time.Second, true) }()
			case "clear":
				// A's Send is transmitted and delivered, B's ack for it is held (so A's message is in
				// flight, unacknowledged), then A's caller gives up: the ClearMsg write of A is held
				g2 = w.armGate(2, "ack")
				total++
				sctx, sc := context.WithTimeout(ctx, 8*time.Second)
				defer sc()
				go func() { pending <- sendCtx(sides[1], p1, sctx, false) }()
				if g2.waitHeld(gateWait) {
					sc()
				}
			}
			if !g.waitHeld(gateWait) {
				w.disarm(g)
				harnessErr = fmt.Sprintf("the %s write of peer %d was never started", hk, holder.ix)
			} else {
				ep0 := g.req.GetSessionSeqno()
				from := w.cmark()
				switch how {
				case "reattach":
					reattach(partner)
				case "stream-failure":
					w.failPipe(partner.ix)
				}
				reopened := w.waitCHook(from, holder.ix, gateWait, func(l string) bool {
					if !strings.HasPrefix(l, "ev=opened ") {
						return false
					}
					ep, _ := strconv.ParseUint(lineKV(l, "a"), 10, 64)
					return ep > ep0
				})
				if !reopened {
					harnessErr = fmt.Sprintf("peer %d was not told about the re-opened session", holder.ix)
				}
				settling.Store(true)
				w.quiesce(time.Millisecond)
				settling.Store(false)
				g.open()
				actions = append(actions, fmt.Sprintf("peer %d's %s write (epoch %d) is held on the wire; peer %d: %s; peer %d processed the re-open; the write is released (stale epoch: the relay drops it)", holder.ix, hk, ep0, partner.ix, how, holder.ix))
			}
			if g2 != nil {
				w.disarm(g2)
			}
			<-pending
			total += 2
			sendNow(sides[1], p2, 8*time.Second, true)
			sendNow(sides[2], p3, 8*time.Second, true)
			actions = append(actions, "then A and B send one message each")
		}
	} else if kind == "late-exit" {
		// C23, client stream failure and retry where the relay notices the loss of the old connection
		// LATE: the relay's handler of peer x is blocked writing on x's dead connection, x's client
		// sees the stream fail and re-attaches on a new stream (epoch+1), and the superseded handler
		// ends only when an exchange of the NEW epoch is in flight (point: message stored at the relay
		// and not yet forwarded; forwarded and not yet acknowledged, in both directions; acknowledgement
		// stored and not yet delivered). Nobody reconnects afterwards, so every send must complete.
		total = 0
		parts := strings.SplitN(e.variant, "|", 2)
		point := parts[0]
		xi, _ := strconv.Atoi(parts[1])
		x, y := sides[xi], sides[3-xi]
		pay := func(tag byte) []byte { return append([]byte{7, tag}, e.rng.Bytes(5)...) }
		p0, p1, p2, p3, p4 := pay(0), pay(1), pay(2), pay(3), pay(4)
		waitClosed := func(ch chan struct{}) bool {
			select {
			case <-ch:
				return true
			case <-time.After(gateWait):
				return false
			}
		}
		async := func(s *side, payload []byte) chan error {
			total++
			ch := make(chan error, 1)
			// (these sends are deliberately kept pending across two quiescence waits and the exit of
			// the superseded handler: on a loaded machine that alone can take seconds)
			go func() { ch <- sendNow(s, payload, 25*time.Second, true) }()
			return ch
		}
		pauseApp := func(i int) {
			paused[i].Store(true)
			for t0 := time.Now(); !parked[i].Load() && time.Since(t0) < 5*time.Second; {
				time.Sleep(100 * time.Microsecond)
			}
		}
		total += 2
		if sendNow(y, p0, 8*time.Second, true) == nil && sendNow(x, p1, 8*time.Second, true) == nil {
			old := w.curPipe(x.ix)
			ep0 := w.lastOpened(x.ix)
			from := w.cmark()
			old.stallArm.Store(true)
			// y sends to x: the relay starts to forward on the dead connection
			r1 := async(y, p2)
			if !waitClosed(old.stalled) {
				harnessErr = fmt.Sprintf("the relay never wrote to peer %d's stalled stream", x.ix)
				old.tearDown()
				<-r1
			} else {
				old.sever() // x's client sees the stream fail and retries; the relay still holds the old one
				newer := func(l string) bool {
					if !strings.HasPrefix(l, "ev=opened ") {
						return false
					}
					ep, _ := strconv.ParseUint(lineKV(l, "a"), 10, 64)
					return ep > ep0
				}
				if !w.waitCHook(from, x.ix, gateWait, newer) || !w.waitCHook(from, y.ix, gateWait, newer) {
					harnessErr = "the peers were not told about the re-opened session"
				}
				<-r1 // the send that was in flight across the re-open
				var held *wgate
				var rs []chan error
				reached := true
				switch point {
				case "unacked":
					// both directions: forwarded to the partner's client, whose application is not receiving
					pauseApp(1)
					pauseApp(2)
					from = w.cmark()
					rs = append(rs, async(x, p3), async(y, p4))
					got := func(l string) bool { return strings.HasPrefix(l, "ev=recvmsg ") }
					reached = w.waitCHook(from, y.ix, gateWait, got) && w.waitCHook(from, x.ix, gateWait, got)
				case "stored":
					// y's handler is parked writing an acknowledgement to y; x's message for y is stored
					// at the relay and not yet forwarded
					held = w.armSGate(y.ix, "ack")
					rs = append(rs, async(y, p3))
					reached = waitClosed(held.held)
					rm := w.rmark()
					rs = append(rs, async(x, p4))
					reached = reached && w.waitRHook(rm, w.curPipe(x.ix).id, gateWait, "send")
				case "ack-stored":
					// x's new handler is parked writing a message to x; y's acknowledgement of x's
					// message is stored at the relay and not yet delivered
					held = w.armSGate(x.ix, "recv")
					rs = append(rs, async(y, p3))
					reached = waitClosed(held.held)
					rm := w.rmark()
					rs = append(rs, async(x, p4))
					reached = reached && w.waitRHook(rm, w.curPipe(y.ix).id, gateWait, "ack")
				}
				if !reached && harnessErr == "" {
					harnessErr = "the exchange of the new epoch did not reach the point " + point
				}
				settling.Store(true)
				w.quiesce(time.Millisecond)
				rm := w.rmark()
				old.tearDown() // only now the relay notices that x's old connection is gone
				if !w.waitRHook(rm, old.id, gateWait, "end") && harnessErr == "" {
					harnessErr = "the superseded handler did not end"
				}
				w.quiesce(time.Millisecond)
				settling.Store(false)
				if held != nil {
					held.open()
				}
				paused[1].Store(false)
				paused[2].Store(false)
				for _, r := range rs {
					<-r
				}
				actions = append(actions, fmt.Sprintf("warm-up both ways; the relay blocks writing to peer %d's dead stream; peer %d re-attaches on a new stream (epoch > %d); exchange of the new epoch at point '%s'; the superseded handler ends; everything is released", x.ix, x.ix, ep0, point))
			}
		}
		paused[1].Store(false)
		paused[2].Store(false)
	} else if kind == "stalled-reopen" {
		// C23 (wave 6), a slow downlink across a re-open: the relay's handler of the RECEIVER r is
		// parked inside strm.Send (writing Closed / Opened / a message / an acknowledgement to r; the
		// write is only delayed, it is transmitted on release) while the stream of its partner s
		// fails, s re-attaches (the epoch of the pair changes, once or twice) and the relay accepts a
		// message of s for the NEW epoch into r's slot - all before r's handler has announced that
		// epoch to r. Then r's downlink resumes and nothing else happens: r's handler has to announce
		// the epoch AND hand out the item that was queued before the announcement (there is no later
		// wake-up), so every pending Send must complete and the partner's application must get it.
		total = 0
		parts := strings.SplitN(e.variant, "|", 2)
		sk := parts[0]
		ri, _ := strconv.Atoi(parts[1])
		r, s := sides[ri], sides[3-ri]
		pay := func(tag byte) []byte { return append([]byte{6, tag}, e.rng.Bytes(5)...) }
		p0, p1, p2, p3 := pay(0), pay(1), pay(2), pay(3)
		waitClosed := func(ch chan struct{}) bool {
			select {
			case <-ch:
				return true
			case <-time.After(gateWait):
				return false
			}
		}
		// the sends that cross the stall have no deadline of their own: non-completion is decided at
		// quiescence below (load-proof), never by a timer
		lctx, lc := context.WithCancel(ctx)
		defer lc()
		var rs []chan error
		async := func(x *side, payload []byte) {
			total++
			ch := make(chan error, 1)
			rs = append(rs, ch)
			go func() { ch <- sendCtx(x, payload, lctx, true) }()
		}
		// s's stream fails (both ends notice) and s's client re-attaches: waits until s's tracker has
		// processed the Opened of a later epoch. hold: s cannot re-open before `until` is closed.
		failAndReopen := func(until chan struct{}) bool {
			ep0 := w.lastOpened(s.ix)
			from := w.cmark()
			if until != nil {
				w.mtx.Lock()
				w.failOpen[s.ix] = 1 << 30
				w.mtx.Unlock()
			}
			w.failPipe(s.ix)
			ok := true
			if until != nil {
				ok = waitClosed(until)
				w.mtx.Lock()
				w.failOpen[s.ix] = 0
				w.mtx.Unlock()
			}
			return w.waitCHook(from, s.ix, gateWait, func(l string) bool {
				if !strings.HasPrefix(l, "ev=opened ") {
					return false
				}
				ep, _ := strconv.ParseUint(lineKV(l, "a"), 10, 64)
				return ep > ep0
			}) && ok
		}
		// the relay accepted a message of s's CURRENT call for the current epoch into r's slot
		stored := func(from int) bool {
			call := w.curPipe(s.ix).id
			return w.waitRLine(from, gateWait, func(l string) bool {
				if !strings.HasPrefix(l, "ev=send ") || w.calls[lineKV(l, "call")] != call || lineKV(l, "a") != lineKV(l, "sessq") {
					return false
				}
				for _, k := range []string{"sessA", "sessB"} {
					f := strings.Split(lineKV(l, k), "/")
					if len(f) == 5 && f[0] != lineKV(l, "att") && f[1] != "-" {
						return true
					}
				}
				return false
			})
		}
		total += 2
		if sendNow(s, p0, 8*time.Second, true) == nil && sendNow(r, p1, 8*time.Second, true) == nil {
			epStart := w.lastOpened(r.ix)
			held := w.armSGate(r.ix, sk)
			reached := true
			switch sk {
			case "closed":
				// r's handler is parked writing Closed; s stays away until it is
				reached = failAndReopen(held.held)
				rm := w.rmark()
				async(s, p2)
				reached = reached && stored(rm)
			case "opened":
				// r's handler is parked writing Opened(e); the pair goes through another re-open
				reached = failAndReopen(nil) && waitClosed(held.held)
				reached = reached && failAndReopen(nil)
				rm := w.rmark()
				async(s, p2)
				reached = reached && stored(rm)
			case "recv":
				// r's handler is parked writing s's message to r; s's client re-sends it in the new epoch
				async(s, p2)
				reached = waitClosed(held.held)
				rm := w.rmark()
				reached = reached && failAndReopen(nil) && stored(rm)
			case "ack":
				// r's handler is parked writing s's acknowledgement of r's message to r
				async(r, p2)
				reached = waitClosed(held.held)
				reached = reached && failAndReopen(nil)
				rm := w.rmark()
				async(s, p3)
				reached = reached && stored(rm)
			}
			if !reached && harnessErr == "" {
				harnessErr = "the stalled handler / the message accepted for the new epoch was not reached (stall on " + sk + ")"
			}
			if w.lastOpened(r.ix) != epStart && harnessErr == "" {
				harnessErr = "the receiver was told about the new epoch while its handler was parked"
			}
			settling.Store(true)
			w.quiesce(time.Millisecond)
			w.disarm(held) // r's downlink resumes; from here on nothing else happens
			for _, ch := range rs {
				got := false
				for try := 0; try < 4 && !got; try++ {
					select {
					case <-ch:
						got = true
					default:
						// not yet: wait until no goroutine of the process can run and the logs are stable
						w.quiesce(2 * time.Millisecond)
					}
				}
				if !got {
					lc() // quiescent with the Send still pending: reported by sendCtx as non-completion
					<-ch
				}
			}
			settling.Store(false)
			actions = append(actions, fmt.Sprintf("warm-up both ways; the relay's handler of peer %d is parked writing '%s' to it (slow downlink); peer %d's stream fails and it re-attaches (epoch %d -> %d); the relay accepts a message of peer %d for the new epoch; peer %d's downlink resumes; nothing else happens", r.ix, sk, s.ix, epStart, w.lastOpened(s.ix), s.ix, r.ix))
		}
	} else if kind == "stale-ack" {
		// C21 sentinel: B's acknowledgement of m1 is held on the wire while A's caller gives up on m1
		// (A withdraws it) and A sends m2, which the relay forwards to B's client; B's APPLICATION
		// does not receive for the moment. The late ack(1) is released: it crosses the withdrawal at
		// the relay and must change nothing: Send(m2) stays pending until B's application has m2.
		total = 0
		pay := func(tag byte) []byte { return append([]byte{8, tag}, e.rng.Bytes(5)...) }
		p0, p1, p2 := pay(0), pay(1), pay(2)
		total++
		if err := sendNow(sides[1], p0, 8*time.Second, true); err == nil {
			g := w.armGate(2, "ack")
			sctx, sc := context.WithTimeout(ctx, 8*time.Second)
			defer sc()
			r1 := make(chan error, 1)
			total++
			go func() { r1 <- sendCtx(sides[1], p1, sctx, false) }()
			if !g.waitHeld(gateWait) {
				w.disarm(g)
				harnessErr = "the ack write of peer 2 was never started"
				sc()
				<-r1
			} else {
				paused[2].Store(true)
				for t0 := time.Now(); !parked[2].Load() && time.Since(t0) < 5*time.Second; {
					time.Sleep(100 * time.Microsecond)
				}
				from := w.cmark()
				sc() // A's caller gives up on m1: A's client withdraws it
				<-r1
				total++
				r2 := make(chan error, 1)
				go func() { r2 <- sendNow(sides[1], p2, 8*time.Second, true) }()
				// B's client has accepted m2 (hook event), its application has not taken it
				gotM2 := w.waitCHook(from, 2, gateWait, func(l string) bool { return strings.HasPrefix(l, "ev=recvmsg ") })
				if !gotM2 {
					harnessErr = "peer 2's client never got the second message"
				}
				settling.Store(true)
				w.quiesce(time.Millisecond)
				g.open() // the late acknowledgement of m1 reaches the relay now
				w.quiesce(time.Millisecond)
				settling.Store(false)
				select {
				case err := <-r2:
					r2 <- err
					if err == nil && gotM2 {
						// (the ack-before-delivery monitor below states the same on the hook order)
						actions = append(actions, "Send(m2) RETURNED SUCCESS while B's application was not receiving")
					}
				default:
				}
				paused[2].Store(false)
				<-r2
				actions = append(actions, "A->B warm-up; B's ack of m1 held on the wire; A's caller gives up on m1 (withdrawn); A sends m2 (B's client has it, B's application is not receiving); the late ack of m1 is released; B's application receives again")
			}
		}
	} else if kind == "sender-reopen" {
		// C21 sentinel (wave 5): message sequence numbers are NOT unique over the life of the
		// receiver's tracker. Conversation after conversation, one peer's tracker is re-created (it
		// releases its reference and takes a new one, or the whole client is restarted: a NEW client
		// for the same peer id) while the partner keeps its tracker; the re-created sender numbers
		// its messages from 1 again, so the partner is handed messages whose sequence numbers it has
		// seen, delivered and acknowledged before. The lengths of the conversations are chosen so
		// that the first, the last and every other sequence number of a conversation coincides with
		// the LAST one of an earlier conversation. Both directions are used (the persistent peer
		// keeps counting while the re-created one's receiver state is new). Every Send that reports
		// success must have been returned to the partner's application (monitors below).
		total = 0
		re, stay := sides[1], sides[2]
		if nMsgs%2 == 1 {
			re, stay = sides[2], sides[1]
		}
		lens := []int{1, 1, 2, 3, 1, 2}
		if nMsgs >= 3 {
			lens = nil
			for i := 0; i < 5; i++ {
				lens = append(lens, 1+e.rng.Intn(3))
			}
			lens = append(lens, lens[len(lens)-1]) // the same length twice in a row
		}
		tag := byte(0)
		pay := func() []byte { tag++; return append([]byte{7, tag}, e.rng.Bytes(5)...) }
		ok := true
		for c, n := range lens {
			if c > 0 {
				how := "releases its reference and takes a new one"
				if (c+nMsgs/2)%2 == 0 {
					how = "is restarted (a new client for the same peer id)"
					restart(re)
				} else {
					reattach(re)
				}
				actions = append(actions, fmt.Sprintf("peer %d %s", re.ix, how))
			}
			for i := 0; i < n && ok; i++ {
				total++
				ok = sendNow(re, pay(), 8*time.Second, true) == nil
			}
			if ok && e.rng.Intn(2) == 0 {
				total++
				ok = sendNow(stay, pay(), 8*time.Second, true) == nil
				actions = append(actions, fmt.Sprintf("peer %d sends %d (seqnos from 1); peer %d sends 1", re.ix, n, stay.ix))
			} else {
				actions = append(actions, fmt.Sprintf("peer %d sends %d (seqnos from 1)", re.ix, n))
			}
			if !ok {
				break
			}
		}
	} else if kind != "reattach" {
		startSender(sides[1], nA, true)
		startSender(sides[2], nB, true)
		total += nB
		actions = append(actions, fmt.Sprintf("A sends %d, B sends %d (some callers give up after 1-3 ms)", nA, nB))
	} else {
		// while A sends, B drops and re-acquires its session a few times, then stays (and then sends too)
		startSender(sides[1], nA, false)
		b := sides[2]
		for i := 0; i < 3; i++ {
			time.Sleep(time.Duration(200+e.rng.Intn(1500)) * time.Microsecond)
			reattach(b)
			actions = append(actions, "B re-attaches")
		}
		startSender(b, nB, false)
		total += nB
		actions = append(actions, fmt.Sprintf("A sends %d; B sends %d once it stays", nA, nB))
	}
	done := make(chan struct{})
	go func() { senders.Wait(); close(done) }()
	select {
	case <-done:
	case <-time.After(40 * time.Second):
		stuckMtx.Lock()
		stuck = "sends did not finish within 40 s"
		stuckMtx.Unlock()
	}
	// no write stays held; while the verdict is taken the applications wait with long-lived contexts
	w.mtx.Lock()
	for _, g := range w.gates {
		g.open()
	}
	w.gates = nil
	for _, g := range w.sgates {
		g.open()
	}
	w.sgates = nil
	for _, p := range w.pipes {
		p.tearDown()
	}
	w.mtx.Unlock()
	settling.Store(true)
	w.quiesce(2 * time.Millisecond)
	// ---- monitors (model independent) ----
	mon := ""
	key := "sige2e:" + kind
	supersededExits := 0
	// C21, happens-before sound. The applications log from their own goroutines, so "B logged the
	// delivery before A logged the success" is not an order of the protocol. The order that is: the
	// critical section in which the receiver's Recv took message q (hook recvstep, flag=true,
	// recv=q: from then on the message is the application's) precedes the critical section in which
	// the sender's Send saw its ack (hook sendstep, a=q, acked=true). Both are logged inside their
	// critical sections into one list, so causal order is list order. In addition the partner's
	// application must actually have recorded the payload (it may take a moment: wait, bounded).
	w.mtx.Lock()
	app := append([]appEvent(nil), w.app...)
	w.mtx.Unlock()
	for _, a := range app {
		if a.kind != "send-ok" || mon != "" {
			continue
		}
		deadline := time.Now().Add(10 * time.Second)
		for {
			w.mtx.Lock()
			got := false
			for _, b := range w.app {
				if b.kind == "recv" && b.peer == 3-a.peer && b.data == a.data {
					got = true
				}
			}
			w.mtx.Unlock()
			if got || time.Now().After(deadline) {
				if !got {
					mon = fmt.Sprintf("Send of peer %d reported success but the partner's application never received that message", a.peer)
					key = "sige2e.ack-before-delivery:" + kind
				}
				break
			}
			time.Sleep(time.Millisecond)
		}
	}
	w.mtx.Lock()
	clog := append([]string(nil), w.clog...)
	tkrOf := map[string]int{}
	for k, v := range w.tkrOf {
		tkrOf[k] = v
	}
	app = append([]appEvent(nil), w.app...)
	knownNow := map[string]bool{}
	for k := range known {
		knownNow[k] = true
	}
	w.mtx.Unlock()
	// what Recv calls returned to the applications, per (tracker, sequence number)
	returned := map[string]int{}
	for _, a := range app {
		if a.kind == "recv" {
			returned[a.tkr+"/"+strconv.FormatUint(a.seqno, 10)]++
		}
	}
	// C21 (receiver's half): at quiescence every message a Recv critical section took (marked
	// processed, so it is acknowledged to its sender) has been returned by that Recv call
	takenBy := map[string]int{}
	var takenOrder []string
	for _, l := range clog {
		if strings.HasPrefix(l, "ev=recvstep ") && lineKV(l, "flag") == "true" && tkrOf[lineKV(l, "tkr")] != 0 {
			k := lineKV(l, "tkr") + "/" + lineKV(l, "recv")
			takenBy[k]++
			takenOrder = append(takenOrder, k)
		}
	}
	for _, k := range takenOrder {
		if takenBy[k] > returned[k] && mon == "" {
			tk := strings.SplitN(k, "/", 2)
			mon = fmt.Sprintf("a Recv critical section of peer %d took message %s and marked it processed (so it is acknowledged to its sender) but no Recv call returned it to the application (%d of %d Recv calls returned an error)", tkrOf[tk[0]], tk[1], recvCanceled.Load(), recvCalls.Load())
			key = "sige2e.taken-not-returned:" + kind
		}
	}
	for _, a := range app {
		switch a.kind {
		case "send-ok":
			q := strconv.FormatUint(a.seqno, 10)
			start, acked := -1, -1
			for i, l := range clog {
				if strings.HasPrefix(l, "ev=sendstep ") && lineKV(l, "tkr") == a.tkr && lineKV(l, "a") == q {
					if start < 0 {
						start = i
					}
					if lineKV(l, "acked") == "true" {
						acked = i
					}
				}
			}
			// ... by a Recv call that RETURNED it: the partner's application recorded (tracker, seqno)
			taken := false
			for i := start + 1; start >= 0 && i < acked; i++ {
				l := clog[i]
				if strings.HasPrefix(l, "ev=recvstep ") && tkrOf[lineKV(l, "tkr")] == 3-a.peer && lineKV(l, "flag") == "true" && lineKV(l, "recv") == q && returned[lineKV(l, "tkr")+"/"+q] > 0 {
					taken = true
				}
			}
			if acked < 0 && mon == "" {
				mon = fmt.Sprintf("Send of message %d by peer %d reported success but its tracker never logged the acknowledged step", a.seqno, a.peer)
				key = "sige2e.ack-before-delivery:" + kind
			}
			if acked >= 0 && !taken && mon == "" {
				mon = fmt.Sprintf("Send of message %d by peer %d saw its acknowledgement (client event %d) before any Recv of the partner had taken and returned that message: success reported before the partner's application had received it", a.seqno, a.peer, acked)
				key = "sige2e.ack-before-delivery:" + kind
			}
		case "recv":
			if !knownNow[a.data] && mon == "" {
				mon = "the partner's application received a payload that was never sent"
			}
		}
	}
	// C21 (relay side, on the composed traffic): an AckMsg(k) / ClearMsg(k) is transmitted to a peer
	// only if its partner's client had put an AckMsg / ClearMsg request naming exactly k on the wire
	// before, and every request justifies at most one transmission
	{
		w.mtx.Lock()
		rlines := append([]string(nil), w.log...)
		reqs := append([]reqRec(nil), w.reqs...)
		srcOf := map[int]int{}
		for _, p := range w.pipes {
			srcOf[p.id] = p.src
		}
		w.mtx.Unlock()
		used := make([]bool, len(reqs))
		for i, line := range rlines {
			var rk string
			switch {
			case strings.HasPrefix(line, "TX tx,") && strings.Contains(line, ",r=ack,"):
				rk = "ack"
			case strings.HasPrefix(line, "TX tx,") && strings.Contains(line, ",r=clear,"):
				rk = "clear"
			default:
				continue
			}
			var c int
			var k uint64
			for _, f := range strings.Split(line[3:], ",") {
				if strings.HasPrefix(f, "c=") {
					c, _ = strconv.Atoi(f[2:])
				} else if strings.HasPrefix(f, "v=") {
					k, _ = strconv.ParseUint(f[2:], 10, 64)
				}
			}
			to := srcOf[c]
			found := false
			var named []string
			for j, r := range reqs {
				if r.kind != rk || r.at > i || r.src != 3-to {
					continue
				}
				named = append(named, strconv.FormatUint(r.k, 10))
				if !used[j] && r.k == k && !found {
					used[j], found = true, true
				}
			}
			if !found && mon == "" {
				mon = fmt.Sprintf("the relay sent peer %d an %s of message %d, but its partner's client had put no (not yet consumed) %s request naming message %d on the wire before; the partner's %s requests until then named [%s]", to, map[string]string{"ack": "acknowledgement", "clear": "withdrawal"}[rk], k, rk, k, rk, strings.Join(named, " "))
				key = "sige2e.ackclear:" + kind
			}
		}
	}
	stuckMtx.Lock()
	if stuck != "" && mon == "" {
		mon = stuck
		key = "sige2e.progress:" + kind
	}
	stuckMtx.Unlock()
	// C23 (relay side, on the hook lines alone): the exit of a Session handler that is no longer the
	// attachment of its peer (superseded by a newer stream, or already detached) changes nothing of
	// the session: neither the epoch nor any pending slot of either attachment. Every relay hook
	// line is written inside the critical section with the state of its session, so the previous
	// line of the same session is the state before.
	{
		w.mtx.Lock()
		rlines := append([]string(nil), w.log...)
		w.mtx.Unlock()
		last := map[string]string{}
		for _, l := range rlines {
			if !strings.HasPrefix(l, "ev=") || lineKV(l, "sess") == "" {
				continue
			}
			sess := lineKV(l, "sess")
			st := lineKV(l, "sessq") + " " + lineKV(l, "sessA") + " " + lineKV(l, "sessB")
			if prev, ok := last[sess]; ok && strings.HasPrefix(l, "ev=end ") && mon == "" {
				att := lineKV(l, "att") + "/"
				f := strings.Fields(prev)
				if !strings.HasPrefix(f[1], att) && !strings.HasPrefix(f[2], att) && prev != st {
					supersededExits++
					mon = fmt.Sprintf("the exit of a superseded Session handler (call %d) changed the session of the attached peers: epoch/attachments (ptr/recv/recvSent/recvClear/outAcked) before [%s], after [%s]", w.calls[lineKV(l, "call")], prev, st)
					key = "sige2e.superseded-exit:" + kind
				} else if !strings.HasPrefix(f[1], att) && !strings.HasPrefix(f[2], att) {
					supersededExits++
				}
			}
			last[sess] = st
		}
	}
	// relay trace validation
	w.mtx.Lock()
	lines := append([]string(nil), w.log...)
	w.mtx.Unlock()
	tr, _, cerr := sigtrace.Canonical(sigtrace.Input{Lines: lines, PidIx: e.pidIx, Calls: w.calls, SubOf: func(call, k int) (sigtrace.Sub, bool) {
		w.mtx.Lock()
		defer w.mtx.Unlock()
		for _, p := range w.pipes {
			if p.id == call {
				p.mtx.Lock()
				defer p.mtx.Unlock()
				if k < len(p.sends) {
					return p.sends[k], true
				}
			}
		}
		return sigtrace.Sub{}, false
	}})
	op := "sig.trace evs=" + tr
	model := "harness-error " + cerr
	if cerr == "" {
		model = e.m.Query(op)
	}
	impl := "ok"
	mshort := model
	if strings.HasPrefix(model, "ok ") {
		mshort = "ok"
	} else {
		impl = "trace-accepted-by-real-system"
	}
	br := "e2e." + kind
	if kind == "reopen-during-write" || kind == "late-exit" || kind == "stalled-reopen" {
		br += "." + strings.SplitN(e.variant, "|", 2)[0]
	}
	e.rep.Case(fmt.Sprintf("sige2e[%s] msgs=%d %s", kind, total, strings.Join(actions, "; ")), mshort, impl, br, true)
	if mshort != impl || mon != "" {
		d := lib.Disagreement{Op: lib.Trunc(op), Model: lib.Trunc(model), Impl: impl, Branch: br, Key: key}
		if mon != "" {
			d.Monitor, d.What = "confirmed", mon
			d.Op = strings.Join(actions, "; ") + " || " + d.Op
		} else {
			d.Monitor, d.What = "unconfirmed", "the composed run is not a run of the relay model: "+lib.Trunc(model)
		}
		e.rep.Disagree(d)
	} else if harnessErr != "" {
		e.rep.Disagree(lib.Disagreement{Op: strings.Join(actions, "; "), Model: mshort, Impl: impl, Branch: br, Key: "sige2e.schedule:" + kind,
			Monitor: "unconfirmed", What: "the scripted schedule could not be driven on the real system: " + harnessErr})
	}
	recvCount := map[string]int{}
	nOK, nCancelled := 0, 0
	for _, a := range app {
		switch a.kind {
		case "recv":
			recvCount[a.data]++
		case "send-ok":
			nOK++
		case "send-cancelled":
			nCancelled++
		}
	}
	dups := 0
	for _, c := range recvCount {
		if c > 1 {
			dups++
		}
	}
	w.mtx.Lock()
	e.rep.Extra["usurped_streams"] = e.rep.Extra["usurped_streams"].(int) + w.usurped
	e.rep.Extra["session_opens_failed"] = e.rep.Extra["session_opens_failed"].(int) + w.openFailed
	if kind == "usurp" && w.usurped > 0 {
		e.rep.Case("sige2e[usurp] relay replaced a silently dead stream", "ok", "ok", "e2e.usurp.replaced", true)
	}
	w.mtx.Unlock()
	e.rep.Extra["superseded_handler_exits"] = e.rep.Extra["superseded_handler_exits"].(int) + supersededExits
	if kind == "late-exit" && supersededExits > 0 && harnessErr == "" {
		e.rep.Case("sige2e[late-exit] a superseded handler ended while an exchange of the new epoch was in flight", "ok", "ok", "e2e.late-exit.superseded-ended", true)
	}
	if nCancelled > 0 {
		e.rep.Case("sige2e a caller gave up on a Send; later sends completed", "ok", "ok", "e2e.send-cancelled", true)
	}
	e.rep.Extra["messages"] = e.rep.Extra["messages"].(int) + total
	e.rep.Extra["sends_ok"] = e.rep.Extra["sends_ok"].(int) + nOK
	e.rep.Extra["sends_cancelled"] = e.rep.Extra["sends_cancelled"].(int) + nCancelled
	e.rep.Extra["redelivered_after_reattach"] = e.rep.Extra["redelivered_after_reattach"].(int) + dups
	e.rep.Extra["relay_events"] = e.rep.Extra["relay_events"].(int) + strings.Count(tr, ";") + 1
	e.rep.Extra["client_events"] = e.rep.Extra["client_events"].(int) + len(clog)
	e.rep.Extra["recv_calls"] = e.rep.Extra["recv_calls"].(int) + int(recvCalls.Load())
	e.rep.Extra["recv_calls_returned_error"] = e.rep.Extra["recv_calls_returned_error"].(int) + int(recvCanceled.Load())
	// tear down and wait for everything this scenario started (nothing may log into the next one)
	recvCancel()
	for _, s := range sides[1:] {
		s.mtx.Lock()
		s.ref.Release()
		s.mtx.Unlock()
	}
	cancel()
	wcancel()
	for _, s := range sides[1:] {
		s.cl.ClearContext()
	}
	fin := make(chan struct{})
	go func() { apps.Wait(); close(fin) }()
	select {
	case <-fin:
	case <-time.After(10 * time.Second):
	}
	for t0 := time.Now(); time.Since(t0) < 10*time.Second; time.Sleep(200 * time.Microsecond) {
		w.mtx.Lock()
		n := w.active
		w.mtx.Unlock()
		if n == 0 && quiet.Busy() == 0 {
			break
		}
	}
	w.mtx.Lock()
	for _, se := range w.ends {
		e.keep = append(e.keep, se)
	}
	w.mtx.Unlock()
}

func (e *engine) run() {
	e.rep.Rule = "two real signaling clients and the real relay composed through in-memory SRPC stream pairs: both peers send 1–10 messages sequentially (each waits for its ack; every fourth caller gives up after 1-3 ms and the next Send must complete) while both applications receive with Recv callers of every kind (30 ms, already cancelled, past the deadline, a few microseconds, cancelled concurrently; recv-cancelled: one application polls ONLY with contexts that are already done); stable, with B dropping/re-acquiring its session mid-flight, with the stream of either peer dying silently while a relayed message is in flight (it reconnects while the relay still holds the old stream: the usurp path), and with a request (send / ack / clear) of one peer HELD ON THE WIRE inside the pipe while the partner re-attaches or its stream fails and re-connects, released after the holder processed the re-open (reopen-during-write); monitors: a Send sees its ack only after a Recv of the partner took that message (order of the clients' critical sections) AND that Recv call returned it to the application, every message taken by a Recv critical section is returned by the call, all served sends complete; the relay's trace replayed on the Lean LTS; distinct = scenario"
	e.rep.Require("e2e.stable", "e2e.reattach", "e2e.usurp", "e2e.usurp.replaced", "e2e.send-cancelled", "e2e.recv-cancelled",
		"e2e.reopen-during-write.send", "e2e.reopen-during-write.ack", "e2e.reopen-during-write.clear")
	for _, k := range []string{"messages", "redelivered_after_reattach", "relay_events", "usurped_streams", "sends_ok", "sends_cancelled", "client_events", "recv_calls", "recv_calls_returned_error", "session_opens_failed", "superseded_handler_exits"} {
		e.rep.Extra[k] = 0
	}
	e.rep.Require("e2e.stale-ack", "e2e.sender-reopen")
	e.scenario("stale-ack", 1)
	for i := 1; i <= 4; i++ {
		e.scenario("sender-reopen", i)
	}
	// wave 5: late exit of a superseded relay handler at every point of the successor's exchange
	e.rep.Require("e2e.late-exit.unacked", "e2e.late-exit.stored", "e2e.late-exit.ack-stored", "e2e.late-exit.superseded-ended")
	// (own random stream: the schedules of the other scenarios of a seed stay what they were)
	lateRng := lib.NewRng(e.a.Seed ^ 0x6c617465)
	points := []string{"unacked", "stored", "ack-stored"}
	lateExit := func(pt string) {
		saved := e.rng
		e.rng = lateRng
		e.variant = pt + "|" + strconv.Itoa(1+lateRng.Intn(2))
		e.scenario("late-exit", 1)
		e.rng = saved
	}
	for _, pt := range points {
		lateExit(pt)
	}
	// wave 6: the receiver's relay handler stalled in a write across a re-open of the pair, with a
	// message accepted for the new epoch before it resumes (every stall kind x either receiver)
	e.rep.Require("e2e.stalled-reopen.closed", "e2e.stalled-reopen.opened", "e2e.stalled-reopen.recv", "e2e.stalled-reopen.ack")
	stallRng := lib.NewRng(e.a.Seed ^ 0x7374616c)
	stalls := []string{"closed", "opened", "recv", "ack"}
	stalledReopen := func(sk string, r int) {
		saved := e.rng
		e.rng = stallRng
		e.variant = sk + "|" + strconv.Itoa(r)
		e.scenario("stalled-reopen", 1)
		e.rng = saved
	}
	for _, sk := range stalls {
		stalledReopen(sk, 1)
		stalledReopen(sk, 2)
	}
	variants := []string{"send|reattach", "ack|stream-failure", "clear|reattach", "send|stream-failure", "clear|stream-failure"}
	for _, v := range variants[:3] {
		e.variant = v
		e.scenario("reopen-during-write", 1)
	}
	e.scenario("recv-cancelled", 3+e.rng.Intn(5))
	for i := 0; i < 4*e.a.Scale; i++ {
		e.scenario("stable", 3+e.rng.Intn(8))
		e.scenario("reattach", 3+e.rng.Intn(8))
		e.scenario("usurp", 3+e.rng.Intn(8))
		if i > 0 {
			e.variant = variants[e.rng.Intn(len(variants))]
			e.scenario("reopen-during-write", 1)
			if i%4 == 0 {
				e.scenario("recv-cancelled", 3+e.rng.Intn(8))
			}
			lateExit(points[lateRng.Intn(len(points))])
			stalledReopen(stalls[stallRng.Intn(len(stalls))], 1+stallRng.Intn(2))
		}
	}
}

func main() {
	a := lib.ParseArgs()
	lg := logrus.New()
	lg.SetLevel(logrus.PanicLevel)
	lg.SetOutput(io.Discard)
	e := &engine{a: a, rng: lib.NewRng(a.Seed), m: lib.NewModel(a.Driver), le: logrus.NewEntry(lg), pidIx: map[string]int{}}
	e.rep = lib.NewReport("sige2e", a)
	var kps []*sigoracle.Key
	for i := 0; i < 2; i++ {
		kps = append(kps, sigoracle.NewKey(e.rng.Bytes(32)))
	}
	sort.Slice(kps, func(i, j int) bool { return kps[i].IDStr < kps[j].IDStr })
	e.keys = []*sigoracle.Key{nil}
	e.pids = []peer.ID{""}
	for i, x := range kps {
		e.keys = append(e.keys, x)
		e.pids = append(e.pids, x.ID)
		e.pidIx[x.IDStr] = i + 1
	}
	switch a.Prop {
	case "C21", "C23":
		e.run()
	default:
		fmt.Println("unknown property", a.Prop)
		return
	}
	e.m.Close()
	e.rep.Write(a.Out)
}
