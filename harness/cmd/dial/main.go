// Command dial is the correspondence engine for C05: real in-process QUIC transports
// (transport/inproc = pconn + quic + TLS identity) on separate buses. A dials peer X at the
// address of X (honest), at the address of an impostor Y, at an unreachable address, and then
// again at X's address (recovery); the outcome is compared with the Lean model of
// Transport.DialPeer + Dialer.Execute and with the property stated directly.
package main

import (
	"context"
	"fmt"
	"io"
	"strings"
	"time"

	"github.com/aperturerobotics/bifrost/link"
	"github.com/aperturerobotics/bifrost/peer"
	"github.com/aperturerobotics/bifrost/testbed"
	"github.com/aperturerobotics/bifrost/transport/common/dialer"
	transport_controller "github.com/aperturerobotics/bifrost/transport/controller"
	"github.com/aperturerobotics/bifrost/transport/inproc"
	"github.com/aperturerobotics/controllerbus/controller/loader"
	"github.com/aperturerobotics/controllerbus/controller/resolver"
	"github.com/aperturerobotics/controllerbus/directive"
	"github.com/sirupsen/logrus"

	"verif/harness/lib"
)

type node struct {
	tb  *testbed.Testbed
	tpc *transport_controller.Controller
	tpt *inproc.Inproc
	ref directive.Reference
	id  peer.ID
}

type engine struct {
	a   *lib.Args
	rng *lib.Rng
	m   *lib.Model
	rep *lib.Report
	le  *logrus.Entry
}

func (e *engine) newNode(ctx context.Context) *node {
	tb, err := testbed.NewTestbed(ctx, e.le, testbed.TestbedOpts{NoEcho: true})
	if err != nil {
		panic(err)
	}
	tb.StaticResolver.AddFactory(inproc.NewFactory(tb.Bus))
	conf := &inproc.Config{TransportPeerId: tb.PeerID.String()}
	tpc, _, ref, err := loader.WaitExecControllerRunningTyped[*transport_controller.Controller](ctx, tb.Bus, resolver.NewLoadControllerWithConfig(conf), nil)
	if err != nil {
		panic(err)
	}
	tpt, err := tpc.GetTransport(ctx)
	if err != nil {
		panic(err)
	}
	return &node{tb: tb, tpc: tpc, tpt: tpt.(*inproc.Inproc), ref: ref, id: tb.PeerID}
}

func (n *node) release() { n.ref.Release(); n.tb.Release() }

// dialOnce runs DialPeerAddr with a deadline and classifies the outcome.
func dialOnce(ctx context.Context, a *node, want peer.ID, addr string, d time.Duration, idx map[peer.ID]int) string {
	dctx, cancel := context.WithTimeout(ctx, d)
	defer cancel()
	lnk, err := a.tpc.DialPeerAddr(dctx, want, &dialer.DialerOpts{Address: addr})
	if err != nil {
		if dctx.Err() != nil {
			return "retrying"
		}
		return "err " + strings.ReplaceAll(err.Error(), " ", "_")
	}
	return fmt.Sprintf("link %d", idx[lnk.GetRemotePeer()])
}

func (e *engine) scenario(kind string) {
	ctx, cancel := context.WithCancel(context.Background())
	defer cancel()
	a, x, y := e.newNode(ctx), e.newNode(ctx), e.newNode(ctx)
	defer a.release()
	defer x.release()
	defer y.release()
	for _, p := range [][2]*node{{a, x}, {x, a}, {a, y}, {y, a}} {
		p[0].tpt.ConnectToInproc(ctx, p[1].tpt)
	}
	idx := map[peer.ID]int{a.id: 1, x.id: 2, y.id: 3}
	addrX, addrY := x.tpt.LocalAddr().String(), y.tpt.LocalAddr().String()
	check := func(op, impl, branch, gen string, wantRemote peer.ID) {
		model := e.m.Query(op)
		mon := ""
		if strings.HasPrefix(impl, "link ") && impl != fmt.Sprintf("link %d", idx[wantRemote]) {
			mon = fmt.Sprintf("dialing peer %d at an address answered by another peer reported success with a link to peer %s (%s)", idx[wantRemote], impl[5:], gen)
		}
		if gen == "honest" && impl != "link 2" {
			mon = "dialing X at X's own address did not yield a link to X: " + impl
		}
		if gen == "recovery" && impl != "link 2" {
			mon = "after an impostor answered, a later dial of X at X's address is not satisfied: " + impl
		}
		e.rep.Compare(op, model, impl, branch, "dial.exec:"+gen, mon)
	}
	switch kind {
	case "honest":
		check("dial.exec req=2 atts=a:2", dialOnce(ctx, a, x.id, addrX, 5*time.Second, idx), "exec.link", "honest", x.id)
	case "impostor":
		// Y answers at the address we were told X is at; afterwards the address stays connected to Y
		check("dial.exec req=2 atts=a:3,f,f", dialOnce(ctx, a, x.id, addrY, 1200*time.Millisecond, idx), "exec.retrying", "impostor", x.id)
		// the impostor's link must not be counted as a link to X: no link to X exists at this point, so the
		// controller reports none for X, every link it reports for Y is a link to Y, and a request for a link
		// to X is NOT satisfied (700 ms, while the link with the impostor is up)
		mon := ""
		if ls := a.tpc.GetPeerLinks(x.id); len(ls) != 0 {
			mon = fmt.Sprintf("after an impostor answered, GetPeerLinks(X) reports %d link(s) although no link to X was ever established (remote peer of the first: peer %d)", len(ls), idx[ls[0].GetRemotePeer()])
		}
		for _, l := range a.tpc.GetPeerLinks(y.id) {
			if l.GetRemotePeer() != y.id {
				mon = "GetPeerLinks(Y) contains a link to another peer"
			}
		}
		e.rep.Compare("impostor-links", "x", "x", "impostor.tables", "dial.tables", mon)
		mon = ""
		ictx, icancel := context.WithTimeout(ctx, 700*time.Millisecond)
		iml, irel, ierr := link.EstablishLinkWithPeerEx(ictx, a.tb.Bus, "", x.id, false)
		icancel()
		if ierr == nil {
			mon = fmt.Sprintf("EstablishLinkWithPeer(X) was satisfied (with a link to peer %d) although only the impostor has answered and no link to X exists", idx[iml.GetRemotePeer()])
			irel()
		}
		e.rep.Compare("impostor-establish", "x", "x", "impostor.establish", "dial.establish", mon)
		// recovery: X is reachable at its own address
		check("dial.exec req=2 atts=a:2", dialOnce(ctx, a, x.id, addrX, 5*time.Second, idx), "exec.link", "recovery", x.id)
		// and a request for a link to X yields a link to X
		ectx, ecancel := context.WithTimeout(ctx, 5*time.Second)
		ml, rel, err := link.EstablishLinkWithPeerEx(ectx, a.tb.Bus, "", x.id, false)
		ecancel()
		mon = ""
		if err != nil {
			mon = "EstablishLinkWithPeer(X) not satisfied after X became reachable: " + err.Error()
		} else {
			if ml.GetRemotePeer() != x.id {
				mon = "EstablishLinkWithPeer(X) yielded a link to another peer"
			}
			rel()
		}
		e.rep.Compare("recovery-establish", "x", "x", "recovery.establish", "dial.establish", mon)
	case "unreachable":
		check("dial.exec req=2 atts=f,f,f", dialOnce(ctx, a, x.id, "no-such-inproc-address", 700*time.Millisecond, idx), "exec.retrying", "unreachable", x.id)
	case "impostor-then-honest-same-call":
		// dial Y's address expecting Y (honest for Y) while a dial for X at Y's address is pending
		r1 := make(chan string, 1)
		go func() { r1 <- dialOnce(ctx, a, x.id, addrY, 1200*time.Millisecond, idx) }()
		r2 := dialOnce(ctx, a, y.id, addrY, 5*time.Second, idx)
		check("dial.exec req=3 atts=a:3", r2, "exec.link", "shared-address-honest", y.id)
		check("dial.exec req=2 atts=a:3,f,f", <-r1, "exec.retrying", "shared-address-impostor", x.id)
	}
}

func (e *engine) run() {
	e.rep.Rule = "real in-process QUIC/TLS transports A, X, Y on separate buses: dial X at X's address (honest), at Y's address (impostor answers), at an unreachable address, concurrent dials of X and Y at Y's address, then recovery (dial + EstablishLinkWithPeer for X); model attempts: answered-by / failed / fatal sequences; distinct = scenario kind"
	e.rep.Require("exec.link", "exec.retrying", "impostor.tables", "impostor.establish", "recovery.establish", "ref.budget.link", "ref.budget.err", "ref.budget.retrying")
	kinds := []string{"honest", "impostor", "unreachable", "impostor-then-honest-same-call"}
	for r := 0; r < e.a.Scale; r++ {
		for _, k := range kinds {
			e.scenario(k)
		}
		if r >= 2 {
			break
		}
	}
	// model-only sweep: the decision logic on generated attempt sequences vs a direct reference
	n := 300 * e.a.Scale
	for i := 0; i < n; i++ {
		req := e.rng.Intn(4)
		var atts []string
		res := "retrying"
		for k := 0; k < e.rng.Intn(7); k++ {
			switch e.rng.Intn(5) {
			case 0:
				atts = append(atts, "f")
			case 1:
				if e.rng.Intn(4) == 0 {
					atts = append(atts, "F")
					if res == "retrying" {
						res = "err fatal=true"
					}
				} else {
					atts = append(atts, "f")
				}
			default:
				p := 1 + e.rng.Intn(3)
				atts = append(atts, fmt.Sprintf("a:%d", p))
				if res == "retrying" && (req == 0 || p == req) {
					res = fmt.Sprintf("link %d", p)
				}
			}
		}
		as := "_"
		if len(atts) > 0 {
			as = strings.Join(atts, ",")
		}
		op := fmt.Sprintf("dial.exec req=%d atts=%s", req, as)
		e.rep.Compare(op, e.m.Query(op), res, "ref."+strings.SplitN(res, " ", 2)[0], "dial.ref", "")
		// the same attempts with a backoff that gives up after `budget` failed attempts (max_elapsed_time):
		// direct reference = Dialer.Execute's loop restated
		budget := e.rng.Intn(4)
		bres, left := "retrying", budget
	loop:
		for _, at := range atts {
			switch {
			case at == "F":
				bres = "err fatal=true"
				break loop
			case strings.HasPrefix(at, "a:") && (req == 0 || at == fmt.Sprintf("a:%d", req)):
				bres = "link " + at[2:]
				break loop
			default:
				if left == 0 {
					bres = "err fatal=false"
					break loop
				}
				left--
			}
		}
		bop := fmt.Sprintf("dial.exec req=%d atts=%s budget=%d", req, as, budget)
		e.rep.Compare(bop, e.m.Query(bop), bres, "ref.budget."+strings.SplitN(bres, " ", 2)[0], "dial.ref", "")
	}
}

func main() {
	a := lib.ParseArgs()
	lg := logrus.New()
	lg.SetLevel(logrus.PanicLevel)
	lg.SetOutput(io.Discard)
	e := &engine{a: a, rng: lib.NewRng(a.Seed), m: lib.NewModel(a.Driver), le: logrus.NewEntry(lg)}
	e.rep = lib.NewReport("dial", a)
	if a.Prop != "C05" {
		fmt.Println("unknown property", a.Prop)
		return
	}
	e.run()
	e.m.Close()
	e.rep.Write(a.Out)
}
