// Command solicit is the correspondence engine for C30 (solicitation matching) and C32
// (session ID / sorted intersection). BLAKE3 is called directly (zeebo/blake3) on the
// preimage the Lean model dictates.
package main

import (
	"bytes"
	"context"
	"encoding/hex"
	"fmt"
	"math/rand"
	"sort"
	"strings"

	"github.com/aperturerobotics/bifrost/link"
	link_solicit "github.com/aperturerobotics/bifrost/link/solicit"
	link_solicit_controller "github.com/aperturerobotics/bifrost/link/solicit/controller"
	"github.com/aperturerobotics/bifrost/peer"
	"github.com/aperturerobotics/bifrost/protocol"
	"github.com/aperturerobotics/bifrost/stream"
	"github.com/aperturerobotics/controllerbus/directive"
	"github.com/sirupsen/logrus"
	"github.com/zeebo/blake3"

	"verif/harness/lib"
)

type engine struct {
	a   *lib.Args
	rng *lib.Rng
	m   *lib.Model
	rep *lib.Report
}

func b3(b []byte) []byte {
	h := blake3.Sum256(b)
	return h[:]
}

type fakeLink struct {
	uuid, tpt     uint64
	local, remote peer.ID
}

func (f *fakeLink) GetLinkUUID() uint64            { return f.uuid }
func (f *fakeLink) GetTransportUUID() uint64       { return f.tpt }
func (f *fakeLink) GetRemoteTransportUUID() uint64 { return 0 }
func (f *fakeLink) GetLocalPeer() peer.ID          { return f.local }
func (f *fakeLink) GetRemotePeer() peer.ID         { return f.remote }
func (f *fakeLink) OpenMountedStream(ctx context.Context, p protocol.ID, o stream.OpenOpts) (link.MountedStream, error) {
	return nil, context.Canceled
}

type fakeHandler struct {
	vals []directive.Value
}

func (h *fakeHandler) AddValue(v directive.Value) (uint32, bool) {
	h.vals = append(h.vals, v)
	return uint32(len(h.vals)), true
}
func (h *fakeHandler) RemoveValue(id uint32) (directive.Value, bool)      { return nil, false }
func (h *fakeHandler) RemoveValues() []directive.Value                    { return nil }
func (h *fakeHandler) CountValues(bool) int                               { return len(h.vals) }
func (h *fakeHandler) ClearValues() []uint32                              { return nil }
func (h *fakeHandler) MarkIdle(bool)                                      {}
func (h *fakeHandler) AddValueRemovedCallback(id uint32, cb func()) func() { return func() {} }
func (h *fakeHandler) AddResolverRemovedCallback(cb func()) func()        { return func() {} }
func (h *fakeHandler) AddResolver(res directive.Resolver, cb func()) func() {
	return func() {}
}

func (e *engine) ids() [][]byte {
	// realistic peer IDs (identity multihash of an Ed25519 key) and adversarial raw strings
	var out [][]byte
	for i := 0; i < 4; i++ {
		out = append(out, append([]byte{0x00, 0x24, 0x08, 0x01, 0x12, 0x20}, e.rng.Bytes(32)...))
	}
	out = append(out, []byte("a"), []byte("ab"), []byte("b"), []byte("peer-aaa"), []byte("peer-aab"), []byte{0xff}, []byte{0x00}, []byte{0x7f, 0x80})
	return out
}

func (e *engine) runC32() {
	e.rep.Rule = "session IDs: all ordered pairs of realistic and adversarial peer IDs (prefix pairs, high bytes) vs BLAKE3 of the model preimage; FindMatchingHashes on sorted random hash lists with planted overlaps, duplicates, empties, plus aliasing probe; SortHashes vs model; distinct = distinct op line"
	e.rep.Require("session", "find.nonempty", "find.empty", "sort")
	ids := e.ids()
	for i := range ids {
		for j := range ids {
			a, b := ids[i], ids[j]
			op := fmt.Sprintf("solicit.sessionPre a=%s b=%s", lib.Hex(a), lib.Hex(b))
			model := e.m.Query(op)
			want := "ok " + lib.Hex(b3(lib.Unhex(strings.TrimPrefix(model, "ok "))))
			got := link_solicit.ComputeSessionID(peer.ID(a), peer.ID(b))
			impl := "ok " + lib.Hex(got)
			mon := ""
			// property monitors: symmetric; differs for different pairs (checked below)
			if !bytes.Equal(got, link_solicit.ComputeSessionID(peer.ID(b), peer.ID(a))) {
				mon = "ComputeSessionID is not symmetric"
			}
			e.rep.Compare(op, want, impl, "session", "solicit.session", mon)
		}
	}
	// different unordered pairs of well-formed IDs => different session IDs
	seen := map[string]string{}
	for i := 0; i < 4; i++ {
		for j := i; j < 4; j++ {
			s := string(link_solicit.ComputeSessionID(peer.ID(ids[i]), peer.ID(ids[j])))
			k := fmt.Sprint(i, ",", j)
			if o, ok := seen[s]; ok {
				e.rep.Disagree(lib.Disagreement{Op: "sessionID pairs " + o + " vs " + k, Monitor: "confirmed", What: "two different peer pairs have the same session ID", Key: "solicit.session:collision"})
			}
			seen[s] = k
		}
	}
	n := 200 * e.a.Scale
	for i := 0; i < n; i++ {
		hl := 32
		if i%5 == 0 {
			hl = 1 + e.rng.Intn(3) // short "hashes" make collisions / ordering edge cases likely
		}
		mk := func(k int) [][]byte {
			var l [][]byte
			for x := 0; x < k; x++ {
				b := e.rng.Bytes(hl)
				if hl < 4 {
					for y := range b {
						b[y] &= 3
					}
				}
				l = append(l, b)
			}
			return l
		}
		l := mk(e.rng.Intn(8))
		r := mk(e.rng.Intn(8))
		// plant overlaps
		for x := 0; x < e.rng.Intn(4) && len(l) > 0; x++ {
			r = append(r, append([]byte(nil), l[e.rng.Intn(len(l))]...))
		}
		if i%7 == 0 && len(l) > 0 {
			l = append(l, append([]byte(nil), l[0]...)) // duplicate inside one list
		}
		// SortHashes vs model sort
		ls := cloneList(l)
		link_solicit.SortHashes(ls)
		ops := "solicit.sort l=" + lib.HexList(l)
		e.rep.Compare(ops, e.m.Query(ops), "ok "+lib.HexList(ls), "sort", "solicit.sort", "")
		rs := cloneList(r)
		link_solicit.SortHashes(rs)
		op := fmt.Sprintf("solicit.find l=%s r=%s", lib.HexList(ls), lib.HexList(rs))
		model := e.m.Query(op)
		got := link_solicit.FindMatchingHashes(ls, rs)
		impl := "ok " + lib.HexList(got)
		mon := ""
		// monitor: exactly the set intersection, in order
		inL := map[string]bool{}
		inR := map[string]bool{}
		for _, x := range ls {
			inL[string(x)] = true
		}
		for _, x := range rs {
			inR[string(x)] = true
		}
		gotSet := map[string]bool{}
		for k, x := range got {
			gotSet[string(x)] = true
			if !inL[string(x)] || !inR[string(x)] {
				mon = "FindMatchingHashes returned a hash that is not in both lists"
			}
			if k > 0 && bytes.Compare(got[k-1], x) > 0 {
				mon = "FindMatchingHashes result is not in order"
			}
		}
		for x := range inL {
			if inR[x] && !gotSet[x] {
				mon = "FindMatchingHashes missed a common hash"
			}
		}
		// aliasing: mutate inputs afterwards, result must not change
		snap := lib.HexList(got)
		for _, x := range ls {
			for y := range x {
				x[y] ^= 0xff
			}
		}
		for _, x := range rs {
			for y := range x {
				x[y] ^= 0xff
			}
		}
		if lib.HexList(got) != snap {
			mon = "matched hashes alias the input slices"
		}
		br := "find.nonempty"
		if len(got) == 0 {
			br = "find.empty"
		}
		e.rep.Compare(op, model, impl, br, "solicit.find", mon)
	}
}

func cloneList(l [][]byte) [][]byte {
	out := make([][]byte, len(l))
	for i := range l {
		out[i] = append([]byte(nil), l[i]...)
	}
	return out
}

func (e *engine) runC30() {
	e.rep.Rule = "protocol hashes: (pid, ctx) pairs incl. every boundary-shifted split of the same concatenation, empty ctx, long pids (length ≥128: 2-byte uvarint) vs BLAKE3 of the model preimage; splits of one long string whose protocol-ID lengths differ by m·2^14 and m·2^16 (thorough: 2^21, 2^24, 2^28) — where 2-byte-uvarint / 16-bit / 3-byte-uvarint / 24-bit / 4-byte-uvarint length fields wrap — hashed by streaming BLAKE3 over the model's prefix ‖ pid ‖ ctx; pairwise inequality monitor; entry filter and resolveMatch over a 3-value universe per constraint (peer: none/right/wrong, transport: 0/right/wrong); distinct = distinct op line"
	e.rep.Require("proto", "admits.1", "admits.0", "resolve")
	sid := link_solicit.ComputeSessionID(peer.ID("a"), peer.ID("b"))
	type pc struct{ pid, ctx []byte }
	var pcs []pc
	base := [][]byte{[]byte("abc"), []byte("test/echo"), []byte("a"), e.rng.Bytes(6), bytes.Repeat([]byte("x"), 127), bytes.Repeat([]byte("y"), 128), bytes.Repeat([]byte("z"), 300)}
	for _, b := range base {
		for k := 1; k <= len(b) && k < 12; k++ { // every split with non-empty pid
			pcs = append(pcs, pc{b[:k], b[k:]})
		}
		pcs = append(pcs, pc{b, nil}, pc{b, []byte{0}}, pc{b, b})
	}
	// long protocol IDs: splits of one string whose pid lengths differ by 128 / 256 / 512 (a
	// truncated or single-byte length prefix would make them collide)
	for _, total := range []int{300, 600, 1100} {
		long := e.rng.Bytes(total)
		for _, k := range []int{1, 5, 9, 127, 128, 129, 133, 137, 255, 256, 257, 261, 265, 512, 517, 521} {
			if k < total {
				pcs = append(pcs, pc{long[:k], long[k:]})
			}
		}
	}
	for i := 0; i < 30*e.a.Scale; i++ {
		pcs = append(pcs, pc{e.rng.Bytes(1 + e.rng.Intn(5)), e.rng.Bytes(e.rng.Intn(5))})
	}
	hashes := map[string]pc{}
	e.longSplits(sid, func(h []byte, x pc2) (string, string) {
		o, ok := hashes[string(h)]
		hashes[string(h)] = pc{x.pid, x.ctx}
		if ok && (!bytes.Equal(o.pid, x.pid) || !bytes.Equal(o.ctx, x.ctx)) {
			return fmt.Sprintf("solicitations (%s,%s) and (%s,%s) have the same protocol hash", short(o.pid), short(o.ctx), short(x.pid), short(x.ctx)), "solicit.proto:boundary-collision"
		}
		return "", "solicit.proto"
	})
	for _, x := range pcs {
		op := fmt.Sprintf("solicit.protoPre sid=%s pid=%s ctx=%s", lib.Hex(sid), lib.Hex(x.pid), lib.Hex(x.ctx))
		model := e.m.Query(op)
		want := "ok " + lib.Hex(b3(lib.Unhex(strings.TrimPrefix(model, "ok "))))
		got := link_solicit.ComputeProtocolHash(sid, protocol.ID(x.pid), x.ctx)
		mon := ""
		key := "solicit.proto"
		if o, ok := hashes[string(got)]; ok && (!bytes.Equal(o.pid, x.pid) || !bytes.Equal(o.ctx, x.ctx)) {
			mon = fmt.Sprintf("solicitations (%q,%q) and (%q,%q) have the same protocol hash", o.pid, o.ctx, x.pid, x.ctx)
			key = "solicit.proto:boundary-collision"
		}
		hashes[string(got)] = x
		e.rep.Compare(op, want, "ok "+lib.Hex(got), "proto", key, mon)
	}
	// constraints: entry filter + resolveMatch, exhaustive over a small universe
	le := logrus.NewEntry(logrus.New())
	le.Logger.SetLevel(logrus.PanicLevel)
	remote := peer.ID("remote-peer")
	other := peer.ID("other-peer")
	ml := &fakeLink{uuid: 7, tpt: 42, local: peer.ID("local-peer"), remote: remote}
	peers := []peer.ID{"", remote, other}
	tpts := []uint64{0, 42, 43}
	pids := []protocol.ID{"p1", "p2"}
	ctxv := [][]byte{nil, []byte("c")}
	var dirs []link_solicit.SolicitProtocol
	type dd struct {
		pid  protocol.ID
		ctx  []byte
		peer peer.ID
		tpt  uint64
	}
	var dds []dd
	for _, p := range peers {
		for _, t := range tpts {
			for _, pid := range pids {
				for _, c := range ctxv {
					dirs = append(dirs, link_solicit.NewSolicitProtocol(pid, c, p, t))
					dds = append(dds, dd{pid, c, p, t})
				}
			}
		}
	}
	for i, d := range dds {
		op := fmt.Sprintf("solicit.admits peer=%s tid=%d remote=%s ltid=%d", lib.Hex([]byte(d.peer)), d.tpt, lib.Hex([]byte(remote)), 42)
		model := e.m.Query(op)
		ents := link_solicit_controller.VerifSolicitEntries(dirs[i:i+1], ml)
		impl := "ok 0"
		if len(ents) == 1 {
			impl = "ok 1"
			if ents[0].ProtocolID != d.pid || !bytes.Equal(ents[0].Context, d.ctx) {
				impl = "ok mangled"
			}
		}
		mon := ""
		want := (d.peer == "" || d.peer == remote) && (d.tpt == 0 || d.tpt == 42)
		if (impl == "ok 1") != want {
			mon = "solicit entry filter disagrees with the peer/transport constraints"
		}
		e.rep.Compare(op, model, impl, "admits."+model[3:], "solicit.admits", mon)
	}
	// resolveMatch: for each (pid, ctx) hash, exactly the admitted directives with that pid/ctx get a value
	for _, pid := range pids {
		for _, c := range ctxv {
			h := link_solicit.ComputeProtocolHash(sid, pid, c)
			hs := make([]*fakeHandler, len(dirs))
			rhs := make([]directive.ResolverHandler, len(dirs))
			for i := range hs {
				hs[i] = &fakeHandler{}
				rhs[i] = hs[i]
			}
			link_solicit_controller.VerifResolveMatch(le, dirs, rhs, ml, sid, h, nil)
			var got, want []string
			for i, d := range dds {
				adm := (d.peer == "" || d.peer == remote) && (d.tpt == 0 || d.tpt == 42)
				if adm && d.pid == pid && bytes.Equal(d.ctx, c) {
					want = append(want, fmt.Sprint(i))
				}
				if len(hs[i].vals) > 0 {
					got = append(got, fmt.Sprint(i))
				}
			}
			sort.Strings(got)
			sort.Strings(want)
			mon := ""
			if strings.Join(got, ",") != strings.Join(want, ",") {
				mon = "resolveMatch delivered to directives " + strings.Join(got, ",") + " but exactly " + strings.Join(want, ",") + " name this protocol/context and admit the link"
			}
			e.rep.Compare("resolve pid="+string(pid)+" ctx="+hex.EncodeToString(c), "x", "x", "resolve", "solicit.resolve", mon)
		}
	}
	// truncation to maxHashes keeps the sorted prefix
	ents := []link_solicit.SolicitEntry{{ProtocolID: "a"}, {ProtocolID: "b"}, {ProtocolID: "c"}, {ProtocolID: "d"}}
	all := link_solicit.ComputeProtocolHashes(sid, ents)
	tr := link_solicit_controller.VerifComputeHashes(2, sid, ents)
	if len(tr) != 2 || !bytes.Equal(tr[0], all[0]) || !bytes.Equal(tr[1], all[1]) {
		e.rep.Disagree(lib.Disagreement{Op: "computeHashes maxHashes=2", Monitor: "unconfirmed", What: "computeHashes truncation differs from sorted prefix", Key: "solicit.truncate"})
	}
}

type pc2 struct{ pid, ctx []byte }

// short renders a byte string for a finding: long ones by length and ends only.
func short(b []byte) string {
	if len(b) <= 48 {
		return fmt.Sprintf("%q", b)
	}
	return fmt.Sprintf("[%d bytes %x…%x]", len(b), b[:4], b[len(b)-4:])
}

// longSplits: boundary-ambiguous (pid, ctx) splits of ONE byte string whose protocol-ID lengths
// differ by a multiple of 2^14 / 2^16 (quick) and 2^21 / 2^24 / 2^28 (thorough) — the points where
// a 2-byte uvarint, a 16-bit, a 3-byte uvarint, a 24-bit and a 4-byte uvarint length field wrap:
// with such a length encoding (P[:k], P[k:]‖C) and (P[:k+m·W], P[k+m·W:]‖C) get the same preimage.
// (Props.C30.boundary_shift_distinct: the model's preimages differ for every shift.) The model
// answers with the preimage's prefix sid ‖ uvarint(len pid) (solicit.protoPrefix); BLAKE3 is
// streamed over prefix ‖ pid ‖ ctx by zeebo/blake3 directly and compared with ComputeProtocolHash.
// dup is the pairwise-inequality monitor shared with the short splits.
func (e *engine) longSplits(sid []byte, dup func(h []byte, x pc2) (string, string)) {
	type class struct {
		name     string
		w        int
		mult     int // splits at k + m·w for m = 0..mult
		thorough bool
		ks       []int
	}
	classes := []class{
		{"long14", 1 << 14, 3, false, []int{1, 5, 127, 128, 129, 300}},
		{"long16", 1 << 16, 3, false, []int{1, 5, 127, 128, 129, 300}},
		{"long21", 1 << 21, 2, true, []int{1, 5, 129}},
		{"long24", 1 << 24, 1, true, []int{5, 129}},
		{"long28", 1 << 28, 1, true, []int{5}},
	}
	for _, c := range classes {
		if c.thorough && e.a.Scale == 1 {
			continue
		}
		e.rep.Require("proto." + c.name)
		total := c.mult*c.w + 700
		buf := make([]byte, total)
		rand.New(rand.NewSource(e.rng.Int63())).Read(buf)
		var cuts []int
		for _, k := range c.ks {
			for m := 0; m <= c.mult; m++ {
				cuts = append(cuts, k+m*c.w)
			}
		}
		if c.w <= 1<<21 {
			// around the wrap point itself
			cuts = append(cuts, c.w-1, c.w, c.w+1, 2*c.w-1, 2*c.w)
		}
		for _, k := range cuts {
			if k <= 0 || k >= total {
				continue
			}
			pid, ctx := buf[:k], buf[k:]
			op := fmt.Sprintf("solicit.protoPrefix sid=%s n=%d", lib.Hex(sid), len(pid))
			model := e.m.Query(op)
			h := blake3.New()
			h.Write(lib.Unhex(strings.TrimPrefix(model, "ok ")))
			h.Write(pid)
			h.Write(ctx)
			want := "ok " + lib.Hex(h.Sum(nil)[:32])
			got := link_solicit.ComputeProtocolHash(sid, protocol.ID(pid), ctx)
			mon, key := dup(got, pc2{pid, ctx})
			e.rep.Compare(fmt.Sprintf("%s # %s: split of one %d-byte string (PRNG bytes) at %d: |pid|=%d |ctx|=%d", op, c.name, total, k, len(pid), len(ctx)),
				want, "ok "+lib.Hex(got), "proto."+c.name, key, mon)
		}
	}
}

func main() {
	a := lib.ParseArgs()
	e := &engine{a: a, rng: lib.NewRng(a.Seed), m: lib.NewModel(a.Driver)}
	e.rep = lib.NewReport("solicit", a)
	switch a.Prop {
	case "C30":
		e.runC30()
	case "C32":
		e.runC32()
	default:
		fmt.Println("unknown property", a.Prop)
		return
	}
	e.m.Close()
	e.rep.Write(a.Out)
}
