// Command solicit is the correspondence engine for C30 (solicitation matching) and C32
// (session ID / sorted intersection). BLAKE3 is called directly (zeebo/blake3) on the
// preimage the Lean model dictates.
package main

import (
	"bytes"
	"context"
	"encoding/binary"
	"encoding/hex"
	"fmt"
	"math/rand"
	"sort"
	"strings"

	"github.com/aperturerobotics/bifrost/link"
	link_solicit "github.com/aperturerobotics/bifrost/link/solicit"
	link_solicit_controller "github.com/aperturerobotics/bifrost/link/solicit/controller"
	"github.com/aperturerobotics/bifrost/peer"
	"github.com/aperturerobotics/bifrost/protocol"
	"github.com/aperturerobotics/bifrost/stream"
	"github.com/aperturerobotics/controllerbus/directive"
	"github.com/sirupsen/logrus"
	"github.com/zeebo/blake3"

	"verif/harness/lib"
)

type engine struct {
	a   *lib.Args
	rng *lib.Rng
	m   *lib.Model
	rep *lib.Report
}

func b3(b []byte) []byte {
	h := blake3.Sum256(b)
	return h[:]
}

type fakeLink struct {
	uuid, tpt     uint64
	local, remote peer.ID
}

func (f *fakeLink) GetLinkUUID() uint64            { return f.uuid }
func (f *fakeLink) GetTransportUUID() uint64       { return f.tpt }
func (f *fakeLink) GetRemoteTransportUUID() uint64 { return 0 }
func (f *fakeLink) GetLocalPeer() peer.ID          { return f.local }
func (f *fakeLink) GetRemotePeer() peer.ID         { return f.remote }
func (f *fakeLink) OpenMountedStream(ctx context.Context, p protocol.ID, o stream.OpenOpts) (link.MountedStream, error) {
	return nil, context.Canceled
}

type fakeHandler struct {
	vals []directive.Value
}

func (h *fakeHandler) AddValue(v directive.Value) (uint32, bool) {
	h.vals = append(h.vals, v)
	return uint32(len(h.vals)), true
}
func (h *fakeHandler) RemoveValue(id uint32) (directive.Value, bool)       { return nil, false }
func (h *fakeHandler) RemoveValues() []directive.Value                     { return nil }
func (h *fakeHandler) CountValues(bool) int                                { return len(h.vals) }
func (h *fakeHandler) ClearValues() []uint32                               { return nil }
func (h *fakeHandler) MarkIdle(bool)                                       {}
func (h *fakeHandler) AddValueRemovedCallback(id uint32, cb func()) func() { return func() {} }
func (h *fakeHandler) AddResolverRemovedCallback(cb func()) func()         { return func() {} }
func (h *fakeHandler) AddResolver(res directive.Resolver, cb func()) func() {
	return func() {}
}

func (e *engine) ids() [][]byte {
	// realistic peer IDs (identity multihash of an Ed25519 key) and adversarial raw strings
	var out [][]byte
	for i := 0; i < 4; i++ {
		out = append(out, append([]byte{0x00, 0x24, 0x08, 0x01, 0x12, 0x20}, e.rng.Bytes(32)...))
	}
	out = append(out, []byte("a"), []byte("ab"), []byte("b"), []byte("peer-aaa"), []byte("peer-aab"), []byte{0xff}, []byte{0x00}, []byte{0x7f, 0x80})
	return out
}

func (e *engine) runC32() {
	e.rep.Rule = "session IDs: all ordered pairs of realistic and adversarial peer IDs (prefix pairs, high bytes) vs BLAKE3 of the model preimage; FindMatchingHashes on sorted random hash lists with planted overlaps, duplicates, empties, plus aliasing probe; skewed pairs (one list 9x..200x longer, short side 2..8) whose short-side entries are adjacent neighbours (predecessor / successor / next entry) of long-list entries, shared and non-shared interleaved, random and dense-lattice layouts, both argument orders; SortHashes vs model; distinct = distinct op line"
	e.rep.Require("session", "find.nonempty", "find.empty", "sort")
	ids := e.ids()
	for i := range ids {
		for j := range ids {
			a, b := ids[i], ids[j]
			op := fmt.Sprintf("solicit.sessionPre a=%s b=%s", lib.Hex(a), lib.Hex(b))
			model := e.m.Query(op)
			want := "ok " + lib.Hex(b3(lib.Unhex(strings.TrimPrefix(model, "ok "))))
			got := link_solicit.ComputeSessionID(peer.ID(a), peer.ID(b))
			impl := "ok " + lib.Hex(got)
			mon := ""
			// property monitors: symmetric; differs for different pairs (checked below)
			if !bytes.Equal(got, link_solicit.ComputeSessionID(peer.ID(b), peer.ID(a))) {
				mon = "ComputeSessionID is not symmetric"
			}
			e.rep.Compare(op, want, impl, "session", "solicit.session", mon)
		}
	}
	// different unordered pairs of well-formed IDs => different session IDs
	seen := map[string]string{}
	for i := 0; i < 4; i++ {
		for j := i; j < 4; j++ {
			s := string(link_solicit.ComputeSessionID(peer.ID(ids[i]), peer.ID(ids[j])))
			k := fmt.Sprint(i, ",", j)
			if o, ok := seen[s]; ok {
				e.rep.Disagree(lib.Disagreement{Op: "sessionID pairs " + o + " vs " + k, Monitor: "confirmed", What: "two different peer pairs have the same session ID", Key: "solicit.session:collision"})
			}
			seen[s] = k
		}
	}
	n := 200 * e.a.Scale
	for i := 0; i < n; i++ {
		hl := 32
		if i%5 == 0 {
			hl = 1 + e.rng.Intn(3) // short "hashes" make collisions / ordering edge cases likely
		}
		mk := func(k int) [][]byte {
			var l [][]byte
			for x := 0; x < k; x++ {
				b := e.rng.Bytes(hl)
				if hl < 4 {
					for y := range b {
						b[y] &= 3
					}
				}
				l = append(l, b)
			}
			return l
		}
		l := mk(e.rng.Intn(8))
		r := mk(e.rng.Intn(8))
		// plant overlaps
		for x := 0; x < e.rng.Intn(4) && len(l) > 0; x++ {
			r = append(r, append([]byte(nil), l[e.rng.Intn(len(l))]...))
		}
		if i%7 == 0 && len(l) > 0 {
			l = append(l, append([]byte(nil), l[0]...)) // duplicate inside one list
		}
		e.findCase(l, r, "")
	}
	e.longLists()
	e.skewedLists()
}

// findCase: SortHashes and FindMatchingHashes on one pair of lists, against the model and against
// the clause stated directly (exactly the set intersection, in order, not aliasing the inputs).
func (e *engine) findCase(l, r [][]byte, class string) {
	// SortHashes vs model sort
	ls := cloneList(l)
	link_solicit.SortHashes(ls)
	ops := "solicit.sort l=" + lib.HexList(l)
	smon := ""
	for k := 1; k < len(ls); k++ {
		if bytes.Compare(ls[k-1], ls[k]) > 0 {
			smon = "SortHashes result is not in bytewise order"
		}
	}
	if !sameMultiset(l, ls) {
		smon = "SortHashes result is not a permutation of its input"
	}
	e.rep.Compare(ops, e.m.Query(ops), "ok "+lib.HexList(ls), "sort"+class, "solicit.sort", smon)
	rs := cloneList(r)
	link_solicit.SortHashes(rs)
	op := fmt.Sprintf("solicit.find l=%s r=%s", lib.HexList(ls), lib.HexList(rs))
	model := e.m.Query(op)
	got := link_solicit.FindMatchingHashes(ls, rs)
	impl := "ok " + lib.HexList(got)
	mon := ""
	// monitor: exactly the set intersection, in order
	inL := map[string]bool{}
	inR := map[string]bool{}
	for _, x := range ls {
		inL[string(x)] = true
	}
	for _, x := range rs {
		inR[string(x)] = true
	}
	gotSet := map[string]bool{}
	for k, x := range got {
		gotSet[string(x)] = true
		if !inL[string(x)] || !inR[string(x)] {
			mon = "FindMatchingHashes returned a hash that is not in both lists"
		}
		if k > 0 && bytes.Compare(got[k-1], x) > 0 {
			mon = "FindMatchingHashes result is not in order"
		}
	}
	for x := range inL {
		if inR[x] && !gotSet[x] {
			mon = fmt.Sprintf("FindMatchingHashes missed a common hash (%x…, lists of %d and %d entries)", trunc([]byte(x), 6), len(ls), len(rs))
		}
	}
	// aliasing: mutate inputs afterwards, result must not change
	snap := lib.HexList(got)
	for _, x := range ls {
		for y := range x {
			x[y] ^= 0xff
		}
	}
	for _, x := range rs {
		for y := range x {
			x[y] ^= 0xff
		}
	}
	if lib.HexList(got) != snap {
		mon = "matched hashes alias the input slices"
	}
	br := "find.nonempty"
	if len(got) == 0 {
		br = "find.empty"
	}
	if class != "" {
		br = "find" + class
	}
	e.rep.Compare(op, model, impl, br, "solicit.find", mon)
}

func trunc(b []byte, n int) []byte {
	if len(b) > n {
		return b[:n]
	}
	return b
}

func sameMultiset(a, b [][]byte) bool {
	if len(a) != len(b) {
		return false
	}
	m := map[string]int{}
	for _, x := range a {
		m[string(x)]++
	}
	for _, x := range b {
		m[string(x)]--
	}
	for _, k := range m {
		if k != 0 {
			return false
		}
	}
	return true
}

// longLists: lists of 16–300 entries (where a galloping / binary-search / parallel fast path would
// start to run) with the common hashes planted at the head, at the tail, at the powers of two and
// at random places; and lists whose entries have DIFFERENT lengths (1–33 bytes, prefix pairs
// x / x‖00 / x‖ff included), where a comparison on a fixed-width key or on a prefix goes wrong.
func (e *engine) longLists() {
	e.rep.Require("find.long", "sort.long", "find.mixedlen", "sort.mixedlen", "find.sweep")
	// sweep: ONE long sorted list against a list of one or two of its entries, for EVERY position of
	// the common entry (and both roles): a skip-ahead that jumps over an equal entry — whatever its
	// stride and wherever it starts — drops the match at some position
	for rep := 0; rep < e.a.Scale; rep++ {
		size := []int{70, 100, 140}[e.rng.Intn(3)]
		var long [][]byte
		for x := 0; x < size; x++ {
			long = append(long, e.rng.Bytes(32))
		}
		sort.Slice(long, func(a, b int) bool { return bytes.Compare(long[a], long[b]) < 0 })
		for p := 0; p < size; p++ {
			short := [][]byte{append([]byte(nil), long[p]...)}
			if p%3 == 0 && p+1 < size {
				short = append(short, append([]byte(nil), long[p+1]...))
			}
			if p%4 == 1 {
				short = append(short, e.rng.Bytes(32)) // and one that is not common
			}
			if p%2 == 0 {
				e.findCase(cloneList(long), short, ".sweep")
			} else {
				e.findCase(short, cloneList(long), ".sweep")
			}
		}
	}
	n := 24 * e.a.Scale
	for i := 0; i < n; i++ {
		mixed := i%2 == 1
		class := ".long"
		if mixed {
			class = ".mixedlen"
		}
		one := func() []byte {
			if !mixed {
				return e.rng.Bytes(32)
			}
			lens := []int{1, 2, 3, 16, 31, 32, 32, 32, 33, 1 + e.rng.Intn(33)}
			b := e.rng.Bytes(lens[e.rng.Intn(len(lens))])
			if e.rng.Intn(3) == 0 && len(b) < 8 {
				for y := range b {
					b[y] &= 1
				}
			}
			return b
		}
		mk := func(k int) [][]byte {
			var l [][]byte
			for x := 0; x < k; x++ {
				b := one()
				l = append(l, b)
				if mixed && e.rng.Intn(3) == 0 {
					// prefix pairs
					l = append(l, append(append([]byte(nil), b...), 0x00), append(append([]byte(nil), b...), 0xff))
				}
			}
			return l
		}
		sizes := []int{16, 17, 31, 32, 33, 64, 65, 100, 128, 129, 255, 256, 257, 300}
		nl, nr := sizes[e.rng.Intn(len(sizes))], sizes[e.rng.Intn(len(sizes))]
		if i%5 == 4 {
			nr = 1 + e.rng.Intn(3) // one long, one very short list
		}
		l, r := mk(nl), mk(nr)
		// the common entries sit where they do in the SORTED left list: head, tail, powers of two, random
		sl := cloneList(l)
		sort.Slice(sl, func(a, b int) bool { return bytes.Compare(sl[a], sl[b]) < 0 })
		var at []int
		switch i % 4 {
		case 0:
			at = []int{0, 1, len(sl) - 1}
		case 1:
			for k := 1; k < len(sl); k *= 2 {
				at = append(at, k, k-1)
			}
		case 2:
			at = []int{len(sl) - 1, len(sl) - 2, len(sl) / 2}
		default:
			for k := 0; k < 1+e.rng.Intn(12); k++ {
				at = append(at, e.rng.Intn(len(sl)))
			}
		}
		for _, k := range at {
			if k >= 0 && k < len(sl) {
				r = append(r, append([]byte(nil), sl[k]...))
			}
		}
		if i%3 == 0 {
			r = append(r, append([]byte(nil), sl[0]...)) // duplicate of a common entry
		}
		e.findCase(l, r, class)
	}
}

// skewedLists: one list 9x..200x longer than the other (short side 2..8 entries) — the shape where a
// "probe the short side into the long side" fast path (binary search / galloping over the remaining
// tail) would run. The short side is built from ADJACENT NEIGHBOURS of long-list entries: a shared
// entry, its numeric predecessor / successor (NOT shared, sorting directly before / after it), and
// the next long-list entry (shared), interleaved — so that a probe which consumes the insertion
// point after a miss, or restarts one past / one before the hit, loses or invents a match. Two
// layouts: random 32-byte entries with +-1 neighbours, and a dense lattice (long = even numbers,
// short = a run of consecutive integers). Both argument orders. Monitor (findCase): exactly the
// map-based set intersection, in order, not aliasing.
func (e *engine) skewedLists() {
	e.rep.Require("find.skewed", "sort.skewed", "find.skewed.lattice")
	bump := func(b []byte, d int) []byte { // big-endian +1 / -1 (wrapping)
		o := append([]byte(nil), b...)
		for k := len(o) - 1; k >= 0; k-- {
			if d > 0 {
				o[k]++
				if o[k] != 0 {
					break
				}
			} else {
				o[k]--
				if o[k] != 0xff {
					break
				}
			}
		}
		return o
	}
	ratios := []int{9, 10, 12, 16, 17, 25, 33, 50, 64, 100, 128, 200}
	n := 36 * e.a.Scale
	for i := 0; i < n; i++ {
		ns := 2 + i%7 // 2..8
		ratio := ratios[(i/7+i)%len(ratios)]
		if i%11 == 10 {
			ratio = 9 + e.rng.Intn(192)
		}
		nl := ns*ratio + e.rng.Intn(ns)
		lattice := i%3 == 2
		class := ".skewed"
		var long, short [][]byte
		if lattice {
			class = ".skewed.lattice"
			// long = base + 2k (k < nl), short = a run of consecutive integers base + m .. base + m + ns - 1
			// (odd ones are not shared); the run starts on an odd or an even number, anywhere incl. the ends
			width := []int{2, 4, 32}[e.rng.Intn(3)]
			base := e.rng.Bytes(width)
			base[width-2], base[width-1] = 0, 0
			if width > 2 {
				base[width-3] &= 0x7f
			}
			num := func(v int) []byte {
				o := append([]byte(nil), base...)
				o[width-1] = byte(v)
				o[width-2] = byte(v >> 8)
				if width > 2 {
					o[width-3] |= byte(v>>16) & 0x7f
				}
				return o
			}
			for k := 0; k < nl; k++ {
				long = append(long, num(2*k))
			}
			m := []int{0, 1, 2*nl - ns - 1, 2*nl - ns, 2*nl - ns + 1, e.rng.Intn(2 * nl)}[e.rng.Intn(6)]
			if m < 0 {
				m = 0
			}
			for k := 0; k < ns; k++ {
				short = append(short, num(m+k))
			}
		} else {
			hl := 32
			if i%5 == 0 {
				hl = 3 + e.rng.Intn(3)
			}
			for k := 0; k < nl; k++ {
				long = append(long, e.rng.Bytes(hl))
			}
			sort.Slice(long, func(a, b int) bool { return bytes.Compare(long[a], long[b]) < 0 })
			// walk forward through the long list, emitting neighbours of consecutive entries
			p := []int{0, 1, nl - ns - 1, e.rng.Intn(nl)}[e.rng.Intn(4)]
			if p < 0 {
				p = 0
			}
			for len(short) < ns && p < nl {
				switch e.rng.Intn(5) {
				case 0: // predecessor (miss) then the entry itself (hit)
					short = append(short, bump(long[p], -1), append([]byte(nil), long[p]...))
				case 1: // entry (hit), its successor (miss), the next entry (hit)
					short = append(short, append([]byte(nil), long[p]...), bump(long[p], +1))
					if p+1 < nl {
						short = append(short, append([]byte(nil), long[p+1]...))
						p++
					}
				case 2: // two consecutive hits
					short = append(short, append([]byte(nil), long[p]...))
					if p+1 < nl {
						short = append(short, append([]byte(nil), long[p+1]...))
						p++
					}
				case 3: // two misses around one entry, then the next entry
					short = append(short, bump(long[p], -1), bump(long[p], +1))
					if p+1 < nl {
						short = append(short, append([]byte(nil), long[p+1]...))
						p++
					}
				default: // a far miss
					short = append(short, e.rng.Bytes(hl))
				}
				p += 1 + e.rng.Intn(2)*e.rng.Intn(nl/ns)
			}
			if len(short) > ns {
				short = short[:ns]
			}
			for len(short) < 2 {
				short = append(short, append([]byte(nil), long[nl-1]...), bump(long[nl-1], -1))
			}
			if len(long) <= 8*len(short) { // keep the pair skewed (> 8x) whatever was appended
				short = short[:len(long)/9]
			}
		}
		if i%2 == 0 {
			e.findCase(short, long, class)
		} else {
			e.findCase(long, short, class)
		}
	}
}

func cloneList(l [][]byte) [][]byte {
	out := make([][]byte, len(l))
	for i := range l {
		out[i] = append([]byte(nil), l[i]...)
	}
	return out
}

func (e *engine) runC30() {
	e.rep.Rule = "protocol hashes: (pid, ctx) pairs incl. every boundary-shifted split of the same concatenation, empty ctx, long pids (length ≥128: 2-byte uvarint) vs BLAKE3 of the model preimage; splits of one long string whose protocol-ID lengths differ by m·2^14 and m·2^16 (thorough: 2^21, 2^24, 2^28) — where 2-byte-uvarint / 16-bit / 3-byte-uvarint / 24-bit / 4-byte-uvarint length fields wrap — hashed by streaming BLAKE3 over the model's prefix ‖ pid ‖ ctx; pairwise inequality monitor; entry filter and resolveMatch over a 3-value universe per constraint (peer: none/right/wrong, transport: 0/right/wrong); distinct = distinct op line"
	e.rep.Require("proto", "admits.1", "admits.0", "resolve")
	sid := link_solicit.ComputeSessionID(peer.ID("a"), peer.ID("b"))
	type pc struct{ pid, ctx []byte }
	var pcs []pc
	base := [][]byte{[]byte("abc"), []byte("test/echo"), []byte("a"), e.rng.Bytes(6), bytes.Repeat([]byte("x"), 127), bytes.Repeat([]byte("y"), 128), bytes.Repeat([]byte("z"), 300)}
	for _, b := range base {
		for k := 1; k <= len(b) && k < 12; k++ { // every split with non-empty pid
			pcs = append(pcs, pc{b[:k], b[k:]})
		}
		pcs = append(pcs, pc{b, nil}, pc{b, []byte{0}}, pc{b, b})
	}
	// long protocol IDs: splits of one string whose pid lengths differ by 128 / 256 / 512 (a
	// truncated or single-byte length prefix would make them collide)
	for _, total := range []int{300, 600, 1100} {
		long := e.rng.Bytes(total)
		for _, k := range []int{1, 5, 9, 127, 128, 129, 133, 137, 255, 256, 257, 261, 265, 512, 517, 521} {
			if k < total {
				pcs = append(pcs, pc{long[:k], long[k:]})
			}
		}
	}
	for i := 0; i < 30*e.a.Scale; i++ {
		pcs = append(pcs, pc{e.rng.Bytes(1 + e.rng.Intn(5)), e.rng.Bytes(e.rng.Intn(5))})
	}
	// framing embedded in the protocol ID: for a pair (X, c) the FRAMED preimage
	// uvarint(|X|) ‖ X ‖ c taken as a protocol ID of its own (with no context, and under every
	// early split): a hash that leaves out the length prefix for some class of solicitations
	// (no context, short IDs, ...) gives such an ID the hash of (X, c)
	for _, xc := range []pc{{[]byte("abc"), []byte("d")}, {[]byte("test/echo"), []byte("/v1")}, {bytes.Repeat([]byte("x"), 97), []byte("/v1")},
		{bytes.Repeat([]byte("q"), 130), []byte("ctx")}, {e.rng.Bytes(3), e.rng.Bytes(2)}, {[]byte("a"), []byte{0}}} {
		pcs = append(pcs, xc)
		framed := append(append(binary.AppendUvarint(nil, uint64(len(xc.pid))), xc.pid...), xc.ctx...)
		pcs = append(pcs, pc{framed, nil})
		for k := 1; k < len(framed) && k < 6; k++ {
			pcs = append(pcs, pc{framed[:k], framed[k:]})
		}
		// ... and with the context framed as well (a second length field)
		framed2 := append(append(append(binary.AppendUvarint(nil, uint64(len(xc.pid))), xc.pid...), binary.AppendUvarint(nil, uint64(len(xc.ctx)))...), xc.ctx...)
		pcs = append(pcs, pc{framed2, nil})
	}
	hashes := map[string]pc{}
	e.longSplits(sid, func(h []byte, x pc2) (string, string) {
		o, ok := hashes[string(h)]
		hashes[string(h)] = pc{x.pid, x.ctx}
		if ok && (!bytes.Equal(o.pid, x.pid) || !bytes.Equal(o.ctx, x.ctx)) {
			return fmt.Sprintf("solicitations (%s,%s) and (%s,%s) have the same protocol hash", short(o.pid), short(o.ctx), short(x.pid), short(x.ctx)), "solicit.proto:boundary-collision"
		}
		return "", "solicit.proto"
	})
	for _, x := range pcs {
		op := fmt.Sprintf("solicit.protoPre sid=%s pid=%s ctx=%s", lib.Hex(sid), lib.Hex(x.pid), lib.Hex(x.ctx))
		model := e.m.Query(op)
		want := "ok " + lib.Hex(b3(lib.Unhex(strings.TrimPrefix(model, "ok "))))
		got := link_solicit.ComputeProtocolHash(sid, protocol.ID(x.pid), x.ctx)
		mon := ""
		key := "solicit.proto"
		if o, ok := hashes[string(got)]; ok && (!bytes.Equal(o.pid, x.pid) || !bytes.Equal(o.ctx, x.ctx)) {
			mon = fmt.Sprintf("solicitations (%q,%q) and (%q,%q) have the same protocol hash", o.pid, o.ctx, x.pid, x.ctx)
			key = "solicit.proto:boundary-collision"
		}
		hashes[string(got)] = x
		e.rep.Compare(op, want, "ok "+lib.Hex(got), "proto", key, mon)
	}
	// constraints: entry filter + resolveMatch, exhaustive over a small universe
	le := logrus.NewEntry(logrus.New())
	le.Logger.SetLevel(logrus.PanicLevel)
	remote := peer.ID("remote-peer")
	other := peer.ID("other-peer")
	ml := &fakeLink{uuid: 7, tpt: 42, local: peer.ID("local-peer"), remote: remote}
	peers := []peer.ID{"", remote, other}
	tpts := []uint64{0, 42, 43}
	pids := []protocol.ID{"p1", "p2"}
	ctxv := [][]byte{nil, []byte("c")}
	var dirs []link_solicit.SolicitProtocol
	type dd struct {
		pid  protocol.ID
		ctx  []byte
		peer peer.ID
		tpt  uint64
	}
	var dds []dd
	for _, p := range peers {
		for _, t := range tpts {
			for _, pid := range pids {
				for _, c := range ctxv {
					dirs = append(dirs, link_solicit.NewSolicitProtocol(pid, c, p, t))
					dds = append(dds, dd{pid, c, p, t})
				}
			}
		}
	}
	for i, d := range dds {
		op := fmt.Sprintf("solicit.admits peer=%s tid=%d remote=%s ltid=%d", lib.Hex([]byte(d.peer)), d.tpt, lib.Hex([]byte(remote)), 42)
		model := e.m.Query(op)
		ents := link_solicit_controller.VerifSolicitEntries(dirs[i:i+1], ml)
		impl := "ok 0"
		if len(ents) == 1 {
			impl = "ok 1"
			if ents[0].ProtocolID != d.pid || !bytes.Equal(ents[0].Context, d.ctx) {
				impl = "ok mangled"
			}
		}
		mon := ""
		want := (d.peer == "" || d.peer == remote) && (d.tpt == 0 || d.tpt == 42)
		if (impl == "ok 1") != want {
			mon = "solicit entry filter disagrees with the peer/transport constraints"
		}
		e.rep.Compare(op, model, impl, "admits."+model[3:], "solicit.admits", mon)
	}
	// resolveMatch: for each (pid, ctx) hash, exactly the admitted directives with that pid/ctx get a value
	for _, pid := range pids {
		for _, c := range ctxv {
			e.resolveCase(le, sid, ml, dirs, func(i int) (protocol.ID, []byte, bool) {
				d := dds[i]
				return d.pid, d.ctx, (d.peer == "" || d.peer == remote) && (d.tpt == 0 || d.tpt == 42)
			}, pid, c, "resolve")
		}
	}
	// … and ONE node holding separator-ambiguous solicitations at the same time: every split of one
	// byte string, NUL / slash / colon moved across the boundary, the empty context; under every
	// constraint class. Whatever resolveMatch keeps between directives of one call (a memo keyed by
	// the concatenation, a joined key, …) is shared by all of them here; each hash is resolved
	// several times because the controller walks its directive set in map order.
	e.rep.Require("resolve.ambiguous")
	type pcx struct {
		pid protocol.ID
		ctx []byte
	}
	amb := []pcx{{"abc", nil}, {"ab", []byte("c")}, {"a", []byte("bc")}, {"a\x00", []byte("b")}, {"a", []byte("\x00b")}, {"a/b", []byte("c")}, {"a", []byte("/bc")},
		{"a:", []byte("b")}, {"a", []byte(":b")}, {"a|b", nil}, {"a", []byte("|b")}, {"1", []byte("23")}, {"12", []byte("3")}}
	var adirs []link_solicit.SolicitProtocol
	var adds []dd
	for _, x := range amb {
		for _, p := range peers {
			for _, t := range tpts {
				adirs = append(adirs, link_solicit.NewSolicitProtocol(x.pid, x.ctx, p, t))
				adds = append(adds, dd{x.pid, x.ctx, p, t})
			}
		}
	}
	for _, x := range amb {
		for rep := 0; rep < 4; rep++ {
			// a random subset holding at least the solicitation itself and its boundary-shifted twins
			var sub []link_solicit.SolicitProtocol
			var subd []dd
			for i, d := range adds {
				if string(d.pid)+string(d.ctx) == string(x.pid)+string(x.ctx) || e.rng.Intn(3) == 0 {
					sub = append(sub, adirs[i])
					subd = append(subd, d)
				}
			}
			e.resolveCase(le, sid, ml, sub, func(i int) (protocol.ID, []byte, bool) {
				d := subd[i]
				return d.pid, d.ctx, (d.peer == "" || d.peer == remote) && (d.tpt == 0 || d.tpt == 42)
			}, x.pid, x.ctx, "resolve.ambiguous")
		}
	}
	// truncation to maxHashes keeps the sorted prefix
	ents := []link_solicit.SolicitEntry{{ProtocolID: "a"}, {ProtocolID: "b"}, {ProtocolID: "c"}, {ProtocolID: "d"}}
	all := link_solicit.ComputeProtocolHashes(sid, ents)
	tr := link_solicit_controller.VerifComputeHashes(2, sid, ents)
	if len(tr) != 2 || !bytes.Equal(tr[0], all[0]) || !bytes.Equal(tr[1], all[1]) {
		e.rep.Disagree(lib.Disagreement{Op: "computeHashes maxHashes=2", Monitor: "unconfirmed", What: "computeHashes truncation differs from sorted prefix", Key: "solicit.truncate"})
	}
}

// resolveCase runs resolveMatch (through the verif hook) for the hash of (pid, ctx) on a node that
// holds dirs, and states the clause directly: exactly the directives that name this protocol ID and
// this context and whose constraints admit the link receive the value.
func (e *engine) resolveCase(le *logrus.Entry, sid []byte, ml link.MountedLink, dirs []link_solicit.SolicitProtocol,
	spec func(i int) (protocol.ID, []byte, bool), pid protocol.ID, c []byte, branch string) {
	h := link_solicit.ComputeProtocolHash(sid, pid, c)
	hs := make([]*fakeHandler, len(dirs))
	rhs := make([]directive.ResolverHandler, len(dirs))
	for i := range hs {
		hs[i] = &fakeHandler{}
		rhs[i] = hs[i]
	}
	out := lib.Recover(func() string {
		link_solicit_controller.VerifResolveMatch(le, dirs, rhs, ml, sid, h, nil)
		return "x"
	})
	var got, want []string
	for i := range dirs {
		dp, dc, adm := spec(i)
		if adm && dp == pid && bytes.Equal(dc, c) {
			want = append(want, fmt.Sprint(i))
		}
		if len(hs[i].vals) > 0 {
			got = append(got, fmt.Sprint(i))
		}
	}
	sort.Strings(got)
	sort.Strings(want)
	mon := ""
	if strings.Join(got, ",") != strings.Join(want, ",") {
		var wrong []string
		for i := range dirs {
			dp, dc, adm := spec(i)
			if len(hs[i].vals) > 0 && !(adm && dp == pid && bytes.Equal(dc, c)) {
				wrong = append(wrong, fmt.Sprintf("(%q,%q)", dp, dc))
			}
		}
		mon = fmt.Sprintf("resolveMatch for the hash of (%q,%q) on a node holding %d solicitations delivered to directives %s but exactly %s name this protocol/context and admit the link", pid, c, len(dirs), strings.Join(got, ","), strings.Join(want, ","))
		if len(wrong) > 0 {
			mon += "; wrongly served: " + strings.Join(wrong, " ")
		}
	}
	// a panic here is reported as a disagreement (outcome "panic …" ≠ "x"), not as a confirmed
	// violation: the hook builds a bare linkState, so state the real addLink initialises may be missing
	if strings.HasPrefix(out, "panic") {
		mon = ""
	}
	e.rep.Compare(fmt.Sprintf("%s pid=%s ctx=%s ndirs=%d", branch, hex.EncodeToString([]byte(pid)), hex.EncodeToString(c), len(dirs)), "x", out, branch, "solicit.resolve", mon)
}

type pc2 struct{ pid, ctx []byte }

// short renders a byte string for a finding: long ones by length and ends only.
func short(b []byte) string {
	if len(b) <= 48 {
		return fmt.Sprintf("%q", b)
	}
	return fmt.Sprintf("[%d bytes %x…%x]", len(b), b[:4], b[len(b)-4:])
}

// longSplits: boundary-ambiguous (pid, ctx) splits of ONE byte string whose protocol-ID lengths
// differ by a multiple of 2^14 / 2^16 (quick) and 2^21 / 2^24 / 2^28 (thorough) — the points where
// a 2-byte uvarint, a 16-bit, a 3-byte uvarint, a 24-bit and a 4-byte uvarint length field wrap:
// with such a length encoding (P[:k], P[k:]‖C) and (P[:k+m·W], P[k+m·W:]‖C) get the same preimage.
// (Props.C30.boundary_shift_distinct: the model's preimages differ for every shift.) The model
// answers with the preimage's prefix sid ‖ uvarint(len pid) (solicit.protoPrefix); BLAKE3 is
// streamed over prefix ‖ pid ‖ ctx by zeebo/blake3 directly and compared with ComputeProtocolHash.
// dup is the pairwise-inequality monitor shared with the short splits.
func (e *engine) longSplits(sid []byte, dup func(h []byte, x pc2) (string, string)) {
	type class struct {
		name     string
		w        int
		mult     int // splits at k + m·w for m = 0..mult
		thorough bool
		ks       []int
	}
	classes := []class{
		{"long14", 1 << 14, 3, false, []int{1, 5, 127, 128, 129, 300}},
		{"long16", 1 << 16, 3, false, []int{1, 5, 127, 128, 129, 300}},
		{"long21", 1 << 21, 2, true, []int{1, 5, 129}},
		{"long24", 1 << 24, 1, true, []int{5, 129}},
		{"long28", 1 << 28, 1, true, []int{5}},
	}
	for _, c := range classes {
		if c.thorough && e.a.Scale == 1 {
			continue
		}
		e.rep.Require("proto." + c.name)
		total := c.mult*c.w + 700
		buf := make([]byte, total)
		rand.New(rand.NewSource(e.rng.Int63())).Read(buf)
		var cuts []int
		for _, k := range c.ks {
			for m := 0; m <= c.mult; m++ {
				cuts = append(cuts, k+m*c.w)
			}
		}
		if c.w <= 1<<21 {
			// around the wrap point itself
			cuts = append(cuts, c.w-1, c.w, c.w+1, 2*c.w-1, 2*c.w)
		}
		for _, k := range cuts {
			if k <= 0 || k >= total {
				continue
			}
			pid, ctx := buf[:k], buf[k:]
			op := fmt.Sprintf("solicit.protoPrefix sid=%s n=%d", lib.Hex(sid), len(pid))
			model := e.m.Query(op)
			h := blake3.New()
			h.Write(lib.Unhex(strings.TrimPrefix(model, "ok ")))
			h.Write(pid)
			h.Write(ctx)
			want := "ok " + lib.Hex(h.Sum(nil)[:32])
			got := link_solicit.ComputeProtocolHash(sid, protocol.ID(pid), ctx)
			mon, key := dup(got, pc2{pid, ctx})
			e.rep.Compare(fmt.Sprintf("%s # %s: split of one %d-byte string (PRNG bytes) at %d: |pid|=%d |ctx|=%d", op, c.name, total, k, len(pid), len(ctx)),
				want, "ok "+lib.Hex(got), "proto."+c.name, key, mon)
		}
	}
}

func main() {
	a := lib.ParseArgs()
	e := &engine{a: a, rng: lib.NewRng(a.Seed), m: lib.NewModel(a.Driver)}
	e.rep = lib.NewReport("solicit", a)
	switch a.Prop {
	case "C30":
		e.runC30()
	case "C32":
		e.runC32()
	default:
		fmt.Println("unknown property", a.Prop)
		return
	}
	e.m.Close()
	e.rep.Write(a.Out)
}
