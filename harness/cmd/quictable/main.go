// Command quictable is the correspondence engine for the QUIC-transport half of C06: it drives
// the REAL transport_quic.Transport (real HandleConn / HandleSession with real *quic.Conn sessions
// over an in-memory packet network) attached to the REAL transport_controller.Controller (real
// bus, real peer controller), and validates every critical section against the Lean LTS
// Bifrost.QuicTable.
//
// Remote endpoints are real transport_quic.Transport objects with their own keys; several of them
// can present the SAME remote address string to the local transport, and a session can be killed
// from the remote side. The asynchronous bodies of the code are scheduled by the engine:
//
//   - `go t.handler.HandleLinkEstablished(lnk)` and `t.handler.HandleLinkLost(lnk)` pass through a
//     gate that wraps the controller's handler (engine side, no hook needed);
//   - `go t.handleLinkLost(as, lnk)` parks at the verif gate "quic.lost.enter";
//   - `go x.Close()` goroutines run freely; the verif gate "quic.close" records when the
//     closedOnce body runs.
//
// Every gate event is one transition of the model; the trace is replayed by the Lean driver
// (each event must be an enabled transition), and whenever the model is quiescent the address
// table, both controller tables, GetPeerLinks and the set of closed links are compared and the
// model-independent monitor (the property stated directly on the observations) is evaluated.
package main

import (
	"context"
	"fmt"
	"io"
	"net"
	"os"
	"sort"
	"strconv"
	"strings"
	"sync"
	"sync/atomic"
	"time"

	"github.com/aperturerobotics/bifrost/crypto"
	"github.com/aperturerobotics/bifrost/link"
	"github.com/aperturerobotics/bifrost/peer"
	"github.com/aperturerobotics/bifrost/testbed"
	"github.com/aperturerobotics/bifrost/transport"
	transport_quic "github.com/aperturerobotics/bifrost/transport/common/quic"
	transport_controller "github.com/aperturerobotics/bifrost/transport/controller"
	"github.com/aperturerobotics/controllerbus/controller"
	"github.com/blang/semver/v4"
	"github.com/sirupsen/logrus"

	"verif/harness/lib"
)

// ---- in-memory packet network --------------------------------------------------------------------

type memAddr string

func (a memAddr) Network() string { return "mem" }
func (a memAddr) String() string  { return string(a) }

type memPkt struct {
	data []byte
	from net.Addr
}

// memConn is one end of an in-memory packet pipe. The address the other end sees as the source
// of its packets is `local` — chosen freely by the engine.
type memConn struct {
	local   memAddr
	in      chan memPkt
	peer    *memConn
	closed  chan struct{}
	once    sync.Once
	mu      sync.Mutex
	rd      time.Time
	changed chan struct{}
}

func newMemPair(a, b string) (*memConn, *memConn) {
	x := &memConn{local: memAddr(a), in: make(chan memPkt, 256), closed: make(chan struct{}), changed: make(chan struct{})}
	y := &memConn{local: memAddr(b), in: make(chan memPkt, 256), closed: make(chan struct{}), changed: make(chan struct{})}
	x.peer, y.peer = y, x
	return x, y
}

type timeoutErr struct{}

func (timeoutErr) Error() string   { return "i/o timeout" }
func (timeoutErr) Timeout() bool   { return true }
func (timeoutErr) Temporary() bool { return true }

func (c *memConn) ReadFrom(p []byte) (int, net.Addr, error) {
	for {
		c.mu.Lock()
		rd, changed := c.rd, c.changed
		c.mu.Unlock()
		var tm <-chan time.Time
		var t *time.Timer
		if !rd.IsZero() {
			t = time.NewTimer(time.Until(rd))
			tm = t.C
		}
		select {
		case pk := <-c.in:
			if t != nil {
				t.Stop()
			}
			return copy(p, pk.data), pk.from, nil
		case <-c.closed:
			if t != nil {
				t.Stop()
			}
			return 0, nil, net.ErrClosed
		case <-tm:
			return 0, nil, timeoutErr{}
		case <-changed:
			if t != nil {
				t.Stop()
			}
		}
	}
}

func (c *memConn) WriteTo(p []byte, _ net.Addr) (int, error) {
	select {
	case <-c.closed:
		return 0, net.ErrClosed
	default:
	}
	select {
	case c.peer.in <- memPkt{append([]byte(nil), p...), c.local}:
	default: // queue full: drop
	}
	return len(p), nil
}
func (c *memConn) Close() error                       { c.once.Do(func() { close(c.closed) }); return nil }
func (c *memConn) LocalAddr() net.Addr                { return c.local }
func (c *memConn) SetDeadline(t time.Time) error      { return c.SetReadDeadline(t) }
func (c *memConn) SetWriteDeadline(t time.Time) error { return nil }
func (c *memConn) SetReadDeadline(t time.Time) error {
	c.mu.Lock()
	c.rd = t
	close(c.changed)
	c.changed = make(chan struct{})
	c.mu.Unlock()
	return nil
}

// ---- remote endpoints ------------------------------------------------------------------------------

// nullHandler is the TransportHandler of a remote endpoint.
type nullHandler struct{}

func (nullHandler) HandleLinkEstablished(link.Link) {}
func (nullHandler) HandleLinkLost(link.Link)        {}

type engine struct {
	a   *lib.Args
	rng *lib.Rng
	m   *lib.Model
	rep *lib.Report
	le  *logrus.Entry
	cur atomic.Pointer[hist]
	nh  int
	// stuck is set once a goroutine the model expects has failed to show up: the run is failing
	// already, later waits are cut short
	stuck atomic.Bool
}

// patience is how long the engine waits for a goroutine of the real code to show up.
func (e *engine) patience() time.Duration {
	if e.stuck.Load() {
		return 1500 * time.Millisecond
	}
	return 10 * time.Second
}

// ---- one history -------------------------------------------------------------------------------------

type rawEv struct {
	kind string // se | close | lost | est | clost | st | sd
	id   int
	rel  bool
}

type hist struct {
	e      *engine
	gen    string
	ctx    context.Context
	cancel context.CancelFunc
	tb     *testbed.Testbed
	ctrl   *transport_controller.Controller
	lt     *transport_quic.Transport
	inner  transport.TransportHandler
	remote map[int]*transport_quic.Transport // by model peer number
	peerNo map[peer.ID]int
	peerID map[int]peer.ID

	mu   sync.Mutex
	cond *sync.Cond
	dead bool
	// links by id (creation order = order of the "quic.session" gate events)
	links   []*transport_quic.Link
	idOf    map[*transport_quic.Link]int
	addrNo  map[string]int
	addrOfL []int
	peerOfL []int
	rlinks  map[int]*transport_quic.Link // remote end of session k (by local link id)
	rAccept map[int]bool                 // the remote end's AcceptStream has returned an error (the session is over for the peer)
	raw     []rawEv
	// arrivals at the gates (parked goroutines) and their release channels
	estGate, lostGate, clostGate map[int]chan struct{}
	estDone, clostDone, lostEv   map[int]bool
	closedEv                     map[int]bool
	relOf                        map[int]bool
	killed                       map[int]bool
	// engine-side record of the real schedule, for the monitor (model-independent)
	estDelivered map[int]bool // HandleLinkEstablished ran in the controller while it was executing
	lateReal     map[int]bool // ... after HandleLinkLost for the same link had already run
	running      bool
	shut         bool
	ctrlMu       sync.Mutex
	ctrlCancel   context.CancelFunc
	ctrlDone     chan struct{}
	nsess        int
	asyncBad     string
	conns        []*memConn

	// model side
	toks  []string
	model string
	bad   string // first trace disagreement
	steps []string
}

func (h *hist) note(s string) { h.steps = append(h.steps, s) }

// gate is the verif gate callback of package transport_quic (see transport/common/quic/verif_hooks.go).
func (e *engine) gate(point string, t *transport_quic.Transport, addr string, lnk *transport_quic.Link, rel bool) {
	h := e.cur.Load()
	if h == nil {
		return
	}
	switch point {
	case "quic.session":
		if t != h.lt {
			return
		}
		h.mu.Lock()
		id := len(h.links)
		h.links = append(h.links, lnk)
		h.idOf[lnk] = id
		an, ok := h.addrNo[addr]
		if !ok {
			an = 900 + len(h.addrNo)
			h.addrNo[addr] = an
		}
		h.addrOfL = append(h.addrOfL, an)
		h.peerOfL = append(h.peerOfL, h.peerNo[lnk.GetRemotePeer()])
		h.raw = append(h.raw, rawEv{kind: "se", id: id})
		h.cond.Broadcast()
		h.mu.Unlock()
	case "quic.close":
		h.mu.Lock()
		if id, ok := h.idOf[lnk]; ok && !h.dead {
			if h.closedEv[id] {
				h.asyncBad = fmt.Sprintf("the closedOnce body of link %d ran twice", id)
			}
			h.closedEv[id] = true
			h.raw = append(h.raw, rawEv{kind: "close", id: id})
			h.cond.Broadcast()
		}
		h.mu.Unlock()
	case "quic.lost.enter":
		if t != h.lt {
			return
		}
		h.mu.Lock()
		id, ok := h.idOf[lnk]
		if !ok || h.dead {
			h.mu.Unlock()
			return
		}
		ch := make(chan struct{})
		h.lostGate[id] = ch
		h.cond.Broadcast()
		h.mu.Unlock()
		select {
		case <-ch:
		case <-h.ctx.Done():
		}
	case "quic.lost":
		if t != h.lt {
			return
		}
		h.mu.Lock()
		if id, ok := h.idOf[lnk]; ok && !h.dead {
			h.lostEv[id] = true
			h.relOf[id] = rel
			h.raw = append(h.raw, rawEv{kind: "lost", id: id, rel: rel})
			h.cond.Broadcast()
		}
		h.mu.Unlock()
	}
}

// gateHandler wraps the controller's TransportHandler: every call parks until the engine releases it.
type gateHandler struct{ h *hist }

func (g *gateHandler) park(m map[int]chan struct{}, l link.Link) (int, bool) {
	h := g.h
	ql, ok := l.(*transport_quic.Link)
	if !ok {
		return 0, false
	}
	h.mu.Lock()
	id, ok := h.idOf[ql]
	if !ok || h.dead {
		h.mu.Unlock()
		return 0, false
	}
	ch := make(chan struct{})
	m[id] = ch
	h.cond.Broadcast()
	h.mu.Unlock()
	select {
	case <-ch:
	case <-h.ctx.Done():
		return id, false
	}
	return id, true
}

// section runs one controller handler call and waits until its critical section has completed.
func (g *gateHandler) section(kind string, id int, call func()) {
	h := g.h
	h.ctrlMu.Lock()
	defer h.ctrlMu.Unlock()
	h.mu.Lock()
	if h.dead {
		h.mu.Unlock()
		return
	}
	h.raw = append(h.raw, rawEv{kind: kind, id: id})
	running := h.running
	if kind == "est" {
		if running {
			h.estDelivered[id] = true
		}
		if h.clostDone[id] {
			h.lateReal[id] = true
		}
	}
	h.mu.Unlock()
	n := transport_controller.VerifOpsDone()
	call()
	if running || kind == "clost" {
		deadline := time.Now().Add(h.e.patience())
		for transport_controller.VerifOpsDone() <= n && time.Now().Before(deadline) {
			time.Sleep(20 * time.Microsecond)
		}
	}
	h.mu.Lock()
	if kind == "est" {
		h.estDone[id] = true
	} else {
		h.clostDone[id] = true
	}
	h.cond.Broadcast()
	h.mu.Unlock()
}

func (g *gateHandler) HandleLinkEstablished(l link.Link) {
	id, ok := g.park(g.h.estGate, l)
	if !ok {
		return
	}
	g.section("est", id, func() { g.h.inner.HandleLinkEstablished(l) })
}

func (g *gateHandler) HandleLinkLost(l link.Link) {
	id, ok := g.park(g.h.clostGate, l)
	if !ok {
		return
	}
	g.section("clost", id, func() { g.h.inner.HandleLinkLost(l) })
}

func newKey() crypto.PrivKey {
	p, err := peer.NewPeer(nil)
	if err != nil {
		panic(err)
	}
	k, err := p.GetPrivKey(context.Background())
	if err != nil {
		panic(err)
	}
	return k
}

func (e *engine) newHist(gen string) *hist {
	ctx, cancel := context.WithCancel(context.Background())
	tb, err := testbed.NewTestbed(ctx, e.le, testbed.TestbedOpts{NoEcho: true})
	if err != nil {
		panic(err)
	}
	h := &hist{e: e, gen: gen, ctx: ctx, cancel: cancel, tb: tb,
		remote: map[int]*transport_quic.Transport{}, peerNo: map[peer.ID]int{}, peerID: map[int]peer.ID{},
		idOf: map[*transport_quic.Link]int{}, addrNo: map[string]int{}, rlinks: map[int]*transport_quic.Link{}, rAccept: map[int]bool{},
		estGate: map[int]chan struct{}{}, lostGate: map[int]chan struct{}{}, clostGate: map[int]chan struct{}{},
		estDone: map[int]bool{}, clostDone: map[int]bool{}, lostEv: map[int]bool{}, closedEv: map[int]bool{},
		relOf: map[int]bool{}, killed: map[int]bool{}, estDelivered: map[int]bool{}, lateReal: map[int]bool{}}
	h.cond = sync.NewCond(&h.mu)
	e.nh++
	for a := 1; a <= 3; a++ {
		h.addrNo[addrName(e.nh, a)] = a
	}
	// the local peer is model peer 1; remote endpoint 1 holds the SAME key (a self link)
	h.peerNo[tb.PeerID], h.peerID[1] = 1, tb.PeerID
	for p := 1; p <= 4; p++ {
		k := tb.PrivKey
		if p != 1 {
			k = newKey()
		}
		rt, err := transport_quic.NewTransport(ctx, e.le, 0, nil, k, nullHandler{}, &transport_quic.Opts{}, nil)
		if err != nil {
			panic(err)
		}
		h.remote[p] = rt
		h.peerNo[rt.GetPeerID()], h.peerID[p] = p, rt.GetPeerID()
	}
	e.cur.Store(h)
	return h
}

func addrName(nh, a int) string { return fmt.Sprintf("mem-h%d-addr-%d", nh, a) }

// start executes the controller; its constructor builds the real quic transport around the gate.
func (h *hist) start() {
	ctor := func(cctx context.Context, le *logrus.Entry, pkey crypto.PrivKey, hd transport.TransportHandler) (transport.Transport, error) {
		h.inner = hd
		lt, err := transport_quic.NewTransport(cctx, le, 0, nil, pkey, &gateHandler{h: h}, &transport_quic.Opts{}, nil)
		if err != nil {
			return nil, err
		}
		h.lt = lt
		return lt, nil
	}
	info := controller.NewInfo("verif/quic-transport", semver.MustParse("0.0.1"), "quic transport under test")
	h.ctrl = transport_controller.NewController(h.e.le, h.tb.Bus, info, h.tb.PeerID, false, ctor)
	var cctx context.Context
	cctx, h.ctrlCancel = context.WithCancel(h.ctx)
	h.ctrlDone = make(chan struct{})
	go func() {
		_ = h.tb.Bus.ExecuteController(cctx, h.ctrl)
		close(h.ctrlDone)
	}()
	gctx, gcancel := context.WithTimeout(h.ctx, 30*time.Second)
	defer gcancel()
	if _, err := h.ctrl.GetTransport(gctx); err != nil {
		panic("controller did not construct the transport: " + err.Error())
	}
	h.mu.Lock()
	h.running = true
	h.raw = append(h.raw, rawEv{kind: "st"})
	h.mu.Unlock()
	h.note("start")
	h.sync()
}

func (h *hist) shutdown() {
	if h.ctrlCancel == nil {
		return
	}
	h.ctrlMu.Lock()
	h.ctrlCancel()
	select {
	case <-h.ctrlDone:
	case <-time.After(15 * time.Second):
		h.fail("controller did not exit")
	}
	h.ctrlCancel = nil
	h.mu.Lock()
	h.running, h.shut = false, true
	h.raw = append(h.raw, rawEv{kind: "sd"})
	h.mu.Unlock()
	h.ctrlMu.Unlock()
	h.note("shutdown")
	h.sync()
}

func (h *hist) fail(s string) {
	if h.bad == "" {
		h.bad = s
	}
}

// session runs one real QUIC handshake between the local transport and remote endpoint p, which
// presents address number a. dial: the local side dials (HandleConn dial=true), else it listens.
func (h *hist) session(a, p int, dial bool) {
	h.nsess++
	h.note(fmt.Sprintf("session(addr=%d,peer=%d,%s)", a, p, map[bool]string{true: "dial", false: "listen"}[dial]))
	as := addrName(h.e.nh, a)
	lc, rc := newMemPair(fmt.Sprintf("mem-h%d-local-%d", h.e.nh, h.nsess), as)
	h.conns = append(h.conns, lc, rc)
	hctx, hcancel := context.WithTimeout(h.ctx, 20*time.Second)
	defer hcancel()
	rt := h.remote[p]
	type res struct {
		l   *transport_quic.Link
		err error
	}
	rch := make(chan res, 1)
	go func() {
		l, err := rt.HandleConn(hctx, !dial, rc, lc.LocalAddr(), "")
		rch <- res{l, err}
	}()
	h.mu.Lock()
	before := len(h.links)
	h.mu.Unlock()
	l, err := h.lt.HandleConn(hctx, dial, lc, memAddr(as), "")
	r := <-rch
	if err != nil || r.err != nil || l == nil {
		h.fail(fmt.Sprintf("handshake failed: local=%v remote=%v", err, r.err))
		return
	}
	h.mu.Lock()
	if len(h.links) != before+1 || h.links[before] != l {
		h.fail("HandleSession did not pass the session gate exactly once")
	} else {
		h.rlinks[before] = r.l
		// what Close means for the peer: its AcceptStream (blocked on the session) fails
		go func(id int, rl *transport_quic.Link) {
			for {
				strm, _, err := rl.AcceptStream()
				if err != nil {
					break
				}
				_ = strm.Close()
			}
			h.mu.Lock()
			h.rAccept[id] = true
			h.cond.Broadcast()
			h.mu.Unlock()
		}(before, r.l)
	}
	h.mu.Unlock()
	h.sync()
}

// kill closes the session from the remote side.
func (h *hist) kill(id int) {
	h.note(fmt.Sprintf("kill(%d)", id))
	h.mu.Lock()
	rl := h.rlinks[id]
	h.killed[id] = true
	h.mu.Unlock()
	if rl != nil {
		_ = rl.Close()
	}
	h.sync()
}

// closeLocal calls Close on the local link object (environment-initiated close; closedOnce).
func (h *hist) closeLocal(id int) {
	h.note(fmt.Sprintf("close(%d)", id))
	h.sync()
	h.mu.Lock()
	l := h.links[id]
	was := h.closedEv[id]
	h.mu.Unlock()
	_ = l.Close()
	if was && h.bad == "" {
		// Close on a closed link: the closedOnce body must not run again (no gate event); the
		// model transition is the no-op branch of `close`
		h.push(fmt.Sprintf("cl:%d", id))
	}
	h.sync()
}

func (h *hist) release(kind string, id int) bool {
	h.mu.Lock()
	m := map[string]map[int]chan struct{}{"est": h.estGate, "lost": h.lostGate, "clost": h.clostGate}[kind]
	ch := m[id]
	if ch == nil {
		h.mu.Unlock()
		return false
	}
	delete(m, id)
	close(ch)
	done := map[string]map[int]bool{"est": h.estDone, "lost": h.lostEv, "clost": h.clostDone}[kind]
	deadline := time.Now().Add(h.e.patience())
	for !done[id] && time.Now().Before(deadline) {
		h.waitLocked(deadline)
	}
	ok := done[id]
	h.mu.Unlock()
	h.note(fmt.Sprintf("run-%s(%d)", kind, id))
	if !ok {
		h.e.stuck.Store(true)
		h.fail(fmt.Sprintf("released %s(%d) did not complete", kind, id))
	}
	h.sync()
	return ok
}

// waitLocked waits on the condition variable with a deadline (h.mu held).
func (h *hist) waitLocked(deadline time.Time) {
	t := time.AfterFunc(2*time.Millisecond, func() { h.mu.Lock(); h.cond.Broadcast(); h.mu.Unlock() })
	h.cond.Wait()
	t.Stop()
}

func parseIDs(s string) []int {
	if s == "_" || s == "" {
		return nil
	}
	var out []int
	for _, t := range strings.Split(s, ",") {
		n, err := strconv.Atoi(t)
		if err != nil {
			panic("bad id list from model: " + s)
		}
		out = append(out, n)
	}
	return out
}

func has(l []int, x int) bool {
	for _, y := range l {
		if y == x {
			return true
		}
	}
	return false
}

func (h *hist) query() {
	ops := "_"
	if len(h.toks) > 0 {
		ops = strings.Join(h.toks, ",")
	}
	h.model = h.e.m.Query("quictable.run ops=" + ops)
	if strings.HasPrefix(h.model, "disabled") && h.bad == "" {
		h.bad = "trace of the real code is not a run of the model: event #" + lib.KV(h.model, "k") + " (" + h.toks[len(h.toks)-1] + ") is not an enabled transition (" + lib.KV(h.model, "why") + ")"
	}
}

func (h *hist) push(tok string) {
	h.toks = append(h.toks, tok)
	h.query()
}

// sync translates the gate events recorded so far into model transitions and waits until every
// goroutine the model says is pending has either run or arrived at its gate.
func (h *hist) sync() {
	deadline := time.Now().Add(h.e.patience())
	if h.model == "" {
		h.query()
	}
	for {
		h.mu.Lock()
		raw := h.raw
		h.raw = nil
		if h.asyncBad != "" && h.bad == "" {
			h.bad = h.asyncBad
		}
		h.mu.Unlock()
		for _, ev := range raw {
			if h.bad != "" {
				break
			}
			switch ev.kind {
			case "st":
				h.push("st:1")
			case "sd":
				h.push("sd")
			case "se":
				h.push(fmt.Sprintf("se:%d:%d", h.addrOfL[ev.id], h.peerOfL[ev.id]))
			case "close":
				if has(parseIDs(lib.KV(h.model, "pc")), ev.id) {
					h.push(fmt.Sprintf("rc:%d", ev.id))
				} else {
					h.push(fmt.Sprintf("cl:%d", ev.id))
				}
			case "lost":
				h.push(fmt.Sprintf("rl:%d", ev.id))
				// the branch the model took must be the decision the code took
				brs := strings.Split(lib.KV(h.model, "br"), ",")
				want := map[bool]string{true: "lost.current", false: "lost.stale"}[ev.rel]
				if h.bad == "" && brs[len(brs)-1] != want {
					h.fail(fmt.Sprintf("handleLinkLost(link %d): code decided rel=%v, model took %s", ev.id, ev.rel, brs[len(brs)-1]))
				}
			case "est":
				h.push(fmt.Sprintf("re:%d", ev.id))
			case "clost":
				h.push(fmt.Sprintf("cL:%d", ev.id))
			}
		}
		if h.bad != "" {
			return
		}
		// a `go x.Close()` on a link that is already closed runs invisibly (closedOnce)
		progressed := false
		closed := parseIDs(lib.KV(h.model, "closed"))
		for _, id := range parseIDs(lib.KV(h.model, "pc")) {
			if has(closed, id) {
				h.push(fmt.Sprintf("rc:%d", id))
				progressed = true
				break
			}
		}
		if progressed {
			continue
		}
		// what is the model still waiting for?
		h.mu.Lock()
		waiting := ""
		if len(h.raw) > 0 {
			h.mu.Unlock()
			continue
		}
		for _, id := range parseIDs(lib.KV(h.model, "pc")) {
			waiting = fmt.Sprintf("Close() of link %d was requested but its closedOnce body never ran", id)
		}
		for _, id := range parseIDs(lib.KV(h.model, "pl")) {
			if h.lostGate[id] == nil {
				waiting = fmt.Sprintf("link %d was closed but handleLinkLost was never started for it", id)
			}
		}
		for _, id := range parseIDs(lib.KV(h.model, "pcl")) {
			if h.clostGate[id] == nil {
				waiting = fmt.Sprintf("handleLinkLost ran for link %d but the handler's HandleLinkLost was never called for it", id)
			}
		}
		for _, id := range parseIDs(lib.KV(h.model, "pe")) {
			if h.estGate[id] == nil {
				waiting = fmt.Sprintf("link %d was registered but HandleLinkEstablished was never called for it", id)
			}
		}
		links := parseIDs(lib.KV(h.model, "links"))
		for id := range h.killed {
			if has(links, id) && !h.closedEv[id] {
				waiting = fmt.Sprintf("the session of link %d was killed by the remote side but the link was never closed", id)
			}
		}
		if waiting == "" {
			h.mu.Unlock()
			return
		}
		if time.Now().After(deadline) {
			h.mu.Unlock()
			h.e.stuck.Store(true)
			h.fail("stuck: " + waiting)
			return
		}
		h.waitLocked(deadline)
		h.mu.Unlock()
	}
}

func idsStr(m map[int]bool) string {
	var l []int
	for k, v := range m {
		if v {
			l = append(l, k)
		}
	}
	sort.Ints(l)
	if len(l) == 0 {
		return "_"
	}
	s := make([]string, len(l))
	for i := range l {
		s[i] = strconv.Itoa(l[i])
	}
	return strings.Join(s, ",")
}

// observe snapshots the real tables.
func (h *hist) observe() (string, map[int][]int, map[int]int, map[int]bool) {
	tbl := h.lt.VerifSnapshotLinks()
	h.mu.Lock()
	defer h.mu.Unlock()
	var te []string
	tblIDs := map[int]int{}
	for as, l := range tbl {
		tblIDs[h.addrNo[as]] = h.idOf[l]
	}
	var keys []int
	for a := range tblIDs {
		keys = append(keys, a)
	}
	sort.Ints(keys)
	for _, a := range keys {
		te = append(te, fmt.Sprintf("%d:%d", a, tblIDs[a]))
	}
	ts := "_"
	if len(te) > 0 {
		ts = strings.Join(te, ",")
	}
	byUUID, byPeer := h.ctrl.VerifSnapshot()
	live, bp := map[int]bool{}, map[int]bool{}
	for _, l := range byUUID {
		live[h.idOf[l.(*transport_quic.Link)]] = true
	}
	for _, ls := range byPeer {
		for _, l := range ls {
			bp[h.idOf[l.(*transport_quic.Link)]] = true
		}
	}
	closed := map[int]bool{}
	for id := range h.closedEv {
		closed[id] = true
	}
	// GetPeerLinks for every remote peer that ever had a session (sorted by model peer number)
	peers := map[int]bool{}
	for _, p := range h.peerOfL {
		peers[p] = true
	}
	var pl []int
	for p := range peers {
		pl = append(pl, p)
	}
	sort.Ints(pl)
	rep := map[int][]int{}
	var rs []string
	for _, p := range pl {
		ids := map[int]bool{}
		for _, l := range h.ctrl.GetPeerLinks(h.peerID[p]) {
			id := h.idOf[l.(*transport_quic.Link)]
			ids[id] = true
			rep[p] = append(rep[p], id)
		}
		sort.Ints(rep[p])
		rs = append(rs, fmt.Sprintf("%d:%s", p, idsStr(ids)))
	}
	r := "_"
	if len(rs) > 0 {
		r = strings.Join(rs, "|")
	}
	return fmt.Sprintf("table=%s links=%s bypeer=%s closed=%s rep=%s", ts, idsStr(live), idsStr(bp), idsStr(closed), r), rep, tblIDs, closed
}

func modelObs(m string) string {
	return fmt.Sprintf("table=%s links=%s bypeer=%s closed=%s rep=%s", lib.KV(m, "table"), lib.KV(m, "links"), lib.KV(m, "bypeer"), lib.KV(m, "closed"), lib.KV(m, "rep"))
}

// compare is called when the model is quiescent (no goroutine pending): the tables must agree
// and the property, stated on the real observations only, must hold.
func (h *hist) compare(final bool) {
	if h.lt == nil || h.ctrl == nil {
		return
	}
	want := modelObs(h.model)
	var impl string
	var rep map[int][]int
	var tbl map[int]int
	var closed map[int]bool
	deadline := time.Now().Add(h.e.patience() / 2)
	for {
		impl, rep, tbl, closed = h.observe()
		if impl == want || h.bad != "" || time.Now().After(deadline) {
			break
		}
		time.Sleep(300 * time.Microsecond)
	}
	// ---- the monitor: the property on the observations, no model involved ----
	mon := ""
	key := "quictable.hist:" + h.gen
	h.mu.Lock()
	allLate := true
	for p, got := range rep {
		expect := map[int]bool{}
		for id := range h.links {
			if h.estDelivered[id] && !closed[id] && h.peerOfL[id] == p && p != 1 {
				expect[id] = true
			}
		}
		gm := map[int]bool{}
		for _, id := range got {
			gm[id] = true
		}
		if idsStr(gm) != idsStr(expect) {
			if mon == "" {
				mon = fmt.Sprintf("at quiescence the controller reports links {%s} for peer %d but the links established and not yet lost/closed are {%s} (history: %s)", idsStr(gm), p, idsStr(expect), strings.Join(h.steps, "; "))
			}
			for id := range gm {
				if !expect[id] && !h.lateReal[id] {
					allLate = false
				}
			}
			for id := range expect {
				if !gm[id] {
					allLate = false
				}
			}
		}
	}
	if mon != "" && allLate {
		key = "quictable.hist:est-after-lost"
	}
	if mon == "" {
		for a, id := range tbl {
			if closed[id] {
				mon = fmt.Sprintf("at quiescence the address table still maps address %d to link %d, which is closed (history: %s)", a, id, strings.Join(h.steps, "; "))
			}
		}
	}
	if mon == "" {
		// a link that is open and whose establishment the controller processed is the current entry of its address
		for id := range h.links {
			if h.estDelivered[id] && !closed[id] && h.peerOfL[id] != 1 {
				if cur, ok := tbl[h.addrOfL[id]]; !ok || cur != id {
					mon = fmt.Sprintf("link %d is open but is not the address table's entry for its address %d (history: %s)", id, h.addrOfL[id], strings.Join(h.steps, "; "))
				}
			}
		}
	}
	if mon == "" {
		// what Close does: a closed link's context is cancelled and the session is over for the remote end
		// (its blocked AcceptStream returns an error) — waited for, bounded: the close travels over the pipe
		dl := time.Now().Add(h.e.patience() / 2)
		for id := range h.links {
			if !closed[id] {
				continue
			}
			if h.links[id].GetContext().Err() == nil {
				mon = fmt.Sprintf("link %d was closed (closedOnce body ran) but its context is not cancelled (history: %s)", id, strings.Join(h.steps, "; "))
				break
			}
			if h.rlinks[id] == nil {
				continue
			}
			for !h.rAccept[id] && time.Now().Before(dl) {
				h.waitLocked(dl)
			}
			if !h.rAccept[id] {
				mon = fmt.Sprintf("link %d was closed but the remote end's AcceptStream is still blocked: the session was not closed (history: %s)", id, strings.Join(h.steps, "; "))
				break
			}
		}
	}
	h.mu.Unlock()
	if h.bad != "" && mon == "" {
		// a trace / progress disagreement that the observations do not (yet) confirm
		impl = impl + " !" + strings.ReplaceAll(h.bad, " ", "_")
	}
	br := "quiescent.mid"
	if final {
		br = "quiescent.final"
	}
	op := "quictable.run ops=" + strings.Join(h.toks, ",")
	h.e.rep.Compare(op, want, impl, br, key, mon)
}

// parked returns the goroutines currently parked at a gate that the model also has pending.
func (h *hist) parked() [][2]string {
	var out [][2]string
	h.mu.Lock()
	defer h.mu.Unlock()
	for _, k := range []struct {
		kind, field string
		m           map[int]chan struct{}
	}{{"est", "pe", h.estGate}, {"lost", "pl", h.lostGate}, {"clost", "pcl", h.clostGate}} {
		for _, id := range parseIDs(lib.KV(h.model, k.field)) {
			if k.m[id] != nil {
				out = append(out, [2]string{k.kind, strconv.Itoa(id)})
			}
		}
	}
	sort.Slice(out, func(i, j int) bool {
		if out[i][0] != out[j][0] {
			return out[i][0] < out[j][0]
		}
		return out[i][1] < out[j][1]
	})
	return out
}

func (h *hist) quiescent() bool { return lib.KV(h.model, "q") == "1" }

// settle releases every parked goroutine (in an order chosen by pick) until the model is quiescent.
func (h *hist) settle(pick func(n int) int) {
	for i := 0; i < 200 && h.bad == ""; i++ {
		p := h.parked()
		if len(p) == 0 {
			break
		}
		c := p[pick(len(p))]
		id, _ := strconv.Atoi(c[1])
		h.release(c[0], id)
	}
	if h.bad == "" && !h.quiescent() {
		h.fail("the model has pending goroutines that never arrived: " + h.model)
	}
}

// drain is used after a trace / progress disagreement: the model can no longer say what is
// pending, so every goroutine that arrives at a gate is released until nothing has arrived for a
// while — the real system is then quiescent and the monitor can be evaluated on it.
func (h *hist) drain() {
	idle := 0
	for i := 0; i < 400 && idle < 12; i++ {
		h.mu.Lock()
		n := 0
		for _, m := range []map[int]chan struct{}{h.estGate, h.lostGate, h.clostGate} {
			for id, ch := range m {
				close(ch)
				delete(m, id)
				n++
			}
		}
		h.mu.Unlock()
		if n == 0 {
			idle++
		} else {
			idle = 0
		}
		time.Sleep(5 * time.Millisecond)
	}
}

func (h *hist) finish() {
	if h.bad != "" {
		h.drain()
	}
	h.compare(true)
	// count the model branches this history went through
	if strings.HasPrefix(h.model, "ok") {
		for _, b := range strings.Split(lib.KV(h.model, "br"), ",") {
			for _, part := range strings.Split(b, "+") {
				if part != "" && part != "_" {
					h.e.rep.Branches["step."+part]++
				}
			}
		}
	}
	// uuid modelling assumption: equal (address, peer) <=> equal uuid, on the real links
	h.mu.Lock()
	bad := ""
	for i := range h.links {
		for j := 0; j < i; j++ {
			same := h.addrOfL[i] == h.addrOfL[j] && h.peerOfL[i] == h.peerOfL[j]
			if same != (h.links[i].GetUUID() == h.links[j].GetUUID()) {
				bad = fmt.Sprintf("links %d and %d: same (address, peer) = %v but same uuid = %v", j, i, same, !same)
			}
		}
	}
	nl := len(h.links)
	h.dead = true
	for _, m := range []map[int]chan struct{}{h.estGate, h.lostGate, h.clostGate} {
		for id, ch := range m {
			close(ch)
			delete(m, id)
		}
	}
	h.mu.Unlock()
	if nl >= 2 {
		impl := "ok"
		if bad != "" {
			impl = "mismatch"
		}
		h.e.rep.Compare(fmt.Sprintf("quictable.uuid hist=%d links=%d", h.e.nh, nl), "ok", impl, "uuid", "quictable.uuid", bad)
	}
	h.e.cur.Store(nil)
	if h.ctrlCancel != nil {
		h.ctrlCancel()
		select {
		case <-h.ctrlDone:
		case <-time.After(3 * time.Second):
		}
	}
	h.cancel()
	h.tb.Release()
	for _, c := range h.conns {
		_ = c.Close()
	}
}

// ---- histories ------------------------------------------------------------------------------------------

type act struct {
	kind string // session | est | lost | clost | kill | close | settle | shutdown | eager
	a, p int
	id   int
	dial bool
}

// script runs a fixed history (the sentinels: each distinguishes the code from an obvious wrong variant).
func (e *engine) script(gen string, acts []act) {
	h := e.newHist(gen)
	defer h.finish()
	h.start()
	first := func(n int) int { return 0 }
	for _, a := range acts {
		if h.bad != "" {
			break
		}
		switch a.kind {
		case "session":
			h.session(a.a, a.p, a.dial)
		case "est", "lost", "clost":
			if !h.release(a.kind, a.id) {
				h.fail(fmt.Sprintf("scripted %s(%d): no such goroutine is parked", a.kind, a.id))
			}
		case "kill":
			h.kill(a.id)
		case "close":
			h.closeLocal(a.id)
		case "settle":
			h.settle(first)
			if h.bad == "" {
				h.compare(false)
			}
		case "shutdown":
			h.shutdown()
		}
	}
	if h.bad == "" {
		h.settle(first)
	}
}

// random runs a generated history. eager: every goroutine runs as soon as it is parked (the
// schedule an unloaded machine produces); otherwise the engine picks among the parked goroutines
// and the environment actions at random (late establishments, late losses, races with new sessions).
func (e *engine) random(eager bool) {
	gen := "random"
	if eager {
		gen = "eager"
	}
	h := e.newHist(gen)
	defer h.finish()
	h.start()
	pick := func(n int) int { return e.rng.Intn(n) }
	steps := 6 + e.rng.Intn(9)
	maxSess := 3 + e.rng.Intn(3)
	naddr := 1 + e.rng.Intn(2)
	for k := 0; k < steps && h.bad == ""; k++ {
		if eager {
			h.settle(pick)
			if h.bad != "" {
				break
			}
			if e.rng.Intn(3) == 0 {
				h.compare(false)
			}
		}
		h.mu.Lock()
		n := len(h.links)
		var open, closedIDs []int
		for id := 0; id < n; id++ {
			if h.closedEv[id] {
				closedIDs = append(closedIDs, id)
			} else if !h.killed[id] {
				open = append(open, id)
			}
		}
		shut := h.shut
		h.mu.Unlock()
		parked := h.parked()
		r := e.rng.Intn(100)
		switch {
		case len(parked) > 0 && r < 45:
			c := parked[e.rng.Intn(len(parked))]
			id, _ := strconv.Atoi(c[1])
			h.release(c[0], id)
		case n < maxSess && r < 75 || n == 0:
			p := 2 + e.rng.Intn(2)
			if e.rng.Intn(6) == 0 {
				p = 4
			}
			if e.rng.Intn(12) == 0 {
				p = 1 // the remote endpoint holds the local key: a self link
			}
			h.session(1+e.rng.Intn(naddr), p, e.rng.Intn(2) == 0)
		case len(open) > 0 && r < 88:
			id := open[e.rng.Intn(len(open))]
			if e.rng.Intn(2) == 0 {
				h.kill(id)
			} else {
				h.closeLocal(id)
			}
		case len(closedIDs) > 0 && r < 93:
			h.closeLocal(closedIDs[e.rng.Intn(len(closedIDs))]) // duplicate Close
		case !shut && r >= 97:
			h.shutdown()
			gen = gen + "-shutdown"
			h.gen = gen
		default:
			if len(parked) > 0 {
				c := parked[e.rng.Intn(len(parked))]
				id, _ := strconv.Atoi(c[1])
				h.release(c[0], id)
			}
		}
		if h.bad == "" && h.quiescent() && e.rng.Intn(2) == 0 {
			h.compare(false)
		}
	}
	if h.bad == "" {
		h.settle(pick)
	}
}

func (e *engine) run() {
	e.rep.Rule = "histories of 1–5 real QUIC sessions (in-memory packet pipes) from 4 remote endpoints (3 keys + the local key) presenting 1–2 shared address strings to one real transport_quic.Transport attached to the real Controller: same-peer replacement, different-peer usurp, close-then-reconnect, remote kill, local Close, duplicate Close, late establishment / late loss schedules forced through the gates, shutdown; every gate event replayed as a transition of Bifrost.QuicTable; tables compared and the property monitor evaluated at every quiescent point; distinct = distinct trace"
	e.rep.Require(
		"quiescent.final", "quiescent.mid", "uuid",
		"step.se.fresh", "step.se.usurp-same-uuid", "step.se.usurp-other-uuid",
		"step.est.new", "step.est.replace", "step.est.self", "step.est.stopped", "step.late",
		"step.close.env", "step.close.requested", "step.close.again",
		"step.lost.current", "step.lost.stale", "step.clost.hit", "step.clost.miss", "step.shutdown",
	)
	S := func(a, p int) act { return act{kind: "session", a: a, p: p, dial: true} }
	SL := func(a, p int) act { return act{kind: "session", a: a, p: p, dial: false} }
	R := func(kind string, id int) act { return act{kind: kind, id: id} }
	settle := act{kind: "settle"}
	// mutation sentinels
	// 1. a DIFFERENT peer usurps the address: the loss of the usurped link must reach the controller
	e.script("usurp-other-peer", []act{S(1, 2), R("est", 0), S(1, 3), R("est", 1), settle})
	e.script("usurp-other-peer", []act{SL(1, 2), R("est", 0), SL(1, 3), R("lost", 0), R("est", 1), settle})
	// 2. the SAME peer replaces its link at the same address (same uuid)
	e.script("replace-same-peer", []act{S(1, 2), R("est", 0), S(1, 2), R("est", 1), settle})
	e.script("replace-same-peer", []act{S(1, 2), R("est", 0), SL(1, 2), R("lost", 0), R("clost", 0), R("est", 1), settle})
	// 3. late loss at the table: the old link is closed, its handleLinkLost runs after the new session
	e.script("late-loss", []act{S(1, 2), R("est", 0), R("close", 0), S(1, 2), R("est", 1), R("lost", 0), settle})
	e.script("late-loss", []act{S(1, 2), R("est", 0), R("close", 0), S(1, 3), R("lost", 0), R("est", 1), R("clost", 0), settle})
	// 4. close, then reconnect at the same address; a remote kill; duplicate Close
	e.script("close-reconnect", []act{S(1, 2), R("est", 0), R("kill", 0), settle, S(1, 2), settle, R("close", 0), R("close", 1), R("close", 1), settle})
	// 5. two addresses, one peer; a self link; shutdown with live links and a session afterwards
	e.script("two-addresses", []act{S(1, 2), S(2, 2), settle, R("kill", 1), settle})
	e.script("self-link", []act{S(1, 1), S(2, 2), settle})
	e.script("shutdown", []act{S(1, 2), S(2, 3), settle, act{kind: "shutdown"}, settle, S(1, 2), settle})
	// 6. the known-finding witness (F25): the establishment of the usurped link is processed after its loss
	e.script("est-after-lost", []act{S(1, 2), S(1, 2), R("lost", 0), R("clost", 0), R("est", 1), R("est", 0), settle})
	n := 14 * e.a.Scale
	for i := 0; i < n; i++ {
		e.random(i%3 == 0)
	}
}

func main() {
	a := lib.ParseArgs()
	lg := logrus.New()
	lg.SetLevel(logrus.PanicLevel)
	lg.SetOutput(io.Discard)
	e := &engine{a: a, rng: lib.NewRng(a.Seed), m: lib.NewModel(a.Driver), le: logrus.NewEntry(lg)}
	e.rep = lib.NewReport("quictable", a)
	if a.Prop != "C06" {
		fmt.Println("unknown property", a.Prop)
		os.Exit(2)
	}
	transport_quic.VerifSetGate(e.gate)
	e.run()
	e.m.Close()
	e.rep.Write(a.Out)
}
