package main

import (
	"bytes"
	"encoding/hex"
	"fmt"
	"sort"
	"strings"

	link_solicit "github.com/aperturerobotics/bifrost/link/solicit"
	link_solicit_controller "github.com/aperturerobotics/bifrost/link/solicit/controller"

	"verif/harness/lib"
)

// query asks the Lean model for the state after ops, answering its BLAKE3 requests with
// zeebo/blake3 on exactly the preimages the model names.
func (e *engine) query(c cfg, ops []string) (line, ans string) {
	opl := "_"
	if len(ops) > 0 {
		opl = strings.Join(ops, ",")
	}
	for {
		var tab []string
		for k, v := range e.orc {
			tab = append(tab, k+":"+hex.EncodeToString(v))
		}
		sort.Strings(tab)
		t := "_"
		if len(tab) > 0 {
			t = strings.Join(tab, ",")
		}
		line = fmt.Sprintf("solicitsys.run pa=%s pb=%s ta=%d tb=%d maxa=%d maxb=%d ops=%s",
			lib.Hex([]byte(c.peers[0])), lib.Hex([]byte(c.peers[1])), c.tpt[0], c.tpt[1], effMax(c.max[0]), effMax(c.max[1]), opl)
		ans = e.m.Query(line + " orc=" + t)
		if !strings.HasPrefix(ans, "need ") {
			return line, ans
		}
		for _, p := range strings.Split(ans[5:], ",") {
			pre := lib.Unhex(p)
			if len(pre) == 0 {
				e.orc["-"] = b3(nil)
			} else {
				e.orc[hex.EncodeToString(pre)] = b3(pre)
			}
		}
	}
}

// canon drops the model-only fields (ghost `res`, `q`) from a model answer.
func canon(ans string) string {
	var out []string
	for _, t := range strings.Split(ans, " ") {
		if strings.HasPrefix(t, "q=") || strings.Contains(t, ".res=") {
			continue
		}
		out = append(out, t)
	}
	return strings.Join(out, " ")
}

type linkObs struct {
	found   bool
	sid     []byte
	lower   bool
	remote  [][]byte
	matched []string
	nlinks  int
}

func (n *node) snapshot() (specs []dirSpec, lo linkObs) {
	sols, links := link_solicit_controller.VerifSnapshot(n.ctrl)
	for _, s := range sols {
		specs = append(specs, dirSpec{string(s.SolicitProtocolID()), s.SolicitProtocolContext(), s.SolicitProtocolPeerID(), s.SolicitProtocolTransportID()})
	}
	lo.nlinks = len(links)
	for _, l := range links {
		if l.UUID == n.w.uuid {
			lo = linkObs{found: true, sid: l.SessionID, lower: l.LocalIsLower, remote: l.RemoteHashes, matched: l.Matched, nlinks: len(links)}
		}
	}
	return specs, lo
}

func specKey(d dirSpec) string {
	if len(d.pid)+len(d.ctx) > 512 {
		// long protocol IDs / contexts (boundary scenarios): key by digest
		return fmt.Sprintf("b3:%x|%x|%x|%d", b3([]byte(d.pid)), b3(d.ctx), []byte(d.peer), d.tpt)
	}
	return fmt.Sprintf("%q|%x|%x|%d", d.pid, d.ctx, []byte(d.peer), d.tpt)
}

// presentDirs returns the present directive instances in id order.
func (n *node) presentDirs() []*dirState {
	n.mtx.Lock()
	defer n.mtx.Unlock()
	var l []*dirState
	for _, d := range n.dirs {
		l = append(l, d)
	}
	sort.Slice(l, func(i, j int) bool { return l[i].id < l[j].id })
	return l
}

// recvPairs: (directive id, stream id) for every value a directive reference received.
func (n *node) recvPairs() [][2]int {
	n.observeValues()
	n.mtx.Lock()
	defer n.mtx.Unlock()
	var ps [][2]int
	for _, ev := range n.recv {
		sid, ok := n.valStream[ev.val]
		if !ok {
			sid = -4 // value whose stream no accept revealed
		}
		ps = append(ps, [2]int{ev.dir, sid})
	}
	sort.Slice(ps, func(i, j int) bool {
		if ps[i][0] != ps[j][0] {
			return ps[i][0] < ps[j][0]
		}
		return ps[i][1] < ps[j][1]
	})
	return ps
}

// endOf returns side i's end of solicited stream s.
func (w *world) endOf(s, i int) *pipeEnd {
	w.mtx.Lock()
	defer w.mtx.Unlock()
	sr := w.streams[s]
	if sr.opener == i {
		return sr.p.ends[0]
	}
	return sr.p.ends[1]
}

func (w *world) closedAt(i int) []int {
	w.mtx.Lock()
	n := len(w.streams)
	w.mtx.Unlock()
	var l []int
	for s := 0; s < n; s++ {
		if w.endOf(s, i).isClosed() {
			l = append(l, s)
		}
	}
	return l
}

func (w *world) pendingReqs(i int) []string {
	w.mtx.Lock()
	defer w.mtx.Unlock()
	var l []string
	for _, r := range w.reqs {
		if r.side != i {
			continue
		}
		p := string(r.pid)
		if strings.HasPrefix(p, "solicit:") {
			p = p[len("solicit:"):]
		} else {
			p = "badpid(" + p + ")"
		}
		l = append(l, p)
	}
	sort.Strings(l)
	return l
}

func strList(l []string) string {
	if len(l) == 0 {
		return "_"
	}
	return strings.Join(l, ",")
}

// observe renders the observable state of the real system in the model's format.
func (w *world) observe() string {
	var sb strings.Builder
	var los [2]linkObs
	var dirsStr, earlyStr [2]string
	for i, n := range w.n {
		specs, lo := n.snapshot()
		los[i] = lo
		pres := n.presentDirs()
		have := map[string]int{}
		for _, s := range specs {
			have[specKey(s)]++
		}
		okd := len(specs) == len(pres)
		var ids, early []int
		for _, d := range pres {
			if have[specKey(d.spec)] == 0 {
				okd = false
			}
			have[specKey(d.spec)]--
			ids = append(ids, d.id)
			if d.early {
				early = append(early, d.id)
			}
		}
		if okd {
			dirsStr[i] = intList(ids)
		} else {
			dirsStr[i] = fmt.Sprintf("mismatch(registered=%d,present=%d)", len(specs), len(pres))
		}
		earlyStr[i] = intList(early)
	}
	sidOf := func(lo linkObs) string {
		if !lo.found {
			return "nolink"
		}
		return lib.Hex(lo.sid)
	}
	lower := "-"
	switch {
	case los[0].found && los[1].found && los[0].lower && los[1].lower:
		lower = "AB"
	case los[0].found && los[0].lower:
		lower = "A"
	case los[1].found && los[1].lower:
		lower = "B"
	}
	fmt.Fprintf(&sb, "ok sid=%s sidb=%s lower=%s", sidOf(los[0]), sidOf(los[1]), lower)
	for i, n := range w.n {
		p := strings.ToLower(n.name)
		sent, inflight, okw := w.wireLog(i)
		last := "_"
		if len(sent) > 0 {
			last = hexList(sent[len(sent)-1])
		}
		if !okw {
			last = "undecodable"
		}
		var inb []string
		for _, l := range inflight {
			inb = append(inb, hexList(l))
		}
		inbox := "_"
		if len(inb) > 0 {
			inbox = strings.Join(inb, "|")
		}
		w.mtx.Lock()
		arr := intList(w.arriving[i])
		w.mtx.Unlock()
		var rp []string
		for _, pr := range n.recvPairs() {
			rp = append(rp, fmt.Sprintf("%d:%d", pr[0], pr[1]))
		}
		fmt.Fprintf(&sb, " %s.dirs=%s %s.early=%s %s.sent=%s %s.remote=%s %s.matched=%s %s.pend=%s %s.inbox=%s %s.arr=%s %s.recv=%s %s.closed=%s",
			p, dirsStr[i], p, earlyStr[i], p, last, p, hexList(los[i].remote), p, strList(los[i].matched),
			p, strList(w.pendingReqs(i)), p, inbox, p, arr, p, strList(rp), p, intList(w.closedAt(i)))
	}
	w.mtx.Lock()
	var ss []string
	for _, sr := range w.streams {
		ss = append(ss, lib.Hex(sr.hash)+":"+sideName(sr.opener))
	}
	w.mtx.Unlock()
	fmt.Fprintf(&sb, " streams=%s", strList(ss))
	return sb.String()
}

// ---------------------------------------------------------------------------------------------
// direct statements (no bifrost code, no model)

// sessionDirect is BLAKE3(lower ‖ higher).
func sessionDirect(a, b []byte) []byte {
	if bytes.Compare(a, b) > 0 {
		a, b = b, a
	}
	return b3(append(append([]byte(nil), a...), b...))
}

func uvarint(v uint64) []byte {
	var out []byte
	for v >= 0x80 {
		out = append(out, byte(v)|0x80)
		v >>= 7
	}
	return append(out, byte(v))
}

// hashDirect is BLAKE3(session ‖ uvarint(len pid) ‖ pid ‖ ctx).
func hashDirect(sid []byte, pid string, ctx []byte) []byte {
	pre := append([]byte(nil), sid...)
	pre = append(pre, uvarint(uint64(len(pid)))...)
	pre = append(pre, pid...)
	pre = append(pre, ctx...)
	return b3(pre)
}

// admitsDirect: the directive's peer / transport constraints admit the link as side i sees it.
func (w *world) admitsDirect(d dirSpec, i int) bool {
	return (len(d.peer) == 0 || d.peer == w.peer[1-i]) && (d.tpt == 0 || d.tpt == w.tpt[i])
}

var _ = link_solicit.HashSize
