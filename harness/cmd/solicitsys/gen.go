package main

import (
	"encoding/hex"
	"fmt"
	"os"
	"strconv"
	"strings"
	"time"

	"github.com/aperturerobotics/bifrost/peer"
	"github.com/sirupsen/logrus"

	"verif/harness/lib"
)

func libDisagreement(op string, f finding) lib.Disagreement {
	return lib.Disagreement{Op: lib.Trunc(op), Monitor: "confirmed", What: f.what, Key: f.key, Branch: "monitor"}
}

func (e *engine) realisticID() peer.ID {
	return peer.ID(append([]byte{0x00, 0x24, 0x08, 0x01, 0x12, 0x20}, e.rng.Bytes(32)...))
}

// peerPairs: both orders (A lower / A higher), realistic and adversarial IDs, unequal lengths,
// one a prefix of the other.
func (e *engine) peerPair(k int) [2]peer.ID {
	sha := peer.ID(append([]byte{0x12, 0x20}, e.rng.Bytes(32)...))
	switch k % 8 {
	case 0:
		return [2]peer.ID{e.realisticID(), e.realisticID()}
	case 1:
		return [2]peer.ID{"P", "PQ"}
	case 2:
		return [2]peer.ID{"PQ", "P"}
	case 3:
		return [2]peer.ID{e.realisticID(), sha}
	case 4:
		return [2]peer.ID{sha, e.realisticID()}
	case 5:
		return [2]peer.ID{"\xff", "\x00\x01\x02"}
	case 6:
		return [2]peer.ID{"peer-aaa", "peer-aab"}
	default:
		return [2]peer.ID{"peer-b", "peer-a-longer"}
	}
}

// pool builds the directive universe of one side: same pid / other ctx, peer constraints that
// admit / do not admit, transport constraints that admit / do not admit, two directives with the
// same hash, two that differ in the transport constraint only, and one half of a boundary-ambiguous (pid, ctx) pair.
func (e *engine) pool(c cfg, side int) []dirSpec {
	remote, wrong := c.peers[1-side], c.pC
	right, wrongT := c.tpt[side], uint64(999)
	all := []dirSpec{
		{"p1", nil, "", 0},
		{"p1", []byte("c1"), "", 0},
		{"p2", nil, remote, 0},
		{"p1", nil, remote, right}, // same hash as the first one
		{"p2", nil, wrong, 0},      // peer constraint does not admit the link
		{"p1", []byte("c1"), "", wrongT},
		{"p3", []byte("x"), "", right},
		{"p3", []byte("x"), remote, 0},
		{"p2", nil, remote, right}, // differs from the third one in the transport constraint ONLY (C37: the bus must not merge them)
	}
	// separator-ambiguous solicitations: one half on each side — and, every other scenario, BOTH
	// halves (and the un-split string) on ONE node while the peer solicits one of them: whatever the
	// controller keeps per link between two resolutions (a memo keyed by pid‖ctx, …) is then shared
	// by solicitations that must never be confused
	if side == 0 {
		all = append(all, dirSpec{"ab", []byte("c"), "", 0})
	} else {
		all = append(all, dirSpec{"a", []byte("bc"), "", 0})
	}
	if c.ambig {
		if side == 0 {
			all = append(all, dirSpec{"a", []byte("bc"), "", 0})
		} else {
			all = append(all, dirSpec{"ab", []byte("c"), "", 0})
		}
		all = append(all, dirSpec{"abc", nil, "", 0})
	}
	// constraint classes honest configurations never use: the LOCAL peer as the peer constraint (admits
	// no link: the remote peer of a link is never the local one) and the transport uuid under which
	// the OTHER end mounted the link (admits only if equal to ours)
	all = append(all, dirSpec{"p1", nil, c.peers[side], 0}, dirSpec{"p2", nil, "", c.tpt[1-side]})
	// always the first five, plus a random subset of the rest
	out := append([]dirSpec(nil), all[:5]...)
	for _, d := range all[5:] {
		if e.rng.Intn(3) != 0 {
			out = append(out, d)
		}
	}
	return out
}

func (e *engine) randomScenario(k int) scen {
	c := cfg{peers: e.peerPair(k), pC: "third-peer-C", uuid: 100 + uint64(e.rng.Intn(1000))*10}
	if k%2 == 1 {
		c.ambig = true // both halves of the separator-ambiguous pair on each node
		e.rep.Branches["pool.ambiguous-one-node"]++
	}
	c.tpt = [2]uint64{uint64(1 + e.rng.Intn(50)), uint64(60 + e.rng.Intn(50))}
	c.max = [2]uint32{256, 256}
	if k%5 == 3 {
		c.max[e.rng.Intn(2)] = uint32(2 + e.rng.Intn(2))
		if e.rng.Intn(2) == 0 {
			c.max[e.rng.Intn(2)] = uint32(1 + e.rng.Intn(3))
		}
	}
	c.lateLink = k%4 == 1
	c.stub = k%2 == 0
	c.removeLink = k%3 == 0 && !c.lateLink
	sc := scen{label: fmt.Sprintf("s%d", k), c: c, steps: 25 + e.rng.Intn(25)}
	for side := 0; side < 2; side++ {
		sc.pool[side] = e.pool(c, side)
		if k%3 == 1 {
			for i := range sc.pool[side] {
				if e.rng.Intn(4) == 0 {
					sc.pre[side] = append(sc.pre[side], i)
				}
			}
		}
	}
	return sc
}

// witnesses: the histories of the refuted theorems of Props/C30Sys.lean, replayed on the real
// controllers every run.
func (e *engine) witnesses() []scen {
	mk := func(label string, poolA, poolB []dirSpec, script []string) scen {
		c := cfg{peers: [2]peer.ID{"\x01", "\x02"}, pC: "third-peer-C", uuid: 4242, tpt: [2]uint64{7, 8}, max: [2]uint32{4, 4}}
		return scen{label: label, c: c, pool: [2][]dirSpec{poolA, poolB}, script: script}
	}
	d := dirSpec{"\x05", []byte{6}, "", 0}
	dPeer := dirSpec{"\x05", []byte{6}, "\x02", 0}
	first := []string{"a0:0", "a1:0", "d0", "d1", "o0", "v1", "q"}
	return []scen{
		// matched_iff_quiescent_false: a second solicitation for the same protocol and context, added later
		mk("witness-late", []dirSpec{d, dPeer}, []dirSpec{d}, append(append([]string(nil), first...), "a0:1", "q")),
		// resolicit_never_matched: both peers drop the solicitation and issue it again
		mk("witness-again", []dirSpec{d}, []dirSpec{d}, append(append([]string(nil), first...), "r0:0", "r1:0", "q", "a0:0", "a1:0", "q")),
		// non-vacuity example: a stream arriving after its solicitation was dropped is closed
		mk("witness-dropped", []dirSpec{d}, []dirSpec{d}, []string{"a0:0", "a1:0", "d0", "d1", "o0", "r1:0", "v1", "q"}),
		// the opener's own solicitation is dropped between the match and the open: closed by the opener
		mk("witness-opener-dropped", []dirSpec{d}, []dirSpec{d}, []string{"a0:0", "a1:0", "d0", "d1", "r0:0", "o0", "v1", "q"}),
	}
}

// boundaryScenarios: the two halves of a boundary-ambiguous (pid, ctx) pair whose protocol-ID
// lengths differ by m·2^14 / m·2^16 (where 2-byte-uvarint / 16-bit length prefixes wrap), split
// across the two sides, plus a control pair that must match. With a wrapping length prefix the two
// halves get one hash, are exchanged, matched and handed a stream (monitor solicitsys.match:unsound).
func (e *engine) boundaryScenarios() []scen {
	var out []scen
	for _, c := range []struct {
		label string
		shift int
	}{{"boundary-2^14", 1 << 14}, {"boundary-2^16", 1 << 16}, {"boundary-2x2^16", 2 << 16}} {
		k := 1 + e.rng.Intn(9)
		p := e.rng.Bytes(c.shift + k + 40)
		long := dirSpec{string(p[:c.shift+k]), p[c.shift+k:], "", 0}
		short := dirSpec{string(p[:k]), p[k:], "", 0}
		control := dirSpec{"boundary/control", []byte("c"), "", 0}
		pools := [2][]dirSpec{{long, control}, {short, control}}
		if e.rng.Intn(2) == 0 {
			pools = [2][]dirSpec{{short, control}, {long, control}}
		}
		cf := cfg{peers: e.peerPair(e.rng.Intn(8)), pC: "third-peer-C", uuid: 5150, tpt: [2]uint64{7, 8}, max: [2]uint32{8, 8}}
		out = append(out, scen{label: c.label, c: cf, pool: pools, script: []string{"a0:0", "a1:0", "q", "a0:1", "a1:1", "q"}, long: true, free: c.shift > 1<<14})
	}
	return out
}

// ambiguityScenarios: ONE node holds separator-ambiguous solicitations (("ab","c"), ("a","bc"),
// ("abc","")) while its peer solicits them one after the other. Repeated with the roles swapped and
// under several peer pairs: the controller walks its directive set in map order, so which of the
// two halves is looked at first differs from run to run.
func (e *engine) ambiguityScenarios() []scen {
	var out []scen
	trip := func(a, b, c string) []dirSpec {
		return []dirSpec{{a + b, []byte(c), "", 0}, {a, []byte(b + c), "", 0}, {a + b + c, nil, "", 0}}
	}
	for k := 0; k < 6; k++ {
		holder := k % 2
		t := trip("a", "b", "c")
		if k >= 2 {
			x := e.rng.Bytes(3 + e.rng.Intn(6))
			i := 1 + e.rng.Intn(len(x)-2)
			j := i + 1 + e.rng.Intn(len(x)-i-1)
			t = trip(string(x[:i]), string(x[i:j]), string(x[j:]))
		}
		var pools [2][]dirSpec
		pools[holder] = t
		pools[1-holder] = t
		h, p := holder, 1-holder
		// the holder has all three; the peer solicits them one by one
		script := []string{fmt.Sprintf("a%d:0", h), fmt.Sprintf("a%d:1", h), fmt.Sprintf("a%d:2", h), fmt.Sprintf("a%d:%d", p, k%3), "q",
			fmt.Sprintf("a%d:%d", p, (k+1)%3), "q", fmt.Sprintf("a%d:%d", p, (k+2)%3), "q"}
		cf := cfg{peers: e.peerPair(e.rng.Intn(8)), pC: "third-peer-C", uuid: 6160, tpt: [2]uint64{7, 8}, max: [2]uint32{8, 8}}
		out = append(out, scen{label: fmt.Sprintf("ambiguous-one-node-%d", k), c: cf, pool: pools, script: script})
	}
	return out
}

// bulkScenario: hundreds of solicitations per side — the lists approach what one exchange message
// can carry (maxMessageSize = 16 KiB; 34 bytes per hash on the wire) and maxHashes (256 by
// default; configurable). Three solicitations are common to both sides.
func (e *engine) bulkScenario(label string, nA, nB int, max uint32) scen {
	cf := cfg{peers: e.peerPair(e.rng.Intn(8)), pC: "third-peer-C", uuid: 7170, tpt: [2]uint64{7, 8}, max: [2]uint32{max, max}}
	sc := scen{label: label, c: cf, bulk: true}
	common := []dirSpec{{"bulk/common-1", nil, "", 0}, {"bulk/common-2", []byte("c"), "", 0}, {"bulk/common-3", []byte{0}, "", 0}}
	for side, n := range []int{nA, nB} {
		sc.pool[side] = append(sc.pool[side], common...)
		for i := 0; i < n; i++ {
			sc.pool[side] = append(sc.pool[side], dirSpec{fmt.Sprintf("bulk/%s/%d", sideName(side), i), nil, "", 0})
		}
		for i := range sc.pool[side] {
			sc.pre[side] = append(sc.pre[side], i)
		}
	}
	sc.script = []string{"q"}
	return sc
}

// wireCapacity: maxHashes is configurable, the size of an exchange message is not. With a raised
// limit and more solicitations than fit one 16 KiB message the lists must still be exchanged (or
// capped) — not rejected by the peer's reader, which ends the exchange on the link for good.
// Model-free: the real system is drained and the completeness clause judges it.
func (e *engine) wireCapacity() {
	sc := e.bulkScenario("bulk-over-message-size", 500, 500, 600)
	sc.free = true
	e.runScenario(sc)
	e.rep.Branches["bulk.fits"]++
}

func main() {
	a := lib.ParseArgs()
	log := logrus.New()
	log.SetLevel(logrus.PanicLevel)
	log.SetOutput(os.Stderr)
	e := &engine{a: a, rng: lib.NewRng(a.Seed), m: lib.NewModel(a.Driver), le: logrus.NewEntry(log), orc: map[string][]byte{}}
	e.rep = lib.NewReport("solicitsys", a)
	if ms, err := strconv.Atoi(os.Getenv("VERIF_WAIT_MS")); err == nil && ms > 0 {
		waitLimit = time.Duration(ms) * time.Millisecond
	}
	switch a.Prop {
	case "C30", "C31", "C32":
	default:
		fmt.Println("unknown property", a.Prop)
		return
	}
	e.rep.Rule = "two real solicitation controllers on two real controller buses joined by a fake link pair (in-memory stream pipes; each side sees its own local/remote peer, link uuid, transport uuid; optional second link to a third peer; link learnt from EstablishLinkWithPeer or from the incoming control stream); 8 peer-id pair classes in both orders incl. unequal lengths and prefix pairs; per side 5-9 SolicitProtocol directives (same pid / other ctx, peer and transport constraints admitting and not admitting, two directives with one hash, a boundary-ambiguous (pid, ctx) pair split across the sides; scripted: pairs whose protocol-ID lengths differ by 2^14, 2^16, 2·2^16 — where fixed-width / truncated length prefixes wrap — split across the sides next to a control pair) added and removed over time, some before the link comes up; maxHashes 256 or 1-3 (truncation); seeded random schedules of add / remove / deliver exchange / let an OpenMountedStream proceed / stream arrives, compared with the Lean model after EVERY step and checked by the model-independent monitors at every quiescent point; the witness histories of the refuted theorems replayed every run; HUB MODE: one real controller with 2–3 links to different peers (same transport uuid / different ones; hub lower, higher or in between; links coming up at different times, before and after the solicitations), hub solicitations constrained to each spoke / each transport / a wrong peer, compared per link with Bifrost.SolicitHub after every step, per-link monitors (a solicitation not admitting link L never receives a stream on L and its hash is never on L's wire; one admitting it is offered and connected); probes: undecodable hash, untracked link, removed link; wave 3: PARALLEL links (two links of the hub ending at one spoke node), links REMOVED on both ends and RE-ESTABLISHED with the same uuid (a new link index of the model; removal clauses stated directly), one node holding separator-ambiguous solicitations while its peer solicits them one by one (scripted, both roles; both halves in every other random pool and in the hub's pool), constraint classes local-peer / remote-transport-uuid, 300-500 solicitations per side against maxHashes 256 / 400 / 600 and the 16 KiB message, completeness exemption only for solicitations added after the stream of their hash was resolved on their side, model-free continuation of EVERY scenario whose comparison fails; distinct = distinct op line"
	e.rep.Require("add", "remove", "deliver", "open", "arrive", "arrive.closed", "quiescent", "final", "linkup",
		"match.multi", "ends", "preadd", "truncated", "reexchange", "open.closed", "lower.A", "lower.B", "latelink", "stub", "probe.badhex", "probe.unknownlink", "linkremoved", "boundary.long", "free.connected", "known.late")
	if a.Prop != "C30" {
		// the late-solicitation clause is a C30 monitor
		e.rep.Required = e.rep.Required[:len(e.rep.Required)-1]
	}
	for _, sc := range e.witnesses() {
		e.runScenario(sc)
	}
	bnd := e.boundaryScenarios()
	if a.Prop != "C30" {
		// boundary-ambiguous (pid, ctx) pairs are a C30 matter; the draws above keep the PRNG stream aligned
		bnd = nil
		e.rep.Branches["boundary.long"]++
		e.rep.Branches["free.connected"]++
	}
	for _, sc := range bnd {
		t0 := time.Now()
		e.runScenario(sc)
		if os.Getenv("VERIF_DEBUG") != "" {
			fmt.Fprintf(os.Stderr, "boundary scenario %s: %v\n", sc.label, time.Since(t0))
		}
		e.rep.Branches["boundary.long"]++
		// the 16–128 KiB preimages of these scenarios are not carried along in later oracle tables
		for k := range e.orc {
			if len(k) > 8192 {
				delete(e.orc, k)
			}
		}
	}
	if a.Prop == "C30" {
		e.rep.Require("ambiguous.scenario", "pool.ambiguous-one-node", "bulk.scenario", "bulk.fits")
		for _, sc := range e.ambiguityScenarios() {
			e.runScenario(sc)
			e.rep.Branches["ambiguous.scenario"]++
		}
		// 300 solicitations per side under the default limit (truncation to 256 sorted hashes), and 300
		// under a configured limit of 400 (no truncation: every common solicitation must be matched)
		for _, sc := range []scen{e.bulkScenario("bulk-default-limit", 300, 280, 256), e.bulkScenario("bulk-raised-limit", 300, 300, 400)} {
			t0 := time.Now()
			e.runScenario(sc)
			e.rep.Branches["bulk.scenario"]++
			if os.Getenv("VERIF_DEBUG") != "" {
				fmt.Fprintf(os.Stderr, "bulk scenario %s: %v\n", sc.label, time.Since(t0))
			}
			for k := range e.orc {
				if strings.Contains(k, hex.EncodeToString([]byte("bulk/A/"))) || strings.Contains(k, hex.EncodeToString([]byte("bulk/B/"))) {
					delete(e.orc, k)
				}
			}
		}
		e.wireCapacity()
	}
	// hub mode: one controller with 2–3 links (Bifrost.SolicitHub)
	e.rep.Require("hub.scenario", "hub.linkup", "hub.add", "hub.remove", "hub.deliver", "hub.open", "hub.arrive", "hub.final", "hub.quiescent",
		"hub.same-transport", "hub.other-transport", "hub.three-links", "hub.connected", "hub.ends", "hub.parallel-links", "hub.linkdown", "hub.relink")
	nh := 7
	if a.Scale > 1 {
		nh = 60
	}
	hubFailed := 0
	for _, sc := range e.hubScenarios(nh) {
		if hubFailed >= 4 {
			break
		}
		before := len(e.rep.Disagreements)
		t0 := time.Now()
		e.runHub(sc)
		if os.Getenv("VERIF_DEBUG") != "" {
			fmt.Fprintf(os.Stderr, "hub scenario %s: %v, %d model queries so far\n", sc.label, time.Since(t0), e.m.N)
		}
		for _, d := range e.rep.Disagreements[before:] {
			if d.Key != "solicitsys.match:late-solicitation" {
				hubFailed++
				break
			}
		}
	}
	n := 36
	if a.Scale > 1 {
		n = 240 // thorough
	}
	failed := 0
	for k := 0; k < n && failed < 6; k++ {
		before := len(e.rep.Disagreements)
		t0 := time.Now()
		e.runScenario(e.randomScenario(k))
		if os.Getenv("VERIF_DEBUG") != "" {
			fmt.Fprintf(os.Stderr, "scenario s%d: %v\n", k, time.Since(t0))
		}
		for _, d := range e.rep.Disagreements[before:] {
			if d.Key != "solicitsys.match:late-solicitation" {
				failed++
				break
			}
		}
	}
	e.m.Close()
	e.rep.Write(a.Out)
}
