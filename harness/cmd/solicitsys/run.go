package main

import (
	"bytes"
	"encoding/hex"
	"fmt"
	"os"
	"sort"
	"strings"
	"time"

	link_solicit "github.com/aperturerobotics/bifrost/link/solicit"
	"github.com/aperturerobotics/bifrost/protocol"

	"verif/harness/lib"
	"verif/harness/quiet"
)

type scen struct {
	label  string
	c      cfg
	pool   [2][]dirSpec
	pre    [2][]int // pool indices added before the link comes up
	steps  int      // random steps
	script []string // scripted steps (instead of random ones)
	long   bool     // directives with 16–128 KiB protocol IDs: op lines are abbreviated in the report
	bulk   bool     // hundreds of directives: op lines are abbreviated in the report
	free   bool     // no model comparison at all (64–128 KiB protocol IDs: a model query per step costs seconds): real-enabled actions + the model-independent monitors only
}

// run state of one scenario
type runner struct {
	e        *engine
	w        *world
	sc       scen
	ops      []string
	linkUp   bool
	byPool   [2]map[int]int // pool index -> present directive id
	kvs      map[string]string
	q        bool
	failed   bool
	hits     map[string]bool
	last     string // last model line
	endsDone map[int]bool
	freeDone bool
}

func kvmap(ans string) map[string]string {
	m := map[string]string{}
	for _, t := range strings.Split(ans, " ") {
		if i := strings.IndexByte(t, '='); i > 0 {
			m[t[:i]] = t[i+1:]
		}
	}
	return m
}

func sidePfx(i int) string { return strings.ToLower(sideName(i)) }

// check compares the real system with the model after the ops so far.
func (r *runner) check(branch string) bool {
	line, ans := r.e.query(r.sc.c, r.ops)
	r.last = line
	want := canon(ans)
	got := ""
	// wait until the real system shows the model's state — or has been at rest in ANOTHER state for
	// a while (nothing runnable, observation unchanged for ≥ 400 ms): then it will not get there
	lastObs, since := "", time.Now()
	waitUntil(func() bool {
		got = r.w.observe()
		if got == want {
			return true
		}
		if got != lastObs || quiet.Busy() != 0 {
			lastObs, since = got, time.Now()
			return false
		}
		return time.Since(since) > 400*time.Millisecond
	})
	r.kvs = kvmap(ans)
	r.q = r.kvs["q"] == "1"
	mon, key := "", "solicitsys.step:"+branch
	if got != want {
		// is the difference a violation of the property, seen without the model?
		mon, key = r.stepMonitor()
		r.failed = true
		if os.Getenv("VERIF_DEBUG") != "" {
			gw, gg := strings.Split(want, " "), strings.Split(got, " ")
			for i := range gw {
				if i < len(gg) && gw[i] != gg[i] {
					fmt.Fprintf(os.Stderr, "%s %s: model %s | impl %s\n", r.sc.label, branch, gw[i], gg[i])
				}
			}
		}
	}
	if r.sc.bulk && len(line) > 3000 {
		line = line[:1200] + "…[abbreviated: " + fmt.Sprint(len(r.ops)) + " ops; the directives are bulk/A/<i>, bulk/B/<i> and bulk/common-1..3]…" + line[len(line)-300:]
		r.last = line
	}
	if r.sc.long && len(line) > 3000 {
		line = line[:1500] + "…[abbreviated: protocol IDs / contexts of 16–128 KiB, PRNG bytes of this seed]…" + line[len(line)-300:]
		r.last = line
	}
	r.e.rep.Compare(r.sc.label+" "+line, want, got, branch, key, mon)
	return got == want
}

// ---------------------------------------------------------------------------------------------
// environment actions

func (r *runner) addDir(side, k int) {
	n := r.w.n[side]
	spec := r.sc.pool[side][k]
	sid := sessionDirect([]byte(r.w.peer[0]), []byte(r.w.peer[1]))
	h := hashDirect(sid, spec.pid, spec.ctx)
	sent, _, _ := r.w.wireLog(side)
	early := true
	for _, l := range sent {
		for _, x := range l {
			if bytes.Equal(x, h) {
				early = false
			}
		}
	}
	late := false
	r.w.mtx.Lock()
	for s, sr := range r.w.streams {
		if !bytes.Equal(sr.hash, h) {
			continue
		}
		inFlight := false
		for _, x := range r.w.arriving[side] {
			inFlight = inFlight || x == s
		}
		if sr.opener == side || !inFlight {
			late = true
		}
	}
	r.w.mtx.Unlock()
	n.mtx.Lock()
	id := n.nextDir
	n.nextDir++
	ds := &dirState{id: id, spec: spec, early: early, late: late, n: n}
	n.dirs[id] = ds
	n.mtx.Unlock()
	di, ref, err := n.tb.Bus.AddDirective(link_solicit.NewSolicitProtocol(protocol.ID(spec.pid), spec.ctx, spec.peer, spec.tpt), ds)
	if err != nil {
		panic(err)
	}
	ds.di, ds.ref = di, ref
	r.byPool[side][k] = id
	r.ops = append(r.ops, fmt.Sprintf("a%s:%s:%s:%s:%d", sideName(side), lib.Hex([]byte(spec.pid)), lib.Hex(spec.ctx), lib.Hex([]byte(spec.peer)), spec.tpt))
	if r.linkUp {
		r.ops = append(r.ops, "s"+sideName(side))
	}
}

func (r *runner) removeDir(side, k int) {
	n := r.w.n[side]
	id := r.byPool[side][k]
	delete(r.byPool[side], k)
	n.mtx.Lock()
	ds := n.dirs[id]
	delete(n.dirs, id)
	n.gone[id] = ds
	n.mtx.Unlock()
	ds.di.Close()
	r.ops = append(r.ops, fmt.Sprintf("r%s:%d", sideName(side), id))
	if r.linkUp {
		r.ops = append(r.ops, "s"+sideName(side))
	}
}

func (r *runner) deliver(side int) {
	w := r.w
	w.mtx.Lock()
	p, from := w.ctrl, w.ctrlFrom
	w.mtx.Unlock()
	ei := 0
	if from != side {
		ei = 1
	}
	p.deliver(ei)
	r.ops = append(r.ops, "d"+sideName(side))
}

// open lets the pending OpenMountedStream("solicit:<hashHex>") call of side proceed.
func (r *runner) open(side int, hashHex string) {
	w := r.w
	w.mtx.Lock()
	var req *openReq
	for i, q := range w.reqs {
		if q.side == side && string(q.pid) == "solicit:"+hashHex {
			req = q
			w.reqs = append(w.reqs[:i], w.reqs[i+1:]...)
			break
		}
	}
	if req == nil {
		w.mtx.Unlock()
		panic("open: no such request")
	}
	id := len(w.streams)
	p := newPipe(false, id)
	hb, _ := hex.DecodeString(hashHex)
	w.streams = append(w.streams, &streamRec{hash: hb, opener: side, p: p})
	w.arriving[1-side] = append(w.arriving[1-side], id)
	w.mtx.Unlock()
	req.release <- &fakeMS{strm: p.ends[0], pid: req.pid, ml: req.ml, peer: req.ml.remote}
	r.ops = append(r.ops, fmt.Sprintf("o%s:%s", sideName(side), hashHex))
}

func (r *runner) arrive(side, s int) {
	w := r.w
	w.mtx.Lock()
	for i, x := range w.arriving[side] {
		if x == s {
			w.arriving[side] = append(w.arriving[side][:i], w.arriving[side][i+1:]...)
			break
		}
	}
	sr := w.streams[s]
	w.mtx.Unlock()
	pid := protocol.ID("solicit:" + hex.EncodeToString(sr.hash))
	if res := w.n[side].dispatch(pid, sr.p.ends[1]); res != "ok" {
		w.mtx.Lock()
		w.viol = append(w.viol, "incoming solicited stream was not handled: "+res)
		w.mtx.Unlock()
	}
	r.ops = append(r.ops, fmt.Sprintf("v%s:%d", sideName(side), s))
}

func splitList(s string) []string {
	if s == "_" || s == "" {
		return nil
	}
	return strings.Split(s, ",")
}

// enabled lists the environment actions the model state allows, as tokens.
func (r *runner) enabledNet() []string {
	var l []string
	for i := 0; i < 2; i++ {
		p := sidePfx(i)
		if r.kvs[p+".inbox"] != "_" {
			l = append(l, fmt.Sprintf("d%d", i))
		}
		for _, h := range splitList(r.kvs[p+".pend"]) {
			l = append(l, fmt.Sprintf("o%d:%s", i, h))
		}
		for _, s := range splitList(r.kvs[p+".arr"]) {
			l = append(l, fmt.Sprintf("v%d:%s", i, s))
		}
	}
	return l
}

// do performs one step token and checks. Tokens: a<side>:<k> r<side>:<k> d<side> o<side>:<hash>
// v<side>:<s>.
func (r *runner) do(tok string) bool {
	var side, k int
	switch tok[0] {
	case 'a':
		fmt.Sscanf(tok[1:], "%d:%d", &side, &k)
		if _, ok := r.byPool[side][k]; ok {
			return true
		}
		r.addDir(side, k)
		return r.check("add")
	case 'r':
		fmt.Sscanf(tok[1:], "%d:%d", &side, &k)
		if _, ok := r.byPool[side][k]; !ok {
			return true
		}
		r.removeDir(side, k)
		return r.check("remove")
	case 'd':
		fmt.Sscanf(tok[1:], "%d", &side)
		r.deliver(side)
		return r.check("deliver")
	case 'o':
		side = int(tok[1] - '0')
		hh := tok[3:]
		before := r.kvs[sidePfx(side)+".closed"]
		r.open(side, hh)
		ok := r.check("open")
		if ok && r.kvs[sidePfx(side)+".closed"] != before {
			r.e.rep.Branches["open.closed"]++
		}
		return ok
	case 'v':
		fmt.Sscanf(tok[1:], "%d:%d", &side, &k)
		before := r.kvs[sidePfx(side)+".closed"]
		r.arrive(side, k)
		ok := r.check("arrive")
		if ok && r.kvs[sidePfx(side)+".closed"] != before {
			r.e.rep.Branches["arrive.closed"]++
		}
		return ok
	}
	panic("bad token " + tok)
}

// drain runs network actions until the model is quiescent.
func (r *runner) drain() bool {
	for i := 0; i < 400; i++ {
		en := r.enabledNet()
		if len(en) == 0 {
			return true
		}
		if !r.do(en[r.e.rng.Intn(len(en))]) {
			return false
		}
	}
	return false
}

// ---------------------------------------------------------------------------------------------

func (r *runner) linkSetup() bool {
	w, c := r.w, r.sc.c
	lowerSide := 0
	if bytes.Compare([]byte(c.peers[0]), []byte(c.peers[1])) > 0 {
		lowerSide = 1
	}
	r.e.rep.Branches["lower."+sideName(lowerSide)]++
	order := []int{0, 1}
	if r.e.rng.Intn(2) == 0 {
		order = []int{1, 0}
	}
	if c.stub {
		r.e.rep.Branches["stub"]++
		for _, i := range order {
			if _, err := w.n[i].addLinkValue(w.n[i].stubML); err != nil {
				panic(err)
			}
		}
	}
	for _, i := range order {
		if c.lateLink && i != lowerSide {
			continue // learns the link from the incoming control stream
		}
		id, err := w.n[i].addLinkValue(w.n[i].ml)
		if err != nil {
			panic(err)
		}
		w.n[i].linkVal = id
	}
	if c.lateLink {
		r.e.rep.Branches["latelink"]++
	}
	r.linkUp = true
	r.ops = append(r.ops, "sA", "sB")
	if !r.check("linkup") {
		return false
	}
	if c.lateLink && r.e.rng.Intn(2) == 0 {
		// the directive-borne link value arrives later: addLink must be a no-op
		id, err := w.n[1-lowerSide].addLinkValue(w.n[1-lowerSide].ml)
		if err != nil {
			panic(err)
		}
		w.n[1-lowerSide].linkVal = id
		return r.check("linkup")
	}
	return true
}

// realEnabled lists the environment actions the REAL system offers (no model): control packets
// in flight, open requests waiting, opened streams not yet dispatched.
func (r *runner) realEnabled() []string {
	w := r.w
	var l []string
	w.mtx.Lock()
	p, from := w.ctrl, w.ctrlFrom
	for _, q := range w.reqs {
		if strings.HasPrefix(string(q.pid), "solicit:") {
			l = append(l, fmt.Sprintf("o%d:%s", q.side, string(q.pid)[len("solicit:"):]))
		}
	}
	for i := 0; i < 2; i++ {
		for _, s := range w.arriving[i] {
			l = append(l, fmt.Sprintf("v%d:%d", i, s))
		}
	}
	w.mtx.Unlock()
	if p != nil {
		p.mtx.Lock()
		for i := 0; i < 2; i++ {
			ei := 0
			if from != i {
				ei = 1
			}
			if len(p.pending[ei]) > 0 {
				l = append(l, fmt.Sprintf("d%d", i))
			}
		}
		p.mtx.Unlock()
	}
	sort.Strings(l)
	return l
}

// settleReal waits until the real system has come to rest: the observation and the offered
// actions unchanged, and no goroutine runnable, for several samples.
func (r *runner) settleReal() {
	last, stable := "", 0
	deadline := time.Now().Add(waitLimit)
	for stable < 4 && time.Now().Before(deadline) {
		time.Sleep(300 * time.Microsecond)
		cur := r.w.observe() + strings.Join(r.realEnabled(), ",")
		if cur == last && quiet.Busy() == 0 {
			stable++
		} else {
			stable, last = 0, cur
		}
	}
}

// freeRun continues a scripted scenario after the model comparison failed: directive changes of
// the remaining script are performed, "q" drains the real system (every action it offers, in a
// seeded random order), and the safety / settled monitors — which use no model and no hash
// format — are evaluated on what the real controllers did.
func (r *runner) freeRun(rest []string) {
	r.freeDone = true
	r.e.rep.Branches["freerun"]++
	drain := func() {
		for i := 0; i < 300; i++ {
			r.settleReal()
			en := r.realEnabled()
			if len(en) == 0 {
				return
			}
			tok := en[r.e.rng.Intn(len(en))]
			var side, k int
			switch tok[0] {
			case 'd':
				fmt.Sscanf(tok[1:], "%d", &side)
				r.deliver(side)
			case 'o':
				r.open(int(tok[1]-'0'), tok[3:])
			case 'v':
				fmt.Sscanf(tok[1:], "%d:%d", &side, &k)
				r.arrive(side, k)
			}
		}
	}
	for _, tok := range append(append([]string(nil), rest...), "q") {
		var side, k int
		switch tok[0] {
		case 'a':
			fmt.Sscanf(tok[1:], "%d:%d", &side, &k)
			if _, ok := r.byPool[side][k]; !ok {
				r.addDir(side, k)
			}
		case 'r':
			fmt.Sscanf(tok[1:], "%d:%d", &side, &k)
			if _, ok := r.byPool[side][k]; ok {
				r.removeDir(side, k)
			}
		case 'q':
			drain()
			r.monitorsFree(r.sc.label + " (free run after the model comparison failed)")
		default:
			drain()
		}
	}
}

func (e *engine) runScenario(sc scen) {
	w, err := e.newWorld(sc.c)
	if err != nil {
		panic(err)
	}
	defer w.close()
	r := &runner{e: e, w: w, sc: sc, hits: map[string]bool{}, endsDone: map[int]bool{}}
	r.byPool[0], r.byPool[1] = map[int]int{}, map[int]int{}
	// when the comparison with the model fails, the run does not stop at the disagreement: the real
	// system is drained on its own offers and judged by the monitors that use no model
	defer func() {
		if r.failed && !r.freeDone && r.linkUp {
			r.freeRun(nil)
		}
	}()
	for side := 0; side < 2; side++ {
		for _, k := range sc.pre[side] {
			r.addDir(side, k)
		}
	}
	if len(r.ops) > 0 {
		r.e.rep.Branches["preadd"]++ // checked together with the first exchange, at link-up
		// the resolvers of these directives must have registered them before the control loops start
		waitUntil(func() bool {
			for _, n := range w.n {
				specs, _ := n.snapshot()
				if len(specs) != len(n.presentDirs()) {
					return false
				}
			}
			return true
		})
	}
	if sc.free {
		for _, i := range []int{0, 1} {
			id, err := w.n[i].addLinkValue(w.n[i].ml)
			if err != nil {
				panic(err)
			}
			w.n[i].linkVal = id
		}
		r.linkUp = true
		r.last = fmt.Sprintf("%s (model-free: peers %x / %x, script %s)", sc.label, []byte(sc.c.peers[0]), []byte(sc.c.peers[1]), strings.Join(sc.script, " "))
		r.freeRun(sc.script)
		return
	}
	if !r.linkSetup() {
		return
	}
	if r.q {
		r.monitors("linkup")
	}
	if sc.script != nil {
		for i, tok := range sc.script {
			ok := true
			if r.failed && sc.long {
				// the model no longer describes the run: drive the real system on its own
				// observations and let the model-independent monitors judge it
				r.freeRun(sc.script[i:])
				return
			}
			switch {
			case tok == "q":
				ok = r.drain()
				if ok {
					r.monitors(sc.label)
				}
			case tok[0] == 'o' && len(tok) == 2:
				// first pending open of that side
				side := int(tok[1] - '0')
				ok = r.do(fmt.Sprintf("o%d:%s", side, splitList(r.kvs[sidePfx(side)+".pend"])[0]))
			case tok[0] == 'v' && len(tok) == 2:
				side := int(tok[1] - '0')
				ok = r.do(fmt.Sprintf("v%d:%s", side, splitList(r.kvs[sidePfx(side)+".arr"])[0]))
			default:
				ok = r.do(tok)
			}
			if !ok {
				if sc.long {
					r.freeRun(sc.script[i+1:])
				}
				return
			}
		}
	} else {
		for i := 0; i < sc.steps; i++ {
			en := r.enabledNet()
			var tok string
			if len(en) > 0 && e.rng.Intn(100) < 62 {
				tok = en[e.rng.Intn(len(en))]
			} else {
				side := e.rng.Intn(2)
				k := e.rng.Intn(len(sc.pool[side]))
				if _, ok := r.byPool[side][k]; ok {
					if e.rng.Intn(100) < 45 {
						tok = fmt.Sprintf("r%d:%d", side, k)
					} else {
						continue
					}
				} else {
					tok = fmt.Sprintf("a%d:%d", side, k)
				}
			}
			if !r.do(tok) {
				return
			}
			if r.q {
				r.monitors("quiescent")
			}
			if i%9 == 8 {
				if !r.drain() {
					return
				}
				r.monitors("quiescent")
			}
		}
	}
	if !r.drain() {
		return
	}
	// settle: anything the controllers still do on their own shows up in the final comparison
	time.Sleep(3 * time.Millisecond)
	if !r.check("final") {
		return
	}
	r.monitors("quiescent")
	r.probes()
}

// probes: streams the controller must refuse.
func (r *runner) probes() {
	w, e := r.w, r.e
	side := e.rng.Intn(2)
	n := w.n[side]
	before := len(n.recvPairs())
	// (1) a solicited stream whose protocol id does not carry a hex hash
	p1 := newPipe(false, -1)
	res := n.dispatch(protocol.ID("solicit:zz-not-hex"), p1.ends[1])
	closed := waitUntil(p1.ends[1].isClosed)
	mon := ""
	if !closed || len(n.recvPairs()) != before {
		mon = fmt.Sprintf("a solicited stream with an undecodable hash was not refused (dispatch=%s closed=%v)", res, closed)
	}
	e.rep.Compare(r.sc.label+" probe badhex side="+sideName(side), "closed", b2s(closed), "probe.badhex", "solicitsys.probe:badhex", mon)
	// (2) a solicited stream for an offered hash arriving on a link the controller does not track
	var hash []byte
	if sent, _, _ := w.wireLog(side); len(sent) > 0 && len(sent[len(sent)-1]) > 0 {
		hash = sent[len(sent)-1][0]
	} else {
		hash = hashDirect(sessionDirect([]byte(w.peer[0]), []byte(w.peer[1])), "p1", nil)
	}
	unknown := &fakeML{n: n, uuid: w.uuid + 77, tpt: w.tpt[side], local: w.peer[side], remote: w.peer[1-side]}
	p2 := newPipe(false, -1)
	res = n.dispatchOn(protocol.ID("solicit:"+hex.EncodeToString(hash)), p2.ends[1], unknown)
	closed = waitUntil(p2.ends[1].isClosed)
	mon = ""
	if !closed || len(n.recvPairs()) != before {
		mon = fmt.Sprintf("a solicited stream arriving on an untracked link was not refused (dispatch=%s closed=%v deliveries %d -> %d)", res, closed, before, len(n.recvPairs()))
	}
	e.rep.Compare(r.sc.label+" probe unknownlink side="+sideName(side), "closed", b2s(closed), "probe.unknownlink", "solicitsys.probe:unknownlink", mon)
	if !r.sc.c.removeLink {
		return
	}
	// (3) the link goes away on one side: its control loop ends (the control stream is closed) and a
	// solicited stream still in flight towards it is refused
	rh := n.lc.handler(w.peer[1-side])
	if rh == nil || n.linkVal == 0 {
		return
	}
	w.mtx.Lock()
	w.linkGone = true
	w.mtx.Unlock()
	rh.RemoveValue(n.linkVal)
	w.mtx.Lock()
	cp, from := w.ctrl, w.ctrlFrom
	w.mtx.Unlock()
	ei := 0
	if from != side {
		ei = 1
	}
	ctrlClosed := waitUntil(cp.ends[ei].isClosed)
	_, lo := n.snapshot()
	p3 := newPipe(false, -1)
	n.dispatch(protocol.ID("solicit:"+hex.EncodeToString(hash)), p3.ends[1])
	closed = waitUntil(p3.ends[1].isClosed)
	mon = ""
	switch {
	case lo.found:
		mon = "removeLink left the link state in the controller"
	case !ctrlClosed:
		mon = "the control stream of a removed link was not closed"
	case !closed || len(n.recvPairs()) != before:
		mon = "a solicited stream arriving after the link was removed was not refused"
	}
	e.rep.Compare(r.sc.label+" probe linkremoved side="+sideName(side), "closed", b2s(ctrlClosed && closed && !lo.found), "linkremoved", "solicitsys.probe:linkremoved", mon)
}

func b2s(b bool) string {
	if b {
		return "closed"
	}
	return "open"
}

func sortedStrings(m map[string]bool) []string {
	var l []string
	for k := range m {
		l = append(l, k)
	}
	sort.Strings(l)
	return l
}
