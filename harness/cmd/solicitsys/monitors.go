package main

import (
	"bytes"
	"encoding/hex"
	"fmt"
	"sort"
	"strings"

	link_solicit "github.com/aperturerobotics/bifrost/link/solicit"
)

type finding struct{ what, key string }

// view is what the monitors look at: observations of the real system only.
type view struct {
	w        *world
	sid      []byte // BLAKE3(lower ‖ higher), computed directly
	lower    int    // side with the bytewise smaller peer id
	los      [2]linkObs
	sent     [2][][][]byte
	dirs     [2][]*dirState
	recv     [2][][2]int // (directive id, stream id)
	closed   [2]map[int]bool
	streams  []*streamRec
	arriving [2]map[int]bool
	reqs     []*openReq
	trunc    bool
	linkGone bool // the removeLink probe ran
}

func (w *world) view() *view {
	v := &view{w: w, sid: sessionDirect([]byte(w.peer[0]), []byte(w.peer[1])), linkGone: w.linkGone}
	if bytes.Compare([]byte(w.peer[0]), []byte(w.peer[1])) > 0 {
		v.lower = 1
	}
	for i, n := range w.n {
		_, v.los[i] = n.snapshot()
		v.sent[i], _, _ = w.wireLog(i)
		v.dirs[i] = n.presentDirs()
		v.recv[i] = n.recvPairs()
		v.closed[i] = map[int]bool{}
		for _, s := range w.closedAt(i) {
			v.closed[i][s] = true
		}
		v.arriving[i] = map[int]bool{}
	}
	w.mtx.Lock()
	v.streams = append(v.streams, w.streams...)
	v.reqs = append(v.reqs, w.reqs...)
	for i := 0; i < 2; i++ {
		for _, s := range w.arriving[i] {
			v.arriving[i][s] = true
		}
	}
	w.mtx.Unlock()
	return v
}

func (v *view) everSent(i int, h []byte) bool {
	for _, l := range v.sent[i] {
		for _, x := range l {
			if bytes.Equal(x, h) {
				return true
			}
		}
	}
	return false
}

// safety: clauses that must hold in every state.
func (v *view) safety() []finding {
	var out []finding
	w := v.w
	w.mtx.Lock()
	for _, s := range w.viol {
		out = append(out, finding{s, "solicitsys.link:protocol"})
	}
	ctrlN := w.ctrlN
	w.mtx.Unlock()
	if ctrlN > 1 {
		out = append(out, finding{fmt.Sprintf("%d control streams were opened on one link", ctrlN), "solicitsys.link:control-dup"})
	}
	// C37 on the exchange: every present SolicitProtocol directive is registered on its own — two
	// directives that differ in any parameter (e.g. only in the transport constraint) are not merged
	for i, n := range w.n {
		specs, _ := n.snapshot()
		have := map[string]int{}
		for _, sp := range specs {
			have[specKey(sp)]++
		}
		for _, d := range v.dirs[i] {
			if have[specKey(d.spec)] == 0 {
				out = append(out, finding{fmt.Sprintf("solicitation %v on side %s is not registered with the controller although its directive is present (%d registered, %d present): merged into a directive with other parameters", d.spec, sideName(i), len(specs), len(v.dirs[i])), "solicitsys.dirs:merged"})
			}
			have[specKey(d.spec)]--
		}
	}
	// C32: both ends hold the same session identifier, the one of the peer pair
	if v.los[0].found && v.los[1].found && !bytes.Equal(v.los[0].sid, v.los[1].sid) {
		out = append(out, finding{fmt.Sprintf("the two ends of the link computed different session identifiers (%x… vs %x…)", v.los[0].sid[:4], v.los[1].sid[:4]), "solicitsys.session:differ"})
	}
	for i := 0; i < 2; i++ {
		if v.los[i].found && !bytes.Equal(v.los[i].sid, v.sid) {
			out = append(out, finding{fmt.Sprintf("side %s's session identifier is not BLAKE3(lower peer ‖ higher peer)", sideName(i)), "solicitsys.session:value"})
		}
		if v.los[i].found && v.los[i].lower != (i == v.lower) {
			out = append(out, finding{fmt.Sprintf("side %s (peer %x, remote %x) has localIsLower=%v", sideName(i), []byte(w.peer[i]), []byte(w.peer[1-i]), v.los[i].lower), "solicitsys.lower:wrong"})
		}
	}
	// every solicited stream / open request: by the lower peer, one per hash, for a hash both sides offered
	seen := map[string]int{}
	type oreq struct {
		side int
		hash string
	}
	var all []oreq
	for _, sr := range v.streams {
		all = append(all, oreq{sr.opener, hex.EncodeToString(sr.hash)})
	}
	for _, q := range v.reqs {
		p := string(q.pid)
		if !strings.HasPrefix(p, "solicit:") {
			out = append(out, finding{fmt.Sprintf("side %s opened a stream with protocol id %q", sideName(q.side), p), "solicitsys.open:pid"})
			continue
		}
		all = append(all, oreq{q.side, p[len("solicit:"):]})
	}
	for _, o := range all {
		if o.side != v.lower {
			out = append(out, finding{fmt.Sprintf("the HIGHER peer (side %s) opened a solicited stream for hash %s…", sideName(o.side), trunc8(o.hash)), "solicitsys.open:by-higher"})
		}
		seen[o.hash]++
		hb, err := hex.DecodeString(o.hash)
		if err != nil {
			out = append(out, finding{"a solicited stream was opened with a non-hex hash", "solicitsys.open:pid"})
			continue
		}
		if !v.everSent(0, hb) || !v.everSent(1, hb) {
			out = append(out, finding{fmt.Sprintf("a solicited stream was opened for hash %s… which one side never offered", trunc8(o.hash)), "solicitsys.open:not-offered"})
		}
	}
	for h, k := range seen {
		if k > 1 {
			out = append(out, finding{fmt.Sprintf("%d solicited streams were opened for the same matched hash %s…", k, trunc8(h)), "solicitsys.open:duplicate"})
		}
	}
	// C31: a value hands its stream to at most one AcceptMountedStream caller
	for i, n := range w.n {
		n.mtx.Lock()
		for _, k := range n.valTaken {
			if k > 1 {
				out = append(out, finding{fmt.Sprintf("on side %s one solicited stream was handed to %d accepting directives", sideName(i), k), "solicitsys.value:multi-owner"})
			}
		}
		for _, b := range n.bad {
			out = append(out, finding{b, "solicitsys.value:type"})
		}
		n.mtx.Unlock()
		// distinct values never wrap the same stream
		byStream := map[int]map[link_solicit.SolicitMountedStream]bool{}
		n.mtx.Lock()
		for val, s := range n.valStream {
			if s >= 0 {
				if byStream[s] == nil {
					byStream[s] = map[link_solicit.SolicitMountedStream]bool{}
				}
				byStream[s][val] = true
			}
		}
		n.mtx.Unlock()
		for s, m := range byStream {
			if len(m) > 1 {
				out = append(out, finding{fmt.Sprintf("on side %s stream %d is wrapped by %d different values", sideName(i), s, len(m)), "solicitsys.value:multi-owner"})
			}
		}
	}
	// the filter of getSolicitEntries: a hash a side EVER put on the wire that is the hash of one of
	// its solicitations is the hash of one whose peer / transport constraints admit the link — a
	// solicitation constrained to another peer (its own peer id, a third peer) or another transport
	// (a wrong uuid, the uuid under which the OTHER end mounted the link) is not offered here
	for i, n := range w.n {
		n.mtx.Lock()
		var ever []*dirState
		for _, d := range n.dirs {
			ever = append(ever, d)
		}
		for _, d := range n.gone {
			ever = append(ever, d)
		}
		n.mtx.Unlock()
		admitted, anyDir := map[string]bool{}, map[string][]string{}
		for _, d := range ever {
			h := string(hashDirect(v.sid, d.spec.pid, d.spec.ctx))
			anyDir[h] = append(anyDir[h], d.spec.String())
			if w.admitsDirect(d.spec, i) {
				admitted[h] = true
			}
		}
		done := map[string]bool{}
		for _, lst := range v.sent[i] {
			for _, h := range lst {
				if ds, ok := anyDir[string(h)]; ok && !admitted[string(h)] && !done[string(h)] {
					done[string(h)] = true
					sort.Strings(ds)
					out = append(out, finding{fmt.Sprintf("side %s put hash %x… on the wire; it is the hash of %s, whose peer / transport constraint does not admit the link (remote peer %x, transport %d)",
						sideName(i), h[:4], strings.Join(ds, " / "), []byte(w.peer[1-i]), w.tpt[i]), "solicitsys.offer:not-admitted"})
				}
			}
		}
	}
	// C30 ⇒: two directives connected by one stream name the same protocol and context, and their constraints admit the link
	out = append(out, v.unsound()...)
	sort.Slice(out, func(i, j int) bool { return out[i].key+out[i].what < out[j].key+out[j].what })
	return out
}

func trunc8(s string) string {
	if len(s) > 8 {
		return s[:8]
	}
	return s
}

func (v *view) dirByID(i, id int) *dirSpec {
	n := v.w.n[i]
	n.mtx.Lock()
	defer n.mtx.Unlock()
	if d, ok := n.dirs[id]; ok {
		return &d.spec
	}
	if d, ok := n.gone[id]; ok {
		return &d.spec
	}
	return nil
}

func (v *view) unsound() []finding {
	var out []finding
	for _, ra := range v.recv[0] {
		for _, rb := range v.recv[1] {
			if ra[1] < 0 || ra[1] != rb[1] {
				continue
			}
			da, db := v.dirByID(0, ra[0]), v.dirByID(1, rb[0])
			if da == nil || db == nil {
				continue
			}
			if da.pid != db.pid || !bytes.Equal(da.ctx, db.ctx) {
				out = append(out, finding{fmt.Sprintf("solicitations %v of A and %v of B were matched (stream %d) although they differ in protocol id / context", *da, *db, ra[1]), "solicitsys.match:unsound"})
			} else if !v.w.admitsDirect(*da, 0) || !v.w.admitsDirect(*db, 1) {
				out = append(out, finding{fmt.Sprintf("solicitations %v of A and %v of B were matched (stream %d) although a peer / transport constraint does not admit the link", *da, *db, ra[1]), "solicitsys.match:unsound"})
			}
		}
	}
	return out
}

// settled: clauses about what must have happened once the system has come to rest.
func (v *view) settled() []finding {
	var out []finding
	// every hash the lower peer recorded as matched has its stream (requested or opened)
	have := map[string]bool{}
	for _, sr := range v.streams {
		have[hex.EncodeToString(sr.hash)] = true
	}
	for _, q := range v.reqs {
		have[strings.TrimPrefix(string(q.pid), "solicit:")] = true
	}
	if v.los[v.lower].found {
		for _, h := range v.los[v.lower].matched {
			if !have[h] {
				out = append(out, finding{fmt.Sprintf("hash %s… is matched on the lower peer but no solicited stream was opened for it", trunc8(h)), "solicitsys.open:missing"})
			}
		}
	}
	// every list a side sent and the link delivered was RECEIVED: the peer holds it (cut to the peer's
	// own limit) as the remote list, and the control stream is still open at both ends — a list the
	// peer's reader rejects (longer than one message may be) ends the exchange on the link for good
	w := v.w
	w.mtx.Lock()
	cp, from := w.ctrl, w.ctrlFrom
	w.mtx.Unlock()
	if cp != nil && !v.linkGone {
		for i := 0; i < 2; i++ {
			ei := 0
			if from != i {
				ei = 1
			}
			if cp.ends[ei].isClosed() {
				out = append(out, finding{fmt.Sprintf("side %s closed the control stream of a link that is still up (after %d lists sent, %d received)", sideName(i), len(v.sent[i]), len(v.sent[1-i])), "solicitsys.exchange:ended"})
			}
			_, inflight, _ := w.wireLog(1 - i)
			if len(v.sent[i]) == 0 || len(inflight) > 0 || !v.los[1-i].found {
				continue
			}
			last := v.sent[i][len(v.sent[i])-1]
			if len(last) > int(w.n[1-i].maxH) {
				last = last[:w.n[1-i].maxH]
			}
			if hexList(last) != hexList(v.los[1-i].remote) {
				out = append(out, finding{fmt.Sprintf("side %s's last list (%d hashes, %d bytes on the wire) was delivered but side %s does not hold it as the remote list (it holds %d hashes)", sideName(i), len(v.sent[i][len(v.sent[i])-1]), 4+34*len(v.sent[i][len(v.sent[i])-1]), sideName(1-i), len(v.los[1-i].remote)), "solicitsys.exchange:not-received"})
			}
		}
	}
	// every stream that reached a side: handed to a directive, or closed — never both, never neither
	for s, sr := range v.streams {
		for i := 0; i < 2; i++ {
			if i != sr.opener && v.arriving[i][s] {
				continue
			}
			owned := false
			for _, p := range v.recv[i] {
				if p[1] == s {
					owned = true
				}
			}
			switch {
			case !owned && !v.closed[i][s]:
				out = append(out, finding{fmt.Sprintf("stream %d (hash %x…) reached side %s where no solicitation takes it, and was neither handed over nor closed", s, sr.hash[:4], sideName(i)), "solicitsys.stream:unowned-not-closed"})
			case owned && v.closed[i][s]:
				out = append(out, finding{fmt.Sprintf("stream %d was handed to a solicitation on side %s and closed by the controller", s, sideName(i)), "solicitsys.stream:owned-closed"})
			}
		}
	}
	return out
}

// quiescentClauses: the "matched exactly when" clause and the offered lists, at quiescence.
func (v *view) quiescentClauses() []finding {
	var out []finding
	w := v.w
	// the list each side last sent is the sorted list of the hashes of its admitted solicitations
	trunc := false
	for i := 0; i < 2; i++ {
		var want [][]byte
		for _, d := range v.dirs[i] {
			if w.admitsDirect(d.spec, i) {
				want = append(want, hashDirect(v.sid, d.spec.pid, d.spec.ctx))
			}
		}
		sort.Slice(want, func(a, b int) bool { return bytes.Compare(want[a], want[b]) < 0 })
		for j := 0; j < 2; j++ {
			if len(want) > int(w.n[j].maxH) {
				trunc = true
			}
		}
		if len(want) > int(w.n[i].maxH) {
			want = want[:w.n[i].maxH]
		}
		var last [][]byte
		if len(v.sent[i]) > 0 {
			last = v.sent[i][len(v.sent[i])-1]
		}
		if hexList(last) != hexList(want) {
			out = append(out, finding{fmt.Sprintf("side %s last offered %d hashes that are not BLAKE3(session ‖ uvarint(len pid) ‖ pid ‖ ctx) of its %d admitted solicitations", sideName(i), len(last), len(want)), "solicitsys.offer:list"})
		}
		// C32: matched ⊇ the intersection of the two current lists
		if v.los[i].found {
			m := map[string]bool{}
			for _, h := range v.los[i].matched {
				m[h] = true
			}
			for _, h := range last {
				for _, g := range v.los[i].remote {
					if bytes.Equal(h, g) && !m[hex.EncodeToString(h)] {
						out = append(out, finding{fmt.Sprintf("side %s: hash %x… is in both current lists but not recorded as matched", sideName(i), h[:4]), "solicitsys.match:intersection"})
					}
				}
			}
		}
	}
	if trunc {
		v.trunc = true
		return out
	}
	return append(out, v.completeness(nil)...)
}

// truncated: some side has more admitted solicitations than a maxHashes of the link allows (the
// completeness clause is then a hypothesis, not a claim).
func (v *view) truncated() bool {
	for i := 0; i < 2; i++ {
		k := 0
		for _, d := range v.dirs[i] {
			if v.w.admitsDirect(d.spec, i) {
				k++
			}
		}
		for j := 0; j < 2; j++ {
			if k > int(v.w.n[j].maxH) {
				return true
			}
		}
	}
	return false
}

// completeness: the "⇐" half at rest. Two present solicitations that name the same protocol ID and
// the same context and whose constraints admit the link are connected by a stream — unless one of
// them was added after the single stream of that hash had already been resolved on its side (then
// it is the known finding solicit-matched-once; `late` is the engine's own record of ITS actions:
// which streams it let open / arrive before it added the directive — no model, no controller state).
func (v *view) completeness(onConnected func()) []finding {
	var out []finding
	w := v.w
	connected := func(a, b int) bool {
		for _, ra := range v.recv[0] {
			if ra[0] != a || ra[1] < 0 {
				continue
			}
			for _, rb := range v.recv[1] {
				if rb[0] == b && rb[1] == ra[1] {
					return true
				}
			}
		}
		return false
	}
	for _, da := range v.dirs[0] {
		for _, db := range v.dirs[1] {
			crit := da.spec.pid == db.spec.pid && bytes.Equal(da.spec.ctx, db.spec.ctx) && w.admitsDirect(da.spec, 0) && w.admitsDirect(db.spec, 1)
			if !crit {
				continue
			}
			if connected(da.id, db.id) {
				if onConnected != nil {
					onConnected()
				}
				continue
			}
			what := fmt.Sprintf("solicitations %v of A and %v of B name the same protocol and context and their constraints admit the link, yet at rest no stream connects them", da.spec, db.spec)
			if !da.late && !db.late {
				// say what happened to the stream of their hash, if there was one
				h := hashDirect(v.sid, da.spec.pid, da.spec.ctx)
				for s, sr := range v.streams {
					if bytes.Equal(sr.hash, h) {
						for i := 0; i < 2; i++ {
							if v.closed[i][s] {
								what += fmt.Sprintf("; stream %d, opened for their hash while both were present, was closed by side %s as if nobody solicited it", s, sideName(i))
							}
						}
					}
				}
				out = append(out, finding{what, "solicitsys.match:missed"})
			} else {
				out = append(out, finding{what + " (the one stream of this hash had been resolved on the link before the later of the two was added; the hash stays in ls.matched)", "solicitsys.match:late-solicitation"})
			}
		}
	}
	return out
}

// endsCheck: the two values of a matched pair are the two ends of ONE stream.
func (r *runner) endsCheck() []finding {
	var out []finding
	w := r.w
	ends := [2]map[int]*pipeEnd{{}, {}}
	for i, n := range w.n {
		n.mtx.Lock()
		for val, pe := range n.valEnd {
			if s := n.valStream[val]; s >= 0 {
				ends[i][s] = pe
			}
		}
		n.mtx.Unlock()
	}
	for s, ea := range ends[0] {
		eb, ok := ends[1][s]
		if !ok || r.endsDone[s] {
			continue
		}
		r.endsDone[s] = true
		r.e.rep.Branches["ends"]++
		if ea.isClosed() || eb.isClosed() {
			continue
		}
		ta, tb := []byte(fmt.Sprintf("A>%04d", s)), []byte(fmt.Sprintf("B>%04d", s))
		ea.Write(ta)
		eb.Write(tb)
		ga, erra := eb.readToken(len(ta))
		gb, errb := ea.readToken(len(tb))
		if erra != nil || errb != nil || !bytes.Equal(ga, ta) || !bytes.Equal(gb, tb) {
			out = append(out, finding{fmt.Sprintf("the values handed to the two matched solicitations (stream %d) are not the two ends of one stream", s), "solicitsys.match:ends"})
		}
	}
	return out
}

func relevant(prop, key string) bool {
	switch prop {
	case "C31":
		return strings.HasPrefix(key, "solicitsys.value:") || strings.HasPrefix(key, "solicitsys.stream:") ||
			strings.HasPrefix(key, "solicitsys.open:duplicate") || key == "solicitsys.match:ends"
	case "C32":
		return strings.HasPrefix(key, "solicitsys.session:") || strings.HasPrefix(key, "solicitsys.lower:") ||
			strings.HasPrefix(key, "solicitsys.offer:") || key == "solicitsys.match:intersection"
	}
	return true
}

// stepMonitor: the real system did not reach the model's state; which clause, if any, does the
// real state violate?
func (r *runner) stepMonitor() (string, string) {
	v := r.w.view()
	for _, f := range append(v.safety(), v.settled()...) {
		if relevant(r.e.a.Prop, f.key) {
			return f.what, f.key
		}
	}
	return "", "solicitsys.step"
}

// monitorsFree evaluates the clauses that use neither the model nor the hash format (safety and
// settled) on the real state reached by a free run.
func (r *runner) monitorsFree(label string) {
	v := r.w.view()
	fs := append(v.safety(), v.settled()...)
	fs = append(fs, r.endsCheck()...)
	// same protocol ∧ same context ∧ admitting ⇒ connected (needs neither the model nor the hash
	// format: which streams were resolved before a directive was added is the engine's own record)
	if !v.truncated() {
		fs = append(fs, v.completeness(func() {
			if r.sc.free {
				r.e.rep.Branches["free.connected"]++
			}
		})...)
	}
	for _, f := range fs {
		if !relevant(r.e.a.Prop, f.key) || r.hits[f.key+f.what] {
			continue
		}
		if f.key == "solicitsys.match:late-solicitation" {
			r.e.rep.Branches["known.late"]++
		}
		r.hits[f.key+f.what] = true
		r.e.rep.Disagree(libDisagreement(label+" "+r.last, f))
	}
}

// monitors evaluates every clause on a quiescent state.
func (r *runner) monitors(branch string) {
	v := r.w.view()
	fs := append(v.safety(), v.settled()...)
	fs = append(fs, v.quiescentClauses()...)
	fs = append(fs, r.endsCheck()...)
	r.e.rep.Branches["quiescent"]++
	if v.trunc {
		r.e.rep.Branches["truncated"]++
	}
	for i := 0; i < 2; i++ {
		if len(v.sent[i]) >= 3 && len(v.streams) > 0 {
			r.e.rep.Branches["reexchange"]++
		}
	}
	multi := map[[2]int]int{}
	for i := 0; i < 2; i++ {
		for _, p := range v.recv[i] {
			multi[[2]int{i, p[1]}]++
		}
	}
	for _, k := range multi {
		if k > 1 {
			r.e.rep.Branches["match.multi"]++
			break
		}
	}
	for _, f := range fs {
		if !relevant(r.e.a.Prop, f.key) {
			continue
		}
		key := f.key
		if key == "solicitsys.match:late-solicitation" {
			r.e.rep.Branches["known.late"]++
		}
		if r.hits[key+f.what] {
			continue
		}
		r.hits[key+f.what] = true
		r.e.rep.Disagree(libDisagreement(r.sc.label+" "+r.last, f))
	}
}
